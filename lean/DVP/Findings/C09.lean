import DVP.Lemmas.LoopEvReset
/-!
# C09 / C07 — finding P30 on the model: the same terminal event, passed again, keeps the system at the stop

`DV.LoopEv` replays what the implementation does (compared bit for bit): when the first step of a call locates a
terminal crossing at the very time the call starts from — the crossing the previous call stopped at — the nested
`integrate(root)` is a no-op and the call ends at once.  Concrete witness: two calls with a terminal crossing at
`9/20`; after the first the system stands at `9/20`; the second, whose first step locates the crossing at `9/20`
again, records no sample, reports status 2 again, and lists the crossing a second time.
-/
namespace DVP.Findings.C09
open DV DV.Loop DV.Events DVP.LoopEv

def cfgW : DV.LoopEv.CfgEv ℚ := { loop := { eps := 1/2^50, tolEps := 1/2^47, half := 1/2 }, dupTol := 1/2^30 }
def hit : Probe ℚ := { root := 9/20, success := true, gm := -1, gc := 0, gp := 1, fields := [], direction := 0, terminal := true }
/-- first call: a plain step, then the step with the crossing -/
def orc1 : DV.LoopEv.OracleEv ℚ := fun k _ h =>
  { base := { ret := .ok h h }, probes := if k = 1 then [hit] else [], nested := fun _ _ h => { ret := .ok h h }, nestedFuel := 10 }
/-- second call, same event: its first step starts on the crossing and locates it there -/
def orc2 : DV.LoopEv.OracleEv ℚ := fun k _ h =>
  { base := { ret := .ok h h }, probes := if k = 0 then [hit] else [], nested := fun _ _ h => { ret := .ok h h }, nestedFuel := 10 }

def afterFirst : St := applyOpEv cfgW { sys := construct 0 1 (3/10), evs := [], kn := [] } (.evint 1 1 orc1 50)
def afterSecond : St := applyOpEv cfgW afterFirst (.evint 1 1 orc2 50)

/-- the second call does not move the system and lists the crossing again -/
theorem same_terminal_event_fires_again_at_the_stop :
    afterFirst.sys.ts = [9/20, 3/8, 3/10, 0] ∧ afterFirst.sys.status = 2 ∧ afterFirst.evs = [(0, 9/20)] ∧
    afterSecond.sys.ts = afterFirst.sys.ts ∧ afterSecond.sys.status = 2 ∧ afterSecond.evs = [(0, 9/20), (0, 9/20)] := by
  decide +kernel

end DVP.Findings.C09
