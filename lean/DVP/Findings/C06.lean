import DV.Model.SlopeCache
/-!
# Negation witness for the defect repaired by /repo c1d7df9 (P27) — not an obligation

The code before the repair kept the cache tags across an abandoned call (`DV.SlopeCache.callOld`).
History: a completed step from `(0, 10)` by `2`; then a call from its end `(2, 12)` whose first attempt
(`h = 4`) is rejected and whose retry is abandoned by a right-hand-side fault; then the resumed call from
`(2, 12)`: the old code hands the step the slope of the REJECTED attempt's end `(6, 16)` as its start slope.
-/
namespace DVP.Findings.C06
open DV.SlopeCache

def f : Int → Int → Int := fun t y => 100 * t + y
def adv : Int → Int → Int → Int := fun _ y h => y + h

theorem old_code_hands_out_a_stale_slope :
    let c1 := (callOld f adv empty 0 10 (.completed [2])).cache
    let c2 := (callOld f adv c1 2 12 (.abandoned [4])).cache
    (callOld f adv c2 2 12 (.completed [1])).initialRhs = 616 ∧ f 2 12 = 212 := by decide

/-- … and the repaired code does not -/
theorem repaired_code_does_not :
    let c1 := (call f adv empty 0 10 (.completed [2])).cache
    let c2 := (call f adv c1 2 12 (.abandoned [4])).cache
    (call f adv c2 2 12 (.completed [1])).initialRhs = 212 := by decide

end DVP.Findings.C06
