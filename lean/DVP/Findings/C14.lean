import DV
/-! Negation with a concrete witness for the completeness clause of C14 (not an obligation). -/
namespace DVP.Findings.C14
open DV DV.Brent

/-- P14: a jump from -1 to +1 at 1/3 is bracketed by [0, 1], yet the solver reports failure: the
success test is `|f(b)| ≤ tol` and `|f| = 1` everywhere -/
theorem jump_no_success :
    let f : Rat → Rat := fun x => if (1:Rat)/3 < x then 1 else -1
    f 0 * f 1 < 0 ∧ (brentsroot f 0 1 (1/1000) (1/2^50) 1000000).success = false := by decide +kernel

end DVP.Findings.C14
