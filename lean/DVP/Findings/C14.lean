import DV
/-! Witnesses around the completeness clause of C14 (not obligations).

Before the repair of P14 in `/repo` (success = `|f(b)| ≤ tol` only) the solver reported failure on the
jump below although it had located the sign change; the model of that code was replaced together with
the code, so what is kept here is the behaviour after the repair on the same input. -/
namespace DVP.Findings.C14
open DV DV.Brent

/-- a jump from -1 to +1 at 1/3 is bracketed by [0, 1]: `|f| = 1` everywhere, the sign change is located to
within `tol` and — since the repair — reported as a success -/
theorem jump_success_after_fix :
    let f : Rat → Rat := fun x => if (1:Rat)/3 < x then 1 else -1
    f 0 * f 1 < 0 ∧ (brentsroot f 0 1 (1/1000) (1/2^50) 1000000).success = true := by decide +kernel

end DVP.Findings.C14
