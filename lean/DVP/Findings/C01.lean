import DV
/-! Negations with concrete witnesses for C01 (NOT obligations: if one stops building because the
defect was repaired, the check only notes it). -/
namespace DVP.Findings.C01
open DV DV.Trees DV.Gen

theorem BABs9o7H_not_order5 : checkOrder (ofSplit split_BABs9o7HSolver) 5 (10^12) = false := by decide +kernel
theorem ABAs5o6H_not_order5 : checkOrder (ofSplit split_ABAs5o6HSolver) 5 (10^12) = false := by decide +kernel
/-- even with a tolerance of 1e-4 -/
theorem BABs9o7H_not_order5_coarse : checkOrder (ofSplit split_BABs9o7HSolver) 5 (10^4) = false := by decide +kernel

open DV.Richardson
/-- P4: a Richardson wrapper of an order-4 basis with 3, 4 or 5 levels still has order 4; of an
order-2 basis with 3 levels order 2 -/
theorem richardson_rk4_not_raised : effectiveOrder 4 3 = 4 ∧ effectiveOrder 4 4 = 4 ∧ effectiveOrder 4 5 = 4 ∧
    effectiveOrder 2 3 = 2 := by decide +kernel

end DVP.Findings.C01
