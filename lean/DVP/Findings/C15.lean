import DV.Model.Solvers
/-! Model-level counterexample for C15 (known finding P21; not an obligation). -/
namespace DVP.Findings.C15
open DV DV.Solvers

/-- on the `hybrj` path success is reported with a residual of 1/2 when only the trust region became
small; since fix P32 the handed-back "precision" is that residual, so the consumer in
`RungeKuttaIntegrator.step` no longer accepts (before the fix it was the step norm 1e-6 and the consumer accepted) -/
theorem hybrj_success_without_residual :
    let h : Hybrj Rat := { resBelowTol := false, stepBelowXtol := false, trustBelowXtol := true, dxn := 1/1000000, resNorm := 1/2 }
    let o := front (1/1000000000 : Rat) .hybrj { success := false, noImprovement := false, resNorm := 1 } h { success := false, resNorm := 1 }
    o.success = true ∧ o.prec = 1/2 ∧ consumerAccepts o (1/1000) = false := by decide +kernel

end DVP.Findings.C15
