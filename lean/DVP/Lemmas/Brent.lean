import DV.Model.Brent
import Mathlib.Algebra.Order.Field.Rat
import Mathlib.Algebra.Order.AbsoluteValue.Basic
import Mathlib.Tactic.Linarith
import Mathlib.Tactic.Positivity
import Mathlib.Tactic.Ring

/-! Invariants of the Brent model over `ℚ`. -/
namespace DVP.Brent
open DV DV.Brent

@[simp] theorem lit_rat (n : Nat) : (Lit.lit n : ℚ) = (n : ℚ) := rfl
@[simp] theorem lit'_rat (n : Nat) : (DV.Brent.lit n : ℚ) = (n : ℚ) := rfl

theorem signC_q (x : ℚ) : signC x = if x < 0 then -1 else if 0 < x then 1 else 0 := by
  unfold signC; simp

/-- comparing signs is comparing the product (over ℚ, where no product underflows) -/
theorem signC_mul_neg_iff (x y : ℚ) : signC x * signC y < 0 ↔ x * y < 0 := by
  simp only [signC_q]
  rcases lt_trichotomy x 0 with hx | hx | hx <;> rcases lt_trichotomy y 0 with hy | hy | hy
  · simp [hx, hy, mul_pos_of_neg_of_neg hx hy |>.le |> not_lt.mpr]
  · simp [hx, hy]
  · have : ¬ y < 0 := not_lt.mpr hy.le
    simp [hx, hy, this, mul_neg_of_neg_of_pos hx hy]
  · simp [hx, hy]
  · simp [hx, hy]
  · simp [hx, hy]
  · have : ¬ x < 0 := not_lt.mpr hx.le
    simp [hx, hy, this, mul_neg_of_pos_of_neg hx hy]
  · simp [hx, hy]
  · have h1 : ¬ x < 0 := not_lt.mpr hx.le
    have h2 : ¬ y < 0 := not_lt.mpr hy.le
    simp [hx, hy, h1, h2, (mul_pos hx hy).le |> not_lt.mpr]

theorem signC_mul_nonneg_iff (x y : ℚ) : 0 ≤ signC x * signC y ↔ 0 ≤ x * y := by
  rw [← not_lt, ← not_lt, signC_mul_neg_iff]

theorem absC_rat (x : ℚ) : absC x = |x| := by
  unfold absC
  simp only [lit_rat, Nat.cast_zero]
  split
  · rename_i h; exact (abs_of_neg h).symm
  · rename_i h; exact (abs_of_nonneg (not_lt.mp h)).symm

/-- `x` lies in the closed hull of `lo` and `hi` (either order) -/
def InHull (lo hi x : ℚ) : Prop := min lo hi ≤ x ∧ x ≤ max lo hi

theorem InHull.of_between {lo hi a b x : ℚ} (ha : InHull lo hi a) (hb : InHull lo hi b)
    (h : (a ≤ x ∧ x ≤ b) ∨ (b ≤ x ∧ x ≤ a)) : InHull lo hi x := by
  unfold InHull at *
  rcases h with ⟨h1, h2⟩ | ⟨h1, h2⟩
  · exact ⟨le_trans ha.1 h1, le_trans h2 hb.2⟩
  · exact ⟨le_trans hb.1 h1, le_trans h2 ha.2⟩

/-- the evaluated point lies between the current `a` and `b` -/
theorem pickS_between (tol : ℚ) (st : St ℚ) :
    let s := (pickS tol st).1
    (st.a ≤ s ∧ s ≤ st.b) ∨ (st.b ≤ s ∧ s ≤ st.a) := by
  unfold pickS
  simp only
  split
  · simp only [lit'_rat]
    rcases le_total st.a st.b with h | h
    · left; constructor <;> (push_cast; linarith)
    · right; constructor <;> (push_cast; linarith)
  · rename_i hm
    -- cond1 is false: the candidate is strictly between (3a+b)/4 and b
    have hm' : bisectNow st (candidate st) tol = false := by simpa using hm
    unfold bisectNow at hm'
    simp only [Bool.or_eq_false_iff] at hm'
    have hc1 := hm'.1.1.1.1
    simp only [lit'_rat, Bool.not_eq_false', Bool.or_eq_true, Bool.and_eq_true, decide_eq_true_eq] at hc1
    push_cast at hc1
    rcases hc1 with ⟨h1, h2⟩ | ⟨h1, h2⟩
    · -- (3a+b)/4 < s < b
      have h1 := of_decide_eq_true h1
      rcases le_total st.a st.b with h | h
      · left; exact ⟨by linarith, le_of_lt h2⟩
      · exfalso; linarith
    · have h2 := of_decide_eq_true h2
      rcases le_total st.a st.b with h | h
      · exfalso; linarith
      · right; exact ⟨le_of_lt h1, by linarith⟩

/-- the invariant carried through the loop: both ends in the hull of the original bracket, the
stored values are the values of `f`, the stored product is non-positive (a sign change or a zero
is bracketed) and `b` is the end with the smaller residual -/
structure Inv (f : ℚ → ℚ) (lo hi : ℚ) (st : St ℚ) : Prop where
  ha : InHull lo hi st.a
  hb : InHull lo hi st.b
  hfa : st.fa = f st.a
  hfb : st.fb = f st.b
  hsign : st.fa * st.fb ≤ 0
  hord : |st.fb| ≤ |st.fa|

theorem iter_inv (f : ℚ → ℚ) (lo hi tol : ℚ) (st : St ℚ) (h : Inv f lo hi st) :
    Inv f lo hi (iter f tol st).1 := by
  have hs := pickS_between tol st
  simp only at hs
  have hsH : InHull lo hi (pickS tol st).1 := InHull.of_between h.ha h.hb hs
  set s := (pickS tol st).1 with hsdef
  -- the bracket update
  have hupd : let q := upd st s (f s)
      InHull lo hi q.1 ∧ InHull lo hi q.2.1 ∧ q.2.2.1 = f q.1 ∧ q.2.2.2 = f q.2.1 ∧ q.2.2.1 * q.2.2.2 ≤ 0 := by
    unfold upd
    simp only [signC_mul_neg_iff]
    split
    · rename_i hlt
      exact ⟨h.ha, hsH, h.hfa, rfl, le_of_lt hlt⟩
    · rename_i hge
      have hge' : 0 ≤ st.fa * f s := not_lt.mp hge
      refine ⟨hsH, h.hb, rfl, h.hfb, ?_⟩
      -- fa*fb ≤ 0 and fa*fs ≥ 0 ⇒ fs*fb ≤ 0
      by_cases hfa0 : st.fa = 0
      · have : st.fb = 0 := by
          have := h.hord; rw [hfa0, abs_zero] at this
          exact abs_eq_zero.mp (le_antisymm this (abs_nonneg _))
        rw [this]; simp
      · have hsq : 0 < st.fa * st.fa := mul_self_pos.mpr hfa0
        by_contra hcon
        have hpos : 0 < f s * st.fb := not_le.mp hcon
        have h1 : (st.fa * st.fb) * (st.fa * f s) ≤ 0 := mul_nonpos_of_nonpos_of_nonneg h.hsign hge'
        have h2 : (st.fa * st.fb) * (st.fa * f s) = (st.fa * st.fa) * (f s * st.fb) := by ring
        have h3 : 0 < (st.fa * st.fa) * (f s * st.fb) := mul_pos hsq hpos
        linarith
  simp only at hupd
  obtain ⟨u1, u2, u3, u4, u5⟩ := hupd
  -- the swap
  have hswp : let q := swp (upd st s (f s))
      InHull lo hi q.1 ∧ InHull lo hi q.2.1 ∧ q.2.2.1 = f q.1 ∧ q.2.2.2 = f q.2.1 ∧ q.2.2.1 * q.2.2.2 ≤ 0 ∧
        |q.2.2.2| ≤ |q.2.2.1| := by
    unfold swp
    simp only [absC_rat]
    split
    · rename_i hlt
      exact ⟨u2, u1, u4, u3, by rw [mul_comm]; exact u5, le_of_lt hlt⟩
    · rename_i hge
      exact ⟨u1, u2, u3, u4, u5, not_lt.mp hge⟩
  simp only at hswp
  obtain ⟨w1, w2, w3, w4, w5, w6⟩ := hswp
  unfold iter
  simp only
  exact ⟨w1, w2, w3, w4, w5, w6⟩

/-- what `conv` means when it is reported by one pass -/
theorem iter_conv (f : ℚ → ℚ) (tol : ℚ) (st : St ℚ) (h : (iter f tol st).2 = true) :
    (iter f tol st).1.fb = 0 ∨ (iter f tol st).1.fs = 0 ∨ |(iter f tol st).1.b - (iter f tol st).1.a| < tol := by
  unfold iter at h ⊢
  simp only [Bool.or_eq_true, beq_iff_eq, decide_eq_true_eq, absC_rat, lit'_rat, Nat.cast_zero] at h ⊢
  rcases h with (h | h) | h
  · exact Or.inl h
  · exact Or.inr (Or.inl h)
  · exact Or.inr (Or.inr h)

theorem iter_numiter (f : ℚ → ℚ) (tol : ℚ) (st : St ℚ) : (iter f tol st).1.numiter = st.numiter + 1 := rfl

/-- the loop preserves the invariant, and on exit either `conv` was reported by the last pass,
or the iteration cap was reached, or the fuel ran out -/
theorem loop_inv (f : ℚ → ℚ) (lo hi tol : ℚ) (maxIter : Nat) (fuel : Nat) (st : St ℚ) (tr : List ℚ)
    (h : Inv f lo hi st) : Inv f lo hi (loop f tol maxIter fuel st tr).1 := by
  induction fuel generalizing st tr with
  | zero => exact h
  | succ n ih =>
    unfold loop
    simp only
    split
    · exact iter_inv f lo hi tol st h
    · exact ih _ _ (iter_inv f lo hi tol st h)

/-- exit condition of the loop when it made at least one pass and the fuel did not run out:
the last pass reported `conv` (exact zero hit or bracket narrower than `tol`) or the cap was reached -/
theorem loop_exit (f : ℚ → ℚ) (tol : ℚ) (maxIter : Nat) (fuel : Nat) (st : St ℚ) (tr : List ℚ)
    (hfuel : maxIter < st.numiter + (fuel + 1)) :
    let r := (loop f tol maxIter (fuel + 1) st tr).1
    r.fb = 0 ∨ r.fs = 0 ∨ |r.b - r.a| < tol ∨ maxIter ≤ r.numiter := by
  induction fuel generalizing st tr with
  | zero =>
    unfold loop
    simp only
    split
    · rename_i hc
      simp only [Bool.or_eq_true, decide_eq_true_eq] at hc
      rcases hc with hc | hc
      · rcases iter_conv f tol st hc with h | h | h
        · exact Or.inl h
        · exact Or.inr (Or.inl h)
        · exact Or.inr (Or.inr (Or.inl h))
      · exact Or.inr (Or.inr (Or.inr hc))
    · rename_i hc
      unfold loop
      simp only [Bool.or_eq_true, decide_eq_true_eq, not_or] at hc
      have := iter_numiter f tol st
      omega
  | succ n ih =>
    unfold loop
    simp only
    split
    · rename_i hc
      simp only [Bool.or_eq_true, decide_eq_true_eq] at hc
      rcases hc with hc | hc
      · rcases iter_conv f tol st hc with h | h | h
        · exact Or.inl h
        · exact Or.inr (Or.inl h)
        · exact Or.inr (Or.inr (Or.inl h))
      · exact Or.inr (Or.inr (Or.inr hc))
    · have hn := iter_numiter f tol st
      exact ih (iter f tol st).1 _ (by omega)

end DVP.Brent

namespace DVP.Brent
open DV DV.Brent

/-- the weaker invariant that needs no sign condition: both ends stay in the original hull and the
stored values are values of `f` -/
structure InvH (f : ℚ → ℚ) (lo hi : ℚ) (st : St ℚ) : Prop where
  ha : InHull lo hi st.a
  hb : InHull lo hi st.b
  hfa : st.fa = f st.a
  hfb : st.fb = f st.b
  hs : InHull lo hi st.s
  hfs : st.fs = f st.s

theorem iter_invH (f : ℚ → ℚ) (lo hi tol : ℚ) (st : St ℚ) (h : InvH f lo hi st) :
    InvH f lo hi (iter f tol st).1 := by
  have hs := pickS_between tol st
  simp only at hs
  have hsH : InHull lo hi (pickS tol st).1 := InHull.of_between h.ha h.hb hs
  set s := (pickS tol st).1 with hsdef
  have hupd : let q := upd st s (f s)
      InHull lo hi q.1 ∧ InHull lo hi q.2.1 ∧ q.2.2.1 = f q.1 ∧ q.2.2.2 = f q.2.1 := by
    unfold upd
    simp only
    split
    · exact ⟨h.ha, hsH, h.hfa, rfl⟩
    · exact ⟨hsH, h.hb, rfl, h.hfb⟩
  simp only at hupd
  obtain ⟨u1, u2, u3, u4⟩ := hupd
  have hswp : let q := swp (upd st s (f s))
      InHull lo hi q.1 ∧ InHull lo hi q.2.1 ∧ q.2.2.1 = f q.1 ∧ q.2.2.2 = f q.2.1 := by
    unfold swp
    simp only
    split
    · exact ⟨u2, u1, u4, u3⟩
    · exact ⟨u1, u2, u3, u4⟩
  simp only at hswp
  obtain ⟨w1, w2, w3, w4⟩ := hswp
  unfold iter
  simp only
  exact ⟨w1, w2, w3, w4, hsH, rfl⟩

theorem loop_invH (f : ℚ → ℚ) (lo hi tol : ℚ) (maxIter : Nat) (fuel : Nat) (st : St ℚ) (tr : List ℚ)
    (h : InvH f lo hi st) : InvH f lo hi (loop f tol maxIter fuel st tr).1 := by
  induction fuel generalizing st tr with
  | zero => exact h
  | succ n ih =>
    unfold loop
    simp only
    split
    · exact iter_invH f lo hi tol st h
    · exact ih _ _ (iter_invH f lo hi tol st h)

theorem inHull_left (lo hi : ℚ) : InHull lo hi lo := ⟨min_le_left _ _, le_max_left _ _⟩
theorem inHull_right (lo hi : ℚ) : InHull lo hi hi := ⟨min_le_right _ _, le_max_right _ _⟩

theorem start_facts (f : ℚ → ℚ) (lo hi : ℚ) :
    InvH f lo hi (start f lo hi) ∧ (f lo * f hi ≤ 0 → (start f lo hi).fa * (start f lo hi).fb ≤ 0) ∧
      |(start f lo hi).fb| ≤ |(start f lo hi).fa| ∧ (start f lo hi).numiter = 3 := by
  unfold start swp
  simp only [absC_rat]
  split
  · rename_i h
    exact ⟨⟨inHull_right _ _, inHull_left _ _, rfl, rfl, inHull_right _ _, rfl⟩, fun h' => by rw [mul_comm]; exact h', le_of_lt h, trivial⟩
  · rename_i h
    exact ⟨⟨inHull_left _ _, inHull_right _ _, rfl, rfl, inHull_left _ _, rfl⟩, fun h' => h', not_lt.mp h, trivial⟩

/-- the swap at the start does not change the product of the end values -/
theorem start_prod (f : ℚ → ℚ) (lo hi : ℚ) : (start f lo hi).fa * (start f lo hi).fb = f lo * f hi := by
  unfold start swp
  simp only
  split
  · exact mul_comm _ _
  · rfl

theorem run_invH (f : ℚ → ℚ) (lo hi tol : ℚ) (maxIter : Nat) : InvH f lo hi (run f lo hi tol maxIter).1 :=
  loop_invH f lo hi tol maxIter _ _ _ (start_facts f lo hi).1

theorem run_inv (f : ℚ → ℚ) (lo hi tol : ℚ) (maxIter : Nat) (hsc : f lo * f hi ≤ 0) :
    Inv f lo hi (run f lo hi tol maxIter).1 := by
  obtain ⟨h1, h2, h3, _⟩ := start_facts f lo hi
  exact loop_inv f lo hi tol maxIter _ _ _ ⟨h1.ha, h1.hb, h1.hfa, h1.hfb, h2 hsc, h3⟩

theorem run_exit (f : ℚ → ℚ) (lo hi tol : ℚ) (maxIter : Nat) (h3 : 3 ≤ maxIter) :
    let r := (run f lo hi tol maxIter).1
    r.fb = 0 ∨ r.fs = 0 ∨ |r.b - r.a| < tol ∨ maxIter ≤ r.numiter := by
  have hn := (start_facts f lo hi).2.2.2
  exact loop_exit f tol maxIter maxIter (start f lo hi) [] (by omega)

end DVP.Brent

namespace DVP.Brent
open DV DV.Brent

/-- a pass that evaluated an exact zero ends with the zero as the returned point -/
theorem iter_fs_zero (f : ℚ → ℚ) (tol : ℚ) (st : St ℚ) (h : (iter f tol st).1.fs = 0) : (iter f tol st).1.fb = 0 := by
  unfold iter at h ⊢
  simp only at h ⊢
  unfold upd swp
  simp only [h, signC_mul_neg_iff, mul_zero, lt_self_iff_false, if_false, absC_rat, abs_zero]
  split
  · rfl
  · rename_i hlt
    simp only [abs_pos, ne_eq, not_not] at hlt
    exact hlt

/-- `fs = 0 → fb = 0` is preserved by the loop (it is established by every pass) -/
theorem loop_fs_zero (f : ℚ → ℚ) (tol : ℚ) (maxIter : Nat) : ∀ (fuel : Nat) (st : St ℚ) (tr : List ℚ),
    (st.fs = 0 → st.fb = 0) → ((loop f tol maxIter fuel st tr).1.fs = 0 → (loop f tol maxIter fuel st tr).1.fb = 0) := by
  intro fuel
  induction fuel with
  | zero => intro st tr h; exact h
  | succ n ih =>
    intro st tr _
    unfold loop
    simp only
    split
    · exact iter_fs_zero f tol st
    · exact ih _ _ (iter_fs_zero f tol st)

theorem run_fs_zero (f : ℚ → ℚ) (lo hi tol : ℚ) (maxIter : Nat) :
    (run f lo hi tol maxIter).1.fs = 0 → (run f lo hi tol maxIter).1.fb = 0 := by
  unfold run
  apply loop_fs_zero
  intro h
  -- the start state: fs = fa and |fb| ≤ |fa|
  have hs := (start_facts f lo hi)
  have hfs : (start f lo hi).fs = (start f lo hi).fa := rfl
  rw [hfs] at h
  have hord := hs.2.2.1
  rw [h, abs_zero] at hord
  exact abs_eq_zero.mp (le_antisymm hord (abs_nonneg _))

end DVP.Brent
