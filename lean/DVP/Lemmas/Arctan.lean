import Mathlib.Analysis.SpecialFunctions.Trigonometric.Arctan
import Mathlib.Analysis.Real.Pi.Bounds

/-! The limiter of the step-size controller: `corr = 1 + arctan(safety_factor · c − 1)` with
`c ≥ 0` the raw correction (a product of powers of reciprocal error norms, or `1.0`). -/
namespace DVP.Arctan
open Real

/-- the limited correction factor of `update_timestep` -/
noncomputable def corr (sf c : ℝ) : ℝ := 1 + arctan (sf * c - 1)

/-- **`corr` is bounded away from zero and bounded above**: `1 − π/4 ≤ corr < 1 + π/2` for every
non-negative raw correction; in particular the proposed step `corr · dTime` keeps the sign of the
step and is non-zero. -/
theorem corr_bounds (sf c : ℝ) (hsf : 0 ≤ sf) (hc : 0 ≤ c) : 1 - π / 4 ≤ corr sf c ∧ corr sf c < 1 + π / 2 := by
  unfold corr
  constructor
  · have h1 : arctan (-1) ≤ arctan (sf * c - 1) :=
      arctan_strictMono.monotone (by nlinarith [mul_nonneg hsf hc])
    have h2 : arctan (-1) = -(π / 4) := by rw [arctan_neg, arctan_one]
    linarith
  · have := arctan_lt_pi_div_two (sf * c - 1)
    linarith

theorem corr_pos (sf c : ℝ) (hsf : 0 ≤ sf) (hc : 0 ≤ c) : 0 < corr sf c := by
  have := (corr_bounds sf c hsf hc).1
  have hpi : π < 4 := pi_lt_four
  linarith

/-- the attempt contract `AttOK` of the controller model, in the reals: the proposal `corr · dT` has
the sign of the step, and a rejection (`corr < 0.9²`) proposes a strictly smaller magnitude -/
theorem proposal_props (sf c dT : ℝ) (hsf : 0 ≤ sf) (hc : 0 ≤ c) (hdT : dT ≠ 0) :
    0 < (corr sf c * dT) * dT ∧ (corr sf c < 0.9 ^ 2 → |corr sf c * dT| < |dT|) := by
  have hp := corr_pos sf c hsf hc
  constructor
  · have : 0 < dT * dT := mul_self_pos.mpr hdT
    nlinarith
  · intro hlt
    rw [abs_mul, abs_of_pos hp]
    have : 0 < |dT| := abs_pos.mpr hdT
    have h1 : corr sf c < 1 := by norm_num at hlt; linarith
    nlinarith

/-- **An accepted step on the memory-less branch has scaled error norm below one**: on the first
step of a call sequence `c = (1/‖err/tol‖)^(1/p)`; acceptance means `corr ≥ 0.81`, i.e.
`arctan(sf·c − 1) ≥ −0.19`, which forces `sf · c > 1 − tan 0.19 … ≥ 0.8` hence, with the code's
`sf = 0.8`, `c > 1`: the error estimate is within tolerance. -/
theorem accepted_implies_c_ge_one (c : ℝ) (hacc : (0.9 : ℝ) ^ 2 ≤ corr 0.8 c) (htan : tan 0.19 < 0.2) : 1 < c := by
  unfold corr at hacc
  have h1 : -(0.19 : ℝ) ≤ arctan (0.8 * c - 1) := by norm_num at hacc ⊢; linarith
  -- arctan x ≥ -0.19 ⇒ x ≥ tan(-0.19) = -tan 0.19 > -0.2
  have hrange : -(π / 2) < -(0.19 : ℝ) ∧ -(0.19 : ℝ) < π / 2 := by
    have := pi_gt_three
    constructor <;> linarith
  have h2 : tan (-(0.19 : ℝ)) ≤ 0.8 * c - 1 := by
    have h3 : arctan (tan (-(0.19 : ℝ))) = -(0.19 : ℝ) := arctan_tan hrange.1 hrange.2
    rw [← h3] at h1
    exact arctan_le_arctan_iff.mp h1
  rw [tan_neg] at h2
  nlinarith

end DVP.Arctan

namespace DVP.Arctan
open Real

/-- the one numeric fact the acceptance bound needs: `tan 0.19 < 0.2`
(`sin x ≤ x` and `cos x ≥ 1 − x²/2`) -/
theorem tan_019_lt : tan (0.19 : ℝ) < 0.2 := by
  have hs : sin (0.19 : ℝ) ≤ 0.19 := sin_le (by norm_num)
  have hc : 1 - (0.19 : ℝ) ^ 2 / 2 ≤ cos 0.19 := one_sub_sq_div_two_le_cos
  have hcpos : (0 : ℝ) < cos 0.19 := by
    have : (0:ℝ) < 1 - (0.19 : ℝ) ^ 2 / 2 := by norm_num
    linarith
  rw [tan_eq_sin_div_cos, div_lt_iff₀ hcpos]
  have : (0.19 : ℝ) < 0.2 * (1 - (0.19 : ℝ) ^ 2 / 2) := by norm_num
  nlinarith

/-- unconditional form of `accepted_implies_c_ge_one` -/
theorem accepted_implies_raw_correction_gt_one (c : ℝ) (hacc : (0.9 : ℝ) ^ 2 ≤ corr 0.8 c) : 1 < c :=
  accepted_implies_c_ge_one c hacc tan_019_lt

end DVP.Arctan
