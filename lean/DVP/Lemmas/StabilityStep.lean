import DVP.Lemmas.Stability
import Mathlib.Algebra.BigOperators.Group.Finset.Basic
import Mathlib.Algebra.BigOperators.Group.Finset.Sigma
import Mathlib.Algebra.BigOperators.Intervals
import Mathlib.Algebra.BigOperators.Ring.Finset
import Mathlib.Tactic.FieldSimp

/-! From the checked matrix identities of a certificate to the step itself: whatever stage values
solve the stage equations of `y' = λy`, the new state is `(P/Q)(w) · y₀`. -/
namespace DVP.Stability
open DV.Stability

section step
variable {R : Type} [CommRing R]

/-- evaluation of a `foldl` of `padd` over `List.range` is a finite sum -/
theorem pev_foldl_range (f : Nat → Poly) (w : R) : ∀ (s : Nat) (init : Poly),
    pev ((List.range s).foldl (fun acc k => padd acc (f k)) init) w = pev init w + ∑ k ∈ Finset.range s, pev (f k) w := by
  intro s
  induction s with
  | zero => intro init; simp
  | succ n ih =>
    intro init
    rw [List.range_succ, List.foldl_append]
    simp only [List.foldl_cons, List.foldl_nil, pev_padd, ih, Finset.sum_range_succ]
    ring

@[simp] theorem pev_iMinusWA (A : List (List Int)) (k j : Nat) (w : R) :
    pev (iMinusWA A k j) w = (if k = j then 1 else 0) - (((A.getD k []).getD j 0 : Int) : R) * w := by
  unfold iMinusWA
  split <;> simp <;> ring

/-- what `adjOK` says after evaluation: `Σ_k Adj_ik(w) · (I − wA)_kj = [i = j] · Q(w)` -/
theorem adjOK_spec (A : List (List Int)) (Adj : PMat) (Q : Poly) (h : adjOK A Adj Q = true) (w : R)
    (i j : Nat) (hi : i < A.length) (hj : j < A.length) :
    ∑ k ∈ Finset.range A.length, pev ((Adj.getD i []).getD k []) w * pev (iMinusWA A k j) w =
      if i = j then pev Q w else 0 := by
  unfold adjOK at h
  simp only [List.all_eq_true, List.mem_range] at h
  have := pev_of_pEq _ _ w (h i hi j hj)
  rw [pev_foldl_range (fun k => pmul ((Adj.getD i []).getD k []) (iMinusWA A k j))] at this
  simp only [pev_nil, zero_add, pev_pmul] at this
  rw [this]
  split <;> simp

/-- what `pOK` says after evaluation: `P(w) = Q(w) + w · Σ_i Σ_k b_i Adj_ik(w)` -/
theorem pOK_spec (b : List Int) (Adj : PMat) (P Q : Poly) (h : pOK b Adj P Q = true) (w : R) :
    pev P w = pev Q w + w * ∑ i ∈ Finset.range b.length, ∑ k ∈ Finset.range b.length,
      ((b.getD i 0 : Int) : R) * pev ((Adj.getD i []).getD k []) w := by
  unfold pOK at h
  have := pev_of_pEq _ _ w h
  rw [this, pev_padd, pev_cons]
  congr 1
  simp only [Int.cast_zero, zero_add]
  congr 1
  -- the nested fold
  have inner : ∀ (i : Nat) (acc : Poly),
      pev ((List.range b.length).foldl (fun acc k => padd acc (pscale (b.getD i 0) ((Adj.getD i []).getD k []))) acc) w =
        pev acc w + ∑ k ∈ Finset.range b.length, ((b.getD i 0 : Int) : R) * pev ((Adj.getD i []).getD k []) w := by
    intro i acc
    rw [pev_foldl_range (fun k => pscale (b.getD i 0) ((Adj.getD i []).getD k []))]
    simp only [pev_pscale]
  have outer : ∀ (s : Nat) (init : Poly),
      pev ((List.range s).foldl (fun acc i => (List.range b.length).foldl
          (fun acc k => padd acc (pscale (b.getD i 0) ((Adj.getD i []).getD k []))) acc) init) w =
        pev init w + ∑ i ∈ Finset.range s, ∑ k ∈ Finset.range b.length,
          ((b.getD i 0 : Int) : R) * pev ((Adj.getD i []).getD k []) w := by
    intro s
    induction s with
    | zero => intro init; simp
    | succ n ih =>
      intro init
      rw [List.range_succ, List.foldl_append]
      simp only [List.foldl_cons, List.foldl_nil, inner, ih, Finset.sum_range_succ]
      ring
  rw [outer]
  simp

end step

/-- **The step is the stability function.**  Let the matrix identities of a certificate hold
(`adjOK`, `pOK`), let `κ_j = h·k_j` be ANY solution of the stage equations of `y' = λy`,
`Σ_j (I − wA)_ij κ_j = z·y₀` with `z = hλ = w·2^K`, and let `y₁ = y₀ + Σ_i b_i κ_i` with
`b_i = B_i / 2^K`.  Then `Q(w)·y₁ = P(w)·y₀`. -/
theorem step_eq_stability (K : Nat) (A : List (List Int)) (b : List Int) (Adj : PMat) (P Q : Poly)
    (hA : adjOK A Adj Q = true) (hP : pOK b Adj P Q = true) (hb : b.length = A.length)
    (w y0 : ℂ) (κ : Nat → ℂ)
    (hstage : ∀ i, i < A.length → ∑ j ∈ Finset.range A.length, pev (iMinusWA A i j) w * κ j = w * (2 : ℂ) ^ K * y0) :
    pev Q w * (y0 + ∑ i ∈ Finset.range A.length, ((b.getD i 0 : Int) : ℂ) / (2 : ℂ) ^ K * κ i) = pev P w * y0 := by
  set s := A.length with hs
  -- Q κ_i = Σ_k Adj_ik (w 2^K y0)
  have hκ : ∀ i, i < s → pev Q w * κ i = ∑ k ∈ Finset.range s, pev ((Adj.getD i []).getD k []) w * (w * (2 : ℂ) ^ K * y0) := by
    intro i hi
    have h1 : ∑ j ∈ Finset.range s, (∑ k ∈ Finset.range s, pev ((Adj.getD i []).getD k []) w * pev (iMinusWA A k j) w) * κ j =
        pev Q w * κ i := by
      rw [Finset.sum_eq_single i]
      · rw [adjOK_spec A Adj Q hA w i i hi hi, if_pos rfl]
      · intro j hj hji
        rw [adjOK_spec A Adj Q hA w i j hi (Finset.mem_range.mp hj), if_neg (Ne.symm hji), zero_mul]
      · intro h; exact absurd (Finset.mem_range.mpr hi) h
    rw [← h1]
    simp only [Finset.sum_mul]
    rw [Finset.sum_comm]
    apply Finset.sum_congr rfl
    intro k hk
    rw [← hstage k (Finset.mem_range.mp hk), Finset.mul_sum]
    apply Finset.sum_congr rfl
    intro j _
    ring
  have h2 : (2 : ℂ) ^ K ≠ 0 := pow_ne_zero _ two_ne_zero
  rw [pOK_spec b Adj P Q hP w, hb, mul_add, Finset.mul_sum]
  have : ∀ i ∈ Finset.range s, pev Q w * (((b.getD i 0 : Int) : ℂ) / (2 : ℂ) ^ K * κ i) =
      w * y0 * ∑ k ∈ Finset.range s, ((b.getD i 0 : Int) : ℂ) * pev ((Adj.getD i []).getD k []) w := by
    intro i hi
    have := hκ i (Finset.mem_range.mp hi)
    calc pev Q w * (((b.getD i 0 : Int) : ℂ) / (2 : ℂ) ^ K * κ i)
        = ((b.getD i 0 : Int) : ℂ) / (2 : ℂ) ^ K * (pev Q w * κ i) := by ring
      _ = ((b.getD i 0 : Int) : ℂ) / (2 : ℂ) ^ K * ∑ k ∈ Finset.range s, pev ((Adj.getD i []).getD k []) w * (w * (2 : ℂ) ^ K * y0) := by rw [this]
      _ = w * y0 * ∑ k ∈ Finset.range s, ((b.getD i 0 : Int) : ℂ) * pev ((Adj.getD i []).getD k []) w := by
        rw [Finset.mul_sum, Finset.mul_sum]
        apply Finset.sum_congr rfl
        intro k _
        field_simp
  rw [Finset.sum_congr rfl this, ← Finset.mul_sum]
  ring

end DVP.Stability
