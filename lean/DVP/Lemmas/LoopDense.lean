import DVP.Lemmas.LoopEv

/-! The dense-output container in the loop with events (`DV.LoopEv`, forward integration with dense output on):
after every way the call can end — target reached, terminal stop, fault in the integrator, in an event
function, in a callback, in the nested call — the knots of the container are exactly the recorded samples
after the first one, in order: one piece per recorded step, none for a dropped or rolled-back step. -/
namespace DVP.LoopDense
open DV DV.Loop DV.Events DV.LoopEv DVP.LoopEv

/-- the knots a forward run should have: the recorded times, oldest first, without the first sample -/
def knotsOf (ts : List ℚ) : List ℚ := ts.reverse.tail

/-- every accepted step goes forward (or nowhere) -/
def FwdIter (it : Iter ℚ) : Prop := ∀ nd dT, it.ret = .ok nd dT → 0 ≤ dT
def FwdOrc (orc : Oracle ℚ) : Prop := ∀ k t h, FwdIter (orc k t h)
def FwdOrcEv (orc : OracleEv ℚ) : Prop := ∀ k t h, FwdIter (orc k t h).base ∧ FwdOrc (orc k t h).nested

theorem knotsOf_cons_cons (t x : ℚ) (r : List ℚ) : knotsOf (t :: x :: r) = knotsOf (x :: r) ++ [t] := by
  unfold knotsOf
  simp only [List.reverse_cons]
  cases hr : r.reverse with
  | nil => simp
  | cons a l => simp

theorem knotsOf_getLast (x : ℚ) (r : List ℚ) : (knotsOf (x :: r)).getLast? = if r = [] then none else some x := by
  unfold knotsOf
  cases r with
  | nil => simp
  | cons a l =>
    simp only [List.reverse_cons]
    cases hr : l.reverse with
    | nil => simp
    | cons b m => simp

/-- adding the piece of a forward step from the newest sample -/
theorem addKnot_fwd (x : ℚ) (r : List ℚ) (dT : ℚ) (h : 0 ≤ dT) :
    addKnot (knotsOf (x :: r)) (x + dT) = knotsOf ((x + dT) :: x :: r) := by
  rw [knotsOf_cons_cons]
  unfold addKnot
  rw [knotsOf_getLast]
  by_cases hr : r = []
  · subst hr; simp [knotsOf]
  · simp only [hr, if_false]
    have : ¬ (x + dT - x < DV.Lit.lit 0) := by
      have e : (DV.Lit.lit 0 : ℚ) = 0 := rfl
      rw [e]; simp; exact h
    rw [if_neg this]

/-- … and taking it out again -/
theorem removeNewest_fwd (x : ℚ) (r : List ℚ) (dT : ℚ) (h : 0 ≤ dT) :
    removeNewest (knotsOf ((x + dT) :: x :: r)) dT = knotsOf (x :: r) := by
  rw [knotsOf_cons_cons]
  unfold removeNewest
  have e : (DV.Lit.lit 0 : ℚ) = 0 := rfl
  rw [e, if_pos h]
  simp

theorem plainKnots_append (kn before news : List ℚ) :
    plainKnots true kn before (news ++ before) = news.reverse.foldl addKnot kn := by
  unfold plainKnots
  simp

/-- the plain loop with a forward integrator: the new samples, added one by one, give the knots of the result -/
theorem loop_knots (cfg : Cfg ℚ) (target : ℚ) (orc : Oracle ℚ) (hf : FwdOrc orc) :
    ∀ (fuel k : Nat) (s : Sys ℚ) (reqs : List (Req ℚ)), s.ts ≠ [] →
      ∃ news, (loop cfg target orc fuel k s reqs).sys.ts = news ++ s.ts ∧
        news.reverse.foldl addKnot (knotsOf s.ts) = knotsOf (loop cfg target orc fuel k s reqs).sys.ts := by
  intro fuel
  induction fuel with
  | zero => intro k s reqs _; exact ⟨[], rfl, rfl⟩
  | succ n ih =>
    intro k s reqs hne
    unfold loop
    by_cases hg : DV.Loop.guard cfg target s = true
    · simp only [hg, Bool.not_true, Bool.false_eq_true, if_false]
      cases hret : (orc k s.tcur (DV.Loop.request target s)).ret with
      | raise => exact ⟨[], rfl, rfl⟩
      | interrupt => exact ⟨[], rfl, rfl⟩
      | ok newDt dT =>
        simp only
        have hdT : 0 ≤ dT := hf k s.tcur (DV.Loop.request target s) newDt dT hret
        obtain ⟨x, r, hxr⟩ := List.exists_cons_of_ne_nil hne
        have htc : s.tcur = x := by unfold Sys.tcur; rw [hxr]; rfl
        have hadd : addKnot (knotsOf s.ts) (s.tcur + dT) = knotsOf ((s.tcur + dT) :: s.ts) := by
          rw [hxr, htc]; exact addKnot_fwd x r dT hdT
        cases hgr : growth target s dT with
        | none => exact ⟨[], rfl, rfl⟩
        | some g =>
          simp only
          by_cases hcb : (orc k s.tcur (DV.Loop.request target s)).cbRaise = true
          · simp only [hcb, if_true]
            exact ⟨[s.tcur + dT], rfl, by simpa [advance] using hadd⟩
          · simp only [hcb, Bool.false_eq_true, if_false]
            obtain ⟨news, h1, h2⟩ := ih (k + 1) (advance target s (orc k s.tcur (request target s)) newDt dT g)
              ({ t := s.tcur, h := request target s, final := isFinal target s, cap := s.cap } :: reqs) (by simp [advance])
            refine ⟨news ++ [s.tcur + dT], by rw [h1]; simp [advance], ?_⟩
            rw [← h2]
            simp only [List.reverse_append, List.reverse_cons, List.reverse_nil, List.nil_append, List.foldl_append,
              List.foldl_cons, List.foldl_nil, List.singleton_append]
            rw [hadd]
            simp [advance]
    · have hg' : DV.Loop.guard cfg target s = false := by simpa using hg
      simp only [hg', Bool.not_false, if_true]
      exact ⟨[], rfl, rfl⟩

theorem integrate_knots (cfg : Cfg ℚ) (s : Sys ℚ) (target : ℚ) (orc : Oracle ℚ) (fuel : Nat) (hf : FwdOrc orc) (hne : s.ts ≠ []) :
    plainKnots true (knotsOf s.ts) s.ts (integrate cfg s target orc fuel).sys.ts = knotsOf (integrate cfg s target orc fuel).sys.ts := by
  have key : ∃ news, (integrate cfg s target orc fuel).sys.ts = news ++ s.ts ∧
      news.reverse.foldl addKnot (knotsOf s.ts) = knotsOf (integrate cfg s target orc fuel).sys.ts := by
    unfold integrate
    by_cases hc : s.crashed = true
    · simp only [hc, if_true]; exact ⟨[], rfl, rfl⟩
    · rw [if_neg hc]
      by_cases hat : absC (target - s.tcur) < cfg.tolEps
      · rw [if_pos hat]; exact ⟨[], rfl, rfl⟩
      · rw [if_neg hat]
        cases hal : allocSteps (target - s.tcur) (initialDt cfg s target) with
        | none => simp only [hal]; exact ⟨[], rfl, rfl⟩
        | some n =>
          simp only [hal]
          exact loop_knots cfg target orc hf fuel 0
            { s with dt := initialDt cfg s target, cap := s.cap + n,
                     status := if s.status == 2 ∨ s.status == 3 ∨ s.status == 4 then 0 else s.status } [] hne
  obtain ⟨news, h1, h2⟩ := key
  rw [h1, plainKnots_append, h2, h1]

theorem growthEv_some (target : ℚ) (s : Sys ℚ) (dT : ℚ) (cap n : Nat) : ∃ g, growthEv target s dT cap n = some g := by
  unfold growthEv
  split
  · simp [allocSteps, HasTrunc.truncInt]
  · exact ⟨0, rfl⟩

/-- **The container holds exactly the pieces of the recorded steps, however the loop ends.** -/
theorem loopEv_knots (cfg : CfgEv ℚ) (hd : cfg.dense = true) (target : ℚ) (orc : OracleEv ℚ) (hf : FwdOrcEv orc) :
    ∀ (fuel k : Nat) (s : Sys ℚ) (b : Book ℚ) (kn : List ℚ) (reqs : List (Req ℚ)), s.ts ≠ [] → kn = knotsOf s.ts →
      (loopEv cfg target orc fuel k s b kn reqs).knots = knotsOf (loopEv cfg target orc fuel k s b kn reqs).sys.ts := by
  intro fuel
  induction fuel with
  | zero => intro k s b kn reqs _ hk; simpa [loopEv] using hk
  | succ n ih =>
    intro k s b kn reqs hne hk
    unfold loopEv
    by_cases hg : DV.Loop.guard cfg.loop target s = true
    · simp only [hg, Bool.not_true, Bool.false_eq_true, if_false]
      cases hret : (orc k s.tcur (DV.Loop.request target s)).base.ret with
      | raise => simpa [failEv] using hk
      | interrupt => simpa [failEv] using hk
      | ok newDt dT =>
        simp only
        have hdT : 0 ≤ dT := (hf k s.tcur (DV.Loop.request target s)).1 newDt dT hret
        obtain ⟨x, r, hxr⟩ := List.exists_cons_of_ne_nil hne
        have htc : s.tcur = x := by unfold Sys.tcur; rw [hxr]; rfl
        have hadd : addKnot kn (s.tcur + dT) = knotsOf ((s.tcur + dT) :: s.ts) := by
          rw [hk, hxr, htc]; exact addKnot_fwd x r dT hdT
        have hrem : removeNewest (addKnot kn (s.tcur + dT)) dT = knotsOf s.ts := by
          rw [hadd, hxr, htc]; exact removeNewest_fwd x r dT hdT
        cases hgr : growth target s dT with
        | none => simpa [failEv] using hk
        | some g1 =>
          simp only
          by_cases her : (orc k s.tcur (DV.Loop.request target s)).evRaise = true
          · simp only [her, if_true, failEv]
            exact hrem
          · simp only [her, Bool.false_eq_true, if_false]
            obtain ⟨g2, hg2⟩ := growthEv_some target s dT (s.cap + g1)
              (handle (stepSign s.tcur (s.tcur + dT)) (orc k s.tcur (DV.Loop.request target s)).probes).1.length
            simp only [hg2]
            by_cases hterm : (handle (stepSign s.tcur (s.tcur + dT)) (orc k s.tcur (DV.Loop.request target s)).probes).2 = true
            · simp only [hterm, if_true, hd]
              generalize hroot : (Option.map (fun x => x.2.root)
                (handle (stepSign s.tcur (s.tcur + dT)) (orc k s.tcur (DV.Loop.request target s)).probes).1.getLast?).getD s.tcur = root
              have hn := integrate_knots cfg.loop { s with cap := s.cap + g1 + g2 } root
                (orc k s.tcur (DV.Loop.request target s)).nested (orc k s.tcur (DV.Loop.request target s)).nestedFuel
                (hf k s.tcur (DV.Loop.request target s)).2 hne
              rw [hrem]
              by_cases hnr : nestedRaised (Loop.integrate cfg.loop { s with cap := s.cap + g1 + g2 } root
                  (orc k s.tcur (DV.Loop.request target s)).nested (orc k s.tcur (DV.Loop.request target s)).nestedFuel) = true
              · simp only [hnr, if_true, failEv]
                exact hn
              · simp only [hnr, Bool.false_eq_true, if_false]
                by_cases hcb : (orc k s.tcur (DV.Loop.request target s)).base.cbRaise = true
                · simp only [hcb, if_true]
                  simpa [finishIter] using hn
                · simp only [hcb, Bool.false_eq_true, if_false]
                  simpa [finishIter] using hn
            · simp only [hterm, Bool.false_eq_true, if_false, hd, if_true]
              obtain ⟨g3, hg3⟩ := growthEv_some target s dT (s.cap + g1 + g2)
                (handle (stepSign s.tcur (s.tcur + dT)) (orc k s.tcur (DV.Loop.request target s)).probes).1.length
              simp only [hg3]
              by_cases hcb : (orc k s.tcur (DV.Loop.request target s)).base.cbRaise = true
              · simp only [hcb, if_true, failEv]
                simpa [finishIter] using hadd
              · simp only [hcb, Bool.false_eq_true, if_false]
                exact ih (k + 1) _ _ _ _ (by simp [finishIter]) (by simpa [finishIter] using hadd)
    · have hg' : DV.Loop.guard cfg.loop target s = false := by simpa using hg
      simpa [hg'] using hk

/-- the whole call -/
theorem integrateEv_knots (cfg : CfgEv ℚ) (hd : cfg.dense = true) (s : Sys ℚ) (evs : List (Nat × ℚ)) (nEvents : Nat)
    (target : ℚ) (orc : OracleEv ℚ) (fuel : Nat) (hf : FwdOrcEv orc) (hne : s.ts ≠ []) :
    (integrateEv cfg s evs (knotsOf s.ts) nEvents target orc fuel).knots =
      knotsOf (integrateEv cfg s evs (knotsOf s.ts) nEvents target orc fuel).sys.ts := by
  unfold integrateEv
  by_cases hc : s.crashed = true
  · simp [hc]
  · rw [if_neg hc]
    by_cases hat : absC (target - s.tcur) < cfg.loop.tolEps
    · simp [hat]
    · rw [if_neg hat]
      cases hal : allocSteps (target - s.tcur) (initialDt cfg.loop s target) with
      | none => simp [hal]
      | some n =>
        simp only [hal]
        exact loopEv_knots cfg hd target orc hf fuel 0
          { s with dt := initialDt cfg.loop s target, cap := s.cap + n,
                   status := if s.status == 2 ∨ s.status == 3 ∨ s.status == 4 then 0 else s.status }
          { last := List.replicate nEvents none, events := evs } (knotsOf s.ts) [] hne rfl

/-! ## backward integration: the pieces are inserted at the front -/

/-- the knots a backward run should have: the recorded times, newest (= smallest) first, without the first sample -/
def knotsOfB (ts : List ℚ) : List ℚ := ts.dropLast

/-- newest first, the recorded times of a backward run increase (weakly) -/
def Asc : List ℚ → Prop
  | [] => True
  | [_] => True
  | a :: c :: r => a ≤ c ∧ Asc (c :: r)

/-- every accepted step goes strictly backward -/
def BwdIter (it : Iter ℚ) : Prop := ∀ nd dT, it.ret = .ok nd dT → dT < 0
def BwdOrc (orc : Oracle ℚ) : Prop := ∀ k t h, BwdIter (orc k t h)
def BwdOrcEv (orc : OracleEv ℚ) : Prop := ∀ k t h, BwdIter (orc k t h).base ∧ BwdOrc (orc k t h).nested

theorem asc_head_le_getLast : ∀ (l : List ℚ) (a z : ℚ), Asc (a :: l) → (a :: l).getLast? = some z → a ≤ z
  | [], a, z, _, h => by simp at h; rw [h]
  | c :: r, a, z, ha, h => by
    have h' : (c :: r).getLast? = some z := by simpa [List.getLast?_cons_cons] using h
    exact le_trans ha.1 (asc_head_le_getLast r c z ha.2 h')

theorem dropLast_getLast_ge : ∀ (l : List ℚ) (a z : ℚ), Asc (a :: l) → (a :: l).dropLast.getLast? = some z → a ≤ z
  | [], a, z, _, h => by simp at h
  | [c], a, z, _, h => by simp at h; rw [h]
  | c :: d :: r, a, z, ha, h => by
    have h' : (c :: d :: r).dropLast.getLast? = some z := by
      simpa [List.dropLast, List.getLast?_cons_cons] using h
    exact le_trans ha.1 (dropLast_getLast_ge (d :: r) c z ha.2 h')

/-- adding the piece of a backward step from the newest sample: it goes to the front -/
theorem addKnot_bwd (x : ℚ) (r : List ℚ) (dT : ℚ) (h : dT < 0) (ha : Asc (x :: r)) :
    addKnot (knotsOfB (x :: r)) (x + dT) = knotsOfB ((x + dT) :: x :: r) := by
  unfold addKnot knotsOfB
  cases hl : (x :: r).dropLast.getLast? with
  | none =>
    have : (x :: r).dropLast = [] := List.getLast?_eq_none_iff.mp hl
    cases r with
    | nil => simp
    | cons c r' => simp [List.dropLast] at this
  | some z =>
    simp only
    have hz := dropLast_getLast_ge r x z ha hl
    have e : (DV.Lit.lit 0 : ℚ) = 0 := rfl
    have : x + dT - z < DV.Lit.lit 0 := by rw [e]; linarith
    rw [if_pos this]
    cases r with
    | nil => simp at hl
    | cons c r' => simp [List.dropLast]

theorem removeNewest_bwd (x : ℚ) (r : List ℚ) (dT : ℚ) (h : dT < 0) :
    removeNewest (knotsOfB ((x + dT) :: x :: r)) dT = knotsOfB (x :: r) := by
  unfold removeNewest knotsOfB
  have e : (DV.Lit.lit 0 : ℚ) = 0 := rfl
  rw [e, if_neg (not_le.mpr h)]
  simp [List.dropLast]

theorem asc_cons_bwd (x : ℚ) (r : List ℚ) (dT : ℚ) (h : dT < 0) (ha : Asc (x :: r)) : Asc ((x + dT) :: x :: r) :=
  ⟨by linarith, ha⟩

theorem loop_knots_bwd (cfg : Cfg ℚ) (target : ℚ) (orc : Oracle ℚ) (hf : BwdOrc orc) :
    ∀ (fuel k : Nat) (s : Sys ℚ) (reqs : List (Req ℚ)), s.ts ≠ [] → Asc s.ts →
      ∃ news, (loop cfg target orc fuel k s reqs).sys.ts = news ++ s.ts ∧ Asc (loop cfg target orc fuel k s reqs).sys.ts ∧
        news.reverse.foldl addKnot (knotsOfB s.ts) = knotsOfB (loop cfg target orc fuel k s reqs).sys.ts := by
  intro fuel
  induction fuel with
  | zero => intro k s reqs _ ha; exact ⟨[], rfl, ha, rfl⟩
  | succ n ih =>
    intro k s reqs hne ha
    unfold loop
    by_cases hg : DV.Loop.guard cfg target s = true
    · simp only [hg, Bool.not_true, Bool.false_eq_true, if_false]
      cases hret : (orc k s.tcur (DV.Loop.request target s)).ret with
      | raise => exact ⟨[], rfl, ha, rfl⟩
      | interrupt => exact ⟨[], rfl, ha, rfl⟩
      | ok newDt dT =>
        simp only
        have hdT : dT < 0 := hf k s.tcur (DV.Loop.request target s) newDt dT hret
        obtain ⟨x, r, hxr⟩ := List.exists_cons_of_ne_nil hne
        have htc : s.tcur = x := by unfold Sys.tcur; rw [hxr]; rfl
        have hadd : addKnot (knotsOfB s.ts) (s.tcur + dT) = knotsOfB ((s.tcur + dT) :: s.ts) := by
          rw [hxr, htc]; exact addKnot_bwd x r dT hdT (hxr ▸ ha)
        have hasc : Asc ((s.tcur + dT) :: s.ts) := by
          rw [hxr, htc]; exact asc_cons_bwd x r dT hdT (hxr ▸ ha)
        cases hgr : growth target s dT with
        | none => exact ⟨[], rfl, ha, rfl⟩
        | some g =>
          simp only
          by_cases hcb : (orc k s.tcur (DV.Loop.request target s)).cbRaise = true
          · simp only [hcb, if_true]
            exact ⟨[s.tcur + dT], rfl, by simpa [advance] using hasc, by simpa [advance] using hadd⟩
          · simp only [hcb, Bool.false_eq_true, if_false]
            obtain ⟨news, h1, h3, h2⟩ := ih (k + 1) (advance target s (orc k s.tcur (request target s)) newDt dT g)
              ({ t := s.tcur, h := request target s, final := isFinal target s, cap := s.cap } :: reqs) (by simp [advance])
              (by simpa [advance] using hasc)
            refine ⟨news ++ [s.tcur + dT], by rw [h1]; simp [advance], h3, ?_⟩
            rw [← h2]
            simp only [List.reverse_append, List.reverse_cons, List.reverse_nil, List.nil_append,
              List.foldl_cons, List.singleton_append]
            rw [hadd]
            simp [advance]
    · have hg' : DV.Loop.guard cfg target s = false := by simpa using hg
      simp only [hg', Bool.not_false, if_true]
      exact ⟨[], rfl, ha, rfl⟩

theorem integrate_knots_bwd (cfg : Cfg ℚ) (s : Sys ℚ) (target : ℚ) (orc : Oracle ℚ) (fuel : Nat) (hf : BwdOrc orc)
    (hne : s.ts ≠ []) (ha : Asc s.ts) :
    plainKnots true (knotsOfB s.ts) s.ts (integrate cfg s target orc fuel).sys.ts = knotsOfB (integrate cfg s target orc fuel).sys.ts ∧
      Asc (integrate cfg s target orc fuel).sys.ts := by
  have key : ∃ news, (integrate cfg s target orc fuel).sys.ts = news ++ s.ts ∧ Asc (integrate cfg s target orc fuel).sys.ts ∧
      news.reverse.foldl addKnot (knotsOfB s.ts) = knotsOfB (integrate cfg s target orc fuel).sys.ts := by
    unfold integrate
    by_cases hc : s.crashed = true
    · simp only [hc, if_true]; exact ⟨[], rfl, ha, rfl⟩
    · rw [if_neg hc]
      by_cases hat : absC (target - s.tcur) < cfg.tolEps
      · rw [if_pos hat]; exact ⟨[], rfl, ha, rfl⟩
      · rw [if_neg hat]
        cases hal : allocSteps (target - s.tcur) (initialDt cfg s target) with
        | none => simp only [hal]; exact ⟨[], rfl, ha, rfl⟩
        | some n =>
          simp only [hal]
          exact loop_knots_bwd cfg target orc hf fuel 0
            { s with dt := initialDt cfg s target, cap := s.cap + n,
                     status := if s.status == 2 ∨ s.status == 3 ∨ s.status == 4 then 0 else s.status } [] hne ha
  obtain ⟨news, h1, h3, h2⟩ := key
  exact ⟨by rw [h1, plainKnots_append, h2, h1], h3⟩

/-- the backward mirror image of `loopEv_knots` -/
theorem loopEv_knots_bwd (cfg : CfgEv ℚ) (hd : cfg.dense = true) (target : ℚ) (orc : OracleEv ℚ) (hf : BwdOrcEv orc) :
    ∀ (fuel k : Nat) (s : Sys ℚ) (b : Book ℚ) (kn : List ℚ) (reqs : List (Req ℚ)), s.ts ≠ [] → Asc s.ts → kn = knotsOfB s.ts →
      (loopEv cfg target orc fuel k s b kn reqs).knots = knotsOfB (loopEv cfg target orc fuel k s b kn reqs).sys.ts := by
  intro fuel
  induction fuel with
  | zero => intro k s b kn reqs _ _ hk; simpa [loopEv] using hk
  | succ n ih =>
    intro k s b kn reqs hne ha hk
    unfold loopEv
    by_cases hg : DV.Loop.guard cfg.loop target s = true
    · simp only [hg, Bool.not_true, Bool.false_eq_true, if_false]
      cases hret : (orc k s.tcur (DV.Loop.request target s)).base.ret with
      | raise => simpa [failEv] using hk
      | interrupt => simpa [failEv] using hk
      | ok newDt dT =>
        simp only
        have hdT : dT < 0 := (hf k s.tcur (DV.Loop.request target s)).1 newDt dT hret
        obtain ⟨x, r, hxr⟩ := List.exists_cons_of_ne_nil hne
        have htc : s.tcur = x := by unfold Sys.tcur; rw [hxr]; rfl
        have hadd : addKnot kn (s.tcur + dT) = knotsOfB ((s.tcur + dT) :: s.ts) := by
          rw [hk, hxr, htc]; exact addKnot_bwd x r dT hdT (hxr ▸ ha)
        have hrem : removeNewest (addKnot kn (s.tcur + dT)) dT = knotsOfB s.ts := by
          rw [hadd, hxr, htc]; exact removeNewest_bwd x r dT hdT
        have hasc : Asc ((s.tcur + dT) :: s.ts) := by
          rw [hxr, htc]; exact asc_cons_bwd x r dT hdT (hxr ▸ ha)
        cases hgr : growth target s dT with
        | none => simpa [failEv] using hk
        | some g1 =>
          simp only
          by_cases her : (orc k s.tcur (DV.Loop.request target s)).evRaise = true
          · simp only [her, if_true, failEv]
            exact hrem
          · simp only [her, Bool.false_eq_true, if_false]
            obtain ⟨g2, hg2⟩ := growthEv_some target s dT (s.cap + g1)
              (handle (stepSign s.tcur (s.tcur + dT)) (orc k s.tcur (DV.Loop.request target s)).probes).1.length
            simp only [hg2]
            by_cases hterm : (handle (stepSign s.tcur (s.tcur + dT)) (orc k s.tcur (DV.Loop.request target s)).probes).2 = true
            · simp only [hterm, if_true, hd]
              generalize hroot : (Option.map (fun x => x.2.root)
                (handle (stepSign s.tcur (s.tcur + dT)) (orc k s.tcur (DV.Loop.request target s)).probes).1.getLast?).getD s.tcur = root
              have hn := (integrate_knots_bwd cfg.loop { s with cap := s.cap + g1 + g2 } root
                (orc k s.tcur (DV.Loop.request target s)).nested (orc k s.tcur (DV.Loop.request target s)).nestedFuel
                (hf k s.tcur (DV.Loop.request target s)).2 hne ha).1
              rw [hrem]
              by_cases hnr : nestedRaised (Loop.integrate cfg.loop { s with cap := s.cap + g1 + g2 } root
                  (orc k s.tcur (DV.Loop.request target s)).nested (orc k s.tcur (DV.Loop.request target s)).nestedFuel) = true
              · simp only [hnr, if_true, failEv]
                exact hn
              · simp only [hnr, Bool.false_eq_true, if_false]
                by_cases hcb : (orc k s.tcur (DV.Loop.request target s)).base.cbRaise = true
                · simp only [hcb, if_true]
                  simpa [finishIter] using hn
                · simp only [hcb, Bool.false_eq_true, if_false]
                  simpa [finishIter] using hn
            · simp only [hterm, Bool.false_eq_true, if_false, hd, if_true]
              obtain ⟨g3, hg3⟩ := growthEv_some target s dT (s.cap + g1 + g2)
                (handle (stepSign s.tcur (s.tcur + dT)) (orc k s.tcur (DV.Loop.request target s)).probes).1.length
              simp only [hg3]
              by_cases hcb : (orc k s.tcur (DV.Loop.request target s)).base.cbRaise = true
              · simp only [hcb, if_true, failEv]
                simpa [finishIter] using hadd
              · simp only [hcb, Bool.false_eq_true, if_false]
                exact ih (k + 1) _ _ _ _ (by simp [finishIter]) (by simpa [finishIter] using hasc) (by simpa [finishIter] using hadd)
    · have hg' : DV.Loop.guard cfg.loop target s = false := by simpa using hg
      simpa [hg'] using hk

theorem integrateEv_knots_bwd (cfg : CfgEv ℚ) (hd : cfg.dense = true) (s : Sys ℚ) (evs : List (Nat × ℚ)) (nEvents : Nat)
    (target : ℚ) (orc : OracleEv ℚ) (fuel : Nat) (hf : BwdOrcEv orc) (hne : s.ts ≠ []) (ha : Asc s.ts) :
    (integrateEv cfg s evs (knotsOfB s.ts) nEvents target orc fuel).knots =
      knotsOfB (integrateEv cfg s evs (knotsOfB s.ts) nEvents target orc fuel).sys.ts := by
  unfold integrateEv
  by_cases hc : s.crashed = true
  · simp [hc]
  · rw [if_neg hc]
    by_cases hat : absC (target - s.tcur) < cfg.loop.tolEps
    · simp [hat]
    · rw [if_neg hat]
      cases hal : allocSteps (target - s.tcur) (initialDt cfg.loop s target) with
      | none => simp [hal]
      | some n =>
        simp only [hal]
        exact loopEv_knots_bwd cfg hd target orc hf fuel 0
          { s with dt := initialDt cfg.loop s target, cap := s.cap + n,
                   status := if s.status == 2 ∨ s.status == 3 ∨ s.status == 4 then 0 else s.status }
          { last := List.replicate nEvents none, events := evs } (knotsOfB s.ts) [] hne ha rfl

end DVP.LoopDense
