import DVP.Lemmas.Loop

/-! What no operation of the loop model ever changes, and what `reset` restores. -/
namespace DVP.Loop
open DV DV.Loop

/-- the part of a system that `reset()` must restore and that construction fixes -/
structure Static (s s' : Sys ℚ) : Prop where
  t0 : s'.t0 = s.t0
  tf : s'.tf = s.tf
  dt0 : s'.dt0 = s.dt0
  first : s'.ts.getLast? = s.ts.getLast?
  nonempty : s'.ts ≠ []

theorem loop_static (cfg : Cfg ℚ) (target : ℚ) (orc : Oracle ℚ) :
    ∀ (fuel k : Nat) (s : Sys ℚ) (reqs : List (Req ℚ)), s.ts ≠ [] →
      Static s (loop cfg target orc fuel k s reqs).sys := by
  intro fuel
  induction fuel with
  | zero => intro k s reqs hne; exact ⟨rfl, rfl, rfl, rfl, hne⟩
  | succ n ih =>
    intro k s reqs hne
    unfold loop
    by_cases hg : DV.Loop.guard cfg target s = true
    · simp only [hg, Bool.not_true, Bool.false_eq_true, if_false]
      rcases hret : (orc k s.tcur (DV.Loop.request target s)).ret with ⟨newDt, dT⟩ | _ | _
      · simp only
        rcases hgrow : growth target s dT with _ | g
        · exact ⟨rfl, rfl, rfl, rfl, hne⟩
        · simp only
          have hadv : Static s (advance target s (orc k s.tcur (DV.Loop.request target s)) newDt dT g) := by
            refine ⟨rfl, rfl, rfl, ?_, by simp [advance]⟩
            show ((s.tcur + dT) :: s.ts).getLast? = s.ts.getLast?
            exact List.getLast?_cons_of_ne_nil hne
          by_cases hcr : (orc k s.tcur (DV.Loop.request target s)).cbRaise = true
          · simp only [hcr, if_true]
            exact ⟨hadv.t0, hadv.tf, hadv.dt0, hadv.first, hadv.nonempty⟩
          · simp only [hcr, Bool.false_eq_true, if_false]
            have := ih (k + 1) _ ({ t := s.tcur, h := DV.Loop.request target s, final := isFinal target s, cap := s.cap } :: reqs) hadv.nonempty
            exact ⟨this.t0.trans hadv.t0, this.tf.trans hadv.tf, this.dt0.trans hadv.dt0, this.first.trans hadv.first, this.nonempty⟩
      · exact ⟨rfl, rfl, rfl, rfl, hne⟩
      · exact ⟨rfl, rfl, rfl, rfl, hne⟩
    · have hg2 : DV.Loop.guard cfg target s = false := by simpa using hg
      simp only [hg2, Bool.not_false, if_true]
      exact ⟨rfl, rfl, rfl, rfl, hne⟩

/-- `integrate` — with any environment whatsoever, faults included — never changes `t0`, `tf`, the
initial step or the first recorded sample -/
theorem integrate_static (cfg : Cfg ℚ) (s : Sys ℚ) (target : ℚ) (orc : Oracle ℚ) (fuel : Nat) (hne : s.ts ≠ []) :
    Static s (integrate cfg s target orc fuel).sys := by
  unfold integrate
  split
  · exact ⟨rfl, rfl, rfl, rfl, hne⟩
  · split
    · exact ⟨rfl, rfl, rfl, rfl, hne⟩
    · simp only
      rcases halloc : allocSteps (target - s.tcur) (initialDt cfg s target) with _ | n
      · exact ⟨rfl, rfl, rfl, rfl, hne⟩
      · simp only
        have := loop_static cfg target orc fuel 0
          { s with dt := initialDt cfg s target, cap := s.cap + n,
                   status := if s.status == 2 ∨ s.status == 3 ∨ s.status == 4 then 0 else s.status } [] hne
        exact ⟨this.t0, this.tf, this.dt0, this.first, this.nonempty⟩

/-- what a user can observe of the time-grid state -/
def Obs (s : Sys ℚ) : List ℚ × ℚ × Status × ℚ × ℚ := (s.ts, s.dt, s.status, s.t0, s.tf)

/-- operations of the model -/
inductive Op where
  | integrate (target : ℚ) (orc : Oracle ℚ) (fuel : Nat)
  | setDt (v : ℚ)
  | reset

def applyOp (cfg : Cfg ℚ) (s : Sys ℚ) : Op → Sys ℚ
  | .integrate target orc fuel => (integrate cfg s target orc fuel).sys
  | .setDt v => setDt s v
  | .reset => DV.Loop.reset s

theorem applyOp_static (cfg : Cfg ℚ) (s : Sys ℚ) (op : Op) (hne : s.ts ≠ []) : Static s (applyOp cfg s op) := by
  cases op with
  | integrate target orc fuel => exact integrate_static cfg s target orc fuel hne
  | setDt v => exact ⟨rfl, rfl, rfl, rfl, hne⟩
  | reset =>
    refine ⟨rfl, rfl, rfl, ?_, by simp [applyOp, DV.Loop.reset]⟩
    show [s.ts.getLast?.getD s.t0].getLast? = s.ts.getLast?
    cases h : s.ts.getLast? with
    | none => exact absurd (List.getLast?_eq_none_iff.mp h) hne
    | some x => simp

theorem applyOps_static (cfg : Cfg ℚ) : ∀ (ops : List Op) (s : Sys ℚ), s.ts ≠ [] →
    Static s (ops.foldl (applyOp cfg) s) := by
  intro ops
  induction ops with
  | nil => intro s hne; exact ⟨rfl, rfl, rfl, rfl, hne⟩
  | cons op r ih =>
    intro s hne
    have h1 := applyOp_static cfg s op hne
    have h2 := ih (applyOp cfg s op) h1.nonempty
    exact ⟨h2.t0.trans h1.t0, h2.tf.trans h1.tf, h2.dt0.trans h1.dt0, h2.first.trans h1.first, h2.nonempty⟩

end DVP.Loop
