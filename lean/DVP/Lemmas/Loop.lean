import DV.Model.Loop
import DVP.Lemmas.Brent
import Mathlib.Tactic.Linarith
import Mathlib.Tactic.Positivity
import Mathlib.Tactic.Ring

/-! Invariants of the `OdeSystem` loop model over `ℚ`. -/
namespace DVP.Loop
open DV DV.Loop DVP.Brent

theorem signC_rat (x : ℚ) : signC x = if x < 0 then -1 else if 0 < x then 1 else 0 := by
  unfold signC; simp

/-- `fixDir` makes a non-zero step point along a non-zero span -/
theorem fixDir_toward (dt span : ℚ) (hdt : dt ≠ 0) (hs : span ≠ 0) : 0 < fixDir dt span * span := by
  unfold fixDir
  simp only [signC_rat]
  rcases lt_or_gt_of_ne hdt with h | h <;> rcases lt_or_gt_of_ne hs with h' | h'
  · rw [if_pos h, if_pos h']; simp only [bne_self_eq_false, Bool.false_eq_true, if_false]
    exact mul_pos_of_neg_of_neg h h'
  · rw [if_pos h, if_neg (not_lt.mpr (le_of_lt h')), if_pos h']
    simp only [show ((-1 : Int) != 1) = true by decide, if_true]; nlinarith
  · rw [if_neg (not_lt.mpr (le_of_lt h)), if_pos h, if_pos h']
    simp only [show ((1 : Int) != -1) = true by decide, if_true]; nlinarith
  · rw [if_neg (not_lt.mpr (le_of_lt h)), if_pos h, if_neg (not_lt.mpr (le_of_lt h')), if_pos h']
    simp only [bne_self_eq_false, Bool.false_eq_true, if_false]
    exact mul_pos h h'

theorem fixDir_ne_zero (dt span : ℚ) (hdt : dt ≠ 0) : fixDir dt span ≠ 0 := by
  unfold fixDir; split
  · exact neg_ne_zero.mpr hdt
  · exact hdt

theorem fixDir_abs (dt span : ℚ) : |fixDir dt span| = |dt| := by
  unfold fixDir; split
  · exact abs_neg dt
  · rfl

/-- what the integrator contract (K1/K2 of DESIGN.md §3.5) demands of one return value for the
request `h`: a non-zero step in the direction of the request and not longer than it, and a non-zero
proposal for the next step.  Faults are allowed. -/
def RetOK (h : ℚ) : Ret ℚ → Prop
  | .ok newDt dT => dT ≠ 0 ∧ 0 < dT * h ∧ |dT| ≤ |h| ∧ newDt ≠ 0
  | .raise => True
  | .interrupt => True

/-- the integrator honours its contract for every non-zero request -/
def OracleOK (orc : Oracle ℚ) : Prop := ∀ k t h, h ≠ 0 → RetOK h (orc k t h).ret

/-- a callback never assigns a zero step -/
def CbsNonzero (orc : Oracle ℚ) : Prop := ∀ k t h v, (orc k t h).cbDt = some v → v ≠ 0

/-- no callback assigns `dt` -/
def NoCbAssign (orc : Oracle ℚ) : Prop := ∀ k t h, (orc k t h).cbDt = none

/-- the loop invariant, relative to a fixed direction `σ ≠ 0` of the call: the target is reached, or
both the step and the remaining distance point along `σ` -/
def Inv (σ target : ℚ) (s : Sys ℚ) : Prop :=
  target = s.tcur ∨ (0 < s.dt * σ ∧ 0 < (target - s.tcur) * σ)

/-- new samples, oldest first, starting after `t`: every step moves strictly toward the target and
none passes it -/
def Steps (target : ℚ) : ℚ → List ℚ → Prop
  | _, [] => True
  | t, t1 :: r => 0 < (t1 - t) * (target - t) ∧ 0 ≤ (target - t1) * (target - t) ∧ Steps target t1 r

theorem guard_rat (cfg : Cfg ℚ) (target : ℚ) (s : Sys ℚ) :
    DV.Loop.guard cfg target s = true ↔ s.dt ≠ 0 ∧ cfg.tolEps ≤ |target - s.tcur| := by
  unfold DV.Loop.guard
  simp [absC_rat]

theorem isFinal_rat (target : ℚ) (s : Sys ℚ) : isFinal target s = true ↔ |target - s.tcur| < |s.dt| := by
  unfold isFinal; simp [absC_rat]

theorem request_rat (target : ℚ) (s : Sys ℚ) :
    DV.Loop.request target s = if |target - s.tcur| < |s.dt| then target - s.tcur else s.dt := by
  unfold DV.Loop.request
  by_cases h : |target - s.tcur| < |s.dt|
  · rw [if_pos ((isFinal_rat target s).mpr h), if_pos h]
  · have : ¬ (isFinal target s = true) := fun h' => h ((isFinal_rat target s).mp h')
    rw [if_neg this, if_neg h]

/-- the request points at the target and is not longer than the remaining distance -/
theorem request_props (target : ℚ) (s : Sys ℚ) (hI : 0 < s.dt * (target - s.tcur)) :
    0 < DV.Loop.request target s * (target - s.tcur) ∧ |DV.Loop.request target s| ≤ |target - s.tcur| := by
  rw [request_rat]
  have hD : target - s.tcur ≠ 0 := by intro h; rw [h] at hI; simp at hI
  split
  · exact ⟨mul_self_pos.mpr hD, le_refl _⟩
  · rename_i h; exact ⟨hI, not_lt.mp h⟩

/-- one accepted step: progress, no overshoot -/
theorem step_progress (D h dT : ℚ) (hh : 0 < h * D) (hle : |h| ≤ |D|) (hd : 0 < dT * h) (hdle : |dT| ≤ |h|) :
    0 < dT * D ∧ 0 ≤ (D - dT) * D := by
  rcases lt_trichotomy D 0 with hD | hD | hD
  · have h1 : h < 0 := by nlinarith
    have h2 : dT < 0 := by nlinarith
    rw [abs_of_neg h1, abs_of_neg hD] at hle
    rw [abs_of_neg h2, abs_of_neg h1] at hdle
    constructor <;> nlinarith
  · rw [hD] at hh; simp at hh
  · have h1 : 0 < h := by nlinarith
    have h2 : 0 < dT := by nlinarith
    rw [abs_of_pos h1, abs_of_pos hD] at hle
    rw [abs_of_pos h2, abs_of_pos h1] at hdle
    constructor <;> nlinarith

theorem same_sign_mul {a b σ : ℚ} (ha : 0 < a * σ) (hb : 0 < b * σ) : 0 < a * b := by
  rcases lt_trichotomy σ 0 with h | h | h
  · have : a < 0 := by nlinarith
    have : b < 0 := by nlinarith
    nlinarith
  · rw [h] at ha; simp at ha
  · have : 0 < a := by nlinarith
    have : 0 < b := by nlinarith
    nlinarith

theorem sign_transfer {a b σ : ℚ} (hab : 0 < a * b) (hb : 0 < b * σ) : 0 < a * σ := by
  rcases lt_trichotomy σ 0 with h | h | h
  · have : b < 0 := by nlinarith
    have : a < 0 := by nlinarith
    nlinarith
  · rw [h] at hb; simp at hb
  · have : 0 < b := by nlinarith
    have : 0 < a := by nlinarith
    nlinarith

theorem sign_transfer' {a b σ : ℚ} (hab : 0 ≤ a * b) (ha : a ≠ 0) (hb : 0 < b * σ) : 0 < a * σ := by
  have hb0 : b ≠ 0 := by intro h; rw [h] at hb; simp at hb
  have : 0 < a * b := lt_of_le_of_ne hab (Ne.symm (mul_ne_zero ha hb0))
  exact sign_transfer this hb

theorem tcur_cons (s : Sys ℚ) (x : ℚ) (c : Nat) (d : ℚ) : ({ s with ts := x :: s.ts, cap := c, dt := d } : Sys ℚ).tcur = x := rfl

/-- **Grid invariant of the loop.**  For every integrator and callbacks honouring the contract,
every number of iterations and every starting state whose step points at the target: the samples
the loop appends move strictly monotonically toward the target, none passes it, the invariant is
kept, and if the loop leaves through its guard the last time is within `tolEps` of the target. -/
theorem loop_grid (cfg : Cfg ℚ) (htol : 0 < cfg.tolEps) (target σ : ℚ) (orc : Oracle ℚ)
    (hor : OracleOK orc) (hcv : CbsNonzero orc) :
    ∀ (fuel k : Nat) (s : Sys ℚ) (reqs : List (Req ℚ)), Inv σ target s → s.dt ≠ 0 →
      (NoCbAssign orc ∨ 0 < (s.tf - s.t0) * σ) →
      ∃ news : List ℚ, (loop cfg target orc fuel k s reqs).sys.ts = news.reverse ++ s.ts ∧
        Steps target s.tcur news ∧ Inv σ target (loop cfg target orc fuel k s reqs).sys ∧
        (loop cfg target orc fuel k s reqs).sys.dt ≠ 0 ∧
        (loop cfg target orc fuel k s reqs).sys.t0 = s.t0 ∧ (loop cfg target orc fuel k s reqs).sys.tf = s.tf ∧
        (loop cfg target orc fuel k s reqs).sys.dt0 = s.dt0 ∧
        (loop cfg target orc fuel k s reqs).sys.crashed = s.crashed ∧
        ((loop cfg target orc fuel k s reqs).guardExit = true →
          |target - (loop cfg target orc fuel k s reqs).sys.tcur| < cfg.tolEps) := by
  intro fuel
  induction fuel with
  | zero =>
    intro k s reqs hI hdt0 _
    refine ⟨[], by simp [loop], trivial, by simpa [loop] using hI, by simpa [loop] using hdt0, rfl, rfl, rfl, rfl, ?_⟩
    intro hg
    simp only [loop, Bool.not_eq_eq_eq_not, Bool.not_true] at hg
    have hg' : ¬ (s.dt ≠ 0 ∧ cfg.tolEps ≤ |target - s.tcur|) := by
      intro h; rw [(guard_rat cfg target s).mpr h] at hg; exact Bool.noConfusion hg
    simp only [loop]
    rcases hI with h | ⟨h1, _⟩
    · rw [h]; simpa using htol
    · have : s.dt ≠ 0 := by intro h; rw [h] at h1; simp at h1
      by_contra hc
      exact hg' ⟨this, not_lt.mp hc⟩
  | succ n ih =>
    intro k s reqs hI hdt0 hcb
    unfold loop
    by_cases hg : DV.Loop.guard cfg target s = true
    · -- the loop body runs
      simp only [hg, Bool.not_true, Bool.false_eq_true, if_false]
      obtain ⟨hdt, hD⟩ := (guard_rat cfg target s).mp hg
      have hDne : target ≠ s.tcur := by
        intro h; rw [h, sub_self, abs_zero] at hD; linarith
      rcases hI with h | ⟨hI1, hI2⟩
      · exact absurd h hDne
      have hdD : 0 < s.dt * (target - s.tcur) := same_sign_mul hI1 hI2
      obtain ⟨hr1, hr2⟩ := request_props target s hdD
      have hrne : DV.Loop.request target s ≠ 0 := by intro h; rw [h] at hr1; simp at hr1
      have hok := hor k s.tcur (DV.Loop.request target s) hrne
      generalize hit : orc k s.tcur (DV.Loop.request target s) = it at hok ⊢
      rcases hret : it.ret with ⟨newDt, dT⟩ | _ | _
      · -- an accepted step
        rw [hret] at hok
        obtain ⟨_, hd1, hd2, hnd⟩ := hok
        simp only
        obtain ⟨hp1, hp2⟩ := step_progress (target - s.tcur) _ dT hr1 hr2 hd1 hd2
        rcases hgrow : growth target s dT with _ | g
        · exact ⟨[], by simp, trivial, Or.inr ⟨hI1, hI2⟩, hdt0, rfl, rfl, rfl, rfl, by simp⟩
        · simp only
          -- facts about the advanced state
          have hts : (advance target s it newDt dT g).ts = (s.tcur + dT) :: s.ts := rfl
          have htc : (advance target s it newDt dT g).tcur = s.tcur + dT := rfl
          have ht0 : (advance target s it newDt dT g).t0 = s.t0 := rfl
          have htf : (advance target s it newDt dT g).tf = s.tf := rfl
          have hstep : 0 < (s.tcur + dT - s.tcur) * (target - s.tcur) ∧ 0 ≤ (target - (s.tcur + dT)) * (target - s.tcur) := by
            constructor
            · have : s.tcur + dT - s.tcur = dT := by ring
              rw [this]; exact hp1
            · have : target - (s.tcur + dT) = target - s.tcur - dT := by ring
              rw [this]; exact hp2
          have hInv' : Inv σ target (advance target s it newDt dT g) := by
            by_cases hz : target = s.tcur + dT
            · left; rw [htc]; exact hz
            · right
              have hD'ne : target - (s.tcur + dT) ≠ 0 := sub_ne_zero.mpr hz
              have hD'σ : 0 < (target - (s.tcur + dT)) * σ := sign_transfer' hstep.2 hD'ne hI2
              rw [htc]
              refine ⟨?_, hD'σ⟩
              show 0 < (advance target s it newDt dT g).dt * σ
              unfold advance
              simp only
              rcases hcbv : it.cbDt with _ | v
              · simp only
                split
                · exact hI1
                · exact sign_transfer (fixDir_toward newDt _ hnd hD'ne) hD'σ
              · simp only
                have hv : v ≠ 0 := hcv k s.tcur (DV.Loop.request target s) v (by rw [hit]; exact hcbv)
                rcases hcb with hno | hdir
                · have := hno k s.tcur (DV.Loop.request target s)
                  rw [hit, hcbv] at this; exact absurd this (by simp)
                · have hspan : s.tf - s.t0 ≠ 0 := by intro h; rw [h] at hdir; simp at hdir
                  exact sign_transfer (fixDir_toward v _ hv hspan) hdir
          have hdt' : (advance target s it newDt dT g).dt ≠ 0 := by
            unfold advance
            simp only
            rcases hcbv : it.cbDt with _ | v
            · simp only
              split
              · exact hdt0
              · exact fixDir_ne_zero _ _ hnd
            · simp only
              exact fixDir_ne_zero _ _ (hcv k s.tcur (DV.Loop.request target s) v (by rw [hit]; exact hcbv))
          by_cases hcr : it.cbRaise = true
          · simp only [hcr, if_true]
            refine ⟨[s.tcur + dT], by simp [hts], ⟨hstep.1, hstep.2, trivial⟩, ?_, hdt', rfl, rfl, rfl, rfl, by simp⟩
            rcases hInv' with h | h
            · exact Or.inl h
            · exact Or.inr h
          · simp only [hcr, Bool.false_eq_true, if_false]
            obtain ⟨news, h1, h2, h3, h4, h5, h6, h7, h8, h9⟩ := ih (k + 1) (advance target s it newDt dT g)
              ({ t := s.tcur, h := DV.Loop.request target s, final := isFinal target s, cap := s.cap } :: reqs) hInv' hdt'
              (by rw [ht0, htf]; exact hcb)
            refine ⟨(s.tcur + dT) :: news, ?_, ?_, h3, h4, h5, h6, h7, h8, h9⟩
            · rw [h1, hts]; simp
            · rw [htc] at h2
              exact ⟨hstep.1, hstep.2, h2⟩
      · exact ⟨[], by simp, trivial, Or.inr ⟨hI1, hI2⟩, hdt0, rfl, rfl, rfl, rfl, by simp⟩
      · exact ⟨[], by simp, trivial, Or.inr ⟨hI1, hI2⟩, hdt0, rfl, rfl, rfl, rfl, by simp⟩
    · -- the guard stops the loop
      have hg2 : DV.Loop.guard cfg target s = false := by simpa using hg
      simp only [hg2, Bool.not_false, if_true]
      refine ⟨[], by simp, trivial, hI, hdt0, trivial, trivial, trivial, trivial, fun _ => ?_⟩
      have hg' : ¬ (s.dt ≠ 0 ∧ cfg.tolEps ≤ |target - s.tcur|) := fun h => hg ((guard_rat cfg target s).mpr h)
      rcases hI with h | ⟨h1, _⟩
      · rw [h]; simpa using htol
      · have : s.dt ≠ 0 := by intro h; rw [h] at h1; simp at h1
        by_contra hc
        exact hg' ⟨this, not_lt.mp hc⟩


/-- the step `integrate` starts from points at the target -/
theorem initialDt_toward (cfg : Cfg ℚ) (hhalf : 0 < cfg.half) (s : Sys ℚ) (target : ℚ) (hdt : s.dt ≠ 0)
    (hD : target ≠ s.tcur) :
    0 < initialDt cfg s target * (target - s.tcur) := by
  have hDne : target - s.tcur ≠ 0 := sub_ne_zero.mpr hD
  unfold initialDt
  simp only [absC_rat]
  split
  · have : |target - s.tcur| * cfg.half ≠ 0 := mul_ne_zero (abs_ne_zero.mpr hDne) (ne_of_gt hhalf)
    exact fixDir_toward _ _ this hDne
  · exact fixDir_toward _ _ hdt hDne

/-- **`integrate(target)` (no events).**  From any state with a non-zero step, for every integrator and
callbacks honouring the contract and any fuel: the recorded grid is extended by samples that move
strictly monotonically toward the target without passing it (so the earlier samples are untouched
and the new ones start from the current time); if the call leaves through the loop guard — i.e. it
returns normally — the last recorded time is within `max eps tolEps` of the target; and the step
stays non-zero for the next call. -/
theorem integrate_grid (cfg : Cfg ℚ) (heps : 0 < cfg.eps) (htol : 0 < cfg.tolEps) (hhalf : 0 < cfg.half)
    (s : Sys ℚ) (target : ℚ) (orc : Oracle ℚ) (fuel : Nat)
    (hdt : s.dt ≠ 0) (hor : OracleOK orc) (hcv : CbsNonzero orc)
    (hcb : NoCbAssign orc ∨ 0 < (s.tf - s.t0) * (target - s.tcur)) :
    ∃ news : List ℚ, (integrate cfg s target orc fuel).sys.ts = news.reverse ++ s.ts ∧
      Steps target s.tcur news ∧ (integrate cfg s target orc fuel).sys.dt ≠ 0 ∧
      (integrate cfg s target orc fuel).sys.t0 = s.t0 ∧ (integrate cfg s target orc fuel).sys.tf = s.tf ∧
      (integrate cfg s target orc fuel).sys.dt0 = s.dt0 ∧
      ((integrate cfg s target orc fuel).guardExit = true →
        |target - (integrate cfg s target orc fuel).sys.tcur| < max cfg.eps cfg.tolEps) := by
  unfold integrate
  split
  · exact ⟨[], by simp, trivial, hdt, rfl, rfl, rfl, by simp⟩
  · simp only [absC_rat]
    split
    · rename_i h
      exact ⟨[], by simp, trivial, hdt, rfl, rfl, rfl, fun _ => lt_of_lt_of_le h (le_max_right _ _)⟩
    · rename_i hcr hfar
      have hD : target ≠ s.tcur := by
        intro h; rw [h, sub_self, abs_zero] at hfar; exact hfar htol
      have hDne : target - s.tcur ≠ 0 := sub_ne_zero.mpr hD
      have hinit := initialDt_toward cfg hhalf s target hdt hD
      have hinit0 : initialDt cfg s target ≠ 0 := by intro h; rw [h] at hinit; simp at hinit
      split
      · exact ⟨[], by simp, trivial, hinit0, rfl, rfl, rfl, by simp⟩
      · rename_i n _
        have hσ : 0 < (target - s.tcur) * (target - s.tcur) := mul_self_pos.mpr hDne
        obtain ⟨news, h1, h2, _, h4, h5, h6, h7, _, h9⟩ := loop_grid cfg htol target (target - s.tcur) orc hor hcv fuel 0
          { s with dt := initialDt cfg s target, cap := s.cap + n,
                   status := if s.status == 2 ∨ s.status == 3 ∨ s.status == 4 then 0 else s.status } []
          (Or.inr ⟨hinit, hσ⟩) hinit0 hcb
        refine ⟨news, ?_, h2, ?_, h5, h6, h7, ?_⟩
        · simpa using h1
        · simpa using h4
        · intro hg
          exact lt_of_lt_of_le (h9 hg) (le_max_right _ _)

end DVP.Loop
