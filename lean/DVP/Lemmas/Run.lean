import DVP.Lemmas.LoopFixed
import DVP.Lemmas.LoopEquiv
import DVP.Lemmas.RKEquiv
import DV.Model.Run

/-! Whole runs with states (`DV.Run`): the recorded states of a fixed-step run are the iterates of the
step map over the recorded times; shifting the time axis (autonomous problem) or mirroring it (the
time-reversed problem) leaves the states of a run as they are. -/
namespace DVP.Run
open DV DV.Loop DV.Run DVP.Loop

theorem fixedOrc_eq : (DV.Run.fixedOrc : Oracle ℚ) = DVP.Loop.fixedOrc := rfl

/-- times and requests of one call, both newest first, on top of the times `base` recorded before the
call: each request starts at a recorded time and ends at the next one -/
def Trace (base : List ℚ) : List ℚ → List (Req ℚ) → Prop
  | ts, [] => ts = base
  | t' :: t :: rest, r :: rs => r.t = t ∧ t' = t + r.h ∧ Trace base (t :: rest) rs
  | [], _ :: _ => False
  | [_], _ :: _ => False

theorem growth_some (target : ℚ) (s : Sys ℚ) (dT : ℚ) : ∃ g, growth target s dT = some g := by
  unfold growth
  split
  · simp [allocSteps, HasTrunc.truncInt, HasTrunc.isInf]
  · exact ⟨0, rfl⟩

/-- the loop with a fixed-step integrator records one time per request and never fails -/
theorem loop_trace (cfg : Cfg ℚ) (target : ℚ) (base : List ℚ) :
    ∀ (fuel k : Nat) (s : Sys ℚ) (reqs : List (Req ℚ)), s.ts ≠ [] → Trace base s.ts reqs →
      Trace base (loop cfg target DVP.Loop.fixedOrc fuel k s reqs).sys.ts (loop cfg target DVP.Loop.fixedOrc fuel k s reqs).reqs ∧
      (loop cfg target DVP.Loop.fixedOrc fuel k s reqs).sys.ts ≠ [] ∧
      (loop cfg target DVP.Loop.fixedOrc fuel k s reqs).sys.status = s.status := by
  intro fuel
  induction fuel with
  | zero => intro k s reqs hne htr; simpa [loop] using ⟨htr, hne⟩
  | succ n ih =>
    intro k s reqs hne htr
    unfold loop
    by_cases hg : DV.Loop.guard cfg target s = true
    · simp only [hg, Bool.not_true, Bool.false_eq_true, if_false, DVP.Loop.fixedOrc]
      obtain ⟨g, hgr⟩ := growth_some target s (request target s)
      simp only [hgr]
      obtain ⟨t, rest, hts⟩ : ∃ t rest, s.ts = t :: rest := by
        cases h : s.ts with
        | nil => exact absurd h hne
        | cons t rest => exact ⟨t, rest, rfl⟩
      have htc : s.tcur = t := by simp [Sys.tcur, hts]
      have hadv : (advance target s { ret := .ok (request target s) (request target s) } (request target s) (request target s) g).ts =
          (t + request target s) :: t :: rest := by
        simp [advance, htc, hts]
      have hst : (advance target s { ret := .ok (request target s) (request target s) } (request target s) (request target s) g).status =
          s.status := by
        simp [advance]
      have := ih (k + 1) (advance target s { ret := .ok (request target s) (request target s) } (request target s) (request target s) g)
        ({ t := s.tcur, h := request target s, final := isFinal target s, cap := s.cap } :: reqs)
        (by rw [hadv]; simp)
        (by rw [hadv]; exact ⟨htc, rfl, by rw [← hts]; exact htr⟩)
      simpa [hst] using this
    · have hg' : DV.Loop.guard cfg target s = false := by simpa using hg
      simpa [hg'] using ⟨htr, hne⟩

/-- one `integrate` call with a fixed-step integrator: the new times are the end points of the requests -/
theorem integrate_trace (cfg : Cfg ℚ) (s : Sys ℚ) (target : ℚ) (fuel : Nat) (hne : s.ts ≠ []) :
    Trace s.ts (Loop.integrate cfg s target DVP.Loop.fixedOrc fuel).sys.ts (Loop.integrate cfg s target DVP.Loop.fixedOrc fuel).reqs ∧
      (Loop.integrate cfg s target DVP.Loop.fixedOrc fuel).sys.ts ≠ [] := by
  unfold Loop.integrate
  by_cases hc : s.crashed = true
  · simpa [hc, Trace] using hne
  · simp only [hc, Bool.false_eq_true, if_false]
    split
    · simpa [Trace] using hne
    · split
      · simpa [Trace] using hne
      · dsimp only
        exact ⟨(loop_trace cfg target s.ts fuel 0 _ [] (by simpa using hne) (by simp [Trace])).1,
          (loop_trace cfg target s.ts fuel 0 _ [] (by simpa using hne) (by simp [Trace])).2.1⟩

variable {V : Type}

/-- times and states (both newest first) are paired, and every state is its predecessor plus the
increment of one step over the recorded interval -/
def StepsOK (add : V → V → V) (inc : ℚ → V → ℚ → V) : List ℚ → List V → Prop
  | [_], [_] => True
  | t' :: t :: ts, y' :: y :: ys => y' = add y (inc t y (t' - t)) ∧ StepsOK add inc (t :: ts) (y :: ys)
  | _, _ => False

theorem StepsOK.length_eq {add : V → V → V} {inc : ℚ → V → ℚ → V} : ∀ {ts : List ℚ} {ys : List V},
    StepsOK add inc ts ys → ts.length = ys.length
  | [], _, h => by simp [StepsOK] at h
  | [_], [], h => by simp [StepsOK] at h
  | [_], [_], _ => rfl
  | [_], _ :: _ :: _, h => by simp [StepsOK] at h
  | _ :: _ :: _, [], h => by simp [StepsOK] at h
  | _ :: _ :: _, [_], h => by simp [StepsOK] at h
  | _ :: t :: ts, _ :: y :: ys, h => by
    have := StepsOK.length_eq (ts := t :: ts) (ys := y :: ys) h.2
    simp only [List.length_cons] at this ⊢
    omega

theorem extend_steps (add : V → V → V) (inc : ℚ → V → ℚ → V) (base : List ℚ) (ys0 : List V)
    (h0 : StepsOK add inc base ys0) :
    ∀ (rs : List (Req ℚ)) (ts : List ℚ), Trace base ts rs → StepsOK add inc ts (extend add inc ys0 rs)
  | [], ts, htr => by
    simp only [Trace] at htr
    simpa [extend, htr] using h0
  | r :: rs, [], htr => by simp [Trace] at htr
  | r :: rs, [_], htr => by simp [Trace] at htr
  | r :: rs, t' :: t :: rest, htr => by
    obtain ⟨h1, h2, h3⟩ := htr
    have ih := extend_steps add inc base ys0 h0 rs (t :: rest) h3
    cases hex : extend add inc ys0 rs with
    | nil => rw [hex] at ih; simp [StepsOK] at ih
    | cons y ys =>
      rw [hex] at ih
      simp only [extend, hex]
      refine ⟨?_, ih⟩
      rw [h1, h2]
      congr 2
      ring

theorem extend_getLast (add : V → V → V) (inc : ℚ → V → ℚ → V) (ys0 : List V) :
    ∀ (rs : List (Req ℚ)), extend add inc ys0 rs ≠ [] → (extend add inc ys0 rs).getLast? = ys0.getLast?
  | [], _ => rfl
  | r :: rs, hne => by
    cases hex : extend add inc ys0 rs with
    | nil => simp [extend, hex] at hne
    | cons y ys =>
      have ih := extend_getLast add inc ys0 rs (by simp [hex])
      simp only [extend, hex]
      rw [hex] at ih
      rw [← ih]
      simp [List.getLast?_cons_cons]

/-- **One call keeps the samples well formed**: if times and states were paired step by step before
the call, they are after it, the first sample is still the first sample. -/
theorem integrate_steps (cfg : Cfg ℚ) (add : V → V → V) (inc : ℚ → V → ℚ → V) (s : SysY ℚ V) (target : ℚ) (fuel : Nat)
    (h : StepsOK add inc s.sys.ts s.ys) :
    StepsOK add inc (DV.Run.integrate cfg add inc s target fuel).sys.ts (DV.Run.integrate cfg add inc s target fuel).ys ∧
      (DV.Run.integrate cfg add inc s target fuel).ys.getLast? = s.ys.getLast? := by
  have hne : s.sys.ts ≠ [] := by
    intro h0; rw [h0] at h; simp [StepsOK] at h
  have htr := integrate_trace cfg s.sys target fuel hne
  have hs := extend_steps add inc s.sys.ts s.ys h _ _ htr.1
  refine ⟨hs, ?_⟩
  apply extend_getLast
  intro h0
  have hl := hs.length_eq
  rw [← fixedOrc_eq] at hl
  rw [h0] at hl
  exact htr.2 (by rw [← fixedOrc_eq]; exact List.length_eq_zero_iff.mp hl)

/-- any sequence of calls -/
theorem calls_steps (cfg : Cfg ℚ) (add : V → V → V) (inc : ℚ → V → ℚ → V) (fuel : Nat) :
    ∀ (targets : List ℚ) (s : SysY ℚ V), StepsOK add inc s.sys.ts s.ys →
      StepsOK add inc (calls cfg add inc fuel s targets).sys.ts (calls cfg add inc fuel s targets).ys ∧
        (calls cfg add inc fuel s targets).ys.getLast? = s.ys.getLast?
  | [], s, h => ⟨h, rfl⟩
  | t :: rest, s, h => by
    have h1 := integrate_steps cfg add inc s t fuel h
    have h2 := calls_steps cfg add inc fuel rest _ h1.1
    exact ⟨h2.1, h2.2.trans h1.2⟩

/-- the states computed from the times satisfy the step relation -/
theorem ysOf_steps (add : V → V → V) (inc : ℚ → V → ℚ → V) (y0 : V) : ∀ (ts : List ℚ), ts ≠ [] →
    StepsOK add inc ts (ysOf add inc y0 ts) ∧ (ysOf add inc y0 ts).getLast? = some y0
  | [], h => absurd rfl h
  | [_], _ => by simp [ysOf, StepsOK]
  | t' :: t :: rest, _ => by
    have ih := ysOf_steps add inc y0 (t :: rest) (by simp)
    cases hy : ysOf add inc y0 (t :: rest) with
    | nil => rw [hy] at ih; simp [StepsOK] at ih
    | cons y ys =>
      rw [hy] at ih
      simp only [ysOf, hy]
      refine ⟨⟨rfl, ih.1⟩, ?_⟩
      rw [List.getLast?_cons_cons]; exact ih.2

theorem trace_getLast (base : List ℚ) (hb : base ≠ []) : ∀ (rs : List (Req ℚ)) (ts : List ℚ), Trace base ts rs → ts.getLast? = base.getLast?
  | [], ts, h => by simp only [Trace] at h; rw [h]
  | _ :: _, [], h => by simp [Trace] at h
  | _ :: _, [_], h => by simp [Trace] at h
  | _ :: rs, t' :: t :: rest, h => by
    rw [List.getLast?_cons_cons]
    exact trace_getLast base hb rs (t :: rest) h.2.2

/-- the first recorded time stays the first recorded time -/
theorem calls_first_time (cfg : Cfg ℚ) (add : V → V → V) (inc : ℚ → V → ℚ → V) (fuel : Nat) :
    ∀ (targets : List ℚ) (s : SysY ℚ V), s.sys.ts ≠ [] →
      (calls cfg add inc fuel s targets).sys.ts.getLast? = s.sys.ts.getLast?
  | [], _, _ => rfl
  | t :: rest, s, hne => by
    have htr := integrate_trace cfg s.sys t fuel hne
    have h1 : (DV.Run.integrate cfg add inc s t fuel).sys.ts.getLast? = s.sys.ts.getLast? :=
      trace_getLast s.sys.ts hne _ _ htr.1
    have h2 := calls_first_time cfg add inc fuel rest (DV.Run.integrate cfg add inc s t fuel) htr.2
    exact h2.trans h1

/-! ## the `t_eval` loop of the facade -/

/-- the system left by the facade's loop is the system left by the same calls through the object API -/
theorem tevalLoop_sys (cfg : Cfg ℚ) (add : V → V → V) (inc : ℚ → V → ℚ → V) (fuel : Nat) :
    ∀ (ts : List ℚ) (s : SysY ℚ V), (tevalLoop cfg add inc fuel s ts).1 = calls cfg add inc fuel s ts
  | [], _ => rfl
  | t :: rest, s => by
    simp only [tevalLoop, calls]
    exact tevalLoop_sys cfg add inc fuel rest _

/-- recorded samples as pairs, newest first -/
def samples (s : SysY ℚ V) : List (ℚ × V) := List.zip s.sys.ts s.ys

theorem trace_suffix (base : List ℚ) : ∀ (rs : List (Req ℚ)) (ts : List ℚ), Trace base ts rs →
    ∃ news, ts = news ++ base ∧ news.length = rs.length
  | [], ts, h => ⟨[], by simpa [Trace] using h, rfl⟩
  | _ :: _, [], h => by simp [Trace] at h
  | _ :: _, [_], h => by simp [Trace] at h
  | _ :: rs, t' :: t :: rest, h => by
    obtain ⟨news, h1, h2⟩ := trace_suffix base rs (t :: rest) h.2.2
    exact ⟨t' :: news, by rw [h1]; rfl, by simp [h2]⟩

theorem extend_suffix (add : V → V → V) (inc : ℚ → V → ℚ → V) (ys0 : List V) (hne : ys0 ≠ []) :
    ∀ (rs : List (Req ℚ)), ∃ news, extend add inc ys0 rs = news ++ ys0 ∧ news.length = rs.length
  | [] => ⟨[], rfl, rfl⟩
  | r :: rs => by
    obtain ⟨news, h1, h2⟩ := extend_suffix add inc ys0 hne rs
    cases hex : extend add inc ys0 rs with
    | nil =>
      rw [hex] at h1
      cases news with
      | nil => exact absurd h1.symm hne
      | cons a l => simp at h1
    | cons y ys =>
      refine ⟨add y (inc r.t y r.h) :: news, ?_, by simp [h2]⟩
      simp only [extend, hex]
      rw [hex] at h1
      rw [h1]; rfl

/-- a call only adds samples: the earlier ones stay, as a suffix of the newest-first list -/
theorem integrate_samples_suffix (cfg : Cfg ℚ) (add : V → V → V) (inc : ℚ → V → ℚ → V) (s : SysY ℚ V) (target : ℚ) (fuel : Nat)
    (h : StepsOK add inc s.sys.ts s.ys) :
    ∃ pre, samples (DV.Run.integrate cfg add inc s target fuel) = pre ++ samples s := by
  have hne : s.sys.ts ≠ [] := by intro h0; rw [h0] at h; simp [StepsOK] at h
  have hyne : s.ys ≠ [] := by
    intro h0; have := h.length_eq; rw [h0] at this
    exact hne (List.length_eq_zero_iff.mp this)
  obtain ⟨nt, ht1, ht2⟩ := trace_suffix s.sys.ts _ _ (integrate_trace cfg s.sys target fuel hne).1
  obtain ⟨ny, hy1, hy2⟩ := extend_suffix add inc s.ys hyne (Loop.integrate cfg s.sys target DVP.Loop.fixedOrc fuel).reqs
  refine ⟨List.zip nt ny, ?_⟩
  unfold samples DV.Run.integrate
  rw [fixedOrc_eq]
  simp only
  rw [ht1, hy1, List.zip_append (by rw [ht2, hy2])]

theorem calls_samples_suffix (cfg : Cfg ℚ) (add : V → V → V) (inc : ℚ → V → ℚ → V) (fuel : Nat) :
    ∀ (ts : List ℚ) (s : SysY ℚ V), StepsOK add inc s.sys.ts s.ys → ∃ pre, samples (calls cfg add inc fuel s ts) = pre ++ samples s
  | [], s, _ => ⟨[], rfl⟩
  | t :: rest, s, h => by
    obtain ⟨p1, h1⟩ := integrate_samples_suffix cfg add inc s t fuel h
    obtain ⟨p2, h2⟩ := calls_samples_suffix cfg add inc fuel rest _ (integrate_steps cfg add inc s t fuel h).1
    exact ⟨p2 ++ p1, by simp only [calls]; rw [h2, h1, List.append_assoc]⟩

/-- the facade returns one column per requested time, and every column is a recorded sample of the system it hands back -/
theorem tevalLoop_columns (cfg : Cfg ℚ) (add : V → V → V) (inc : ℚ → V → ℚ → V) (fuel : Nat) :
    ∀ (ts : List ℚ) (s : SysY ℚ V), StepsOK add inc s.sys.ts s.ys →
      (tevalLoop cfg add inc fuel s ts).2.length = ts.length ∧
      ∀ c ∈ (tevalLoop cfg add inc fuel s ts).2, c ∈ samples (tevalLoop cfg add inc fuel s ts).1
  | [], s, _ => ⟨rfl, fun c hc => by simp [tevalLoop] at hc⟩
  | t :: rest, s, h => by
    have h1 := (integrate_steps cfg add inc s t fuel h).1
    obtain ⟨ihl, ihm⟩ := tevalLoop_columns cfg add inc fuel rest _ h1
    -- the newest sample of the system after the call
    obtain ⟨tt, tr, y, yr, e1, e2⟩ : ∃ tt tr y yr, (DV.Run.integrate cfg add inc s t fuel).sys.ts = tt :: tr ∧
        (DV.Run.integrate cfg add inc s t fuel).ys = y :: yr := by
      cases e1 : (DV.Run.integrate cfg add inc s t fuel).sys.ts with
      | nil => rw [e1] at h1; simp [StepsOK] at h1
      | cons tt tr =>
        cases e2 : (DV.Run.integrate cfg add inc s t fuel).ys with
        | nil => rw [e1, e2] at h1; cases tr <;> simp [StepsOK] at h1
        | cons y yr => exact ⟨tt, tr, y, yr, rfl, rfl⟩
    have hhead : (tt, y) ∈ samples (DV.Run.integrate cfg add inc s t fuel) := by
      unfold samples; rw [e1, e2]; simp
    obtain ⟨pre, hpre⟩ := calls_samples_suffix cfg add inc fuel rest _ h1
    simp only [tevalLoop, e1, e2]
    refine ⟨by simp [ihl], ?_⟩
    intro c hc
    simp only [List.cons_append, List.nil_append, List.mem_cons] at hc
    rcases hc with rfl | hc
    · rw [tevalLoop_sys, hpre]; exact List.mem_append_right _ hhead
    · exact ihm c hc

/-! ## shifting and mirroring the time axis -/

theorem extend_shift (add : V → V → V) (inc : ℚ → V → ℚ → V) (c : ℚ) (hinc : ∀ t y h, inc (t + c) y h = inc t y h)
    (ys0 : List V) : ∀ rs : List (Req ℚ), extend add inc ys0 (rs.map (shiftReq c)) = extend add inc ys0 rs
  | [] => rfl
  | r :: rs => by
    simp only [List.map_cons, extend, extend_shift add inc c hinc ys0 rs]
    cases extend add inc ys0 rs with
    | nil => rfl
    | cons y ys => simp [shiftReq, hinc]

theorem extend_refl (add : V → V → V) (inc inc' : ℚ → V → ℚ → V) (hinc : ∀ t y h, inc' (-t) y (-h) = inc t y h)
    (ys0 : List V) : ∀ rs : List (Req ℚ), extend add inc' ys0 (rs.map reflReq) = extend add inc ys0 rs
  | [] => rfl
  | r :: rs => by
    simp only [List.map_cons, extend, extend_refl add inc inc' hinc ys0 rs]
    cases extend add inc ys0 rs with
    | nil => rfl
    | cons y ys => simp [reflReq, hinc]


/-! ## the increments of the shipped step maps -/
section steps
open DV.RK DVP.RK
variable {W : Type} [AddCommGroup W] [Module ℚ W]

/-- an autonomous right-hand side: the explicit Runge–Kutta increment does not see the time -/
theorem rkInc_autonomous (ops : VOps ℚ V) (g : V → V) (c : List ℚ) (A : List (List ℚ)) (b : List ℚ) (fsal : Bool) (t t' : ℚ) (y : V) (h : ℚ) :
    rkInc ops (fun _ y => g y) c A b fsal t y h = rkInc ops (fun _ y => g y) c A b fsal t' y h := rfl

/-- the increment of the time-reversed problem over the mirrored step is the same increment -/
theorem rkInc_reflection (f : ℚ → W → W) (c : List ℚ) (A : List (List ℚ)) (b : List ℚ) (fsal : Bool) (t : ℚ) (y : W) (h : ℚ) :
    rkInc (modOps (V := W)) (reflF f) c A b fsal (-t) y (-h) = rkInc (modOps (V := W)) f c A b fsal t y h := by
  have := (rkStep_reflection f t y h c A b fsal (List.replicate c.length (0 : W))).1
  simpa [rkInc, modOps] using this

theorem splitFold_autonomous (ops : VOps ℚ V) (g : V → V) (mm : ℚ → ℚ → V → V) (y : V) (h : ℚ) :
    ∀ (l : List (ℚ × ℚ)) (acc : V) (t t' : ℚ),
      (l.foldl (fun (acc : V × ℚ) p =>
        let aux := ops.smul h ((fun _ y => g y) acc.2 (ops.add y acc.1))
        (ops.add acc.1 (mm p.1 p.2 aux), acc.2 + h * p.1)) (acc, t)).1 =
      (l.foldl (fun (acc : V × ℚ) p =>
        let aux := ops.smul h ((fun _ y => g y) acc.2 (ops.add y acc.1))
        (ops.add acc.1 (mm p.1 p.2 aux), acc.2 + h * p.1)) (acc, t')).1
  | [], _, _, _ => rfl
  | p :: l, acc, t, t' => by
    simp only [List.foldl_cons]
    exact splitFold_autonomous ops g mm y h l _ _ _

/-- an autonomous right-hand side: the splitting increment does not see the time -/
theorem splitInc_autonomous (ops : VOps ℚ V) (g : V → V) (mm : ℚ → ℚ → V → V) (drift kick : List ℚ) (t t' : ℚ) (y : V) (h : ℚ) :
    splitInc ops (fun _ y => g y) mm drift kick t y h = splitInc ops (fun _ y => g y) mm drift kick t' y h := by
  unfold splitInc splitStep
  exact splitFold_autonomous ops g mm y h _ _ _ _

theorem splitFold_reflection (f : ℚ → W → W) (mm : ℚ → ℚ → W → W) (y : W) (h : ℚ) :
    ∀ (l : List (ℚ × ℚ)) (acc : W) (t : ℚ),
      (l.foldl (fun (acc : W × ℚ) p =>
        let aux := (modOps (V := W)).smul (-h) (reflF f acc.2 ((modOps (V := W)).add y acc.1))
        ((modOps (V := W)).add acc.1 (mm p.1 p.2 aux), acc.2 + (-h) * p.1)) (acc, -t)).1 =
      (l.foldl (fun (acc : W × ℚ) p =>
        let aux := (modOps (V := W)).smul h (f acc.2 ((modOps (V := W)).add y acc.1))
        ((modOps (V := W)).add acc.1 (mm p.1 p.2 aux), acc.2 + h * p.1)) (acc, t)).1
  | [], _, _ => rfl
  | p :: l, acc, t => by
    simp only [List.foldl_cons]
    have h1 : (modOps (V := W)).smul (-h) (reflF f (-t) ((modOps (V := W)).add y acc)) =
        (modOps (V := W)).smul h (f t ((modOps (V := W)).add y acc)) := by
      simp [modOps, reflF]
    have h2 : -t + -h * p.1 = -(t + h * p.1) := by ring
    rw [h1, h2]
    exact splitFold_reflection f mm y h l _ _

/-- the splitting increment of the time-reversed problem over the mirrored step is the same increment -/
theorem splitInc_reflection (f : ℚ → W → W) (mm : ℚ → ℚ → W → W) (drift kick : List ℚ) (t : ℚ) (y : W) (h : ℚ) :
    splitInc (modOps (V := W)) (reflF f) mm drift kick (-t) y (-h) = splitInc (modOps (V := W)) f mm drift kick t y h := by
  unfold splitInc splitStep
  exact splitFold_reflection f mm y h _ _ _

end steps

/-! ## whole runs under a shift / a reflection of the time axis -/

theorem shiftOrc_fixed (c : ℚ) : shiftOrc c DVP.Loop.fixedOrc = DVP.Loop.fixedOrc := by funext k t h; rfl
theorem reflOrc_fixed : reflOrc DVP.Loop.fixedOrc = DVP.Loop.fixedOrc := by
  funext k t h; simp [reflOrc, reflIter, DVP.Loop.fixedOrc]

/-- the run of the shifted system to the shifted target: shifted times, identical states -/
theorem integrate_shift_states (cfg : Cfg ℚ) (add : V → V → V) (inc : ℚ → V → ℚ → V) (c : ℚ)
    (hinc : ∀ t y h, inc (t + c) y h = inc t y h) (s : SysY ℚ V) (target : ℚ) (fuel : Nat) :
    DV.Run.integrate cfg add inc { sys := shiftSys c s.sys, ys := s.ys } (target + c) fuel =
      { sys := shiftSys c (DV.Run.integrate cfg add inc s target fuel).sys, ys := (DV.Run.integrate cfg add inc s target fuel).ys } := by
  unfold DV.Run.integrate
  rw [fixedOrc_eq]
  have h := integrate_shift cfg c target s.sys DVP.Loop.fixedOrc fuel
  rw [shiftOrc_fixed] at h
  simp only [h, shiftOut]
  rw [extend_shift add inc c hinc]

/-- the run of the mirrored system to the mirrored target with the increment of the time-reversed
problem: mirrored times, identical states -/
theorem integrate_refl_states (cfg : Cfg ℚ) (add : V → V → V) (inc inc' : ℚ → V → ℚ → V)
    (hinc : ∀ t y h, inc' (-t) y (-h) = inc t y h) (s : SysY ℚ V) (target : ℚ) (fuel : Nat) :
    DV.Run.integrate cfg add inc' { sys := reflSys s.sys, ys := s.ys } (-target) fuel =
      { sys := reflSys (DV.Run.integrate cfg add inc s target fuel).sys, ys := (DV.Run.integrate cfg add inc s target fuel).ys } := by
  unfold DV.Run.integrate
  rw [fixedOrc_eq]
  have h := integrate_refl cfg target s.sys DVP.Loop.fixedOrc fuel
  rw [reflOrc_fixed] at h
  simp only [h, reflOut]
  rw [extend_refl add inc inc' hinc]

end DVP.Run
