import DVP.Lemmas.Loop

/-! Bounded requests: if the step in force and every step a callback assigns are at most `M` in
magnitude, every step requested from the integrator is at most `M` (the `max_step` clause). -/
namespace DVP.Loop
open DV DV.Loop DVP.Brent

/-- every callback assigns a value of magnitude at most `M`, at every iteration -/
def CbBounded (M : ℚ) (orc : Oracle ℚ) : Prop := ∀ k t h, ∃ v, (orc k t h).cbDt = some v ∧ |v| ≤ M

theorem request_le_dt (target : ℚ) (s : Sys ℚ) : |DV.Loop.request target s| ≤ |s.dt| := by
  rw [request_rat]
  split
  · rename_i h; exact le_of_lt h
  · exact le_refl _

/-- with a clipping callback in every iteration, all requests (newest first, appended to `reqs`) are
bounded by `M` -/
theorem loop_requests_bounded (cfg : Cfg ℚ) (target M : ℚ) (orc : Oracle ℚ) (hcb : CbBounded M orc) :
    ∀ (fuel k : Nat) (s : Sys ℚ) (reqs : List (Req ℚ)), |s.dt| ≤ M → (∀ r ∈ reqs, |r.h| ≤ M) →
      ∀ r ∈ (loop cfg target orc fuel k s reqs).reqs, |r.h| ≤ M := by
  intro fuel
  induction fuel with
  | zero => intro k s reqs _ hr; simpa [loop] using hr
  | succ n ih =>
    intro k s reqs hdt hr
    unfold loop
    by_cases hg : DV.Loop.guard cfg target s = true
    · simp only [hg, Bool.not_true, Bool.false_eq_true, if_false]
      have hreq : |DV.Loop.request target s| ≤ M := le_trans (request_le_dt target s) hdt
      have hr' : ∀ r ∈ ({ t := s.tcur, h := DV.Loop.request target s, final := isFinal target s, cap := s.cap } : Req ℚ) :: reqs, |r.h| ≤ M := by
        intro r hr1
        rcases List.mem_cons.mp hr1 with h | h
        · rw [h]; exact hreq
        · exact hr r h
      rcases hret : (orc k s.tcur (DV.Loop.request target s)).ret with ⟨newDt, dT⟩ | _ | _
      · simp only
        rcases hgrow : growth target s dT with _ | g
        · exact hr'
        · simp only
          obtain ⟨v, hv1, hv2⟩ := hcb k s.tcur (DV.Loop.request target s)
          have hdt' : |(advance target s (orc k s.tcur (DV.Loop.request target s)) newDt dT g).dt| ≤ M := by
            unfold advance
            simp only [hv1, fixDir_abs]
            exact hv2
          by_cases hcr : (orc k s.tcur (DV.Loop.request target s)).cbRaise = true
          · simp only [hcr, if_true]; exact hr'
          · simp only [hcr, Bool.false_eq_true, if_false]
            exact ih (k + 1) _ _ hdt' hr'
      · exact hr'
      · exact hr'
    · have hg2 : DV.Loop.guard cfg target s = false := by simpa using hg
      simp only [hg2, Bool.not_false, if_true]
      exact hr

end DVP.Loop
