import Mathlib.LinearAlgebra.SymplecticGroup

/-! Shears are symplectic, hence so is every product of shears: the Jacobian of a drift/kick
splitting step of a separable Hamiltonian system (chain rule: the Jacobian of a composition is the
product of the Jacobians of the sub-steps, each a shear with a symmetric Hessian block). -/
namespace DVP.Symplectic
open Matrix

variable {l : Type} [DecidableEq l] [Fintype l]

/-- Jacobian of a drift sub-step `q ↦ q + h a ∇T(p)`: `[[1, S], [0, 1]]` with `S = h a ∇²T(p)` symmetric -/
def driftShear (S : Matrix l l ℚ) : Matrix (l ⊕ l) (l ⊕ l) ℚ := fromBlocks 1 S 0 1

/-- Jacobian of a kick sub-step `p ↦ p − h b ∇V(q)`: `[[1, 0], [S, 1]]` with `S = −h b ∇²V(q)` symmetric -/
def kickShear (S : Matrix l l ℚ) : Matrix (l ⊕ l) (l ⊕ l) ℚ := fromBlocks 1 0 S 1

theorem driftShear_mem (S : Matrix l l ℚ) (hS : Sᵀ = S) : driftShear S ∈ symplecticGroup l ℚ := by
  rw [SymplecticGroup.mem_iff]
  unfold driftShear J
  rw [fromBlocks_transpose, fromBlocks_multiply, fromBlocks_multiply]
  simp [hS]

theorem kickShear_mem (S : Matrix l l ℚ) (hS : Sᵀ = S) : kickShear S ∈ symplecticGroup l ℚ := by
  rw [SymplecticGroup.mem_iff]
  unfold kickShear J
  rw [fromBlocks_transpose, fromBlocks_multiply, fromBlocks_multiply]
  simp [hS]

/-- a stage of a splitting scheme, as far as its Jacobian is concerned -/
inductive Stage (l : Type) where
  | drift (S : Matrix l l ℚ)
  | kick (S : Matrix l l ℚ)

def Stage.jac : Stage l → Matrix (l ⊕ l) (l ⊕ l) ℚ
  | .drift S => driftShear S
  | .kick S => kickShear S

def Stage.symm : Stage l → Prop
  | .drift S => Sᵀ = S
  | .kick S => Sᵀ = S

/-- **The Jacobian of any composition of drift and kick sub-steps is symplectic**: `M J Mᵀ = J`
for the product `M` of the stage Jacobians, for any number of stages, any Hessians (i.e. any
separable Hamiltonian, any state, any step size of either sign, any coefficients). -/
theorem composition_symplectic (stages : List (Stage l)) (h : ∀ s ∈ stages, s.symm) :
    (stages.map Stage.jac).prod ∈ symplecticGroup l ℚ := by
  apply Submonoid.list_prod_mem
  intro M hM
  obtain ⟨s, hs, rfl⟩ := List.mem_map.mp hM
  cases s with
  | drift S => exact driftShear_mem S (h _ hs)
  | kick S => exact kickShear_mem S (h _ hs)

end DVP.Symplectic
