import DV.Model.Trees

/-! Soundness of the order-condition checker: the enumeration with de-duplication reaches (the key
of) EVERY well-formed tree in Butcher-product form, so `checkOrder T p tol = true` implies the order
condition of every such tree with at most `p` vertices. -/
namespace DVP.Trees
open DV.Trees

/-! ## keys and the search tree -/

theorem cmpVec_eq : ∀ (x y : Vec), cmpVec x y = .eq → x = y
  | [], [], _ => rfl
  | [], _ :: _, h => by simp [cmpVec] at h
  | _ :: _, [], h => by simp [cmpVec] at h
  | a :: as, b :: bs, h => by
    unfold cmpVec at h
    by_cases h1 : a < b
    · simp [h1] at h
    · by_cases h2 : b < a
      · simp [h1, h2] at h
      · simp only [h1, h2, if_false] at h
        have : a = b := by omega
        rw [this, cmpVec_eq as bs h]

theorem cmpKey_eq (x y : Key) (h : cmpKey x y = .eq) : x = y := by
  unfold cmpKey at h
  by_cases h1 : x.colour < y.colour
  · simp [h1] at h
  · by_cases h2 : y.colour < x.colour
    · simp [h1, h2] at h
    · simp only [h1, h2, if_false] at h
      by_cases h3 : x.g < y.g
      · simp [h3] at h
      · by_cases h4 : y.g < x.g
        · simp [h3, h4] at h
        · simp only [h3, h4, if_false] at h
          have hp := cmpVec_eq _ _ h
          cases x; cases y
          simp only [Key.mk.injEq] at *
          exact ⟨by omega, hp, by omega⟩

/-- membership in the search tree -/
def bmem (x : Key) : BST → Prop
  | .nil => False
  | .node l k r => bmem x l ∨ x = k ∨ bmem x r

theorem bmem_insert_self (k : Key) : ∀ t : BST, bmem k (t.insert k)
  | .nil => by simp [BST.insert, bmem]
  | .node l k' r => by
    unfold BST.insert
    cases hc : cmpKey k k' with
    | lt => simp only [bmem]; exact Or.inl (bmem_insert_self k l)
    | gt => simp only [bmem]; exact Or.inr (Or.inr (bmem_insert_self k r))
    | eq => simp only [bmem]; exact Or.inr (Or.inl (cmpKey_eq _ _ hc))

theorem bmem_insert_of_mem (x k : Key) : ∀ t : BST, bmem x t → bmem x (t.insert k)
  | .nil, h => by simp [bmem] at h
  | .node l k' r, h => by
    unfold BST.insert
    cases hc : cmpKey k k' with
    | lt =>
      simp only [bmem] at h ⊢
      rcases h with h | h | h
      · exact Or.inl (bmem_insert_of_mem x k l h)
      · exact Or.inr (Or.inl h)
      · exact Or.inr (Or.inr h)
    | gt =>
      simp only [bmem] at h ⊢
      rcases h with h | h | h
      · exact Or.inl h
      · exact Or.inr (Or.inl h)
      · exact Or.inr (Or.inr (bmem_insert_of_mem x k r h))
    | eq => exact h

theorem mem_toListAux (x : Key) : ∀ (t : BST) (acc : List Key), x ∈ t.toListAux acc ↔ (bmem x t ∨ x ∈ acc)
  | .nil, acc => by simp [BST.toListAux, bmem]
  | .node l k r, acc => by
    simp only [BST.toListAux, bmem]
    rw [mem_toListAux x l, List.mem_cons, mem_toListAux x r]
    constructor
    · rintro (h | h | h | h)
      · exact Or.inl (Or.inl h)
      · exact Or.inl (Or.inr (Or.inl h))
      · exact Or.inl (Or.inr (Or.inr h))
      · exact Or.inr h
    · rintro ((h | h | h) | h)
      · exact Or.inl h
      · exact Or.inr (Or.inl h)
      · exact Or.inr (Or.inr (Or.inl h))
      · exact Or.inr (Or.inr (Or.inr h))

theorem mem_toList (x : Key) (t : BST) : x ∈ t.toList ↔ bmem x t := by
  unfold BST.toList
  rw [mem_toListAux]
  simp

/-! ## folds that only ever insert -/

theorem foldl_bmem_mono {β : Type} (step : BST → β → BST) (hmono : ∀ acc b x, bmem x acc → bmem x (step acc b)) :
    ∀ (l : List β) (acc : BST) (x : Key), bmem x acc → bmem x (l.foldl step acc)
  | [], _, _, h => h
  | b :: r, acc, x, h => foldl_bmem_mono step hmono r (step acc b) x (hmono acc b x h)

theorem foldl_bmem_of {β : Type} (step : BST → β → BST) (hmono : ∀ acc b x, bmem x acc → bmem x (step acc b))
    (k : Key) (b : β) (hins : ∀ acc, bmem k (step acc b)) :
    ∀ (l : List β), b ∈ l → ∀ acc : BST, bmem k (l.foldl step acc)
  | [], h, _ => by simp at h
  | c :: r, h, acc => by
    simp only [List.foldl_cons]
    rcases List.mem_cons.mp h with h' | h'
    · subst h'
      exact foldl_bmem_mono step hmono r _ k (hins acc)
    · exact foldl_bmem_of step hmono k b hins r h' _

/-! ## one level of the enumeration -/

def entKey (e : Ent) : Key := { colour := e.colour, phi := e.phi, g := e.g }
def EntOK (T : PTab) (e : Ent) : Prop := e.aphi = matVec (T.A e.colour) e.phi
def keyOf (T : PTab) (τ : BTree) : Key := { colour := τ.colour, phi := τ.phi T, g := τ.g }

theorem entKey_mkEnt (T : PTab) (k : Key) : entKey (mkEnt T k) = k := rfl
theorem entOK_mkEnt (T : PTab) (k : Key) : EntOK T (mkEnt T k) := rfl

/-- the inner step of `pairsInto` -/
private def stepV (T : PTab) (u : Ent) (k : Nat) (acc : BST) (v : Ent) : BST :=
  if T.allowed u.colour v.colour then
    acc.insert { colour := u.colour, phi := had u.phi v.aphi, g := u.g * (k * v.g) }
  else acc

private theorem stepV_mono (T : PTab) (u : Ent) (k : Nat) (acc : BST) (v : Ent) (x : Key) (h : bmem x acc) :
    bmem x (stepV T u k acc v) := by
  unfold stepV
  split
  · exact bmem_insert_of_mem x _ acc h
  · exact h

theorem pairsInto_mono (T : PTab) (Lu Lv : List Ent) (k : Nat) (acc : BST) (x : Key) (h : bmem x acc) :
    bmem x (pairsInto T Lu Lv k acc) := by
  unfold pairsInto
  apply foldl_bmem_mono (fun acc u => Lv.foldl (stepV T u k) acc)
  · intro acc u x hx
    exact foldl_bmem_mono (stepV T u k) (stepV_mono T u k) Lv acc x hx
  · exact h

theorem pairsInto_mem (T : PTab) (Lu Lv : List Ent) (k : Nat) (acc : BST) (u v : Ent) (hu : u ∈ Lu) (hv : v ∈ Lv)
    (hal : T.allowed u.colour v.colour = true) :
    bmem { colour := u.colour, phi := had u.phi v.aphi, g := u.g * (k * v.g) } (pairsInto T Lu Lv k acc) := by
  unfold pairsInto
  apply foldl_bmem_of (fun acc u => Lv.foldl (stepV T u k) acc)
    (fun acc u x hx => foldl_bmem_mono (stepV T u k) (stepV_mono T u k) Lv acc x hx) _ u
  · intro acc
    apply foldl_bmem_of (stepV T u k) (stepV_mono T u k) _ v
    · intro acc
      unfold stepV
      rw [if_pos hal]
      exact bmem_insert_self _ _
    · exact hv
  · exact hu

/-- the search tree `nextLevel` builds -/
def levelTree (T : PTab) (levels : List (List Ent)) (n : Nat) : BST :=
  (List.range (n - 1)).foldl (fun acc km1 =>
      pairsInto T (levels.getD (n - (km1 + 1) - 1) []) (levels.getD (km1 + 1 - 1) []) (km1 + 1) acc) BST.nil

theorem nextLevel_eq (T : PTab) (levels : List (List Ent)) (n : Nat) :
    nextLevel T levels n = (levelTree T levels n).toList.map (mkEnt T) := rfl

theorem levelTree_mem (T : PTab) (levels : List (List Ent)) (n k : Nat) (hk1 : 1 ≤ k) (hk2 : k < n) (u v : Ent)
    (hu : u ∈ levels.getD (n - k - 1) []) (hv : v ∈ levels.getD (k - 1) []) (hal : T.allowed u.colour v.colour = true) :
    bmem { colour := u.colour, phi := had u.phi v.aphi, g := u.g * (k * v.g) } (levelTree T levels n) := by
  unfold levelTree
  apply foldl_bmem_of (fun acc km1 =>
      pairsInto T (levels.getD (n - (km1 + 1) - 1) []) (levels.getD (km1 + 1 - 1) []) (km1 + 1) acc)
    (fun acc km1 x hx => pairsInto_mono T _ _ _ acc x hx) _ (k - 1)
  · intro acc
    have hk : k - 1 + 1 = k := by omega
    simp only [hk]
    exact pairsInto_mem T _ _ k acc u v hu hv hal
  · exact List.mem_range.mpr (by omega)

/-! ## completeness of the levels -/

/-- every well-formed tree with `i + 1` vertices is represented (by its key) in level `i`, and the
cached products `A·Φ` of the entries are right -/
def Complete (T : PTab) (lv : List (List Ent)) : Prop :=
  ∀ i, i < lv.length → (∀ e ∈ lv.getD i [], EntOK T e) ∧
    ∀ τ : BTree, τ.wf T = true → τ.size = i + 1 → ∃ e ∈ lv.getD i [], entKey e = keyOf T τ

theorem size_pos : ∀ τ : BTree, 1 ≤ τ.size
  | .leaf _ => Nat.le_refl _
  | .graft u v => by have := size_pos u; simp only [BTree.size]; omega

theorem complete_level1 (T : PTab) : Complete T [level1 T] := by
  intro i hi
  have hi0 : i = 0 := by simpa using hi
  subst hi0
  simp only [List.getD_cons_zero]
  refine ⟨?_, ?_⟩
  · intro e he
    unfold level1 at he
    obtain ⟨c, _, rfl⟩ := List.mem_map.mp he
    exact entOK_mkEnt T _
  · intro τ hwf hs
    cases τ with
    | leaf c =>
      refine ⟨mkEnt T { colour := c, phi := List.replicate T.stages 1, g := 1 }, ?_, rfl⟩
      unfold level1
      apply List.mem_map.mpr
      refine ⟨c, List.mem_range.mpr ?_, rfl⟩
      simpa [BTree.wf] using hwf
    | graft u v =>
      have := size_pos u; have := size_pos v
      simp only [BTree.size] at hs; omega

theorem getD_append_left' (l : List (List Ent)) (x : List Ent) (i : Nat) (h : i < l.length) :
    (l ++ [x]).getD i [] = l.getD i [] := by
  simp [List.getD_eq_getElem?_getD, List.getElem?_append_left h]

theorem getD_append_last' (l : List (List Ent)) (x : List Ent) : (l ++ [x]).getD l.length [] = x := by
  simp [List.getD_eq_getElem?_getD]

theorem complete_step (T : PTab) (lv : List (List Ent)) (hlen : 1 ≤ lv.length) (h : Complete T lv) :
    Complete T (lv ++ [nextLevel T lv (lv.length + 1)]) := by
  intro i hi
  simp only [List.length_append, List.length_singleton] at hi
  by_cases hlt : i < lv.length
  · rw [getD_append_left' lv _ i hlt]
    exact h i hlt
  · have him : i = lv.length := by omega
    subst him
    rw [getD_append_last', nextLevel_eq]
    refine ⟨?_, ?_⟩
    · intro e he
      obtain ⟨k, _, rfl⟩ := List.mem_map.mp he
      exact entOK_mkEnt T k
    · intro τ hwf hs
      cases τ with
      | leaf c => simp only [BTree.size] at hs; omega
      | graft u v =>
        have hu1 := size_pos u
        have hv1 := size_pos v
        simp only [BTree.size] at hs
        simp only [BTree.wf, Bool.and_eq_true] at hwf
        obtain ⟨⟨hwu, hwv⟩, hal⟩ := hwf
        obtain ⟨_, hcu⟩ := h (u.size - 1) (by omega)
        obtain ⟨eu, heu, hku⟩ := hcu u hwu (by omega)
        obtain ⟨hokv, hcv⟩ := h (v.size - 1) (by omega)
        obtain ⟨ev, hev, hkv⟩ := hcv v hwv (by omega)
        have hidx : lv.length + 1 - v.size - 1 = u.size - 1 := by omega
        have hmem := levelTree_mem T lv (lv.length + 1) v.size hv1 (by omega) eu ev (by rw [hidx]; exact heu) hev
          (by
            have e1 : eu.colour = u.colour := congrArg Key.colour hku
            have e2 : ev.colour = v.colour := congrArg Key.colour hkv
            rw [e1, e2]; exact hal)
        refine ⟨mkEnt T { colour := eu.colour, phi := had eu.phi ev.aphi, g := eu.g * (v.size * ev.g) }, ?_, ?_⟩
        · exact List.mem_map.mpr ⟨_, (mem_toList _ _).mpr hmem, rfl⟩
        · rw [entKey_mkEnt]
          have e1 : eu.colour = u.colour := congrArg Key.colour hku
          have e2 : ev.colour = v.colour := congrArg Key.colour hkv
          have e3 : eu.phi = u.phi T := congrArg Key.phi hku
          have e4 : ev.phi = v.phi T := congrArg Key.phi hkv
          have e5 : eu.g = u.g := congrArg Key.g hku
          have e6 : ev.g = v.g := congrArg Key.g hkv
          have e7 : ev.aphi = matVec (T.A v.colour) (v.phi T) := by rw [hokv ev hev, e2, e4]
          simp only [keyOf, BTree.colour, BTree.phi, BTree.g, e1, e3, e5, e6, e7]

/-- the levels after `q` extension steps -/
def levelsUpTo (T : PTab) (q : Nat) : List (List Ent) :=
  (List.range q).foldl (fun lv i => lv ++ [nextLevel T lv (i + 2)]) [level1 T]

theorem levelsUpTo_spec (T : PTab) : ∀ q, (levelsUpTo T q).length = q + 1 ∧ Complete T (levelsUpTo T q) := by
  intro q
  induction q with
  | zero => exact ⟨rfl, complete_level1 T⟩
  | succ n ih =>
    obtain ⟨hl, hc⟩ := ih
    have hstep : levelsUpTo T (n + 1) = levelsUpTo T n ++ [nextLevel T (levelsUpTo T n) ((levelsUpTo T n).length + 1)] := by
      unfold levelsUpTo
      rw [List.range_succ, List.foldl_append]
      simp only [List.foldl_cons, List.foldl_nil]
      have : (List.foldl (fun lv i => lv ++ [nextLevel T lv (i + 2)]) [level1 T] (List.range n)).length = n + 1 := hl
      rw [this]
    rw [hstep]
    refine ⟨by simp [hl], complete_step T _ (by omega) hc⟩

/-- **Soundness of `checkOrder`**: if the checker accepts order `p`, then the order condition (with the
same tolerance) holds for EVERY well-formed tree in Butcher-product form with at most `p` vertices —
the de-duplicated enumeration misses none. -/
theorem checkOrder_sound (T : PTab) (p tolDen : Nat) (h : checkOrder T p tolDen = true)
    (τ : BTree) (hwf : τ.wf T = true) (hs : τ.size ≤ p) : treeCond T tolDen τ = true := by
  have hpos := size_pos τ
  obtain ⟨hl, hc⟩ := levelsUpTo_spec T (p - 1)
  have hb : buildLevels T p = levelsUpTo T (p - 1) := rfl
  unfold checkOrder at h
  simp only [hb, List.all_eq_true, List.mem_range] at h
  obtain ⟨_, hcomp⟩ := hc (τ.size - 1) (by omega)
  obtain ⟨e, he, hk⟩ := hcomp τ hwf (by omega)
  have := h (τ.size - 1) (by omega) e he
  unfold entOk at this
  unfold treeCond
  have e1 : e.colour = τ.colour := congrArg Key.colour hk
  have e3 : e.phi = τ.phi T := congrArg Key.phi hk
  have e5 : e.g = τ.g := congrArg Key.g hk
  have hsz : τ.size - 1 + 1 = τ.size := by omega
  rw [e1, e3, e5, hsz] at this
  exact this

end DVP.Trees
