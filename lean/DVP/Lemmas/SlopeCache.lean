import DV.Model.SlopeCache

/-! The cache invariant: whenever the tags name a point, the cached slope is the right-hand side there. -/
namespace DVP.SlopeCache
open DV.SlopeCache

variable {α S R : Type} [DecidableEq α] [DecidableEq S] [Add α]

/-- the cached slope belongs to the tagged point -/
def Inv (f : α → S → R) (c : Cache α S R) : Prop :=
  ∀ t y r, c.tags = some (t, y) → c.rhs = some r → r = f t y

theorem inv_empty (f : α → S → R) : Inv f (empty : Cache α S R) := by
  intro t y r h; simp [empty] at h

theorem runAttempts_getLast (f : α → S → R) (adv : α → S → α → S) (t : α) (y : S) :
    ∀ (hs : List α) (r0 : Option R) (h : α), hs.getLast? = some h →
      runAttempts f adv t y hs r0 = some (f (t + h) (adv t y h))
  | [], _, _, hl => by simp at hl
  | [a], _, h, hl => by
    simp at hl; subst hl; rfl
  | a :: b :: rest, r0, h, hl => by
    have : (b :: rest).getLast? = some h := by simpa [List.getLast?_cons_cons] using hl
    show runAttempts f adv t y (b :: rest) (some (f (t + a) (adv t y a))) = _
    exact runAttempts_getLast f adv t y (b :: rest) (some (f (t + a) (adv t y a))) h this

/-- the slope handed to the step as its start slope is the right-hand side at the start point,
whether it was reused or evaluated -/
theorem call_initial (f : α → S → R) (adv : α → S → α → S) (c : Cache α S R) (hc : Inv f c) (t : α) (y : S) (e : Ending α) :
    (call f adv c t y e).initialRhs = f t y := by
  have key : (match c.tags, c.rhs with
      | some (ft, fy), some r => if ft = t ∧ fy = y then some r else none
      | _, _ => none : Option R).getD (f t y) = f t y := by
    rcases htag : c.tags with _ | ⟨ft, fy⟩
    · rfl
    · rcases hr : c.rhs with _ | r
      · rfl
      · simp only
        by_cases h : ft = t ∧ fy = y
        · rw [if_pos h]
          obtain ⟨rfl, rfl⟩ := h
          exact hc ft fy r htag hr
        · rw [if_neg h]; rfl
  cases e <;> exact key

/-- a call — completed or abandoned at any point — leaves the invariant intact -/
theorem call_inv (f : α → S → R) (adv : α → S → α → S) (c : Cache α S R) (t : α) (y : S) (e : Ending α) :
    Inv f (call f adv c t y e).cache := by
  cases e with
  | abandoned hs => intro t' y' r h; simp [call] at h
  | completed hs =>
    intro t' y' r htag hr
    simp only [call] at htag hr
    rcases hl : hs.getLast? with _ | h
    · rw [hl] at htag; simp at htag
    · rw [hl] at htag
      simp only [Option.some.injEq, Prod.mk.injEq] at htag
      obtain ⟨rfl, rfl⟩ := htag
      rw [runAttempts_getLast f adv t y hs c.rhs h hl] at hr
      exact (Option.some.inj hr).symm

/-- a history of calls: `(t, y, ending)` each -/
def runCalls (f : α → S → R) (adv : α → S → α → S) : Cache α S R → List (α × S × Ending α) → Cache α S R
  | c, [] => c
  | c, (t, y, e) :: rest => runCalls f adv (call f adv c t y e).cache rest

/-- **Every history**: after any sequence of completed and abandoned calls, from any points, with any
attempted steps, the cache is consistent — so the start slope of every later step is the right-hand
side at its start point -/
theorem history_inv (f : α → S → R) (adv : α → S → α → S) :
    ∀ (calls : List (α × S × Ending α)) (c : Cache α S R), Inv f c → Inv f (runCalls f adv c calls)
  | [], _, hc => hc
  | (t, y, e) :: rest, c, _ => history_inv f adv rest _ (call_inv f adv c t y e)

theorem history_initial (f : α → S → R) (adv : α → S → α → S) (calls : List (α × S × Ending α)) (t : α) (y : S) (e : Ending α) :
    (call f adv (runCalls f adv empty calls) t y e).initialRhs = f t y :=
  call_initial f adv _ (history_inv f adv calls empty (inv_empty f)) t y e

end DVP.SlopeCache
