import DV.Model.RK
import DVP.Lemmas.Brent
import Mathlib.Algebra.Module.Defs
import Mathlib.Algebra.Field.Defs

/-! The Runge–Kutta step model over an arbitrary module: the code's peculiarities (masked stage
sums, in-place stage storage with stale contents, FSAL shortcut) do not change the mathematical
Runge–Kutta update. -/
namespace DVP.RK
open DV DV.RK

variable {V : Type} [AddCommGroup V] [Module ℚ V]

/-- the operations of a `ℚ`-module as the model's `VOps` -/
def modOps : VOps ℚ V := { add := (· + ·), smul := (· • ·), zero := 0 }

theorem foldl_masked_eq (anyNz : Bool) (l : List (ℚ × V)) (acc : V) :
    l.foldl (fun acc p => if !anyNz || !(p.1 == (Lit.lit 0 : ℚ)) then (modOps (V := V)).add acc ((modOps (V := V)).smul p.1 p.2) else acc) acc =
    l.foldl (fun acc p => (modOps (V := V)).add acc ((modOps (V := V)).smul p.1 p.2)) acc := by
  induction l generalizing acc with
  | nil => rfl
  | cons p r ih =>
    simp only [List.foldl_cons]
    by_cases hc : (!anyNz || !(p.1 == (Lit.lit 0 : ℚ))) = true
    · rw [if_pos hc]; exact ih _
    · rw [if_neg hc]
      have hp : p.1 = 0 := by
        simp only [Bool.or_eq_true, Bool.not_eq_true', not_or, Bool.not_eq_false] at hc
        have := hc.2
        simpa [DVP.Brent.lit_rat] using this
      have : (modOps (V := V)).add acc ((modOps (V := V)).smul p.1 p.2) = acc := by
        simp [modOps, hp]
      rw [this]; exact ih _

/-- **The masked stage sum is the full sum** (the skipped terms have coefficient zero). -/
theorem maskedSum_eq_wsum (coeffs : List ℚ) (ks : List V) :
    maskedSum (modOps (V := V)) coeffs ks = wsum (modOps (V := V)) coeffs ks := by
  unfold maskedSum wsum
  have := foldl_masked_eq (V := V) true (List.zip coeffs ks) (modOps (V := V)).zero
  simpa using this

/-- the weighted sum only looks at stages whose coefficient is non-zero -/
theorem wsum_congr : ∀ (coeffs : List ℚ) (ks ks' : List V) (acc : V), ks.length = ks'.length →
    (∀ j, coeffs.getD j 0 ≠ 0 → ks.getD j 0 = ks'.getD j 0) →
    (List.zip coeffs ks).foldl (fun acc p => (modOps (V := V)).add acc ((modOps (V := V)).smul p.1 p.2)) acc =
    (List.zip coeffs ks').foldl (fun acc p => (modOps (V := V)).add acc ((modOps (V := V)).smul p.1 p.2)) acc
  | [], _, _, _, _, _ => by simp
  | _ :: _, [], [], _, _, _ => by simp
  | _ :: _, [], _ :: _, _, h, _ => by simp at h
  | _ :: _, _ :: _, [], _, h, _ => by simp at h
  | a :: cs, k :: ks, k' :: ks', acc, hlen, h => by
    simp only [List.zip_cons_cons, List.foldl_cons]
    have h0 := h 0
    simp only [List.getD_cons_zero] at h0
    have hstep : (modOps (V := V)).add acc ((modOps (V := V)).smul a k) = (modOps (V := V)).add acc ((modOps (V := V)).smul a k') := by
      by_cases ha : a = 0
      · simp [modOps, ha]
      · rw [h0 ha]
    rw [hstep]
    apply wsum_congr cs ks ks'
    · simpa using hlen
    · intro j hj
      have := h (j + 1)
      simpa using this hj

end DVP.RK

namespace DVP.RK
open DV DV.RK

variable {V : Type} [AddCommGroup V] [Module ℚ V]

/-- strictly lower triangular coefficient matrix: an explicit method -/
def Explicit (A : List (List ℚ)) : Prop := ∀ i j, i ≤ j → (A.getD i []).getD j 0 = 0

/-- the right-hand side of the `i`-th stage equation for the stage slopes `ks` -/
def stageEq (f : ℚ → V → V) (t : ℚ) (y : V) (h : ℚ) (c : List ℚ) (A : List (List ℚ)) (i : Nat) (ks : List V) : V :=
  f (t + h * c.getD i 0) (y + h • wsum (modOps (V := V)) (A.getD i []) ks)

theorem getD_set (l : List V) (m i : Nat) (r : V) :
    (l.set m r).getD i 0 = if i = m ∧ m < l.length then r else l.getD i 0 := by
  simp only [List.getD_eq_getElem?_getD, List.getElem?_set]
  by_cases him : m = i
  · subst him
    by_cases hl : m < l.length
    · simp [hl]
    · simp [hl]
  · have : ¬ (i = m ∧ m < l.length) := fun h => him h.1.symm
    simp [him, this]

/-- `wsum` of row `i` does not see a change of stage `m ≥ i` (explicit table) -/
theorem wsum_set_ge (A : List (List ℚ)) (hA : Explicit A) (i m : Nat) (him : i ≤ m) (ks : List V) (r : V) :
    wsum (modOps (V := V)) (A.getD i []) (ks.set m r) = wsum (modOps (V := V)) (A.getD i []) ks := by
  unfold wsum
  apply wsum_congr
  · simp
  · intro j hj
    rw [getD_set]
    by_cases hjm : j = m ∧ m < ks.length
    · exfalso; apply hj; rw [hjm.1]; exact hA i m him
    · rw [if_neg hjm]

theorem stageStep_stages (f : ℚ → V → V) (t : ℚ) (y : V) (h : ℚ) (c : List ℚ) (A : List (List ℚ)) (st : StageState V) (m : Nat) :
    (stageStep (modOps (V := V)) f t y h c A st m).stages = st.stages.set m (stageEq f t y h c A m st.stages) := by
  unfold stageStep stageEq
  simp only [maskedSum_eq_wsum, DVP.Brent.lit_rat, Nat.cast_zero]
  rfl

/-- invariant of the stage loop after `m` stages -/
theorem stages_partial (f : ℚ → V → V) (t : ℚ) (y : V) (h : ℚ) (c : List ℚ) (A : List (List ℚ)) (hA : Explicit A)
    (stages : List V) : ∀ m, m ≤ stages.length →
    let st := (List.range m).foldl (stageStep (modOps (V := V)) f t y h c A) { stages := stages, lastD := 0, lastRhs := 0 }
    st.stages.length = stages.length ∧ ∀ i, i < m → st.stages.getD i 0 = stageEq f t y h c A i st.stages := by
  intro m
  induction m with
  | zero => intro _; simp
  | succ n ih =>
    intro hn
    have ihn := ih (by omega)
    simp only at ihn ⊢
    rw [List.range_succ, List.foldl_append]
    simp only [List.foldl_cons, List.foldl_nil]
    generalize hst : (List.range n).foldl (stageStep (modOps (V := V)) f t y h c A) { stages := stages, lastD := 0, lastRhs := 0 } = st at ihn ⊢
    obtain ⟨hlen, heq⟩ := ihn
    rw [stageStep_stages]
    refine ⟨by simp [hlen], ?_⟩
    intro i hi
    rw [getD_set]
    -- the stage equations do not see the new entry
    have hsame : ∀ i, i ≤ n → stageEq f t y h c A i (st.stages.set n (stageEq f t y h c A n st.stages)) = stageEq f t y h c A i st.stages := by
      intro i hi
      unfold stageEq
      rw [wsum_set_ge A hA i n hi]
    by_cases hin : i = n ∧ n < st.stages.length
    · rw [if_pos hin, hin.1, hsame n (Nat.le_refl _)]
    · rw [if_neg hin]
      have hi' : i < n := by
        rcases Nat.lt_or_ge i n with h | h
        · exact h
        · exfalso; apply hin; exact ⟨by omega, by rw [hlen]; omega⟩
      rw [heq i hi', hsame i (Nat.le_of_lt hi')]

/-- **The stage loop computes the Runge–Kutta stages**: for an explicit table, for every
right-hand side, time, state, step (of either sign) and whatever the stage storage contained
before, the slopes left in the storage satisfy `k_i = f(t + c_i h, y + h Σ_j a_ij k_j)`. -/
theorem computeStep_spec (f : ℚ → V → V) (t : ℚ) (y : V) (h : ℚ) (c : List ℚ) (A : List (List ℚ)) (hA : Explicit A)
    (stages : List V) :
    let ks := (computeStep (modOps (V := V)) f t y h c A stages).stages
    ks.length = stages.length ∧ ∀ i, i < stages.length → ks.getD i 0 = stageEq f t y h c A i ks := by
  unfold computeStep
  exact stages_partial f t y h c A hA stages stages.length (Nat.le_refl _)

end DVP.RK

namespace DVP.RK
open DV DV.RK

variable {V : Type} [AddCommGroup V] [Module ℚ V]

/-- the generic branch of `step`: the increment is `h · Σ b_i k_i` over stages that satisfy the
stage equations, and the end slope is `f(t + h, y + increment)` -/
theorem rkStep_generic (f : ℚ → V → V) (t : ℚ) (y : V) (h : ℚ) (c : List ℚ) (A : List (List ℚ)) (b : List ℚ)
    (hA : Explicit A) (stages : List V) :
    let out := rkStepExplicit (modOps (V := V)) f t y h c A b false stages
    (∀ i, i < stages.length → out.stages.getD i 0 = stageEq f t y h c A i out.stages) ∧
    out.dState = h • wsum (modOps (V := V)) b out.stages ∧ out.finalRhs = f (t + h) (y + out.dState) := by
  have hs := computeStep_spec f t y h c A hA stages
  simp only at hs
  unfold rkStepExplicit
  simp only [Bool.false_eq_true, if_false]
  exact ⟨hs.2, rfl, rfl⟩

/-- **FSAL shortcut**: when the last row of `A` is the weight row `b`, the partial sum of the last
stage *is* `h · Σ b_i k_i`, and the last stage's slope is `f(t + c_s h, y + increment)` — the end
slope when `c_s = 1`. -/
theorem rkStep_fsal (f : ℚ → V → V) (t : ℚ) (y : V) (h : ℚ) (c : List ℚ) (A : List (List ℚ)) (b : List ℚ)
    (hA : Explicit A) (stages : List V) (n : Nat) (hn : stages.length = n + 1) (hb : A.getD n [] = b) :
    let out := rkStepExplicit (modOps (V := V)) f t y h c A b true stages
    (∀ i, i < stages.length → out.stages.getD i 0 = stageEq f t y h c A i out.stages) ∧
    out.dState = h • wsum (modOps (V := V)) b out.stages ∧
    out.finalRhs = f (t + h * c.getD n 0) (y + out.dState) := by
  have hs := computeStep_spec f t y h c A hA stages
  simp only at hs
  unfold rkStepExplicit
  simp only [if_true]
  refine ⟨hs.2, ?_, ?_⟩
  all_goals
    unfold computeStep
    rw [hn, List.range_succ, List.foldl_append]
    simp only [List.foldl_cons, List.foldl_nil]
    generalize (List.range n).foldl (stageStep (modOps (V := V)) f t y h c A) { stages := stages, lastD := (modOps (V := V)).zero, lastRhs := (modOps (V := V)).zero } = st
    unfold stageStep
    simp only [maskedSum_eq_wsum, DVP.Brent.lit_rat, Nat.cast_zero]
  · -- the increment
    show (modOps (V := V)).smul h (wsum modOps (A.getD n []) st.stages) = h • wsum modOps b (st.stages.set n _)
    rw [← hb, wsum_set_ge A hA n n (Nat.le_refl _)]
    rfl
  · show f (t + h * c.getD n 0) ((modOps (V := V)).add y ((modOps (V := V)).smul h (wsum modOps (A.getD n []) st.stages))) = _
    rfl

end DVP.RK
