import DVP.Lemmas.Loop

/-! Faults in the loop model: prefix property and status bookkeeping. -/
namespace DVP.Loop
open DV DV.Loop DVP.Brent

/-- **Prefix property.**  If an environment `orc'` behaves like `orc` for the first `j` iterations
and its integrator raises at iteration `j`, then what the faulty run has recorded is exactly what
the fault-free run has recorded after `j` iterations — whatever happens in `orc` afterwards. -/
theorem loop_fault_prefix (cfg : Cfg ℚ) (target : ℚ) (orc orc' : Oracle ℚ) :
    ∀ (j fuel k : Nat) (s : Sys ℚ) (reqs : List (Req ℚ)),
      (∀ i, k ≤ i → i < k + j → ∀ t h, orc' i t h = orc i t h) →
      (∀ t h, (orc' (k + j) t h).ret = .raise ∨ (orc' (k + j) t h).ret = .interrupt) → j < fuel →
      (loop cfg target orc' fuel k s reqs).sys.ts = (loop cfg target orc j k s reqs).sys.ts ∧
      (loop cfg target orc' fuel k s reqs).sys.dt = (loop cfg target orc j k s reqs).sys.dt := by
  intro j
  induction j with
  | zero =>
    intro fuel k s reqs _ hraise hf
    obtain ⟨n, rfl⟩ : ∃ n, fuel = n + 1 := ⟨fuel - 1, by omega⟩
    simp only [loop]
    by_cases hg : DV.Loop.guard cfg target s = true
    · simp only [hg, Bool.not_true, Bool.false_eq_true, if_false]
      rcases hraise s.tcur (DV.Loop.request target s) with h | h <;> simp at h <;> rw [h] <;> exact ⟨rfl, rfl⟩
    · have hg2 : DV.Loop.guard cfg target s = false := by simpa using hg
      simp [hg2]
  | succ m ih =>
    intro fuel k s reqs hagree hraise hf
    obtain ⟨n, rfl⟩ : ∃ n, fuel = n + 1 := ⟨fuel - 1, by omega⟩
    unfold loop
    by_cases hg : DV.Loop.guard cfg target s = true
    · simp only [hg, Bool.not_true, Bool.false_eq_true, if_false]
      have hk := hagree k (Nat.le_refl _) (by omega) s.tcur (DV.Loop.request target s)
      rw [hk]
      rcases hret : (orc k s.tcur (DV.Loop.request target s)).ret with ⟨newDt, dT⟩ | _ | _
      · simp only
        rcases hgrow : growth target s dT with _ | g
        · exact ⟨rfl, rfl⟩
        · simp only
          by_cases hcr : (orc k s.tcur (DV.Loop.request target s)).cbRaise = true
          · simp only [hcr, if_true]; exact ⟨trivial, trivial⟩
          · simp only [hcr, Bool.false_eq_true, if_false]
            apply ih
            · intro i hi1 hi2 t h; exact hagree i (by omega) (by omega) t h
            · intro t h
              have := hraise t h
              rwa [show k + (m + 1) = k + 1 + m by omega] at this
            · omega
      · exact ⟨rfl, rfl⟩
      · exact ⟨rfl, rfl⟩
    · have hg2 : DV.Loop.guard cfg target s = false := by simpa using hg
      simp [hg2]

/-- leaving through the guard does not touch the status -/
theorem loop_status_guard (cfg : Cfg ℚ) (target : ℚ) (orc : Oracle ℚ) :
    ∀ (fuel k : Nat) (s : Sys ℚ) (reqs : List (Req ℚ)),
      (loop cfg target orc fuel k s reqs).guardExit = true → (loop cfg target orc fuel k s reqs).sys.status = s.status := by
  intro fuel
  induction fuel with
  | zero => intro k s reqs _; rfl
  | succ n ih =>
    intro k s reqs
    unfold loop
    by_cases hg : DV.Loop.guard cfg target s = true
    · simp only [hg, Bool.not_true, Bool.false_eq_true, if_false]
      rcases hret : (orc k s.tcur (DV.Loop.request target s)).ret with ⟨newDt, dT⟩ | _ | _
      · simp only
        rcases hgrow : growth target s dT with _ | g
        · simp
        · simp only
          by_cases hcr : (orc k s.tcur (DV.Loop.request target s)).cbRaise = true
          · simp [hcr]
          · simp only [hcr, Bool.false_eq_true, if_false]
            intro h
            rw [ih _ _ _ h]
            rfl
      · simp
      · simp
    · have hg2 : DV.Loop.guard cfg target s = false := by simpa using hg
      simp [hg2]

/-- a run that does not leave through the guard although fuel is left has recorded a failure
(status 3) or a keyboard interrupt (status 4) -/
theorem loop_fault_status (cfg : Cfg ℚ) (target : ℚ) (orc : Oracle ℚ) :
    ∀ (fuel k : Nat) (s : Sys ℚ) (reqs : List (Req ℚ)),
      (loop cfg target orc fuel k s reqs).guardExit = false →
      (loop cfg target orc fuel k s reqs).iters < k + fuel ∨ fuel = 0 →
      (loop cfg target orc fuel k s reqs).sys.status = 3 ∨ (loop cfg target orc fuel k s reqs).sys.status = 4 ∨ fuel = 0 := by
  intro fuel
  induction fuel with
  | zero => intro k s reqs _ _; exact Or.inr (Or.inr rfl)
  | succ n ih =>
    intro k s reqs
    unfold loop
    by_cases hg : DV.Loop.guard cfg target s = true
    · simp only [hg, Bool.not_true, Bool.false_eq_true, if_false]
      rcases hret : (orc k s.tcur (DV.Loop.request target s)).ret with ⟨newDt, dT⟩ | _ | _
      · simp only
        rcases hgrow : growth target s dT with _ | g
        · intro _ _; exact Or.inl rfl
        · simp only
          by_cases hcr : (orc k s.tcur (DV.Loop.request target s)).cbRaise = true
          · simp only [hcr, if_true]; intro _ _; exact Or.inl trivial
          · simp only [hcr, Bool.false_eq_true, if_false]
            intro h1 h2
            rcases n with _ | n'
            · -- no fuel left for the recursive call: it made exactly one call, so iters = k + 1, contradiction
              exfalso
              simp only [loop] at h2
              omega
            · rcases ih (k + 1) _ _ h1 (Or.inl (by omega)) with h | h | h
              · exact Or.inl h
              · exact Or.inr (Or.inl h)
              · omega
      · intro _ _; exact Or.inl rfl
      · intro _ _; exact Or.inr (Or.inl rfl)
    · have hg2 : DV.Loop.guard cfg target s = false := by simpa using hg
      simp [hg2]

end DVP.Loop
