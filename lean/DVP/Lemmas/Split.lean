import DV.Model.RK
import DVP.Lemmas.RK
import Mathlib.Algebra.Module.Prod
import Mathlib.Tactic.Abel

/-! Drift/kick splitting steps on a separable system `q' = F p`, `p' = G q`: every stage is a shear,
the step is the composition of the stage maps, and a palindromic scheme is time-reversible. -/
namespace DVP.Split
open DV DV.RK DVP.RK

variable {Q P : Type} [AddCommGroup Q] [Module ℚ Q] [AddCommGroup P] [Module ℚ P]

/-- autonomous separable vector field on `Q × P` -/
def sepF (F : P → Q) (G : Q → P) : ℚ → Q × P → Q × P := fun _ x => (F x.2, G x.1)

/-- `v * (a * drift_mask + b * kick_mask)` when the drift variables are the `Q` part -/
def pairMask (a b : ℚ) (v : Q × P) : Q × P := (a • v.1, b • v.2)

/-- one drift/kick sub-step as a map of the state -/
def stageMap (F : P → Q) (G : Q → P) (h : ℚ) (ab : ℚ × ℚ) (x : Q × P) : Q × P :=
  x + pairMask ab.1 ab.2 (h • sepF F G 0 x)

/-- the composition of the sub-steps, left to right -/
def compose (F : P → Q) (G : Q → P) (h : ℚ) (l : List (ℚ × ℚ)) (x : Q × P) : Q × P :=
  l.foldl (fun x ab => stageMap F G h ab x) x

/-- the coded step is the composition of the stage maps: `y + dState = compose …` -/
theorem splitStep_eq_compose (F : P → Q) (G : Q → P) (t : ℚ) (y : Q × P) (h : ℚ) (drift kick : List ℚ) :
    y + (splitStep (modOps (V := Q × P)) (sepF F G) pairMask t y h drift kick).1 = compose F G h (List.zip drift kick) y := by
  unfold splitStep compose
  generalize List.zip drift kick = l
  -- generalise the accumulator
  have key : ∀ (l : List (ℚ × ℚ)) (d : Q × P) (τ : ℚ),
      y + (l.foldl (fun (acc : (Q × P) × ℚ) p =>
        ((modOps (V := Q × P)).add acc.1 (pairMask p.1 p.2 ((modOps (V := Q × P)).smul h (sepF F G acc.2 ((modOps (V := Q × P)).add y acc.1)))),
          acc.2 + h * p.1)) (d, τ)).1 = l.foldl (fun x ab => stageMap F G h ab x) (y + d) := by
    intro l
    induction l with
    | nil => intro d τ; rfl
    | cons ab r ih =>
      intro d τ
      simp only [List.foldl_cons]
      rw [ih]
      congr 1
      simp only [modOps, stageMap, sepF]
      rw [add_assoc]
  have := key l 0 t
  simpa [modOps] using this

/-- a stage with `a = 0 ∨ b = 0` is undone by the same stage with the opposite step (a shear does
not move the variables its increment depends on) -/
theorem stageMap_inverse (F : P → Q) (G : Q → P) (h : ℚ) (ab : ℚ × ℚ) (hshear : ab.1 = 0 ∨ ab.2 = 0) (x : Q × P) :
    stageMap F G (-h) ab (stageMap F G h ab x) = x := by
  obtain ⟨q, p⟩ := x
  rcases hshear with h0 | h0
  · -- kick: q unchanged
    simp only [stageMap, pairMask, sepF, h0, zero_smul, Prod.smul_mk, Prod.mk_add_mk, add_zero, Prod.mk.injEq, true_and]
    simp [smul_smul]
  · simp only [stageMap, pairMask, sepF, h0, zero_smul, Prod.smul_mk, Prod.mk_add_mk, add_zero, Prod.mk.injEq, and_true]
    simp [smul_smul]

/-- applying the stages of `l` with step `h` and then the stages of `l.reverse` with step `-h`
returns the starting state -/
theorem compose_reverse_inverse (F : P → Q) (G : Q → P) (h : ℚ) :
    ∀ (l : List (ℚ × ℚ)), (∀ ab ∈ l, ab.1 = 0 ∨ ab.2 = 0) → ∀ x, compose F G (-h) l.reverse (compose F G h l x) = x := by
  intro l
  induction l using List.reverseRecOn with
  | nil => intro _ x; rfl
  | append_singleton r ab ih =>
    intro hs x
    have hab := hs ab (by simp)
    have hr : ∀ c ∈ r, c.1 = 0 ∨ c.2 = 0 := fun c hc => hs c (by simp [hc])
    simp only [compose, List.reverse_append, List.reverse_cons, List.reverse_nil, List.nil_append, List.foldl_append,
      List.foldl_cons, List.foldl_nil]
    rw [stageMap_inverse F G h ab hab]
    exact ih hr x

/-- **Time reversibility**: for a palindromic scheme whose stages are shears, a step of `h` followed
by a step of `-h` returns the starting state, for every separable autonomous system, every state
and every `h`. -/
theorem palindromic_reversible (F : P → Q) (G : Q → P) (h : ℚ) (l : List (ℚ × ℚ)) (hpal : l.reverse = l)
    (hs : ∀ ab ∈ l, ab.1 = 0 ∨ ab.2 = 0) (x : Q × P) : compose F G (-h) l (compose F G h l x) = x := by
  have := compose_reverse_inverse F G h l hs x
  rwa [hpal] at this

end DVP.Split
