import DVP.Lemmas.Events
import DVP.Lemmas.Brent
/-!
Book-keeping of located events in `OdeSystem.integrate` (`DV.Events.record`): nothing located inside the
step is lost.  The duplicate test compares a new root with the last recorded event OF THE SAME FUNCTION;
the invariant that makes this sound is that `last[i]` is always the time of an event of function `i`
that is in the list.
-/
namespace DVP.Record
open DV DV.Events

/-- the root lies in the step, whatever its direction (the `true_positive` test of the code) -/
def inside (tPrev tNext root : ℚ) : Bool :=
  if tPrev ≤ tNext then decide (tPrev ≤ root) && decide (root ≤ tNext) else decide (tNext ≤ root) && decide (root ≤ tPrev)

/-- one iteration of the recording loop -/
def recStep (tPrev tNext dupTol : ℚ) (b : Book ℚ) (x : Nat × Probe ℚ) : Book ℚ :=
  if !inside tPrev tNext x.2.root then b else
  match b.last.getD x.1 none with
  | none => { last := b.last.set x.1 (some x.2.root), events := b.events ++ [(x.1, x.2.root)] }
  | some tl => if dupTol < absC (x.2.root - tl) then { last := b.last.set x.1 (some x.2.root), events := b.events ++ [(x.1, x.2.root)] } else b

theorem record_eq_foldl (tPrev tNext dupTol : ℚ) (b : Book ℚ) (reported : List (Nat × Probe ℚ)) :
    record tPrev tNext dupTol b reported = reported.foldl (recStep tPrev tNext dupTol) b := by
  unfold record
  congr 1
  funext b x
  unfold recStep inside
  dsimp only
  cases b.last.getD x.1 none <;> rfl

/-- the book-keeping invariant: every `last` entry points at a recorded event of that very function -/
def BookOK (b : Book ℚ) : Prop := ∀ i tl, b.last.getD i none = some tl → (i, tl) ∈ b.events

theorem recStep_length (tPrev tNext dupTol : ℚ) (b : Book ℚ) (x : Nat × Probe ℚ) :
    (recStep tPrev tNext dupTol b x).last.length = b.last.length := by
  unfold recStep
  split
  · rfl
  · split
    · simp
    · split <;> simp

theorem recStep_mono (tPrev tNext dupTol : ℚ) (b : Book ℚ) (x : Nat × Probe ℚ) (e : Nat × ℚ) (he : e ∈ b.events) :
    e ∈ (recStep tPrev tNext dupTol b x).events := by
  unfold recStep
  split
  · exact he
  · split
    · exact List.mem_append_left _ he
    · split
      · exact List.mem_append_left _ he
      · exact he

theorem getD_set (l : List (Option ℚ)) (i j : Nat) (v : Option ℚ) (hi : i < l.length) :
    (l.set i v).getD j none = if j = i then v else l.getD j none := by
  simp only [List.getD_eq_getElem?_getD, List.getElem?_set]
  by_cases h : i = j
  · subst h; simp [hi]
  · have h' : ¬ j = i := fun e => h e.symm
    simp [h, h']

theorem recStep_ok (tPrev tNext dupTol : ℚ) (b : Book ℚ) (x : Nat × Probe ℚ) (hx : x.1 < b.last.length) (hb : BookOK b) :
    BookOK (recStep tPrev tNext dupTol b x) := by
  have key : BookOK { last := b.last.set x.1 (some x.2.root), events := b.events ++ [(x.1, x.2.root)] } := by
    intro i tl h
    simp only at h
    rw [getD_set _ _ _ _ hx] at h
    by_cases hi : i = x.1
    · rw [if_pos hi] at h
      injection h with h
      subst h; subst hi
      exact List.mem_append_right _ (List.mem_singleton.mpr rfl)
    · rw [if_neg hi] at h
      exact List.mem_append_left _ (hb i tl h)
  unfold recStep
  split
  · exact hb
  · split
    · exact key
    · split
      · exact key
      · exact hb

/-- one located root: after the step of the loop, the book holds an event of the same function within
`dupTol` of it (the new one, or the one it was taken to duplicate) -/
theorem recStep_covers (tPrev tNext dupTol : ℚ) (hd : 0 ≤ dupTol) (b : Book ℚ) (x : Nat × Probe ℚ) (hb : BookOK b)
    (hin : inside tPrev tNext x.2.root = true) :
    ∃ t, (x.1, t) ∈ (recStep tPrev tNext dupTol b x).events ∧ |x.2.root - t| ≤ dupTol := by
  unfold recStep
  rw [hin]
  simp only [Bool.not_true, Bool.false_eq_true, if_false]
  cases hl : b.last.getD x.1 none with
  | none =>
    exact ⟨x.2.root, List.mem_append_right _ (List.mem_singleton.mpr rfl), by simpa using hd⟩
  | some tl =>
    simp only
    by_cases hdup : dupTol < absC (x.2.root - tl)
    · rw [if_pos hdup]
      exact ⟨x.2.root, List.mem_append_right _ (List.mem_singleton.mpr rfl), by simpa using hd⟩
    · rw [if_neg hdup]
      rw [DVP.Brent.absC_rat] at hdup
      exact ⟨tl, hb _ _ hl, not_lt.mp hdup⟩

theorem foldl_mono (tPrev tNext dupTol : ℚ) (l : List (Nat × Probe ℚ)) : ∀ (b : Book ℚ) (e : Nat × ℚ), e ∈ b.events →
    e ∈ (l.foldl (recStep tPrev tNext dupTol) b).events := by
  induction l with
  | nil => intro b e he; exact he
  | cons x xs ih => intro b e he; exact ih _ e (recStep_mono tPrev tNext dupTol b x e he)

theorem foldl_ok (tPrev tNext dupTol : ℚ) (l : List (Nat × Probe ℚ)) : ∀ (b : Book ℚ), BookOK b → (∀ x ∈ l, x.1 < b.last.length) →
    BookOK (l.foldl (recStep tPrev tNext dupTol) b) := by
  induction l with
  | nil => intro b hb _; exact hb
  | cons x xs ih =>
    intro b hb hl
    refine ih _ (recStep_ok tPrev tNext dupTol b x (hl x List.mem_cons_self) hb) ?_
    intro y hy
    rw [recStep_length]
    exact hl y (List.mem_cons_of_mem _ hy)

theorem foldl_covers (tPrev tNext dupTol : ℚ) (hd : 0 ≤ dupTol) (l : List (Nat × Probe ℚ)) : ∀ (b : Book ℚ), BookOK b →
    (∀ x ∈ l, x.1 < b.last.length) → ∀ x ∈ l, inside tPrev tNext x.2.root = true →
    ∃ t, (x.1, t) ∈ (l.foldl (recStep tPrev tNext dupTol) b).events ∧ |x.2.root - t| ≤ dupTol := by
  induction l with
  | nil => intro b _ _ x hx; cases hx
  | cons y ys ih =>
    intro b hb hl x hx hin
    have hy : y.1 < b.last.length := hl y List.mem_cons_self
    have hb' := recStep_ok tPrev tNext dupTol b y hy hb
    have hl' : ∀ z ∈ ys, z.1 < (recStep tPrev tNext dupTol b y).last.length := by
      intro z hz; rw [recStep_length]; exact hl z (List.mem_cons_of_mem _ hz)
    rcases List.mem_cons.mp hx with rfl | hx'
    · obtain ⟨t, ht, htd⟩ := recStep_covers tPrev tNext dupTol hd b x hb hin
      exact ⟨t, foldl_mono tPrev tNext dupTol ys _ _ ht, htd⟩
    · exact ih _ hb' hl' x hx' hin

end DVP.Record

/-! ## no crossing is recorded twice, over any number of steps -/
namespace DVP.Record
open DV DV.Events

/-- the recorded times of function `i`, oldest first -/
def timesOf (i : Nat) (evs : List (Nat × ℚ)) : List ℚ := (evs.filter (fun e => e.1 == i)).map (·.2)

/-- consecutive entries are more than `d` apart -/
def Sep (d : ℚ) : List ℚ → Prop
  | [] => True
  | [_] => True
  | a :: c :: r => d < |c - a| ∧ Sep d (c :: r)

theorem sep_snoc (d x : ℚ) : ∀ (l : List ℚ), Sep d l → (∀ a, l.getLast? = some a → d < |x - a|) → Sep d (l ++ [x])
  | [], _, _ => trivial
  | [a], _, h => ⟨h a rfl, trivial⟩
  | a :: c :: r, hs, h => by
    refine ⟨hs.1, sep_snoc d x (c :: r) hs.2 ?_⟩
    intro a' ha'
    exact h a' (by simpa [List.getLast?_cons_cons] using ha')

theorem timesOf_snoc (i j : Nat) (r : ℚ) (evs : List (Nat × ℚ)) :
    timesOf i (evs ++ [(j, r)]) = timesOf i evs ++ (if j = i then [r] else []) := by
  unfold timesOf
  rw [List.filter_append, List.map_append]
  by_cases h : j = i
  · simp [h]
  · simp [h]

/-- the full book-keeping invariant for `n` monitored functions: slot `i` of `last` is the newest recorded
time of function `i`, and the recorded times of each function are separated by more than `dupTol` -/
def BookSep (dupTol : ℚ) (b : Book ℚ) : Prop :=
  ∀ i, i < b.last.length → (timesOf i b.events).getLast? = b.last.getD i none ∧ Sep dupTol (timesOf i b.events)

theorem recStep_sep (tPrev tNext dupTol : ℚ) (b : Book ℚ) (x : Nat × Probe ℚ) (hx : x.1 < b.last.length)
    (hb : BookSep dupTol b) : BookSep dupTol (recStep tPrev tNext dupTol b x) := by
  -- appending an event of function x.1 whose distance from the newest one of that function exceeds dupTol
  have key : (∀ tl, b.last.getD x.1 none = some tl → dupTol < |x.2.root - tl|) →
      BookSep dupTol { last := b.last.set x.1 (some x.2.root), events := b.events ++ [(x.1, x.2.root)] } := by
    intro hfar i hi
    simp only [List.length_set] at hi
    simp only
    rw [timesOf_snoc, getD_set _ _ _ _ hx]
    by_cases h : x.1 = i
    · subst h
      simp only [if_true]
      refine ⟨by simp, sep_snoc _ _ _ (hb _ hi).2 ?_⟩
      intro a ha
      rw [(hb _ hi).1] at ha
      exact hfar a ha
    · have h' : ¬ i = x.1 := fun e => h e.symm
      simp only [h, h', if_false, List.append_nil]
      exact hb i hi
  unfold recStep
  split
  · exact hb
  · cases hl : b.last.getD x.1 none with
    | none => exact key (fun tl h => by rw [hl] at h; cases h)
    | some tl =>
      simp only
      by_cases hdup : dupTol < absC (x.2.root - tl)
      · rw [if_pos hdup]
        refine key (fun tl' h => ?_)
        rw [hl] at h
        injection h with h
        subst h
        rwa [DVP.Brent.absC_rat] at hdup
      · rw [if_neg hdup]; exact hb

theorem foldl_sep (tPrev tNext dupTol : ℚ) (l : List (Nat × Probe ℚ)) : ∀ (b : Book ℚ), BookSep dupTol b →
    (∀ x ∈ l, x.1 < b.last.length) → BookSep dupTol (l.foldl (recStep tPrev tNext dupTol) b) := by
  induction l with
  | nil => intro b hb _; exact hb
  | cons x xs ih =>
    intro b hb hl
    refine ih _ (recStep_sep tPrev tNext dupTol b x (hl x List.mem_cons_self) hb) ?_
    intro y hy
    rw [recStep_length]
    exact hl y (List.mem_cons_of_mem _ hy)

theorem foldl_length (tPrev tNext dupTol : ℚ) (l : List (Nat × Probe ℚ)) : ∀ (b : Book ℚ),
    (l.foldl (recStep tPrev tNext dupTol) b).last.length = b.last.length := by
  induction l with
  | nil => intro b; rfl
  | cons x xs ih => intro b; simp only [List.foldl_cons]; rw [ih, recStep_length]

/-- the book of one `integrate` call: `record` folded over the steps taken so far
(`(t_prev, t_next, events reported by handle_events)` per step), starting from `init` -/
def bookAfter (dupTol : ℚ) (init : Book ℚ) (steps : List (ℚ × ℚ × List (Nat × Probe ℚ))) : Book ℚ :=
  steps.foldl (fun b st => record st.1 st.2.1 dupTol b st.2.2) init

/-- the empty book for `n` monitored functions (`last_occurrence = [-1] * n`, no events) -/
def emptyBook (n : Nat) : Book ℚ := { last := List.replicate n none, events := [] }

theorem emptyBook_sep (dupTol : ℚ) (n : Nat) : BookSep dupTol (emptyBook n) := by
  intro i hi
  simp only [emptyBook, List.length_replicate] at hi
  simp [emptyBook, timesOf, Sep, List.getD_eq_getElem?_getD, List.getElem?_replicate, hi]

theorem bookAfter_sep (dupTol : ℚ) (steps : List (ℚ × ℚ × List (Nat × Probe ℚ))) : ∀ (b : Book ℚ),
    BookSep dupTol b → (∀ st ∈ steps, ∀ x ∈ st.2.2, x.1 < b.last.length) →
    BookSep dupTol (bookAfter dupTol b steps) ∧ (bookAfter dupTol b steps).last.length = b.last.length := by
  induction steps with
  | nil => intro b hb _; exact ⟨hb, rfl⟩
  | cons st rest ih =>
    intro b hb hidx
    have hst : ∀ x ∈ st.2.2, x.1 < b.last.length := hidx st List.mem_cons_self
    have h1 : BookSep dupTol (record st.1 st.2.1 dupTol b st.2.2) := by
      rw [record_eq_foldl]; exact foldl_sep _ _ _ _ b hb hst
    have h2 : (record st.1 st.2.1 dupTol b st.2.2).last.length = b.last.length := by
      rw [record_eq_foldl]; exact foldl_length _ _ _ _ b
    obtain ⟨r1, r2⟩ := ih (record st.1 st.2.1 dupTol b st.2.2) h1 (by
      intro s hs y hy; rw [h2]; exact hidx s (List.mem_cons_of_mem _ hs) y hy)
    exact ⟨r1, by rw [← h2]; exact r2⟩

theorem recStep_prefix (tPrev tNext dupTol : ℚ) (b : Book ℚ) (x : Nat × Probe ℚ) :
    ∃ more, (recStep tPrev tNext dupTol b x).events = b.events ++ more := by
  unfold recStep
  split
  · exact ⟨[], by simp⟩
  · split
    · exact ⟨[(x.1, x.2.root)], rfl⟩
    · split
      · exact ⟨[(x.1, x.2.root)], rfl⟩
      · exact ⟨[], by simp⟩

/-- recording only appends: events recorded earlier keep their place -/
theorem record_prefix (tPrev tNext dupTol : ℚ) (l : List (Nat × Probe ℚ)) : ∀ (b : Book ℚ),
    ∃ more, (record tPrev tNext dupTol b l).events = b.events ++ more := by
  intro b
  rw [record_eq_foldl]
  induction l generalizing b with
  | nil => exact ⟨[], by simp⟩
  | cons x xs ih =>
    obtain ⟨m1, h1⟩ := recStep_prefix tPrev tNext dupTol b x
    obtain ⟨m2, h2⟩ := ih (recStep tPrev tNext dupTol b x)
    exact ⟨m1 ++ m2, by simp only [List.foldl_cons]; rw [h2, h1, List.append_assoc]⟩

theorem record_nil (tPrev tNext dupTol : ℚ) (b : Book ℚ) : record tPrev tNext dupTol b [] = b := rfl

/-! ## the events of a forward run are listed in the order they are met -/

/-- recorded times non-decreasing along the list -/
def SortedT : List (Nat × ℚ) → Prop
  | [] => True
  | [_] => True
  | a :: c :: r => a.2 ≤ c.2 ∧ SortedT (c :: r)

theorem sortedT_snoc (i : Nat) (x : ℚ) : ∀ (l : List (Nat × ℚ)), SortedT l → (∀ e ∈ l, e.2 ≤ x) → SortedT (l ++ [(i, x)])
  | [], _, _ => trivial
  | [a], _, h => ⟨h a (List.mem_singleton.mpr rfl), trivial⟩
  | a :: c :: r, hs, h => ⟨hs.1, sortedT_snoc i x (c :: r) hs.2 (fun e he => h e (List.mem_cons_of_mem _ he))⟩

theorem sortedBy_head_le (x : Nat × Probe ℚ) : ∀ (l : List (Nat × Probe ℚ)), DVP.Events.SortedBy 1 (x :: l) → ∀ y ∈ l, x.2.root ≤ y.2.root
  | [], _, y, hy => by cases hy
  | z :: r, hs, y, hy => by
    have h1 : x.2.root ≤ z.2.root := by simpa using hs.1
    rcases List.mem_cons.mp hy with rfl | hy'
    · exact h1
    · exact le_trans h1 (sortedBy_head_le z r hs.2 y hy')

/-- one step of a forward run: if everything recorded so far is not later than `lb`, and the reported events
(sorted, forward) that lie in the window are not earlier than `lb`, the list stays sorted and everything
recorded is not later than the end of the window -/
theorem foldl_sorted (tPrev tNext dupTol : ℚ) (hw : tPrev ≤ tNext) : ∀ (l : List (Nat × Probe ℚ)) (b : Book ℚ) (lb : ℚ),
    DVP.Events.SortedBy 1 l → SortedT b.events → (∀ e ∈ b.events, e.2 ≤ lb) → lb ≤ tNext →
    (∀ x ∈ l, inside tPrev tNext x.2.root = true → lb ≤ x.2.root) →
    SortedT (l.foldl (recStep tPrev tNext dupTol) b).events ∧ ∀ e ∈ (l.foldl (recStep tPrev tNext dupTol) b).events, e.2 ≤ tNext := by
  intro l
  induction l with
  | nil => intro b lb _ hs hle hlb _; exact ⟨hs, fun e he => le_trans (hle e he) hlb⟩
  | cons x xs ih =>
    intro b lb hsort hs hle hlb hge
    simp only [List.foldl_cons]
    have htail : DVP.Events.SortedBy 1 xs := DVP.Events.SortedBy.tail hsort
    by_cases hin : inside tPrev tNext x.2.root = true
    · -- the root is in the window: it is not earlier than anything recorded, and not later than tNext
      have hx_ge : lb ≤ x.2.root := hge x List.mem_cons_self hin
      have hx_le : x.2.root ≤ tNext := by
        unfold inside at hin; rw [if_pos hw] at hin; simp at hin; exact hin.2
      have key : ∀ b' : Book ℚ, b'.events = b.events ∨ b'.events = b.events ++ [(x.1, x.2.root)] →
          SortedT b'.events ∧ ∀ e ∈ b'.events, e.2 ≤ x.2.root := by
        intro b' hb'
        rcases hb' with h | h
        · rw [h]; exact ⟨hs, fun e he => le_trans (hle e he) hx_ge⟩
        · rw [h]
          refine ⟨sortedT_snoc _ _ _ hs (fun e he => le_trans (hle e he) hx_ge), fun e he => ?_⟩
          rcases List.mem_append.mp he with he | he
          · exact le_trans (hle e he) hx_ge
          · rw [List.mem_singleton.mp he]
      have hcase : (recStep tPrev tNext dupTol b x).events = b.events ∨
          (recStep tPrev tNext dupTol b x).events = b.events ++ [(x.1, x.2.root)] := by
        unfold recStep
        split
        · left; rfl
        · split
          · right; rfl
          · split
            · right; rfl
            · left; rfl
      obtain ⟨k1, k2⟩ := key _ hcase
      exact ih _ x.2.root htail k1 k2 hx_le (fun y hy _ => sortedBy_head_le x xs hsort y hy)
    · have hskip : recStep tPrev tNext dupTol b x = b := by
        unfold recStep; simp [hin]
      rw [hskip]
      exact ih b lb htail hs hle hlb (fun y hy hy' => hge y (List.mem_cons_of_mem _ hy) hy')

/-- consecutive forward windows: every step starts where (or after) the previous one ended -/
def Windows : ℚ → List (ℚ × ℚ × List (Nat × Probe ℚ)) → Prop
  | _, [] => True
  | L, st :: r => L ≤ st.1 ∧ st.1 ≤ st.2.1 ∧ Windows st.2.1 r

theorem bookAfter_sorted (dupTol : ℚ) : ∀ (steps : List (ℚ × ℚ × List (Nat × Probe ℚ))) (b : Book ℚ) (L : ℚ),
    Windows L steps → (∀ st ∈ steps, DVP.Events.SortedBy 1 st.2.2) → SortedT b.events → (∀ e ∈ b.events, e.2 ≤ L) →
    SortedT (bookAfter dupTol b steps).events := by
  intro steps
  induction steps with
  | nil => intro b L _ _ hs _; exact hs
  | cons st rest ih =>
    intro b L hw hsorted hs hle
    obtain ⟨w1, w2, w3⟩ := hw
    have h := foldl_sorted st.1 st.2.1 dupTol w2 st.2.2 b st.1 (hsorted st List.mem_cons_self) hs
      (fun e he => le_trans (hle e he) w1) w2
      (fun x _ hin => by unfold inside at hin; rw [if_pos w2] at hin; simp at hin; exact hin.1)
    have e : bookAfter dupTol b (st :: rest) = bookAfter dupTol (record st.1 st.2.1 dupTol b st.2.2) rest := rfl
    rw [e]
    refine ih _ st.2.1 w3 (fun s hs' => hsorted s (List.mem_cons_of_mem _ hs')) ?_ ?_
    · rw [record_eq_foldl]; exact h.1
    · rw [record_eq_foldl]; exact h.2

/-! ## … and of a backward run: non-increasing times -/

def SortedTB : List (Nat × ℚ) → Prop
  | [] => True
  | [_] => True
  | a :: c :: r => c.2 ≤ a.2 ∧ SortedTB (c :: r)

theorem sortedTB_snoc (i : Nat) (x : ℚ) : ∀ (l : List (Nat × ℚ)), SortedTB l → (∀ e ∈ l, x ≤ e.2) → SortedTB (l ++ [(i, x)])
  | [], _, _ => trivial
  | [a], _, h => ⟨h a (List.mem_singleton.mpr rfl), trivial⟩
  | a :: c :: r, hs, h => ⟨hs.1, sortedTB_snoc i x (c :: r) hs.2 (fun e he => h e (List.mem_cons_of_mem _ he))⟩

theorem sortedBy_neg_head_ge (x : Nat × Probe ℚ) : ∀ (l : List (Nat × Probe ℚ)), DVP.Events.SortedBy (-1) (x :: l) → ∀ y ∈ l, y.2.root ≤ x.2.root
  | [], _, y, hy => by cases hy
  | z :: r, hs, y, hy => by
    have h1 : z.2.root ≤ x.2.root := by have := hs.1; linarith
    rcases List.mem_cons.mp hy with rfl | hy'
    · exact h1
    · exact le_trans (sortedBy_neg_head_ge z r hs.2 y hy') h1

theorem foldl_sorted_bwd (tPrev tNext dupTol : ℚ) (hw : tNext < tPrev) : ∀ (l : List (Nat × Probe ℚ)) (b : Book ℚ) (ub : ℚ),
    DVP.Events.SortedBy (-1) l → SortedTB b.events → (∀ e ∈ b.events, ub ≤ e.2) → tNext ≤ ub →
    (∀ x ∈ l, inside tPrev tNext x.2.root = true → x.2.root ≤ ub) →
    SortedTB (l.foldl (recStep tPrev tNext dupTol) b).events ∧ ∀ e ∈ (l.foldl (recStep tPrev tNext dupTol) b).events, tNext ≤ e.2 := by
  intro l
  induction l with
  | nil => intro b ub _ hs hle hub _; exact ⟨hs, fun e he => le_trans hub (hle e he)⟩
  | cons x xs ih =>
    intro b ub hsort hs hle hub hge
    simp only [List.foldl_cons]
    have htail : DVP.Events.SortedBy (-1) xs := DVP.Events.SortedBy.tail hsort
    by_cases hin : inside tPrev tNext x.2.root = true
    · have hx_le : x.2.root ≤ ub := hge x List.mem_cons_self hin
      have hx_ge : tNext ≤ x.2.root := by
        unfold inside at hin; rw [if_neg (not_le.mpr hw)] at hin; simp at hin; exact hin.1
      have key : ∀ b' : Book ℚ, b'.events = b.events ∨ b'.events = b.events ++ [(x.1, x.2.root)] →
          SortedTB b'.events ∧ ∀ e ∈ b'.events, x.2.root ≤ e.2 := by
        intro b' hb'
        rcases hb' with h | h
        · rw [h]; exact ⟨hs, fun e he => le_trans hx_le (hle e he)⟩
        · rw [h]
          refine ⟨sortedTB_snoc _ _ _ hs (fun e he => le_trans hx_le (hle e he)), fun e he => ?_⟩
          rcases List.mem_append.mp he with he | he
          · exact le_trans hx_le (hle e he)
          · rw [List.mem_singleton.mp he]
      have hcase : (recStep tPrev tNext dupTol b x).events = b.events ∨
          (recStep tPrev tNext dupTol b x).events = b.events ++ [(x.1, x.2.root)] := by
        unfold recStep
        split
        · left; rfl
        · split
          · right; rfl
          · split
            · right; rfl
            · left; rfl
      obtain ⟨k1, k2⟩ := key _ hcase
      exact ih _ x.2.root htail k1 k2 hx_ge (fun y hy _ => sortedBy_neg_head_ge x xs hsort y hy)
    · have hskip : recStep tPrev tNext dupTol b x = b := by
        unfold recStep; simp [hin]
      rw [hskip]
      exact ih b ub htail hs hle hub (fun y hy hy' => hge y (List.mem_cons_of_mem _ hy) hy')

/-- consecutive backward windows -/
def WindowsB : ℚ → List (ℚ × ℚ × List (Nat × Probe ℚ)) → Prop
  | _, [] => True
  | U, st :: r => st.1 ≤ U ∧ st.2.1 < st.1 ∧ WindowsB st.2.1 r

theorem bookAfter_sorted_bwd (dupTol : ℚ) : ∀ (steps : List (ℚ × ℚ × List (Nat × Probe ℚ))) (b : Book ℚ) (U : ℚ),
    WindowsB U steps → (∀ st ∈ steps, DVP.Events.SortedBy (-1) st.2.2) → SortedTB b.events → (∀ e ∈ b.events, U ≤ e.2) →
    SortedTB (bookAfter dupTol b steps).events := by
  intro steps
  induction steps with
  | nil => intro b U _ _ hs _; exact hs
  | cons st rest ih =>
    intro b U hw hsorted hs hle
    obtain ⟨w1, w2, w3⟩ := hw
    have h := foldl_sorted_bwd st.1 st.2.1 dupTol w2 st.2.2 b st.1 (hsorted st List.mem_cons_self) hs
      (fun e he => le_trans w1 (hle e he)) (le_of_lt w2)
      (fun x _ hin => by unfold inside at hin; rw [if_neg (not_le.mpr w2)] at hin; simp at hin; exact hin.2)
    have e : bookAfter dupTol b (st :: rest) = bookAfter dupTol (record st.1 st.2.1 dupTol b st.2.2) rest := rfl
    rw [e]
    refine ih _ st.2.1 w3 (fun s hs' => hsorted s (List.mem_cons_of_mem _ hs')) ?_ ?_
    · rw [record_eq_foldl]; exact h.1
    · rw [record_eq_foldl]; exact h.2

end DVP.Record
