import DV.Model.Events
import DVP.Lemmas.Brent
import Mathlib.Order.Basic
import Mathlib.Data.List.Sort

/-! Event selection: ordering, truncation, soundness and completeness relative to the probes. -/
namespace DVP.Events
open DV DV.Events

/-- sorted by the key `sgn · root` (non-decreasing) -/
def SortedBy (sgn : ℚ) : List (Nat × Probe ℚ) → Prop
  | [] => True
  | [_] => True
  | x :: y :: r => sgn * x.2.root ≤ sgn * y.2.root ∧ SortedBy sgn (y :: r)

theorem SortedBy.tail {sgn : ℚ} {x : Nat × Probe ℚ} {l : List (Nat × Probe ℚ)} (h : SortedBy sgn (x :: l)) : SortedBy sgn l := by
  cases l with
  | nil => trivial
  | cons y r => exact h.2

theorem mem_insertSorted (sgn : ℚ) (x : Nat × Probe ℚ) (l : List (Nat × Probe ℚ)) (z : Nat × Probe ℚ) :
    z ∈ insertSorted sgn x l ↔ z = x ∨ z ∈ l := by
  induction l with
  | nil => simp [insertSorted]
  | cons y r ih =>
    unfold insertSorted
    split
    · simp
    · simp only [List.mem_cons, ih]
      tauto

theorem insertSorted_sorted (sgn : ℚ) (x : Nat × Probe ℚ) : ∀ (l : List (Nat × Probe ℚ)), SortedBy sgn l → SortedBy sgn (insertSorted sgn x l) := by
  intro l
  induction l with
  | nil => intro _; trivial
  | cons y r ih =>
    intro h
    unfold insertSorted
    split
    · rename_i hlt; exact ⟨le_of_lt hlt, h⟩
    · rename_i hge
      have hle : sgn * y.2.root ≤ sgn * x.2.root := not_lt.mp hge
      have hr := ih h.tail
      cases r with
      | nil => simp only [insertSorted] at hr ⊢; exact ⟨hle, trivial⟩
      | cons z r' =>
        unfold insertSorted at hr ⊢
        split at hr
        · rename_i h2; rw [if_pos h2]; exact ⟨hle, hr⟩
        · rename_i h2; rw [if_neg h2]; exact ⟨h.1, hr⟩

theorem sortByRoot_spec (sgn : ℚ) (l : List (Nat × Probe ℚ)) :
    SortedBy sgn (sortByRoot sgn l) ∧ ∀ z, z ∈ sortByRoot sgn l ↔ z ∈ l := by
  unfold sortByRoot
  have key : ∀ (l acc : List (Nat × Probe ℚ)), SortedBy sgn acc →
      SortedBy sgn (l.foldl (fun acc x => insertSorted sgn x acc) acc) ∧
      ∀ z, z ∈ l.foldl (fun acc x => insertSorted sgn x acc) acc ↔ z ∈ l ∨ z ∈ acc := by
    intro l
    induction l with
    | nil => intro acc h; exact ⟨h, fun z => by simp⟩
    | cons x r ih =>
      intro acc h
      simp only [List.foldl_cons]
      obtain ⟨h1, h2⟩ := ih (insertSorted sgn x acc) (insertSorted_sorted sgn x acc h)
      refine ⟨h1, fun z => ?_⟩
      rw [h2, mem_insertSorted]
      simp only [List.mem_cons]
      tauto
  obtain ⟨h1, h2⟩ := key l [] trivial
  exact ⟨h1, fun z => by rw [h2]; simp⟩

theorem truncate_sub (l : List (Nat × Probe ℚ)) : ∀ z, z ∈ truncateAtTerminal l → z ∈ l := by
  induction l with
  | nil => intro z h; simp [truncateAtTerminal] at h
  | cons x r ih =>
    intro z h
    unfold truncateAtTerminal at h
    split at h
    · simp at h; simp [h]
    · rcases List.mem_cons.mp h with h | h
      · simp [h]
      · exact List.mem_cons_of_mem _ (ih z h)

theorem truncate_sorted (sgn : ℚ) : ∀ (l : List (Nat × Probe ℚ)), SortedBy sgn l → SortedBy sgn (truncateAtTerminal l) := by
  intro l
  induction l with
  | nil => intro _; trivial
  | cons x r ih =>
    intro h
    unfold truncateAtTerminal
    split
    · trivial
    · have hr := ih h.tail
      cases r with
      | nil => simp [truncateAtTerminal]; trivial
      | cons y r' =>
        unfold truncateAtTerminal at hr ⊢
        split at hr
        · rename_i h2; rw [if_pos h2]; exact ⟨h.1, trivial⟩
        · rename_i h2; rw [if_neg h2]; exact ⟨h.1, hr⟩

/-- in the truncated list a terminal event can only be the last element -/
def TerminalOnlyLast : List (Nat × Probe ℚ) → Prop
  | [] => True
  | [_] => True
  | x :: y :: r => x.2.terminal = false ∧ TerminalOnlyLast (y :: r)

theorem truncate_terminal_last : ∀ (l : List (Nat × Probe ℚ)), TerminalOnlyLast (truncateAtTerminal l) := by
  intro l
  induction l with
  | nil => trivial
  | cons x r ih =>
    unfold truncateAtTerminal
    split
    · trivial
    · rename_i hx
      cases r with
      | nil => simp [truncateAtTerminal]; trivial
      | cons y r' =>
        unfold truncateAtTerminal at ih ⊢
        split at ih
        · rename_i h2; rw [if_pos h2]; exact ⟨by simpa using hx, trivial⟩
        · rename_i h2; rw [if_neg h2]; exact ⟨by simpa using hx, ih⟩

/-- an element of a sorted list is kept by the truncation unless a terminal element comes before it
(in list order, hence with a key not larger) -/
theorem truncate_complete (sgn : ℚ) : ∀ (l : List (Nat × Probe ℚ)), SortedBy sgn l → ∀ z, z ∈ l →
    z ∈ truncateAtTerminal l ∨ ∃ y, y ∈ truncateAtTerminal l ∧ y.2.terminal = true ∧ sgn * y.2.root ≤ sgn * z.2.root := by
  intro l
  induction l with
  | nil => intro _ z h; simp at h
  | cons x r ih =>
    intro hs z hz
    -- every element of r has key ≥ key x
    have hkey : ∀ w, w ∈ r → sgn * x.2.root ≤ sgn * w.2.root := by
      intro w hw
      clear ih hz
      induction r generalizing x with
      | nil => simp at hw
      | cons y r' ih2 =>
        rcases List.mem_cons.mp hw with h | h
        · rw [h]; exact hs.1
        · exact le_trans hs.1 (ih2 (x := y) hs.tail h)
    unfold truncateAtTerminal
    by_cases hx : x.2.terminal = true
    · rw [if_pos hx]
      rcases List.mem_cons.mp hz with h | h
      · left; simp [h]
      · right; exact ⟨x, by simp, hx, hkey z h⟩
    · rw [if_neg hx]
      rcases List.mem_cons.mp hz with h | h
      · left; simp [h]
      · rcases ih hs.tail z h with h' | ⟨y, hy1, hy2, hy3⟩
        · left; exact List.mem_cons_of_mem _ h'
        · right; exact ⟨y, List.mem_cons_of_mem _ hy1, hy2, hy3⟩

end DVP.Events

namespace DVP.Events
open DV DV.Events

theorem mem_zip_range {β : Type} (l : List β) (i : Nat) (b : β) (h : (i, b) ∈ List.zip (List.range l.length) l) :
    l[i]? = some b := by
  obtain ⟨k, hk, hz⟩ := List.getElem_of_mem h
  rw [List.getElem_zip] at hz
  simp only [List.getElem_range, Prod.mk.injEq] at hz
  obtain ⟨rfl, rfl⟩ := hz
  simp at hk
  exact List.getElem?_eq_getElem hk

theorem zip_range_mem {β : Type} (l : List β) (i : Nat) (hi : i < l.length) : (i, l[i]) ∈ List.zip (List.range l.length) l := by
  rw [List.mem_iff_getElem]
  refine ⟨i, by simp [hi], ?_⟩
  simp [List.getElem_zip]

/-- everything `handle` reports is one of the monitored events, with its own probe, and passed the
direction mask -/
theorem handle_sound (sgn : ℚ) (probes : List (Probe ℚ)) (x : Nat × Probe ℚ) (hx : x ∈ (handle sgn probes).1) :
    probes[x.1]? = some x.2 ∧ x.2.active = true := by
  unfold handle at hx
  simp only at hx
  have h1 := truncate_sub _ x hx
  have h2 := ((sortByRoot_spec sgn _).2 x).mp h1
  obtain ⟨h3, h4⟩ := List.mem_filter.mp h2
  exact ⟨mem_zip_range probes x.1 x.2 h3, h4⟩

theorem handle_sorted (sgn : ℚ) (probes : List (Probe ℚ)) : SortedBy sgn (handle sgn probes).1 := by
  unfold handle
  exact truncate_sorted sgn _ (sortByRoot_spec sgn _).1

theorem handle_terminal_last (sgn : ℚ) (probes : List (Probe ℚ)) : TerminalOnlyLast (handle sgn probes).1 := by
  unfold handle
  exact truncate_terminal_last _

/-- every monitored event whose probe passes the direction mask is reported, unless a terminal event
with an earlier-or-equal root (in the direction of integration) is reported -/
theorem handle_complete (sgn : ℚ) (probes : List (Probe ℚ)) (i : Nat) (hi : i < probes.length)
    (hact : (probes[i]).active = true) :
    (i, probes[i]) ∈ (handle sgn probes).1 ∨
    ∃ y, y ∈ (handle sgn probes).1 ∧ y.2.terminal = true ∧ sgn * y.2.root ≤ sgn * (probes[i]).root := by
  unfold handle
  simp only
  have hmem : (i, probes[i]) ∈ sortByRoot sgn ((List.zip (List.range probes.length) probes).filter (fun x => x.2.active)) := by
    rw [(sortByRoot_spec sgn _).2]
    exact List.mem_filter.mpr ⟨zip_range_mem probes i hi, hact⟩
  exact truncate_complete sgn _ (sortByRoot_spec sgn _).1 _ hmem

end DVP.Events
