import DV
import DV.Gen.Consts
/-! The literal constants of the source text (`DV/Gen/Consts.lean`, regenerated on every run) are the constants the hand-written
models, the harness and the theorems were written for.  A changed constant in `/repo` makes one of these obligations fail. -/
namespace DVP.Consts
open DV DV.Gen.Consts

/-- `__alloc_space_steps`: the cap of the loop model is the cap in the source -/
theorem alloc_cap : DV.Loop.allocSteps (((allocCap + 1000 : Nat) : Rat)) 1 = some allocCap ∧ allocCap = 5000 := by decide +kernel

/-- the loop's literals: halving of an over-long step, `epsilon = 4 eps`, `tol_epsilon = 32 eps` (float64) -/
theorem loop_literals : halving = 1/2 ∧ epsilonFactor = 4 ∧ tolEpsilonFactor = 32 := by decide +kernel

/-- `num_step_retries`: the default of the accept/retry model is the number in the source (both places it is written) -/
theorem retries_default (ai implicit : Bool) (c08 h : Rat) (att : DV.Controller.Attempts Rat) :
    DV.Controller.call ai implicit c08 h att = DV.Controller.call ai implicit c08 h att numStepRetries := rfl

/-- the controller's literals: safety factor, redo threshold `0.9²`, shrink factor after a failed Newton solve -/
theorem controller_literals : safetyFactor = 4/5 ∧ redoThreshold = 81/100 ∧ newtonShrink = 4/5 := by decide +kernel

/-- the iteration cap of both Brent solvers -/
theorem brent_cap (f : Rat → Rat) (lo hi tol eps inf : Rat) :
    DV.Brent.brentsroot f lo hi tol eps inf = DV.Brent.brentsroot f lo hi tol eps inf brentMaxIter ∧
    DV.Brent.lane f lo hi tol eps = DV.Brent.lane f lo hi tol eps brentMaxIter := ⟨rfl, rfl⟩

/-- event handling: duplicate tolerance `eps^0.7`, probe offsets `eps^0.5` / `eps^0.75` of the step, receptive fields 1, 2, 3 -/
theorem event_literals : dupTolExp = 7/10 ∧ probeExpWide = 1/2 ∧ probeExpNarrow = 3/4 ∧ receptiveFields = [1, 2, 3] := by decide +kernel

end DVP.Consts
