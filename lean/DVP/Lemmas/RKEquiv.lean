import DVP.Lemmas.RK
import Mathlib.Algebra.Module.Basic

/-! Reflection of time for the Runge–Kutta step model: the step of the time-reversed problem
(`f'(τ, y) = −f(−τ, y)`, step `−h`, from `−t`) produces the same increment, the negated stages and the
negated end slope. -/
namespace DVP.RK
open DV DV.RK

variable {V : Type} [AddCommGroup V] [Module ℚ V]

/-- the right-hand side of the time-reversed problem -/
def reflF (f : ℚ → V → V) : ℚ → V → V := fun τ y => -f (-τ) y

theorem wsum_fold_neg : ∀ (l : List (ℚ × V)) (acc : V),
    (l.map (fun p => (p.1, -p.2))).foldl (fun acc p => (modOps (V := V)).add acc ((modOps (V := V)).smul p.1 p.2)) (-acc) =
      -(l.foldl (fun acc p => (modOps (V := V)).add acc ((modOps (V := V)).smul p.1 p.2)) acc)
  | [], acc => by simp
  | p :: r, acc => by
    simp only [List.map_cons, List.foldl_cons]
    have : (modOps (V := V)).add (-acc) ((modOps (V := V)).smul p.1 (-p.2)) =
        -((modOps (V := V)).add acc ((modOps (V := V)).smul p.1 p.2)) := by
      simp only [modOps, smul_neg, neg_add]
    rw [this]
    exact wsum_fold_neg r _

theorem zip_map_neg (cs : List ℚ) (ks : List V) :
    List.zip cs (ks.map (fun k => -k)) = (List.zip cs ks).map (fun p => (p.1, -p.2)) := by
  induction cs generalizing ks with
  | nil => simp
  | cons c cs ih =>
    cases ks with
    | nil => simp
    | cons k ks => simp [ih]

/-- the weighted sum is odd in the stages -/
theorem wsum_neg (cs : List ℚ) (ks : List V) :
    wsum (modOps (V := V)) cs (ks.map (fun k => -k)) = -wsum (modOps (V := V)) cs ks := by
  unfold wsum
  rw [zip_map_neg]
  have := wsum_fold_neg (V := V) (List.zip cs ks) 0
  simpa [modOps] using this

theorem set_map_neg (l : List V) (i : Nat) (r : V) : (l.map (fun k => -k)).set i (-r) = (l.set i r).map (fun k => -k) := by
  simp [List.map_set]

/-- one stage of the reflected problem -/
theorem stageStep_refl (f : ℚ → V → V) (t : ℚ) (y : V) (h : ℚ) (c : List ℚ) (A : List (List ℚ)) (st : StageState V) (i : Nat) :
    stageStep (modOps (V := V)) (reflF f) (-t) y (-h) c A
        { stages := st.stages.map (fun k => -k), lastD := st.lastD, lastRhs := -st.lastRhs } i =
      (let o := stageStep (modOps (V := V)) f t y h c A st i
       { stages := o.stages.map (fun k => -k), lastD := o.lastD, lastRhs := -o.lastRhs }) := by
  unfold stageStep
  simp only [maskedSum_eq_wsum, wsum_neg, DVP.Brent.lit_rat, Nat.cast_zero]
  have hd : (modOps (V := V)).smul (-h) (-wsum (modOps (V := V)) (A.getD i []) st.stages) =
      (modOps (V := V)).smul h (wsum (modOps (V := V)) (A.getD i []) st.stages) := by
    simp [modOps]
  have ht : -t + -h * c.getD i 0 = -(t + h * c.getD i 0) := by ring
  rw [hd, ht]
  simp only [reflF, neg_neg]
  rw [set_map_neg]

/-- the whole stage loop of the reflected problem -/
theorem computeStep_refl (f : ℚ → V → V) (t : ℚ) (y : V) (h : ℚ) (c : List ℚ) (A : List (List ℚ)) (stages : List V) :
    computeStep (modOps (V := V)) (reflF f) (-t) y (-h) c A (stages.map (fun k => -k)) =
      (let o := computeStep (modOps (V := V)) f t y h c A stages
       { stages := o.stages.map (fun k => -k), lastD := o.lastD, lastRhs := -o.lastRhs }) := by
  unfold computeStep
  simp only [List.length_map]
  have key : ∀ (l : List Nat) (st : StageState V),
      l.foldl (stageStep (modOps (V := V)) (reflF f) (-t) y (-h) c A)
          { stages := st.stages.map (fun k => -k), lastD := st.lastD, lastRhs := -st.lastRhs } =
        (let o := l.foldl (stageStep (modOps (V := V)) f t y h c A) st
         { stages := o.stages.map (fun k => -k), lastD := o.lastD, lastRhs := -o.lastRhs }) := by
    intro l
    induction l with
    | nil => intro st; rfl
    | cons i r ih =>
      intro st
      simp only [List.foldl_cons]
      rw [stageStep_refl]
      exact ih _
  have := key (List.range stages.length) { stages := stages, lastD := (modOps (V := V)).zero, lastRhs := (modOps (V := V)).zero }
  simpa [modOps] using this

/-- **Reflection of the explicit Runge–Kutta step**: the time-reversed problem, stepped by `−h` from
`−t` (with the mirrored stage storage), yields the SAME increment, the negated stage slopes and the
negated end slope — for every right-hand side, table (FSAL or not), state and step of either sign. -/
theorem rkStep_reflection (f : ℚ → V → V) (t : ℚ) (y : V) (h : ℚ) (c : List ℚ) (A : List (List ℚ)) (b : List ℚ)
    (fsal : Bool) (stages : List V) :
    let o' := rkStepExplicit (modOps (V := V)) (reflF f) (-t) y (-h) c A b fsal (stages.map (fun k => -k))
    let o := rkStepExplicit (modOps (V := V)) f t y h c A b fsal stages
    o'.dState = o.dState ∧ o'.finalRhs = -o.finalRhs ∧ o'.stages = o.stages.map (fun k => -k) := by
  unfold rkStepExplicit
  rw [computeStep_refl]
  cases fsal
  · simp only [Bool.false_eq_true, if_false, wsum_neg]
    have hd : (modOps (V := V)).smul (-h) (-wsum (modOps (V := V)) b (computeStep (modOps (V := V)) f t y h c A stages).stages) =
        (modOps (V := V)).smul h (wsum (modOps (V := V)) b (computeStep (modOps (V := V)) f t y h c A stages).stages) := by
      simp [modOps]
    rw [hd]
    have ht : -t + -h = -(t + h) := by ring
    refine ⟨?_, ?_, ?_⟩
    · first | rfl | trivial
    · simp only [reflF, ht, neg_neg]
    · first | rfl | trivial
  · simp only [if_true]
    refine ⟨?_, ?_, ?_⟩ <;> first | rfl | trivial

end DVP.RK
