import DVP.Gen.HermiteField
import Mathlib.Tactic.FieldSimp
import Mathlib.Tactic.Ring
import Mathlib.Tactic.LinearCombination
import Mathlib.Tactic.Linarith
import Mathlib.Algebra.Order.Field.Basic

namespace DVP.Hermite
open DVP.Gen.Hermite

variable {K : Type} [Field K] [DecidableEq K]

/-- the straight-line formula of `__call__` without the two early returns -/
def callPoly (t0 t1 p0 p1 m0 m1 te : K) : K :=
  let t := (te - t0) / (t1 - t0)
  (2 * (t*t*t) - 3 * (t*t) + 1) * p0 + ((t*t*t) - 2 * (t*t) + t) * (t1 - t0) * m0
    + (-2 * (t*t*t) + 3 * (t*t)) * p1 + ((t*t*t) - (t*t)) * (t1 - t0) * m1

/-- the early returns of `__call__` agree with the formula: the value is the cubic everywhere -/
theorem call_eq_callPoly (t0 t1 p0 p1 m0 m1 te : K) :
    call t0 t1 p0 p1 m0 m1 te = callPoly t0 t1 p0 p1 m0 m1 te := by
  unfold call callPoly
  simp only
  split
  · rename_i h; rw [h]; ring
  · split
    · rename_i h; rw [h]; ring
    · ring

theorem call_left (t0 t1 p0 p1 m0 m1 : K) : call t0 t1 p0 p1 m0 m1 t0 = p0 := by
  unfold call; simp

theorem call_right (t0 t1 p0 p1 m0 m1 : K) (h : t1 ≠ t0) : call t0 t1 p0 p1 m0 m1 t1 = p1 := by
  have h' : t1 - t0 ≠ 0 := sub_ne_zero.mpr h
  unfold call
  simp only [div_self h']
  split
  · rename_i h0; exact absurd h0 one_ne_zero
  · simp

theorem grad_left (t0 t1 p0 p1 m0 m1 : K) : grad t0 t1 p0 p1 m0 m1 t0 = m0 := by
  unfold grad; simp

theorem grad_right (t0 t1 p0 p1 m0 m1 : K) (h : t1 ≠ t0) : grad t0 t1 p0 p1 m0 m1 t1 = m1 := by
  have h' : t1 - t0 ≠ 0 := sub_ne_zero.mpr h
  unfold grad
  simp only [div_self h']
  split
  · rename_i h0; exact absurd h0 one_ne_zero
  · simp

/-- a cubic Hermite piece built from the values and slopes of a cubic polynomial reproduces that
cubic at every `te`, inside or outside the interval, for either orientation of the interval -/
theorem call_cubic_exact (a b c d t0 t1 te : K) (h : t1 ≠ t0) :
    call t0 t1 (a + b*t0 + c*t0^2 + d*t0^3) (a + b*t1 + c*t1^2 + d*t1^3)
      (b + 2*c*t0 + 3*d*t0^2) (b + 2*c*t1 + 3*d*t1^2) te = a + b*te + c*te^2 + d*te^3 := by
  have h' : t1 - t0 ≠ 0 := sub_ne_zero.mpr h
  rw [call_eq_callPoly]
  unfold callPoly
  simp only
  field_simp
  ring

/-- the straight-line formula of `grad` without the early returns -/
def gradPoly (t0 t1 p0 p1 m0 m1 te : K) : K :=
  let r := t1 - t0
  let t2 := 2 * (te - t0) / r * (1 / r)
  let t3 := 3 * (te - t0) / r * (te - t0) / r * (1 / r)
  (2 * t3 - 3 * t2) * p0 + (t3 - 2 * t2 + 1 / r) * r * m0 + (-2 * t3 + 3 * t2) * p1 + (t3 - t2) * r * m1

theorem grad_eq_gradPoly (t0 t1 p0 p1 m0 m1 te : K) (h : t1 ≠ t0) :
    grad t0 t1 p0 p1 m0 m1 te = gradPoly t0 t1 p0 p1 m0 m1 te := by
  have h' : t1 - t0 ≠ 0 := sub_ne_zero.mpr h
  unfold grad gradPoly
  simp only
  split
  · rename_i h0
    have : te - t0 = 0 := by
      rcases div_eq_zero_iff.mp h0 with h1 | h1
      · exact h1
      · exact absurd h1 h'
    rw [this]; field_simp; ring
  · split
    · rename_i _ h1
      have : te - t0 = t1 - t0 := by
        have := (div_eq_one_iff_eq h').mp h1
        exact this
      rw [this]; field_simp; ring
    · ring

/-- the gradient of the piece built from a cubic is the derivative of that cubic, everywhere -/
theorem grad_cubic_exact (a b c d t0 t1 te : K) (h : t1 ≠ t0) :
    grad t0 t1 (a + b*t0 + c*t0^2 + d*t0^3) (a + b*t1 + c*t1^2 + d*t1^3)
      (b + 2*c*t0 + 3*d*t0^2) (b + 2*c*t1 + 3*d*t1^2) te = b + 2*c*te + 3*d*te^2 := by
  have h' : t1 - t0 ≠ 0 := sub_ne_zero.mpr h
  rw [grad_eq_gradPoly _ _ _ _ _ _ _ h]
  unfold gradPoly
  simp only
  field_simp
  ring

omit [DecidableEq K] in
/-- every Hermite datum is the datum of a cubic: together with the two exactness theorems this
gives "grad is the derivative of value" for arbitrary data -/
theorem data_from_cubic (t0 t1 p0 p1 m0 m1 : K) (h : t1 ≠ t0) :
    ∃ a b c d : K, p0 = a + b*t0 + c*t0^2 + d*t0^3 ∧ p1 = a + b*t1 + c*t1^2 + d*t1^3 ∧
      m0 = b + 2*c*t0 + 3*d*t0^2 ∧ m1 = b + 2*c*t1 + 3*d*t1^2 := by
  have h' : t1 - t0 ≠ 0 := sub_ne_zero.mpr h
  -- Newton form on the nodes t0, t0, t1, t1
  let r := t1 - t0
  let f01 := (p1 - p0) / r
  let e2 := (f01 - m0) / r
  let e3 := ((m1 - f01) / r - e2) / r
  -- p(x) = p0 + m0 (x-t0) + e2 (x-t0)^2 + e3 (x-t0)^2 (x-t1)
  refine ⟨p0 - m0*t0 + e2*t0^2 - e3*t0^2*t1, m0 - 2*e2*t0 + e3*(t0^2 + 2*t0*t1), e2 - e3*(2*t0 + t1), e3, ?_, ?_, ?_, ?_⟩
  · ring
  · simp only [e3, e2, f01, r]; field_simp; ring
  · ring
  · simp only [e3, e2, f01, r]; field_simp; ring

/-- the interpolation error on a quartic is exactly its leading coefficient times `(te - t0)^2 (te - t1)^2` -/
theorem call_quartic_error (a b c d e t0 t1 te : K) (h : t1 ≠ t0) :
    (a + b*te + c*te^2 + d*te^3 + e*te^4) -
      call t0 t1 (a + b*t0 + c*t0^2 + d*t0^3 + e*t0^4) (a + b*t1 + c*t1^2 + d*t1^3 + e*t1^4)
        (b + 2*c*t0 + 3*d*t0^2 + 4*e*t0^3) (b + 2*c*t1 + 3*d*t1^2 + 4*e*t1^3) te = e * ((te - t0)^2 * (te - t1)^2) := by
  have h' : t1 - t0 ≠ 0 := sub_ne_zero.mpr h
  rw [call_eq_callPoly]
  unfold callPoly
  simp only
  field_simp
  ring

theorem node_product_bound {K : Type} [Field K] [LinearOrder K] [IsStrictOrderedRing K] (t0 t1 te : K)
    (hin : (te - t0) * (te - t1) ≤ 0) : (te - t0)^2 * (te - t1)^2 ≤ (t1 - t0)^4 / 16 := by
  have h1 : 0 ≤ -((te - t0) * (te - t1)) := by linarith
  have h2 : -((te - t0) * (te - t1)) ≤ (t1 - t0)^2 / 4 := by nlinarith [sq_nonneg (2*te - t0 - t1)]
  have : (te - t0)^2 * (te - t1)^2 = (-((te - t0) * (te - t1)))^2 := by ring
  rw [this]
  have h3 : (t1 - t0)^4 / 16 = ((t1 - t0)^2 / 4)^2 := by ring
  rw [h3]
  exact pow_le_pow_left₀ h1 h2 2

end DVP.Hermite
