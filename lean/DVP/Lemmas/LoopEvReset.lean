import DVP.Lemmas.LoopEv

/-! The operation machine of a system with events (the one the model driver runs, `runScenarioEv`): calls with
and without events, `dt` assignments, `reset()` — and what `reset()` restores after any history. -/
namespace DVP.LoopEv
open DV DV.Loop DV.Events DV.LoopEv DVP.Loop

/-- the state a user can observe besides the states `y`: time grid, recorded events, dense-output knots -/
structure St where
  sys : Sys ℚ
  evs : List (Nat × ℚ)
  kn : List ℚ

inductive OpEv where
  | integrate (target : ℚ) (orc : Oracle ℚ) (fuel : Nat)
  | evint (target : ℚ) (nEvents : Nat) (orc : OracleEv ℚ) (fuel : Nat)
  | setDt (v : ℚ)
  | reset

def applyOpEv (cfg : CfgEv ℚ) (st : St) : OpEv → St
  | .integrate target orc fuel =>
    { sys := (Loop.integrate cfg.loop st.sys target orc fuel).sys, evs := st.evs,
      kn := plainKnots cfg.dense st.kn st.sys.ts (Loop.integrate cfg.loop st.sys target orc fuel).sys.ts }
  | .evint target n orc fuel =>
    { sys := (integrateEv cfg st.sys st.evs st.kn n target orc fuel).sys,
      evs := (integrateEv cfg st.sys st.evs st.kn n target orc fuel).book.events,
      kn := (integrateEv cfg st.sys st.evs st.kn n target orc fuel).knots }
  | .setDt v => { st with sys := setDt st.sys v }
  | .reset => { sys := Loop.reset st.sys, evs := [], kn := [] }

theorem getLast?_append_of_ne_nil (a b : List ℚ) (hb : b ≠ []) : (a ++ b).getLast? = b.getLast? := by
  induction a with
  | nil => rfl
  | cons x xs ih =>
    have : xs ++ b ≠ [] := by simp [hb]
    obtain ⟨y, ys, hy⟩ := List.exists_cons_of_ne_nil this
    rw [List.cons_append, hy, List.getLast?_cons_cons, ← hy, ih]

theorem loopEv_static (cfg : CfgEv ℚ) (target : ℚ) (orc : OracleEv ℚ) (fuel k : Nat) (s : Sys ℚ) (b : Book ℚ) (kn : List ℚ)
    (reqs : List (Req ℚ)) (hne : s.ts ≠ []) : Static s (loopEv cfg target orc fuel k s b kn reqs).sys := by
  have o := loopEv_outcome cfg target orc fuel k s b kn reqs hne
  obtain ⟨news, hn⟩ := o.samples
  obtain ⟨a, b', c⟩ := o.static
  exact ⟨a, b', c, by rw [hn]; exact getLast?_append_of_ne_nil news s.ts hne, by rw [hn]; simp [hne]⟩

theorem integrateEv_static (cfg : CfgEv ℚ) (s : Sys ℚ) (evs : List (Nat × ℚ)) (kn : List ℚ) (nEvents : Nat) (target : ℚ)
    (orc : OracleEv ℚ) (fuel : Nat) (hne : s.ts ≠ []) : Static s (integrateEv cfg s evs kn nEvents target orc fuel).sys := by
  unfold integrateEv
  by_cases hc : s.crashed = true
  · simp only [hc, if_true]; exact ⟨rfl, rfl, rfl, rfl, hne⟩
  · rw [if_neg hc]
    by_cases hat : absC (target - s.tcur) < cfg.loop.tolEps
    · rw [if_pos hat]; exact ⟨rfl, rfl, rfl, rfl, hne⟩
    · rw [if_neg hat]
      cases hal : allocSteps (target - s.tcur) (initialDt cfg.loop s target) with
      | none => simp only [hal]; exact ⟨rfl, rfl, rfl, rfl, hne⟩
      | some n =>
        simp only [hal]
        have := loopEv_static cfg target orc fuel 0
          { s with dt := initialDt cfg.loop s target, cap := s.cap + n,
                   status := if s.status == 2 ∨ s.status == 3 ∨ s.status == 4 then 0 else s.status }
          { last := List.replicate nEvents none, events := evs } kn [] hne
        exact ⟨this.t0, this.tf, this.dt0, this.first, this.nonempty⟩

theorem applyOpEv_static (cfg : CfgEv ℚ) (st : St) (op : OpEv) (hne : st.sys.ts ≠ []) : Static st.sys (applyOpEv cfg st op).sys := by
  cases op with
  | integrate target orc fuel => exact integrate_static cfg.loop st.sys target orc fuel hne
  | evint target n orc fuel => exact integrateEv_static cfg st.sys st.evs st.kn n target orc fuel hne
  | setDt v => exact ⟨rfl, rfl, rfl, rfl, hne⟩
  | reset => exact applyOp_static cfg.loop st.sys .reset hne

theorem applyOpsEv_static (cfg : CfgEv ℚ) : ∀ (ops : List OpEv) (st : St), st.sys.ts ≠ [] →
    Static st.sys (ops.foldl (applyOpEv cfg) st).sys := by
  intro ops
  induction ops with
  | nil => intro st hne; exact ⟨rfl, rfl, rfl, rfl, hne⟩
  | cons op r ih =>
    intro st hne
    have h1 := applyOpEv_static cfg st op hne
    have h2 := ih (applyOpEv cfg st op) h1.nonempty
    exact ⟨h2.t0.trans h1.t0, h2.tf.trans h1.tf, h2.dt0.trans h1.dt0, h2.first.trans h1.first, h2.nonempty⟩

end DVP.LoopEv
