import DVP.Lemmas.Hermite
import Mathlib.Analysis.Calculus.LocalExtr.Rolle
import Mathlib.Analysis.Calculus.Deriv.Pow
import Mathlib.Analysis.Calculus.Deriv.Mul
import Mathlib.Analysis.Calculus.Deriv.Add
import Mathlib.Tactic.Linarith
import Mathlib.Tactic.FieldSimp

/-! The error of cubic Hermite interpolation for a four times differentiable function: the classical
`f(x) - H(x) = f''''(ξ)/24 (x - t0)^2 (x - t1)^2` by four rounds of Rolle's theorem. -/
namespace DVP.HermiteError
open Set

/-- Rolle for a function differentiable everywhere -/
theorem rolle (g g' : ℝ → ℝ) (hg : ∀ s, HasDerivAt g (g' s) s) (a b : ℝ) (hab : a < b) (h : g a = g b) :
    ∃ c, a < c ∧ c < b ∧ g' c = 0 := by
  have hc : ContinuousOn g (Icc a b) := fun s _ => (hg s).continuousAt.continuousWithinAt
  obtain ⟨c, hc, h0⟩ := exists_hasDerivAt_eq_zero hab hc h (fun s _ => hg s)
  exact ⟨c, hc.1, hc.2, h0⟩

/-- the node polynomial and its derivatives -/
def w (t0 t1 s : ℝ) : ℝ := (s - t0) ^ 2 * (s - t1) ^ 2
def w1 (t0 t1 s : ℝ) : ℝ := 2 * (s - t0) * (s - t1) ^ 2 + (s - t0) ^ 2 * (2 * (s - t1))
def w2 (t0 t1 s : ℝ) : ℝ := 2 * (s - t1) ^ 2 + 8 * (s - t0) * (s - t1) + 2 * (s - t0) ^ 2
def w3 (t0 t1 s : ℝ) : ℝ := 12 * (s - t0) + 12 * (s - t1)

theorem hasDerivAt_w (t0 t1 s : ℝ) : HasDerivAt (w t0 t1) (w1 t0 t1 s) s := by
  have h0 : HasDerivAt (fun s : ℝ => s - t0) 1 s := (hasDerivAt_id s).sub_const t0
  have h1 : HasDerivAt (fun s : ℝ => s - t1) 1 s := (hasDerivAt_id s).sub_const t1
  exact ((h0.pow 2).mul (h1.pow 2)).congr_deriv (by simp only [w1, Pi.pow_apply]; push_cast; ring)

theorem hasDerivAt_w1 (t0 t1 s : ℝ) : HasDerivAt (w1 t0 t1) (w2 t0 t1 s) s := by
  have h0 : HasDerivAt (fun s : ℝ => s - t0) 1 s := (hasDerivAt_id s).sub_const t0
  have h1 : HasDerivAt (fun s : ℝ => s - t1) 1 s := (hasDerivAt_id s).sub_const t1
  exact ((((h0.const_mul 2).mul (h1.pow 2))).add ((h0.pow 2).mul (h1.const_mul 2))).congr_deriv
    (by simp only [w2, Pi.pow_apply]; push_cast; ring)

theorem hasDerivAt_w2 (t0 t1 s : ℝ) : HasDerivAt (w2 t0 t1) (w3 t0 t1 s) s := by
  have h0 : HasDerivAt (fun s : ℝ => s - t0) 1 s := (hasDerivAt_id s).sub_const t0
  have h1 : HasDerivAt (fun s : ℝ => s - t1) 1 s := (hasDerivAt_id s).sub_const t1
  exact ((((h1.pow 2).const_mul 2).add ((h0.const_mul 8).mul h1)).add ((h0.pow 2).const_mul 2)).congr_deriv
    (by simp only [w3, Pi.pow_apply]; push_cast; ring)

theorem hasDerivAt_w3 (t0 t1 s : ℝ) : HasDerivAt (w3 t0 t1) 24 s := by
  have h0 : HasDerivAt (fun s : ℝ => s - t0) 1 s := (hasDerivAt_id s).sub_const t0
  have h1 : HasDerivAt (fun s : ℝ => s - t1) 1 s := (hasDerivAt_id s).sub_const t1
  exact ((h0.const_mul 12).add (h1.const_mul 12)).congr_deriv (by norm_num)

/-- **A function with double zeros at `t0 < t1`**: at every `x` strictly between, its value is
`E''''(ξ)/24 · (x - t0)² (x - t1)²` for some `ξ` strictly between the nodes. -/
theorem double_zeros (E E1 E2 E3 E4 : ℝ → ℝ)
    (h0 : ∀ s, HasDerivAt E (E1 s) s) (h1 : ∀ s, HasDerivAt E1 (E2 s) s)
    (h2 : ∀ s, HasDerivAt E2 (E3 s) s) (h3 : ∀ s, HasDerivAt E3 (E4 s) s)
    (t0 t1 x : ℝ) (hx0 : t0 < x) (hx1 : x < t1)
    (z0 : E t0 = 0) (z1 : E t1 = 0) (d0 : E1 t0 = 0) (d1 : E1 t1 = 0) :
    ∃ ξ, t0 < ξ ∧ ξ < t1 ∧ E x = E4 ξ / 24 * w t0 t1 x := by
  have hw : w t0 t1 x ≠ 0 := by
    unfold w
    have a : x - t0 ≠ 0 := sub_ne_zero.mpr (ne_of_gt hx0)
    have b : x - t1 ≠ 0 := sub_ne_zero.mpr (ne_of_lt hx1)
    positivity
  set K := E x / w t0 t1 x with hK
  -- g = E - K w and its derivatives
  have g0 : ∀ s, HasDerivAt (fun s => E s - K * w t0 t1 s) (E1 s - K * w1 t0 t1 s) s :=
    fun s => (h0 s).sub ((hasDerivAt_w t0 t1 s).const_mul K)
  have g1 : ∀ s, HasDerivAt (fun s => E1 s - K * w1 t0 t1 s) (E2 s - K * w2 t0 t1 s) s :=
    fun s => (h1 s).sub ((hasDerivAt_w1 t0 t1 s).const_mul K)
  have g2 : ∀ s, HasDerivAt (fun s => E2 s - K * w2 t0 t1 s) (E3 s - K * w3 t0 t1 s) s :=
    fun s => (h2 s).sub ((hasDerivAt_w2 t0 t1 s).const_mul K)
  have g3 : ∀ s, HasDerivAt (fun s => E3 s - K * w3 t0 t1 s) (E4 s - K * 24) s :=
    fun s => (h3 s).sub ((hasDerivAt_w3 t0 t1 s).const_mul K)
  -- zeros of g
  have gt0 : E t0 - K * w t0 t1 t0 = 0 := by simp [z0, w]
  have gt1 : E t1 - K * w t0 t1 t1 = 0 := by simp [z1, w]
  have gx : E x - K * w t0 t1 x = 0 := by rw [hK]; field_simp; ring
  -- zeros of g'
  have g1t0 : E1 t0 - K * w1 t0 t1 t0 = 0 := by simp [d0, w1]
  have g1t1 : E1 t1 - K * w1 t0 t1 t1 = 0 := by simp [d1, w1]
  obtain ⟨a1, ha1l, ha1r, ha1⟩ := rolle _ _ g0 t0 x hx0 (by rw [gt0, gx])
  obtain ⟨a2, ha2l, ha2r, ha2⟩ := rolle _ _ g0 x t1 hx1 (by rw [gx, gt1])
  -- g' vanishes at t0 < a1 < a2 < t1
  obtain ⟨b1, hb1l, hb1r, hb1⟩ := rolle _ _ g1 t0 a1 ha1l (by rw [g1t0, ha1])
  obtain ⟨b2, hb2l, hb2r, hb2⟩ := rolle _ _ g1 a1 a2 (by linarith) (by rw [ha1, ha2])
  obtain ⟨b3, hb3l, hb3r, hb3⟩ := rolle _ _ g1 a2 t1 ha2r (by rw [ha2, g1t1])
  -- g'' vanishes at b1 < b2 < b3
  obtain ⟨c1, hc1l, hc1r, hc1⟩ := rolle _ _ g2 b1 b2 (by linarith) (by rw [hb1, hb2])
  obtain ⟨c2, hc2l, hc2r, hc2⟩ := rolle _ _ g2 b2 b3 (by linarith) (by rw [hb2, hb3])
  -- g''' vanishes at c1 < c2
  obtain ⟨ξ, hξl, hξr, hξ⟩ := rolle _ _ g3 c1 c2 (by linarith) (by rw [hc1, hc2])
  refine ⟨ξ, by linarith, by linarith, ?_⟩
  have hK' : K = E4 ξ / 24 := by linarith
  rw [← hK', hK]
  field_simp

theorem w_symm (t0 t1 s : ℝ) : w t1 t0 s = w t0 t1 s := by unfold w; ring

/-- derivatives of a cubic -/
theorem hasDerivAt_cubic (a b c d s : ℝ) :
    HasDerivAt (fun s : ℝ => a + b*s + c*s^2 + d*s^3) (b + 2*c*s + 3*d*s^2) s := by
  have hid : HasDerivAt (fun s : ℝ => s) 1 s := hasDerivAt_id s
  exact ((((hasDerivAt_const s a).add (hid.const_mul b)).add ((hid.pow 2).const_mul c)).add ((hid.pow 3).const_mul d)).congr_deriv
    (by (try simp only [Pi.pow_apply]); push_cast; ring)

theorem hasDerivAt_quadratic (b c d s : ℝ) :
    HasDerivAt (fun s : ℝ => b + 2*c*s + 3*d*s^2) (2*c + 6*d*s) s := by
  have hid : HasDerivAt (fun s : ℝ => s) 1 s := hasDerivAt_id s
  exact (((hasDerivAt_const s b).add (hid.const_mul (2*c))).add ((hid.pow 2).const_mul (3*d))).congr_deriv
    (by (try simp only [Pi.pow_apply]); push_cast; ring)

theorem hasDerivAt_linear (c d s : ℝ) : HasDerivAt (fun s : ℝ => 2*c + 6*d*s) (6*d) s := by
  have hid : HasDerivAt (fun s : ℝ => s) 1 s := hasDerivAt_id s
  exact ((hasDerivAt_const s (2*c)).add (hid.const_mul (6*d))).congr_deriv (by ring)

open DVP.Gen.Hermite in
/-- **The error of the Hermite piece of the library on a four times differentiable function.**  `call` is the
regenerated `CubicHermiteInterp.__call__`; the data are the values and slopes of `f` at the two ends.  For
every `x` strictly inside the piece (either orientation of the interval) there is a `ξ` strictly inside with
`f x - H x = f4(ξ)/24 · (x - t0)² (x - t1)²`, `f4` the fourth derivative. -/
theorem hermite_error [DecidableEq ℝ] (f f1 f2 f3 f4 : ℝ → ℝ)
    (h0 : ∀ s, HasDerivAt f (f1 s) s) (h1 : ∀ s, HasDerivAt f1 (f2 s) s)
    (h2 : ∀ s, HasDerivAt f2 (f3 s) s) (h3 : ∀ s, HasDerivAt f3 (f4 s) s)
    (t0 t1 x : ℝ) (hx : (x - t0) * (x - t1) < 0) :
    ∃ ξ, (ξ - t0) * (ξ - t1) < 0 ∧
      f x - call t0 t1 (f t0) (f t1) (f1 t0) (f1 t1) x = f4 ξ / 24 * ((x - t0) ^ 2 * (x - t1) ^ 2) := by
  have hne : t1 ≠ t0 := by
    intro h; rw [h] at hx; nlinarith [sq_nonneg (x - t0)]
  obtain ⟨a, b, c, d, e0, e1, e2, e3⟩ := DVP.Hermite.data_from_cubic t0 t1 (f t0) (f t1) (f1 t0) (f1 t1) hne
  have hcall : ∀ te, call t0 t1 (f t0) (f t1) (f1 t0) (f1 t1) te = a + b*te + c*te^2 + d*te^3 := by
    intro te
    have := DVP.Hermite.call_cubic_exact a b c d t0 t1 te hne
    rw [← e0, ← e1, ← e2, ← e3] at this
    exact this
  -- the error function and its derivatives
  have E0 : ∀ s, HasDerivAt (fun s => f s - (a + b*s + c*s^2 + d*s^3)) (f1 s - (b + 2*c*s + 3*d*s^2)) s :=
    fun s => (h0 s).sub (hasDerivAt_cubic a b c d s)
  have E1 : ∀ s, HasDerivAt (fun s => f1 s - (b + 2*c*s + 3*d*s^2)) (f2 s - (2*c + 6*d*s)) s :=
    fun s => (h1 s).sub (hasDerivAt_quadratic b c d s)
  have E2 : ∀ s, HasDerivAt (fun s => f2 s - (2*c + 6*d*s)) (f3 s - 6*d) s :=
    fun s => (h2 s).sub (hasDerivAt_linear c d s)
  have E3 : ∀ s, HasDerivAt (fun s => f3 s - 6*d) (f4 s) s :=
    fun s => by simpa using (h3 s).sub_const (6*d)
  have z0 : f t0 - (a + b*t0 + c*t0^2 + d*t0^3) = 0 := by rw [← e0]; ring
  have z1 : f t1 - (a + b*t1 + c*t1^2 + d*t1^3) = 0 := by rw [← e1]; ring
  have d0 : f1 t0 - (b + 2*c*t0 + 3*d*t0^2) = 0 := by rw [← e2]; ring
  have d1 : f1 t1 - (b + 2*c*t1 + 3*d*t1^2) = 0 := by rw [← e3]; ring
  rw [hcall x]
  rcases lt_or_gt_of_ne hne with hlt | hgt
  · -- t1 < t0
    have hx1 : t1 < x := by by_contra hc; nlinarith
    have hx0 : x < t0 := by by_contra hc; nlinarith
    obtain ⟨ξ, hl, hr, hE⟩ := double_zeros _ _ _ _ _ E0 E1 E2 E3 t1 t0 x hx1 hx0 z1 z0 d1 d0
    refine ⟨ξ, by nlinarith, ?_⟩
    rw [hE, w_symm]; rfl
  · -- t0 < t1
    have hx0 : t0 < x := by by_contra hc; nlinarith
    have hx1 : x < t1 := by by_contra hc; nlinarith
    obtain ⟨ξ, hl, hr, hE⟩ := double_zeros _ _ _ _ _ E0 E1 E2 E3 t0 t1 x hx0 hx1 z0 z1 d0 d1
    refine ⟨ξ, by nlinarith, ?_⟩
    rw [hE]; rfl

end DVP.HermiteError
