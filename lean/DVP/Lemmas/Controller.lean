import DV.Model.Controller
import DVP.Lemmas.Loop

/-! The accept/retry logic of `RungeKuttaIntegrator.__call__` over `ℚ`. -/
namespace DVP.Controller
open DV DV.Controller DVP.Brent

/-- what `step` + `update_timestep` guarantee for an attempt with step `hi` (from `timestep = corr ·
dTime` with `corr > 0`, and `redo ⇔ corr < 0.81`): the proposal has the sign of the attempted step,
and a rejection proposes a strictly smaller magnitude -/
def AttOK (hi : ℚ) (a : Attempt ℚ) : Prop := 0 < a.ts * hi ∧ (a.redo = true → |a.ts| < |hi|)

def AllOK (att : Attempts ℚ) : Prop := ∀ k hi, hi ≠ 0 → AttOK hi (att k hi)

theorem verdict_sign (implicit : Bool) (c08 hi : ℚ) (hc : 0 < c08) (a : Attempt ℚ) (ha : 0 < a.ts * hi) :
    0 < (verdict implicit c08 a).1 * hi := by
  unfold verdict
  split
  · simp only; nlinarith
  · exact ha

theorem sign_chain {a b c : ℚ} (hab : 0 < a * b) (hbc : 0 < b * c) : 0 < a * c :=
  DVP.Loop.same_sign_mul (σ := b) hab (by rw [mul_comm]; exact hbc)

/-- the step attempted in a retry points like `h` and is not longer -/
theorem retry_step (ts h : ℚ) (hts : 0 < ts * h) :
    let hi := if absC ts < absC h then ts else h
    0 < hi * h ∧ |hi| ≤ |h| ∧ hi ≠ 0 := by
  have hh : h ≠ 0 := by intro h0; rw [h0] at hts; simp at hts
  simp only [absC_rat]
  split
  · rename_i hlt
    exact ⟨hts, le_of_lt hlt, by intro h0; rw [h0] at hts; simp at hts⟩
  · exact ⟨mul_self_pos.mpr hh, le_refl _, hh⟩

/-- **Contract of an accepted call** (K1/K2 of DESIGN.md): whatever happens in the retry loop, a
call that returns hands back a non-zero step in the direction of the request, not longer than the
request, and a non-zero proposal for the next step. -/
theorem retry_contract (implicit : Bool) (c08 h : ℚ) (hc : 0 < c08) (att : Attempts ℚ) (hatt : AllOK att) :
    ∀ (fuel k : Nat) (ts : ℚ) (tried : List ℚ), 0 < ts * h →
      ∀ newDt dT tr, retry implicit c08 h att fuel k ts tried = .ok newDt dT tr →
        dT ≠ 0 ∧ 0 < dT * h ∧ |dT| ≤ |h| ∧ newDt ≠ 0 := by
  intro fuel
  induction fuel with
  | zero => intro k ts tried _ newDt dT tr h'; simp [retry] at h'
  | succ n ih =>
    intro k ts tried hts newDt dT tr hres
    unfold retry at hres
    obtain ⟨h1, h2, h3⟩ := retry_step ts h hts
    simp only at h1 h2 h3 hres
    set hi := (if absC ts < absC h then ts else h) with hhi
    have hok := hatt k hi h3
    have hv := verdict_sign implicit c08 hi hc (att k hi) hok.1
    split at hres
    · exact ih (k + 1) _ _ (sign_chain hv h1) newDt dT tr hres
    · injection hres with e1 e2 e3
      subst e1 e2
      refine ⟨h3, h1, h2, ?_⟩
      intro h0; rw [h0] at hv; simp at hv

theorem call_contract (ai implicit : Bool) (c08 h : ℚ) (hc : 0 < c08) (hh : h ≠ 0) (att : Attempts ℚ) (hatt : AllOK att)
    (retries : Nat) (newDt dT : ℚ) (tr : List ℚ) (hres : call ai implicit c08 h att retries = .ok newDt dT tr) :
    dT ≠ 0 ∧ 0 < dT * h ∧ |dT| ≤ |h| ∧ newDt ≠ 0 := by
  unfold call at hres
  split at hres
  · injection hres with e1 e2 e3
    subst e1 e2
    exact ⟨hh, mul_self_pos.mpr hh, le_refl _, hh⟩
  · have hok := hatt 0 h hh
    have hv := verdict_sign implicit c08 h hc (att 0 h) hok.1
    simp only at hres
    split at hres
    · exact retry_contract implicit c08 h hc att hatt retries 1 _ _ hv newDt dT tr hres
    · injection hres with e1 e2 e3
      subst e1 e2
      exact ⟨hh, mul_self_pos.mpr hh, le_refl _, by intro h0; rw [h0] at hv; simp at hv⟩

/-- **An implicit step that was not solved to tolerance is never handed back**: when a call of an
implicit method returns, the accepted attempt had its Newton flag set and the controller's verdict
was "accept"; the returned step and proposal are that attempt's. -/
theorem retry_accepts_converged (c08 h : ℚ) (att : Attempts ℚ) :
    ∀ (fuel k : Nat) (ts : ℚ) (tried : List ℚ) newDt dT tr, retry true c08 h att fuel k ts tried = .ok newDt dT tr →
      ∃ k', (att k' dT).newtonOk = true ∧ (att k' dT).redo = false ∧ newDt = (att k' dT).ts := by
  intro fuel
  induction fuel with
  | zero => intro k ts tried newDt dT tr h'; simp [retry] at h'
  | succ n ih =>
    intro k ts tried newDt dT tr hres
    unfold retry at hres
    simp only at hres
    generalize (if absC ts < absC h then ts else h) = hi at hres
    split at hres
    · exact ih _ _ _ newDt dT tr hres
    · rename_i hnv
      injection hres with e1 e2 e3
      subst e2
      refine ⟨k, ?_⟩
      unfold verdict at hnv e1
      by_cases hn : (att k hi).newtonOk = true
      · simp only [hn, Bool.not_true, Bool.and_false, Bool.false_eq_true, if_false] at hnv e1
        exact ⟨hn, by simpa using hnv, e1.symm⟩
      · simp [hn] at hnv

theorem call_accepts_converged (c08 h : ℚ) (att : Attempts ℚ) (retries : Nat) (newDt dT : ℚ) (tr : List ℚ)
    (hres : call true true c08 h att retries = .ok newDt dT tr) :
    ∃ k', (att k' dT).newtonOk = true ∧ (att k' dT).redo = false ∧ newDt = (att k' dT).ts := by
  unfold call at hres
  simp only [Bool.not_true, Bool.false_eq_true, if_false] at hres
  split at hres
  · exact retry_accepts_converged c08 h att retries 1 _ _ newDt dT tr hres
  · rename_i hnv
    injection hres with e1 e2 e3
    subst e2
    refine ⟨0, ?_⟩
    unfold verdict at hnv e1
    by_cases hn : (att 0 h).newtonOk = true
    · simp only [hn, Bool.not_true, Bool.and_false, Bool.false_eq_true, if_false] at hnv e1
      exact ⟨hn, by simpa using hnv, e1.symm⟩
    · simp [hn] at hnv

/-- `tried` (oldest first) strictly decreases in magnitude -/
def StrictDec : List ℚ → Prop
  | [] => True
  | [_] => True
  | a :: b :: r => |b| < |a| ∧ StrictDec (b :: r)

/-- if the loop raises it has made exactly `fuel` further attempts -/
theorem retry_raise_length (implicit : Bool) (c08 h : ℚ) (att : Attempts ℚ) :
    ∀ (fuel k : Nat) (ts : ℚ) (tried tr : List ℚ), retry implicit c08 h att fuel k ts tried = .raise tr →
      tr.length = tried.length + fuel := by
  intro fuel
  induction fuel with
  | zero => intro k ts tried tr h'; simp [retry] at h'; rw [← h']; simp
  | succ n ih =>
    intro k ts tried tr hres
    unfold retry at hres
    simp only at hres
    generalize (if absC ts < absC h then ts else h) = hi at hres
    split at hres
    · have := ih _ _ _ tr hres
      simp at this; omega
    · simp at hres

/-- **Bounded retries, then an error**: a call raises only after exactly `1 + retries` attempts -/
theorem call_raise_length (ai implicit : Bool) (c08 h : ℚ) (att : Attempts ℚ) (retries : Nat) (tr : List ℚ)
    (hres : call ai implicit c08 h att retries = .raise tr) : tr.length = 1 + retries := by
  unfold call at hres
  split at hres
  · simp at hres
  · simp only at hres
    split at hres
    · have := retry_raise_length implicit c08 h att retries 1 _ [h] tr hres
      simpa using this
    · simp at hres

end DVP.Controller

namespace DVP.Controller
open DV DV.Controller DVP.Brent

/-- attempted steps, newest first: each is strictly smaller in magnitude than the one before it -/
def DecNF : List ℚ → Prop
  | [] => True
  | [_] => True
  | a :: b :: r => |a| < |b| ∧ DecNF (b :: r)

def triedOf : Result ℚ → List ℚ
  | .ok _ _ tr => tr
  | .raise tr => tr

/-- **A rejected step is retried with a strictly smaller step magnitude** (explicit adaptive
methods: every `redo` comes from the controller) — for steps of either sign. -/
theorem retry_strictly_shrinks (c08 h : ℚ) (att : Attempts ℚ) (hatt : AllOK att) :
    ∀ (fuel k : Nat) (ts p : ℚ) (rest : List ℚ), DecNF (p :: rest) → |p| ≤ |h| → |ts| < |p| → ts ≠ 0 →
      DecNF (triedOf (retry false c08 h att fuel k ts (p :: rest))).reverse := by
  intro fuel
  induction fuel with
  | zero => intro k ts p rest hd _ _ _; simpa [retry, triedOf] using hd
  | succ n ih =>
    intro k ts p rest hd hp hts hts0
    unfold retry
    have hlt : |ts| < |h| := lt_of_lt_of_le hts hp
    have hhi : (if absC ts < absC h then ts else h) = ts := by simp [absC_rat, hlt]
    simp only [hhi]
    have hok := hatt k ts hts0
    have hd' : DecNF (ts :: p :: rest) := ⟨hts, hd⟩
    unfold verdict
    simp only [Bool.false_and, Bool.false_eq_true, if_false]
    split
    · rename_i hredo
      have hne : (att k ts).ts ≠ 0 := by intro h0; have := hok.1; rw [h0] at this; simp at this
      exact ih (k + 1) _ ts (p :: rest) hd' (le_of_lt hlt) (hok.2 hredo) hne
    · simpa [triedOf] using hd'

theorem call_strictly_shrinks (c08 h : ℚ) (hh : h ≠ 0) (att : Attempts ℚ) (hatt : AllOK att) (retries : Nat) :
    DecNF (triedOf (call true false c08 h att retries)).reverse := by
  unfold call
  simp only [Bool.not_true, Bool.false_eq_true, if_false]
  have hok := hatt 0 h hh
  unfold verdict
  simp only [Bool.false_and, Bool.false_eq_true, if_false]
  split
  · rename_i hredo
    have hne : (att 0 h).ts ≠ 0 := by intro h0; have := hok.1; rw [h0] at this; simp at this
    exact retry_strictly_shrinks c08 h att hatt retries 1 _ h [] trivial (le_refl _) (hok.2 hredo) hne
  · simp [triedOf, DecNF]

end DVP.Controller
