import DVP.Lemmas.Run
import DVP.Lemmas.LoopIdem
import DVP.Lemmas.LoopReset

/-! Splitting a fixed-step run at one of its own grid points: `integrate(t₁); integrate(T)` records the
same samples as `integrate(T)` when `t₁` is a whole number of steps from the start and at least one
whole step before `T`. -/
namespace DVP.RunSplit
open DV DV.Loop DV.Run DVP.Loop DVP.Run DVP.Brent

/-- what the samples depend on: time and size of a request -/
def th (r : Req ℚ) : ℚ × ℚ := (r.t, r.h)

theorem tcur_eq {s s' : Sys ℚ} (h1 : s.ts = s'.ts) (h2 : s.t0 = s'.t0) : s.tcur = s'.tcur := by
  simp [Sys.tcur, h1, h2]

theorem allocSteps_some (a b : ℚ) : ∃ n, allocSteps a b = some n := by
  simp [allocSteps, HasTrunc.truncInt, HasTrunc.isInf]

/-- buffer capacities, statuses and iteration counters do not influence what a fixed-step loop records -/
theorem loop_cap_irrel (cfg : Cfg ℚ) (T : ℚ) :
    ∀ (fuel k k' : Nat) (s s' : Sys ℚ) (reqs reqs' : List (Req ℚ)),
      s.ts = s'.ts → s.t0 = s'.t0 → s.dt = s'.dt →
      (loop cfg T DVP.Loop.fixedOrc fuel k s reqs).sys.ts = (loop cfg T DVP.Loop.fixedOrc fuel k' s' reqs').sys.ts ∧
      (loop cfg T DVP.Loop.fixedOrc fuel k s reqs).sys.dt = (loop cfg T DVP.Loop.fixedOrc fuel k' s' reqs').sys.dt := by
  intro fuel
  induction fuel with
  | zero => intro k k' s s' reqs reqs' h1 h2 h3; simp [loop, h1, h3]
  | succ n ih =>
    intro k k' s s' reqs reqs' h1 h2 h3
    have htc := tcur_eq h1 h2
    have hguard : DV.Loop.guard cfg T s = DV.Loop.guard cfg T s' := by
      unfold DV.Loop.guard; rw [h3, htc]
    have hfin : isFinal T s = isFinal T s' := by unfold isFinal; rw [h3, htc]
    have hreq : request T s = request T s' := by unfold request; rw [hfin, h3, htc]
    unfold loop
    rw [← hguard]
    by_cases hg : DV.Loop.guard cfg T s = true
    · simp only [hg, Bool.not_true, Bool.false_eq_true, if_false, DVP.Loop.fixedOrc]
      obtain ⟨g, hgr⟩ := growth_some T s (request T s)
      obtain ⟨g', hgr'⟩ := growth_some T s' (request T s')
      simp only [hgr, hgr']
      apply ih
      · simp [advance, h1, htc, hreq]
      · simp [advance, h2]
      · simp [advance, hfin, h3, hreq, htc]
    · have hg' : DV.Loop.guard cfg T s = false := by simpa using hg
      simp [hg', h1, h3]

/-- one whole step toward a target that is at least one step away -/
theorem one_step (cfg : Cfg ℚ) (T d : ℚ) (fuel k : Nat) (s : Sys ℚ) (reqs : List (Req ℚ))
    (hdt : s.dt = d) (hdir : 0 < d * (T - s.tcur)) (hfar : |d| ≤ |T - s.tcur|) (htol : cfg.tolEps ≤ |d|) :
    ∃ g, loop cfg T DVP.Loop.fixedOrc (fuel + 1) k s reqs =
      loop cfg T DVP.Loop.fixedOrc fuel (k + 1)
        { s with ts := (s.tcur + d) :: s.ts, cap := s.cap + g, dt := fixDir d (T - (s.tcur + d)) }
        ({ t := s.tcur, h := d, final := false, cap := s.cap } :: reqs) := by
  have hd0 : d ≠ 0 := by intro h; rw [h] at hdir; simp at hdir
  have hg : DV.Loop.guard cfg T s = true := (guard_rat cfg T s).mpr ⟨by rw [hdt]; exact hd0, le_trans htol hfar⟩
  have hfin : isFinal T s = false := by
    have : ¬ (isFinal T s = true) := fun h => by
      have := (isFinal_rat T s).mp h; rw [hdt] at this; exact absurd this (not_lt.mpr hfar)
    simpa using this
  have hreq : request T s = d := by unfold request; simp [hfin, hdt]
  obtain ⟨g, hgr⟩ := growth_some T s d
  refine ⟨g, ?_⟩
  conv_lhs => unfold loop
  simp only [hg, Bool.not_true, Bool.false_eq_true, if_false, DVP.Loop.fixedOrc, hreq, hgr, hfin]
  simp [advance, hfin]

/-- the times of `j` whole steps of size `d` after `t`, newest first, on top of `acc` -/
def walk (d : ℚ) : Nat → ℚ → List ℚ → List ℚ
  | 0, _, acc => acc
  | j + 1, t, acc => walk d j (t + d) ((t + d) :: acc)

def walkR (d : ℚ) : Nat → ℚ → List (ℚ × ℚ) → List (ℚ × ℚ)
  | 0, _, acc => acc
  | j + 1, t, acc => walkR d j (t + d) ((t, d) :: acc)

theorem walk_ne_nil (d : ℚ) : ∀ (j : Nat) (t : ℚ) (acc : List ℚ), acc ≠ [] → walk d j t acc ≠ []
  | 0, _, _, h => h
  | j + 1, t, acc, _ => walk_ne_nil d j (t + d) _ (by simp)

/-- `j` whole steps toward a target that is MORE than `j` steps away: the loop walks, the step stays `d` -/
theorem whole_steps (cfg : Cfg ℚ) (T d : ℚ) (htol : cfg.tolEps ≤ |d|) :
    ∀ (j fuel k : Nat) (s : Sys ℚ) (reqs : List (Req ℚ)),
      s.dt = d → 0 < d * (T - s.tcur) → (j : ℚ) * |d| < |T - s.tcur| → s.ts ≠ [] →
      ∃ (s' : Sys ℚ) (reqs' : List (Req ℚ)),
        loop cfg T DVP.Loop.fixedOrc (j + fuel) k s reqs = loop cfg T DVP.Loop.fixedOrc fuel (k + j) s' reqs' ∧
        s'.ts = walk d j s.tcur s.ts ∧ s'.dt = d ∧ s'.t0 = s.t0 ∧ s'.crashed = s.crashed ∧
        s'.tcur = s.tcur + j * d := by
  intro j
  induction j with
  | zero =>
    intro fuel k s reqs hdt _ _ _
    exact ⟨s, reqs, by simp, rfl, hdt, rfl, rfl, by simp⟩
  | succ j ih =>
    intro fuel k s reqs hdt hdir hfar hne
    have hd0 : d ≠ 0 := by intro h; rw [h] at hdir; simp at hdir
    have hdpos : 0 < |d| := abs_pos.mpr hd0
    have hj0 : (0 : ℚ) ≤ j := Nat.cast_nonneg j
    have hfar1 : |d| ≤ |T - s.tcur| := by
      push_cast at hfar
      nlinarith
    obtain ⟨g, hstep⟩ := one_step cfg T d (j + fuel) k s reqs hdt hdir hfar1 htol
    -- the remaining distance after the step
    have hrem : |T - (s.tcur + d)| = |T - s.tcur| - |d| := by
      rcases lt_or_gt_of_ne hd0 with hneg | hpos
      · have hD : T - s.tcur < 0 := by nlinarith
        rw [abs_of_neg hneg, abs_of_neg hD] at *
        have : T - (s.tcur + d) ≤ 0 := by linarith
        rw [abs_of_nonpos this]; ring
      · have hD : 0 < T - s.tcur := by nlinarith
        rw [abs_of_pos hpos, abs_of_pos hD] at *
        have : 0 ≤ T - (s.tcur + d) := by linarith
        rw [abs_of_nonneg this]; ring
    have hrem_pos : (j : ℚ) * |d| < |T - (s.tcur + d)| := by
      rw [hrem]; push_cast at hfar; linarith
    have hne0 : T - (s.tcur + d) ≠ 0 := by
      intro h; rw [h, abs_zero] at hrem_pos; nlinarith
    have hdir1 : 0 < d * (T - (s.tcur + d)) := by
      rcases lt_or_gt_of_ne hd0 with hneg | hpos
      · have hD : T - s.tcur < 0 := by nlinarith
        rw [abs_of_neg hneg, abs_of_neg hD] at hfar1
        have : T - (s.tcur + d) < 0 := lt_of_le_of_ne (by linarith) hne0
        nlinarith
      · have hD : 0 < T - s.tcur := by nlinarith
        rw [abs_of_pos hpos, abs_of_pos hD] at hfar1
        have : 0 < T - (s.tcur + d) := lt_of_le_of_ne (by linarith) (Ne.symm hne0)
        nlinarith
    have hfix : fixDir d (T - (s.tcur + d)) = d := fixDir_same d _ hdir1
    have hfuel : j + 1 + fuel = (j + fuel) + 1 := by omega
    rw [hfuel, hstep, hfix]
    obtain ⟨s', reqs', h1, h2, h3, h4, h5, h6⟩ := ih fuel (k + 1)
      { s with ts := (s.tcur + d) :: s.ts, cap := s.cap + g, dt := d }
      ({ t := s.tcur, h := d, final := false, cap := s.cap } :: reqs) rfl
      (by simpa [Sys.tcur] using hdir1) (by simpa [Sys.tcur] using hrem_pos) (by simp)
    refine ⟨s', reqs', ?_, ?_, h3, h4, ?_, ?_⟩
    · rw [h1]; congr 1; omega
    · rw [h2]; simp [Sys.tcur, walk]
    · rw [h5]
    · rw [h6]; simp [Sys.tcur]; push_cast; ring


theorem walk_succ_end (d : ℚ) : ∀ (j : Nat) (t : ℚ) (acc : List ℚ),
    walk d (j + 1) t acc = (t + ((j + 1 : ℕ) : ℚ) * d) :: walk d j t acc
  | 0, t, acc => by simp [walk]
  | j + 1, t, acc => by
    have := walk_succ_end d j (t + d) ((t + d) :: acc)
    rw [walk, this]
    simp only [walk, List.cons.injEq, and_true]
    push_cast; ring

theorem fixDir_flip (d span : ℚ) (h : 0 < d * span) : fixDir (-d) span = d := by
  unfold fixDir
  simp only [signC_rat]
  rcases lt_trichotomy span 0 with hs | hs | hs
  · have hd : d < 0 := by nlinarith
    have h1 : ¬ (-d < 0) := by linarith
    have h2 : 0 < -d := by linarith
    simp [hs, h1, h2]
  · rw [hs] at h; simp at h
  · have hd : 0 < d := by nlinarith
    have h1 : -d < 0 := by linarith
    have h2 : ¬ span < 0 := not_lt.mpr (le_of_lt hs)
    simp [hs, h1, h2]

theorem fixDir_zero_span (d : ℚ) (hd : d ≠ 0) : fixDir d 0 = -d := by
  unfold fixDir
  simp only [signC_rat]
  rcases lt_or_gt_of_ne hd with h | h
  · simp [h]
  · have : ¬ d < 0 := not_lt.mpr (le_of_lt h)
    simp [h, this]

theorem initialDt_noclip (cfg : Cfg ℚ) (s : Sys ℚ) (target : ℚ) (hle : |s.dt| ≤ |target - s.tcur|) :
    initialDt cfg s target = fixDir s.dt (target - s.tcur) := by
  unfold initialDt
  simp only [absC_rat, fixDir_abs]
  rw [if_neg (not_lt.mpr hle)]

theorem integrate_fixed_nf (cfg : Cfg ℚ) (s : Sys ℚ) (target : ℚ) (fuel : Nat) (hcr : s.crashed = false)
    (hfar : cfg.tolEps ≤ |target - s.tcur|) :
    ∃ n, Loop.integrate cfg s target DVP.Loop.fixedOrc fuel =
      finish (loop cfg target DVP.Loop.fixedOrc fuel 0 (startSys cfg s target n) []) := by
  obtain ⟨n, hn⟩ := allocSteps_some (target - s.tcur) (initialDt cfg s target)
  refine ⟨n, ?_⟩
  rw [integrate_eq, hn]
  simp [hcr, absC_rat, not_lt.mpr hfar]

/-- **Splitting a fixed-step run at one of its own grid points records the same times.**  `s.dt` points at
`T`; `t₁` lies `j ≥ 1` whole steps ahead and at least one whole step before `T`. -/
theorem split_ts (cfg : Cfg ℚ) (htolpos : 0 < cfg.tolEps) (s : Sys ℚ) (T : ℚ) (j F1 m : Nat) (hj : 1 ≤ j) (hF1 : j ≤ F1)
    (hcr : s.crashed = false) (hne : s.ts ≠ []) (hdir : 0 < s.dt * (T - s.tcur))
    (hside : 0 < s.dt * (T - (s.tcur + j * s.dt))) (hfar : |s.dt| ≤ |T - (s.tcur + j * s.dt)|)
    (htol : cfg.tolEps ≤ |s.dt|) :
    let A := Loop.integrate cfg s T DVP.Loop.fixedOrc (j + m)
    let B1 := Loop.integrate cfg s (s.tcur + j * s.dt) DVP.Loop.fixedOrc F1
    let B := Loop.integrate cfg B1.sys T DVP.Loop.fixedOrc m
    B.sys.ts = A.sys.ts ∧ B.sys.dt = A.sys.dt ∧ B1.sys.ts ≠ [] := by
  intro A B1 B
  set d := s.dt with hd
  set t1 := s.tcur + j * d with ht1
  have hd0 : d ≠ 0 := by intro h; rw [h] at hdir; simp at hdir
  have hdpos : 0 < |d| := abs_pos.mpr hd0
  have hj1 : (1 : ℚ) ≤ j := by exact_mod_cast hj
  -- distances
  have hdist : |T - s.tcur| = |T - t1| + j * |d| := by
    rcases lt_or_gt_of_ne hd0 with hneg | hpos
    · have h1 : T - s.tcur < 0 := by nlinarith
      have h2 : T - t1 < 0 := by nlinarith
      rw [abs_of_neg h1, abs_of_neg h2, abs_of_neg hneg, ht1]; ring
    · have h1 : 0 < T - s.tcur := by nlinarith
      have h2 : 0 < T - t1 := by nlinarith
      rw [abs_of_pos h1, abs_of_pos h2, abs_of_pos hpos, ht1]; ring
  have hleg : |t1 - s.tcur| = j * |d| := by
    have : t1 - s.tcur = j * d := by rw [ht1]; ring
    rw [this, abs_mul, abs_of_nonneg (by positivity : (0 : ℚ) ≤ j)]
  -- A
  have hA_far : cfg.tolEps ≤ |T - s.tcur| := by rw [hdist]; nlinarith [abs_nonneg (T - t1)]
  obtain ⟨nA, hA⟩ := integrate_fixed_nf cfg s T (j + m) hcr hA_far
  have hA_dt : (startSys cfg s T nA).dt = d := by
    simp only [startSys]
    rw [initialDt_noclip cfg s T (by rw [hdist]; nlinarith [abs_nonneg (T - t1)])]
    exact fixDir_same d _ hdir
  obtain ⟨sA, rA, hA1, hA2, hA3, hA4, _, _⟩ := whole_steps cfg T d htol j m 0 (startSys cfg s T nA) [] hA_dt
    (by simpa [startSys, Sys.tcur] using hdir)
    (by simp only [startSys, Sys.tcur] at *; rw [hdist]; nlinarith [abs_nonneg (T - t1)]) (by simpa [startSys] using hne)
  -- B1
  have hB1_far : cfg.tolEps ≤ |t1 - s.tcur| := by rw [hleg]; nlinarith
  obtain ⟨nB, hB1⟩ := integrate_fixed_nf cfg s t1 F1 hcr hB1_far
  have hdir1 : 0 < d * (t1 - s.tcur) := by
    have : t1 - s.tcur = j * d := by rw [ht1]; ring
    rw [this]; have := mul_self_pos.mpr hd0; nlinarith
  have hB1_dt : (startSys cfg s t1 nB).dt = d := by
    simp only [startSys]
    rw [initialDt_noclip cfg s t1 (by rw [hleg]; nlinarith)]
    exact fixDir_same d _ hdir1
  obtain ⟨j', rfl⟩ : ∃ j', j = j' + 1 := ⟨j - 1, by omega⟩
  obtain ⟨f', rfl⟩ : ∃ f', F1 = j' + (f' + 1) := ⟨F1 - (j' + 1), by omega⟩
  obtain ⟨s2, r2, h21, h22, h23, h24, h25, h26⟩ := whole_steps cfg t1 d htol j' (f' + 1) 0 (startSys cfg s t1 nB) [] hB1_dt
    (by simpa [startSys, Sys.tcur] using hdir1)
    (by simp only [startSys, Sys.tcur] at *; rw [hleg]; push_cast; nlinarith) (by simpa [startSys] using hne)
  have hs2t : s2.tcur = s.tcur + j' * d := by simpa [startSys, Sys.tcur] using h26
  have hrem : t1 - s2.tcur = d := by rw [hs2t, ht1]; push_cast; ring
  obtain ⟨g, hstep⟩ := one_step cfg t1 d f' (0 + j') s2 r2 h23 (by rw [hrem]; exact mul_self_pos.mpr hd0)
    (by rw [hrem]) htol
  have hland : t1 - (s2.tcur + d) = 0 := by rw [← hrem]; ring
  rw [hland, fixDir_zero_span d hd0] at hstep
  have hguard : DV.Loop.guard cfg t1
      { s2 with ts := (s2.tcur + d) :: s2.ts, cap := s2.cap + g, dt := -d } = false := by
    by_contra hc
    have hc' := (guard_rat cfg t1 _).mp (by simpa using hc)
    have h0 : |t1 - (s2.tcur + d)| = 0 := by rw [hland, abs_zero]
    have h1 := hc'.2
    change cfg.tolEps ≤ |t1 - (s2.tcur + d)| at h1
    rw [h0] at h1; linarith
  rw [loop_of_guard_false cfg t1 _ f' _ _ _ hguard] at hstep
  have hB1ts : B1.sys.ts = walk d (j' + 1) s.tcur s.ts := by
    show (Loop.integrate cfg s t1 DVP.Loop.fixedOrc (j' + (f' + 1))).sys.ts = _
    rw [hB1, h21, hstep]
    simp only [finish]
    rw [walk_succ_end, h22, hs2t]
    simp only [startSys, Sys.tcur]
    congr 1
    push_cast; ring
  have hB1dt : B1.sys.dt = -d := by
    show (Loop.integrate cfg s t1 DVP.Loop.fixedOrc (j' + (f' + 1))).sys.dt = _
    rw [hB1, h21, hstep]; rfl
  have hB1cr : B1.sys.crashed = false := by
    show (Loop.integrate cfg s t1 DVP.Loop.fixedOrc (j' + (f' + 1))).sys.crashed = _
    rw [hB1, h21, hstep]
    simp only [finish]; rw [h25]; simpa [startSys] using hcr
  have hB1t0 : B1.sys.t0 = s.t0 := by
    show (Loop.integrate cfg s t1 DVP.Loop.fixedOrc (j' + (f' + 1))).sys.t0 = _
    rw [hB1, h21, hstep]
    simp only [finish]; rw [h24]; rfl
  have hB1ne : B1.sys.ts ≠ [] := by rw [hB1ts]; exact walk_ne_nil d _ _ _ hne
  have hB1cur : B1.sys.tcur = t1 := by
    simp only [Sys.tcur, hB1ts, walk_succ_end, List.headD_cons, ht1]
  -- B
  have hB_far : cfg.tolEps ≤ |T - B1.sys.tcur| := by rw [hB1cur]; linarith
  obtain ⟨nB2, hB⟩ := integrate_fixed_nf cfg B1.sys T m hB1cr hB_far
  have hB_dt : (startSys cfg B1.sys T nB2).dt = d := by
    simp only [startSys]
    rw [initialDt_noclip cfg B1.sys T (by rw [hB1dt, abs_neg, hB1cur]; exact hfar), hB1dt, hB1cur]
    exact fixDir_flip d _ hside
  have hirr := loop_cap_irrel cfg T m 0 (0 + (j' + 1)) (startSys cfg B1.sys T nB2) sA [] rA
    (by simp only [startSys]; rw [hB1ts, hA2]; simp [startSys, Sys.tcur])
    (by simp only [startSys]; rw [hB1t0, hA4]; simp [startSys])
    (by rw [hB_dt, hA3])
  refine ⟨?_, ?_, hB1ne⟩
  · show (Loop.integrate cfg B1.sys T DVP.Loop.fixedOrc m).sys.ts = (Loop.integrate cfg s T DVP.Loop.fixedOrc (j' + 1 + m)).sys.ts
    rw [hB, hA, hA1]; simpa [finish] using hirr.1
  · show (Loop.integrate cfg B1.sys T DVP.Loop.fixedOrc m).sys.dt = (Loop.integrate cfg s T DVP.Loop.fixedOrc (j' + 1 + m)).sys.dt
    rw [hB, hA, hA1]; simpa [finish] using hirr.2


variable {V : Type}

/-- the recorded states are a function of the recorded times and the first state -/
theorem stepsOK_unique (add : V → V → V) (inc : ℚ → V → ℚ → V) : ∀ (ts : List ℚ) (ys ys' : List V),
    StepsOK add inc ts ys → StepsOK add inc ts ys' → ys.getLast? = ys'.getLast? → ys = ys'
  | [], _, _, h, _, _ => by simp [StepsOK] at h
  | [_], [], _, h, _, _ => by simp [StepsOK] at h
  | [_], _ :: _ :: _, _, h, _, _ => by simp [StepsOK] at h
  | [_], [_], [], _, h, _ => by simp [StepsOK] at h
  | [_], [_], _ :: _ :: _, _, h, _ => by simp [StepsOK] at h
  | [_], [y], [y'], _, _, hl => by simpa using hl
  | _ :: _ :: _, [], _, h, _, _ => by simp [StepsOK] at h
  | _ :: _ :: _, [_], _, h, _, _ => by simp [StepsOK] at h
  | _ :: _ :: _, _ :: _ :: _, [], _, h, _ => by simp [StepsOK] at h
  | _ :: _ :: _, _ :: _ :: _, [_], _, h, _ => by simp [StepsOK] at h
  | t' :: t :: ts, y1 :: y :: ys, y1' :: y' :: ys', h, h', hl => by
    have ih := stepsOK_unique add inc (t :: ts) (y :: ys) (y' :: ys') h.2 h'.2
      (by simpa [List.getLast?_cons_cons] using hl)
    have hy : y = y' := by injection ih
    rw [h.1, h'.1, ih, hy]

/-- the states recorded by a fixed-step run ARE the states computed from its times -/
theorem calls_ys_eq_ysOf (cfg : Cfg ℚ) (add : V → V → V) (inc : ℚ → V → ℚ → V) (t0 tf dt : ℚ) (y0 : V) (targets : List ℚ) (fuel : Nat) :
    (DV.Run.calls cfg add inc fuel (DV.Run.construct t0 tf dt y0) targets).ys =
      ysOf add inc y0 (DV.Run.calls cfg add inc fuel (DV.Run.construct t0 tf dt y0) targets).sys.ts := by
  have h0 : StepsOK add inc (DV.Run.construct t0 tf dt y0).sys.ts (DV.Run.construct t0 tf dt y0).ys := by
    unfold DV.Run.construct DV.Loop.construct
    split <;> simp [StepsOK]
  have h := calls_steps cfg add inc fuel targets _ h0
  have hne : (DV.Run.calls cfg add inc fuel (DV.Run.construct t0 tf dt y0) targets).sys.ts ≠ [] := by
    intro h1; have := h.1; rw [h1] at this; simp [StepsOK] at this
  have h2 := ysOf_steps add inc y0 _ hne
  apply stepsOK_unique add inc _ _ _ h.1 h2.1
  rw [h.2, h2.2]
  unfold DV.Run.construct; rfl

/-- **Splitting a fixed-step run at one of its own grid points changes no sample** (times, states, step). -/
theorem split_samples (cfg : Cfg ℚ) (htolpos : 0 < cfg.tolEps) (add : V → V → V) (inc : ℚ → V → ℚ → V)
    (s : SysY ℚ V) (T : ℚ) (j F1 m : Nat) (hj : 1 ≤ j) (hF1 : j ≤ F1)
    (hok : StepsOK add inc s.sys.ts s.ys) (hcr : s.sys.crashed = false) (hdir : 0 < s.sys.dt * (T - s.sys.tcur))
    (hside : 0 < s.sys.dt * (T - (s.sys.tcur + j * s.sys.dt))) (hfar : |s.sys.dt| ≤ |T - (s.sys.tcur + j * s.sys.dt)|)
    (htol : cfg.tolEps ≤ |s.sys.dt|) :
    let A := DV.Run.integrate cfg add inc s T (j + m)
    let B := DV.Run.integrate cfg add inc (DV.Run.integrate cfg add inc s (s.sys.tcur + j * s.sys.dt) F1) T m
    B.sys.ts = A.sys.ts ∧ B.ys = A.ys ∧ B.sys.dt = A.sys.dt := by
  intro A B
  have hne : s.sys.ts ≠ [] := by intro h0; rw [h0] at hok; simp [StepsOK] at hok
  have hts := split_ts cfg htolpos s.sys T j F1 m hj hF1 hcr hne hdir hside hfar htol
  have hA := integrate_steps cfg add inc s T (j + m) hok
  have hB1 := integrate_steps cfg add inc s (s.sys.tcur + j * s.sys.dt) F1 hok
  have hB := integrate_steps cfg add inc (DV.Run.integrate cfg add inc s (s.sys.tcur + j * s.sys.dt) F1) T m hB1.1
  have e1 : B.sys.ts = A.sys.ts := by
    show (Loop.integrate cfg (Loop.integrate cfg s.sys _ DV.Run.fixedOrc F1).sys T DV.Run.fixedOrc m).sys.ts =
      (Loop.integrate cfg s.sys T DV.Run.fixedOrc (j + m)).sys.ts
    rw [fixedOrc_eq]; exact hts.1
  have e3 : B.sys.dt = A.sys.dt := by
    show (Loop.integrate cfg (Loop.integrate cfg s.sys _ DV.Run.fixedOrc F1).sys T DV.Run.fixedOrc m).sys.dt =
      (Loop.integrate cfg s.sys T DV.Run.fixedOrc (j + m)).sys.dt
    rw [fixedOrc_eq]; exact hts.2.1
  refine ⟨e1, ?_, e3⟩
  apply stepsOK_unique add inc A.sys.ts
  · rw [← e1]; exact hB.1
  · exact hA.1
  · rw [hB.2, hB1.2, hA.2]

end DVP.RunSplit

/-! ## reset, then the same calls: the samples of a freshly constructed system -/
namespace DVP.RunSplit
open DV DV.Loop DV.Run DVP.Loop DVP.Run DVP.Brent

/-- two systems that differ at most in buffer capacity and status -/
def Sim (s s' : Sys ℚ) : Prop :=
  s.ts = s'.ts ∧ s.dt = s'.dt ∧ s.t0 = s'.t0 ∧ s.tf = s'.tf ∧ s.dt0 = s'.dt0 ∧ s.crashed = false ∧ s'.crashed = false

theorem loop_keeps (cfg : Cfg ℚ) (T : ℚ) : ∀ (fuel k : Nat) (s : Sys ℚ) (reqs : List (Req ℚ)),
    (loop cfg T DVP.Loop.fixedOrc fuel k s reqs).sys.t0 = s.t0 ∧ (loop cfg T DVP.Loop.fixedOrc fuel k s reqs).sys.tf = s.tf ∧
    (loop cfg T DVP.Loop.fixedOrc fuel k s reqs).sys.dt0 = s.dt0 ∧ (loop cfg T DVP.Loop.fixedOrc fuel k s reqs).sys.crashed = s.crashed := by
  intro fuel
  induction fuel with
  | zero => intro k s reqs; simp [loop]
  | succ n ih =>
    intro k s reqs
    unfold loop
    by_cases hg : DV.Loop.guard cfg T s = true
    · simp only [hg, Bool.not_true, Bool.false_eq_true, if_false, DVP.Loop.fixedOrc]
      obtain ⟨g, hgr⟩ := growth_some T s (request T s)
      simp only [hgr]
      have := ih (k + 1) (advance T s { ret := .ok (request T s) (request T s) } (request T s) (request T s) g)
        ({ t := s.tcur, h := request T s, final := isFinal T s, cap := s.cap } :: reqs)
      simpa [advance] using this
    · have hg' : DV.Loop.guard cfg T s = false := by simpa using hg
      simp [hg']

/-- one `integrate` call keeps two such systems alike -/
theorem integrate_sim (cfg : Cfg ℚ) (s s' : Sys ℚ) (T : ℚ) (fuel : Nat) (h : Sim s s') :
    Sim (Loop.integrate cfg s T DVP.Loop.fixedOrc fuel).sys (Loop.integrate cfg s' T DVP.Loop.fixedOrc fuel).sys := by
  obtain ⟨h1, h2, h3, h4, h5, h6, h7⟩ := h
  have htc : s.tcur = s'.tcur := tcur_eq h1 h3
  have hini : initialDt cfg s T = initialDt cfg s' T := by unfold initialDt; rw [h2, htc]
  rw [integrate_eq, integrate_eq]
  simp only [h6, h7, Bool.false_eq_true, if_false]
  rw [htc]
  by_cases hnear : absC (T - s'.tcur) < cfg.tolEps
  · simp only [hnear, if_true]; exact ⟨h1, h2, h3, h4, h5, h6, h7⟩
  · simp only [hnear, if_false]
    obtain ⟨n, hn⟩ := allocSteps_some (T - s'.tcur) (initialDt cfg s T)
    obtain ⟨n', hn'⟩ := allocSteps_some (T - s'.tcur) (initialDt cfg s' T)
    rw [hn, hn']
    have hirr := loop_cap_irrel cfg T fuel 0 0 (startSys cfg s T n) (startSys cfg s' T n') [] []
      (by simp [startSys, h1]) (by simp [startSys, h3]) (by simp [startSys, hini])
    have k1 := loop_keeps cfg T fuel 0 (startSys cfg s T n) []
    have k2 := loop_keeps cfg T fuel 0 (startSys cfg s' T n') []
    refine ⟨by simpa [finish] using hirr.1, by simpa [finish] using hirr.2, ?_, ?_, ?_, ?_, ?_⟩
    · simp only [finish]; rw [k1.1, k2.1]; simpa [startSys] using h3
    · simp only [finish]; rw [k1.2.1, k2.2.1]; simpa [startSys] using h4
    · simp only [finish]; rw [k1.2.2.1, k2.2.2.1]; simpa [startSys] using h5
    · simp only [finish]; rw [k1.2.2.2]; simpa [startSys] using h6
    · simp only [finish]; rw [k2.2.2.2]; simpa [startSys] using h7

variable {V : Type}

/-- any sequence of calls keeps them alike, and - the states being a function of the times - records the same samples -/
theorem calls_sim (cfg : Cfg ℚ) (add : V → V → V) (inc : ℚ → V → ℚ → V) (fuel : Nat) :
    ∀ (targets : List ℚ) (s s' : SysY ℚ V), Sim s.sys s'.sys → StepsOK add inc s.sys.ts s.ys → StepsOK add inc s'.sys.ts s'.ys →
      s.ys.getLast? = s'.ys.getLast? →
      (calls cfg add inc fuel s targets).sys.ts = (calls cfg add inc fuel s' targets).sys.ts ∧
      (calls cfg add inc fuel s targets).ys = (calls cfg add inc fuel s' targets).ys ∧
      (calls cfg add inc fuel s targets).sys.dt = (calls cfg add inc fuel s' targets).sys.dt
  | [], s, s', hs, h1, h2, hl => by
    refine ⟨hs.1, ?_, hs.2.1⟩
    simp only [calls]
    apply stepsOK_unique add inc s.sys.ts _ _ h1 (by rw [hs.1]; exact h2) hl
  | t :: rest, s, s', hs, h1, h2, hl => by
    have i1 := integrate_steps cfg add inc s t fuel h1
    have i2 := integrate_steps cfg add inc s' t fuel h2
    have hsim : Sim (DV.Run.integrate cfg add inc s t fuel).sys (DV.Run.integrate cfg add inc s' t fuel).sys := by
      unfold DV.Run.integrate
      rw [fixedOrc_eq]
      exact integrate_sim cfg s.sys s'.sys t fuel hs
    exact calls_sim cfg add inc fuel rest _ _ hsim i1.1 i2.1 (by rw [i1.2, i2.2]; exact hl)

end DVP.RunSplit

namespace DVP.RunSplit
open DV DV.Loop DV.Run DVP.Loop DVP.Run DVP.Brent
variable {V : Type}

theorem calls_static_crashed (cfg : Cfg ℚ) (add : V → V → V) (inc : ℚ → V → ℚ → V) (fuel : Nat) :
    ∀ (targets : List ℚ) (s : SysY ℚ V), s.sys.ts ≠ [] → s.sys.crashed = false →
      Static s.sys (calls cfg add inc fuel s targets).sys ∧ (calls cfg add inc fuel s targets).sys.crashed = false
  | [], s, hne, hc => ⟨⟨rfl, rfl, rfl, rfl, hne⟩, hc⟩
  | t :: rest, s, hne, hc => by
    have h1 : Static s.sys (DV.Run.integrate cfg add inc s t fuel).sys := by
      unfold DV.Run.integrate; exact integrate_static cfg s.sys t _ fuel hne
    have hc1 : (DV.Run.integrate cfg add inc s t fuel).sys.crashed = false := by
      have := integrate_sim cfg s.sys s.sys t fuel ⟨rfl, rfl, rfl, rfl, rfl, hc, hc⟩
      unfold DV.Run.integrate; rw [fixedOrc_eq]; exact this.2.2.2.2.2.1
    obtain ⟨h2, hc2⟩ := calls_static_crashed cfg add inc fuel rest _ h1.nonempty hc1
    exact ⟨⟨h2.t0.trans h1.t0, h2.tf.trans h1.tf, h2.dt0.trans h1.dt0, h2.first.trans h1.first, h2.nonempty⟩, hc2⟩

/-- **After `reset()`, integrating again reproduces what a freshly constructed system produces** - times, states and step, for
every earlier history of calls and every later sequence of calls (whole-run model, fixed-step methods) -/
theorem reset_then_calls_eq_fresh (cfg : Cfg ℚ) (add : V → V → V) (inc : ℚ → V → ℚ → V) (fuel : Nat) (t0 tf dt : ℚ) (y0 : V)
    (before after : List ℚ) :
    let r := calls cfg add inc fuel (DV.Run.reset (calls cfg add inc fuel (DV.Run.construct t0 tf dt y0) before)) after
    let f := calls cfg add inc fuel (DV.Run.construct t0 tf dt y0) after
    r.sys.ts = f.sys.ts ∧ r.ys = f.ys ∧ r.sys.dt = f.sys.dt := by
  intro r f
  -- the freshly constructed system
  obtain ⟨n, hn⟩ := allocSteps_some (tf - t0) dt
  have hcon : (DV.Run.construct t0 tf dt y0 : SysY ℚ V).sys =
      { ts := [t0], cap := 1 + n, dt := fixDir dt (tf - t0), dt0 := dt, t0 := t0, tf := tf, status := 0 } := by
    simp [DV.Run.construct, DV.Loop.construct, hn]
  have hys : (DV.Run.construct t0 tf dt y0 : SysY ℚ V).ys = [y0] := rfl
  have h0 : StepsOK add inc (DV.Run.construct t0 tf dt y0 : SysY ℚ V).sys.ts (DV.Run.construct t0 tf dt y0 : SysY ℚ V).ys := by
    rw [hcon, hys]; simp [StepsOK]
  have hb := calls_steps cfg add inc fuel before _ h0
  obtain ⟨hst, hcr⟩ := calls_static_crashed cfg add inc fuel before (DV.Run.construct t0 tf dt y0)
    (by rw [hcon]; simp) (by rw [hcon])
  set X := calls cfg add inc fuel (DV.Run.construct t0 tf dt y0) before with hX
  have hfirst : X.sys.ts.getLast? = some t0 := by rw [hst.first, hcon]; rfl
  have hylast : X.ys.getLast? = some y0 := by rw [hb.2, hys]; rfl
  -- the system after reset
  have hrsys : (DV.Run.reset X).sys.ts = [t0] ∧ (DV.Run.reset X).sys.dt = fixDir dt (tf - t0) ∧ (DV.Run.reset X).sys.t0 = t0 ∧
      (DV.Run.reset X).sys.tf = tf ∧ (DV.Run.reset X).sys.dt0 = dt ∧ (DV.Run.reset X).sys.crashed = false := by
    have e1 : X.sys.t0 = t0 := by rw [hst.t0, hcon]
    have e2 : X.sys.tf = tf := by rw [hst.tf, hcon]
    have e3 : X.sys.dt0 = dt := by rw [hst.dt0, hcon]
    simp only [DV.Run.reset, DV.Loop.reset, hfirst, e1, e2, e3, hcr]
    simp
  have hrys : (DV.Run.reset X).ys = [y0] := by simp [DV.Run.reset, hylast]
  obtain ⟨r1, r2, r3, r4, r5, r6⟩ := hrsys
  have hsim : Sim (DV.Run.reset X).sys (DV.Run.construct t0 tf dt y0 : SysY ℚ V).sys := by
    rw [hcon]; exact ⟨r1, r2, r3, r4, r5, r6, rfl⟩
  exact calls_sim cfg add inc fuel after _ _ hsim (by rw [r1, hrys]; simp [StepsOK]) h0 (by rw [hrys, hys])

end DVP.RunSplit
