import DVP.Lemmas.Loop

/-! A call that ended because the loop guard became false has nothing left to do: calling again with the
same target asks the integrator for nothing and records nothing. -/
namespace DVP.Loop
open DV DV.Loop DVP.Brent

/-- when the loop ends through its guard, the guard is false in the state it returns -/
theorem loop_exit_guard (cfg : Cfg ℚ) (target : ℚ) (orc : Oracle ℚ) :
    ∀ (fuel k : Nat) (s : Sys ℚ) (reqs : List (Req ℚ)),
      (loop cfg target orc fuel k s reqs).guardExit = true →
      DV.Loop.guard cfg target (loop cfg target orc fuel k s reqs).sys = false := by
  intro fuel
  induction fuel with
  | zero =>
    intro k s reqs h
    simp only [loop] at h ⊢
    simpa using h
  | succ n ih =>
    intro k s reqs h
    unfold loop at h ⊢
    by_cases hg : DV.Loop.guard cfg target s = true
    · simp only [hg, Bool.not_true, Bool.false_eq_true, if_false] at h ⊢
      cases hret : (orc k s.tcur (DV.Loop.request target s)).ret with
      | raise => simp [hret] at h
      | interrupt => simp [hret] at h
      | ok newDt dT =>
        simp only [hret] at h ⊢
        cases hgr : growth target s dT with
        | none => simp [hgr] at h
        | some g =>
          simp only [hgr] at h ⊢
          by_cases hcb : (orc k s.tcur (DV.Loop.request target s)).cbRaise = true
          · simp [hcb] at h
          · simp only [hcb, Bool.false_eq_true, if_false] at h ⊢
            exact ih _ _ _ h
    · have hg' : DV.Loop.guard cfg target s = false := by simpa using hg
      simp only [hg', Bool.not_false, if_true]

/-- with the guard false the loop returns at once -/
theorem loop_of_guard_false (cfg : Cfg ℚ) (target : ℚ) (orc : Oracle ℚ) (fuel k : Nat) (s : Sys ℚ) (reqs : List (Req ℚ))
    (hg : DV.Loop.guard cfg target s = false) :
    loop cfg target orc fuel k s reqs = { sys := s, reqs := reqs, guardExit := true, iters := k } := by
  cases fuel with
  | zero => simp [loop, hg]
  | succ n => unfold loop; simp [hg]

theorem fixDir_zero (span : ℚ) : fixDir (0 : ℚ) span = 0 := by
  unfold fixDir; split <;> simp

theorem initialDt_zero (cfg : Cfg ℚ) (s : Sys ℚ) (target : ℚ) (h : s.dt = 0) : initialDt cfg s target = 0 := by
  unfold initialDt
  simp only [h, fixDir_zero, absC_rat, abs_zero]
  rw [if_neg (not_lt.mpr (abs_nonneg _))]

/-- the guard only looks at the current time and the step size -/
theorem guard_false_transfer (cfg : Cfg ℚ) (target : ℚ) (s s' : Sys ℚ) (hg : DV.Loop.guard cfg target s = false)
    (ht : s'.tcur = s.tcur) (hd : s.dt = 0 → s'.dt = 0) : DV.Loop.guard cfg target s' = false := by
  have h1 : ¬ (s.dt ≠ 0 ∧ cfg.tolEps ≤ |target - s.tcur|) := fun h => by
    have := (guard_rat cfg target s).mpr h; rw [hg] at this; exact absurd this (by simp)
  have h2 : ¬ (s'.dt ≠ 0 ∧ cfg.tolEps ≤ |target - s'.tcur|) := by
    rintro ⟨a, b⟩
    rw [ht] at b
    exact h1 ⟨fun h0 => a (hd h0), b⟩
  cases hgs : DV.Loop.guard cfg target s' with
  | false => rfl
  | true => exact absurd ((guard_rat cfg target s').mp hgs) h2

/-- after a call that ended through the loop guard, the system is at the target (first test of `integrate`) or
its loop guard is false -/
theorem first_call_state (cfg : Cfg ℚ) (s : Sys ℚ) (target : ℚ) (orc : Oracle ℚ) (fuel : Nat)
    (h : (integrate cfg s target orc fuel).guardExit = true) :
    absC (target - (integrate cfg s target orc fuel).sys.tcur) < cfg.tolEps ∨
      DV.Loop.guard cfg target (integrate cfg s target orc fuel).sys = false := by
  unfold integrate at h ⊢
  by_cases hc : s.crashed = true
  · simp [hc] at h
  · simp only [hc, Bool.false_eq_true, if_false] at h ⊢
    by_cases hat : absC (target - s.tcur) < cfg.tolEps
    · simp only [hat, if_true]
      exact Or.inl trivial
    · simp only [hat, if_false] at h ⊢
      cases hal : allocSteps (target - s.tcur) (initialDt cfg s target) with
      | none => simp [hal] at h
      | some n =>
        simp only [hal] at h ⊢
        have hg := loop_exit_guard cfg target orc fuel 0 _ [] h
        exact Or.inr (guard_false_transfer cfg target _ _ hg rfl (fun h0 => h0))

/-- a call on a system that is at the target, or whose loop guard is false, is idle -/
theorem idle_call (cfg : Cfg ℚ) (target : ℚ) (orc' : Oracle ℚ) (fuel' : Nat) (s1 : Sys ℚ)
    (hs1 : absC (target - s1.tcur) < cfg.tolEps ∨ DV.Loop.guard cfg target s1 = false) :
    (integrate cfg s1 target orc' fuel').sys.ts = s1.ts ∧ (integrate cfg s1 target orc' fuel').reqs = [] ∧
      (integrate cfg s1 target orc' fuel').iters = 0 := by
  unfold integrate
  by_cases hc : s1.crashed = true
  · simp [hc]
  · simp only [hc, Bool.false_eq_true, if_false]
    by_cases hat : absC (target - s1.tcur) < cfg.tolEps
    · simp [hat]
    · simp only [hat, if_false]
      have hg : DV.Loop.guard cfg target s1 = false := by
        rcases hs1 with h1 | h1
        · exact absurd h1 hat
        · exact h1
      cases hal : allocSteps (target - s1.tcur) (initialDt cfg s1 target) with
      | none => simp
      | some n =>
        simp only
        rw [loop_of_guard_false cfg target orc' fuel' 0 _ []]
        · simp
        · exact guard_false_transfer cfg target s1 _ hg rfl (fun h0 => initialDt_zero cfg s1 target h0)

/-- **A second call to the same target is idle.**  If `integrate(T)` ended because its loop guard became false
(the normal end: target reached), then `integrate(T)` again — with whatever integrator behaviour and
callbacks — makes no integrator call and records no new sample. -/
theorem second_call_idle (cfg : Cfg ℚ) (s : Sys ℚ) (target : ℚ) (orc orc' : Oracle ℚ) (fuel fuel' : Nat)
    (h : (integrate cfg s target orc fuel).guardExit = true) :
    (integrate cfg (integrate cfg s target orc fuel).sys target orc' fuel').sys.ts = (integrate cfg s target orc fuel).sys.ts ∧
    (integrate cfg (integrate cfg s target orc fuel).sys target orc' fuel').reqs = [] ∧
    (integrate cfg (integrate cfg s target orc fuel).sys target orc' fuel').iters = 0 :=
  idle_call cfg target orc' fuel' _ (first_call_state cfg s target orc fuel h)

end DVP.Loop
