import DVP.Lemmas.Loop
import DVP.Lemmas.LoopFault
import DVP.Lemmas.LoopReset
import DVP.Lemmas.Record
import DV.Model.LoopEv

/-! The loop with events (`DV.LoopEv`): what survives every fault, what a terminal stop leaves behind, and that
the loop with events is the plain loop when no event fires. -/
namespace DVP.LoopEv
open DV DV.Loop DV.Events DV.LoopEv

/-! ## the recorded samples are only ever extended -/

theorem loop_suffix (cfg : Cfg ℚ) (target : ℚ) (orc : Oracle ℚ) :
    ∀ (fuel k : Nat) (s : Sys ℚ) (reqs : List (Req ℚ)), ∃ news, (loop cfg target orc fuel k s reqs).sys.ts = news ++ s.ts := by
  intro fuel
  induction fuel with
  | zero => intro k s reqs; exact ⟨[], rfl⟩
  | succ n ih =>
    intro k s reqs
    unfold loop
    by_cases hg : DV.Loop.guard cfg target s = true
    · simp only [hg, Bool.not_true, Bool.false_eq_true, if_false]
      cases hret : (orc k s.tcur (DV.Loop.request target s)).ret with
      | raise => exact ⟨[], rfl⟩
      | interrupt => exact ⟨[], rfl⟩
      | ok newDt dT =>
        simp only
        cases hgr : growth target s dT with
        | none => exact ⟨[], rfl⟩
        | some g =>
          simp only
          by_cases hcb : (orc k s.tcur (DV.Loop.request target s)).cbRaise = true
          · simp only [hcb, if_true]
            exact ⟨[s.tcur + dT], rfl⟩
          · simp only [hcb, Bool.false_eq_true, if_false]
            obtain ⟨news, h⟩ := ih (k + 1) (advance target s (orc k s.tcur (request target s)) newDt dT g)
              ({ t := s.tcur, h := request target s, final := isFinal target s, cap := s.cap } :: reqs)
            exact ⟨news ++ [s.tcur + dT], by rw [h]; simp [advance]⟩
    · have hg' : DV.Loop.guard cfg target s = false := by simpa using hg
      simp only [hg', Bool.not_false, if_true]
      exact ⟨[], rfl⟩

theorem integrate_suffix (cfg : Cfg ℚ) (s : Sys ℚ) (target : ℚ) (orc : Oracle ℚ) (fuel : Nat) :
    ∃ news, (integrate cfg s target orc fuel).sys.ts = news ++ s.ts := by
  unfold integrate
  by_cases hc : s.crashed = true
  · simp only [hc, if_true]; exact ⟨[], rfl⟩
  · simp only [hc, Bool.false_eq_true, if_false]
    by_cases hat : absC (target - s.tcur) < cfg.tolEps
    · simp only [hat, if_true]; exact ⟨[], rfl⟩
    · simp only [hat, if_false]
      cases hal : allocSteps (target - s.tcur) (initialDt cfg s target) with
      | none => exact ⟨[], rfl⟩
      | some n =>
        simp only
        exact loop_suffix cfg target orc fuel 0 _ []

/-- when `terminate` is raised, the last reported event is a terminal one -/
theorem terminalOnlyLast_getLast : ∀ (l : List (Nat × Probe ℚ)), DVP.Events.TerminalOnlyLast l →
    l.any (fun x => x.2.terminal) = true → ∃ x, l.getLast? = some x ∧ x.2.terminal = true
  | [], _, h => by simp at h
  | [x], _, h => ⟨x, rfl, by simpa using h⟩
  | x :: y :: r, ht, h => by
    have hx : x.2.terminal = false := ht.1
    have h' : (y :: r).any (fun x => x.2.terminal) = true := by simpa [List.any_cons, hx] using h
    obtain ⟨z, hz, hzt⟩ := terminalOnlyLast_getLast (y :: r) ht.2 h'
    exact ⟨z, by rw [List.getLast?_cons_cons]; exact hz, hzt⟩

/-- … and the stop root of the loop is its root: an active, terminal probe of the step -/
theorem stop_root_is_terminal_probe (sgn : ℚ) (probes : List (Probe ℚ)) (dflt : ℚ) (h : (handle sgn probes).2 = true) :
    ∃ x : Nat × Probe ℚ, x.2.terminal = true ∧ x.2.active = true ∧ probes[x.1]? = some x.2 ∧
      ((handle sgn probes).1.getLast?.map (·.2.root)).getD dflt = x.2.root := by
  have hany : (handle sgn probes).1.any (fun x => x.2.terminal) = true := h
  obtain ⟨x, hx, hxt⟩ := terminalOnlyLast_getLast _ (DVP.Events.handle_terminal_last sgn probes) hany
  have hmem : x ∈ (handle sgn probes).1 := List.mem_of_getLast? hx
  obtain ⟨h1, h2⟩ := DVP.Events.handle_sound sgn probes x hmem
  exact ⟨x, hxt, h2, h1, by rw [hx]; rfl⟩

/-! ## one invariant for every way the loop with events can end -/

/-- what holds of the outcome `o` of the loop started in `(s, b)`:
the recorded samples and the recorded events are only extended; a loop that ended by a terminal event without a
fault reports status 2; a loop that ended through its guard leaves the status alone -/
structure Outcome (cfg : CfgEv ℚ) (orc : OracleEv ℚ) (s : Sys ℚ) (b : Book ℚ) (o : OutEv ℚ) : Prop where
  samples : ∃ news, o.sys.ts = news ++ s.ts
  events : ∃ more, o.book.events = b.events ++ more
  stop_status : o.stopped = true → o.guardExit = true → o.sys.status = 2
  plain_status : o.stopped = false → o.guardExit = true → o.sys.status = s.status
  static : o.sys.t0 = s.t0 ∧ o.sys.tf = s.tf ∧ o.sys.dt0 = s.dt0
  /-- after a terminal stop the recorded samples are those of the nested `integrate(root)` started from the
  samples recorded BEFORE the event step (the end of that step is not among them) -/
  stop_grid : o.stopped = true → ∃ (s' : Sys ℚ) (root : ℚ) (k' : Nat) (t' h' : ℚ) (nf : Nat),
    (∃ mid, s'.ts = mid ++ s.ts) ∧ s'.ts ≠ [] ∧ s'.dt ≠ 0 ∧
      o.sys.ts = (Loop.integrate cfg.loop s' root (orc k' t' h').nested nf).sys.ts ∧
      o.nestedReqs = (Loop.integrate cfg.loop s' root (orc k' t' h').nested nf).reqs ∧
      (∃ x : Nat × Probe ℚ, x.2.terminal = true ∧ x.2.active = true ∧ (orc k' t' h').probes[x.1]? = some x.2 ∧ x.2.root = root)

theorem outcome_fail (cfg : CfgEv ℚ) (orc : OracleEv ℚ) (s s' : Sys ℚ) (b b' : Book ℚ) (kn : List ℚ) (st : Status) (reqs nreqs : List (Req ℚ)) (k : Nat)
    (hts : ∃ news, s'.ts = news ++ s.ts) (hev : ∃ more, b'.events = b.events ++ more)
    (hst : s'.t0 = s.t0 ∧ s'.tf = s.tf ∧ s'.dt0 = s.dt0) :
    Outcome cfg orc s b (failEv s' b' kn st reqs nreqs k) :=
  { samples := hts, events := hev, stop_status := fun h => by simp [failEv] at h,
    plain_status := fun _ h => by simp [failEv] at h, static := hst, stop_grid := fun h => by simp [failEv] at h }

/-- the outcome of the rest of the loop, seen from the state before an accepted, counted step -/
theorem outcome_step (cfg : CfgEv ℚ) (orc : OracleEv ℚ) (s s2 : Sys ℚ) (b b2 : Book ℚ) (o : OutEv ℚ) (x : ℚ)
    (h : Outcome cfg orc s2 b2 o) (hts : s2.ts = x :: s.ts) (hev : ∃ more, b2.events = b.events ++ more)
    (hst : s2.status = s.status) (hstat : s2.t0 = s.t0 ∧ s2.tf = s.tf ∧ s2.dt0 = s.dt0) : Outcome cfg orc s b o := by
  obtain ⟨news, hn⟩ := h.samples
  obtain ⟨more, hm⟩ := h.events
  obtain ⟨more0, hm0⟩ := hev
  exact { samples := ⟨news ++ [x], by rw [hn, hts]; simp⟩,
          events := ⟨more0 ++ more, by rw [hm, hm0, List.append_assoc]⟩,
          stop_status := h.stop_status,
          plain_status := fun h1 h2 => by rw [h.plain_status h1 h2, hst],
          static := by
            obtain ⟨a, b', c⟩ := h.static
            exact ⟨by rw [a, hstat.1], by rw [b', hstat.2.1], by rw [c, hstat.2.2]⟩,
          stop_grid := fun hs => by
            obtain ⟨s', root, k', t', h', nf, ⟨mid, hmid⟩, hne', hdt', e1, e2, e3⟩ := h.stop_grid hs
            exact ⟨s', root, k', t', h', nf, ⟨mid ++ [x], by rw [hmid, hts]; simp⟩, hne', hdt', e1, e2, e3⟩ }

theorem integrate_static' (cfg : Cfg ℚ) (s : Sys ℚ) (target : ℚ) (orc : Oracle ℚ) (fuel : Nat) (hne : s.ts ≠ []) :
    (integrate cfg s target orc fuel).sys.t0 = s.t0 ∧ (integrate cfg s target orc fuel).sys.tf = s.tf ∧
      (integrate cfg s target orc fuel).sys.dt0 = s.dt0 :=
  let h := DVP.Loop.integrate_static cfg s target orc fuel hne
  ⟨h.t0, h.tf, h.dt0⟩

theorem loopEv_outcome (cfg : CfgEv ℚ) (target : ℚ) (orc : OracleEv ℚ) :
    ∀ (fuel k : Nat) (s : Sys ℚ) (b : Book ℚ) (kn : List ℚ) (reqs : List (Req ℚ)), s.ts ≠ [] →
      Outcome cfg orc s b (loopEv cfg target orc fuel k s b kn reqs) := by
  intro fuel
  induction fuel with
  | zero =>
    intro k s b kn reqs _
    exact { samples := ⟨[], rfl⟩, events := ⟨[], by simp [loopEv]⟩, stop_status := fun h => by simp [loopEv] at h,
            plain_status := fun _ _ => rfl, static := ⟨rfl, rfl, rfl⟩, stop_grid := fun h => by simp [loopEv] at h }
  | succ n ih =>
    intro k s b kn reqs hne
    unfold loopEv
    by_cases hg : DV.Loop.guard cfg.loop target s = true
    · simp only [hg, Bool.not_true, Bool.false_eq_true, if_false]
      cases hret : (orc k s.tcur (DV.Loop.request target s)).base.ret with
      | raise => exact outcome_fail cfg orc s s b b _ 3 _ _ _ ⟨[], rfl⟩ ⟨[], by simp⟩ ⟨rfl, rfl, rfl⟩
      | interrupt => exact outcome_fail cfg orc s s b b _ 4 _ _ _ ⟨[], rfl⟩ ⟨[], by simp⟩ ⟨rfl, rfl, rfl⟩
      | ok newDt dT =>
        simp only
        cases hgr : growth target s dT with
        | none => exact outcome_fail cfg orc s s b b _ 3 _ _ _ ⟨[], rfl⟩ ⟨[], by simp⟩ ⟨rfl, rfl, rfl⟩
        | some g1 =>
          simp only
          by_cases her : (orc k s.tcur (DV.Loop.request target s)).evRaise = true
          · simp only [her, if_true]
            exact outcome_fail cfg orc s _ b b _ 3 _ _ _ ⟨[], rfl⟩ ⟨[], by simp⟩ ⟨rfl, rfl, rfl⟩
          · simp only [her, Bool.false_eq_true, if_false]
            cases hg2 : growthEv target s dT (s.cap + g1)
                (handle (stepSign s.tcur (s.tcur + dT)) (orc k s.tcur (DV.Loop.request target s)).probes).1.length with
            | none => exact outcome_fail cfg orc s _ b b _ 3 _ _ _ ⟨[], rfl⟩ ⟨[], by simp⟩ ⟨rfl, rfl, rfl⟩
            | some g2 =>
              simp only
              have hrec := DVP.Record.record_prefix s.tcur (s.tcur + dT) cfg.dupTol
                (handle (stepSign s.tcur (s.tcur + dT)) (orc k s.tcur (DV.Loop.request target s)).probes).1 b
              by_cases hterm : (handle (stepSign s.tcur (s.tcur + dT)) (orc k s.tcur (DV.Loop.request target s)).probes).2 = true
              · simp only [hterm, if_true]
                -- the nested call
                obtain ⟨xp, hp1, hp2, hp3, hp4⟩ := stop_root_is_terminal_probe (stepSign s.tcur (s.tcur + dT))
                  (orc k s.tcur (DV.Loop.request target s)).probes s.tcur hterm
                generalize hroot : (Option.map (fun x => x.2.root)
                  (handle (stepSign s.tcur (s.tcur + dT)) (orc k s.tcur (DV.Loop.request target s)).probes).1.getLast?).getD s.tcur = root
                have hprobe : ∃ x : Nat × Probe ℚ, x.2.terminal = true ∧ x.2.active = true ∧
                    (orc k s.tcur (DV.Loop.request target s)).probes[x.1]? = some x.2 ∧ x.2.root = root :=
                  ⟨xp, hp1, hp2, hp3, by rw [← hroot]; exact hp4.symm⟩
                have hsuf := integrate_suffix cfg.loop { s with cap := s.cap + g1 + g2 } root
                  (orc k s.tcur (DV.Loop.request target s)).nested (orc k s.tcur (DV.Loop.request target s)).nestedFuel
                have hstat := integrate_static' cfg.loop { s with cap := s.cap + g1 + g2 } root
                  (orc k s.tcur (DV.Loop.request target s)).nested (orc k s.tcur (DV.Loop.request target s)).nestedFuel hne
                by_cases hnr : nestedRaised (Loop.integrate cfg.loop { s with cap := s.cap + g1 + g2 } root
                    (orc k s.tcur (DV.Loop.request target s)).nested (orc k s.tcur (DV.Loop.request target s)).nestedFuel) = true
                · simp only [hnr, if_true]
                  exact outcome_fail cfg orc s _ b _ _ _ _ _ _ hsuf hrec hstat
                · simp only [hnr, Bool.false_eq_true, if_false]
                  by_cases hcb : (orc k s.tcur (DV.Loop.request target s)).base.cbRaise = true
                  · simp only [hcb, if_true]
                    exact { samples := hsuf, events := hrec, stop_status := fun _ h => by simp at h,
                            plain_status := fun h => by simp at h, static := hstat,
                            stop_grid := fun _ => ⟨{ s with cap := s.cap + g1 + g2 }, root, k, s.tcur, DV.Loop.request target s, _,
                              ⟨[], rfl⟩, hne, ((DVP.Loop.guard_rat cfg.loop target s).mp hg).1, rfl, rfl, hprobe⟩ }
                  · simp only [hcb, Bool.false_eq_true, if_false]
                    exact { samples := hsuf, events := hrec, stop_status := fun _ _ => rfl,
                            plain_status := fun h => by simp at h, static := hstat,
                            stop_grid := fun _ => ⟨{ s with cap := s.cap + g1 + g2 }, root, k, s.tcur, DV.Loop.request target s, _,
                              ⟨[], rfl⟩, hne, ((DVP.Loop.guard_rat cfg.loop target s).mp hg).1, rfl, rfl, hprobe⟩ }
              · simp only [hterm, Bool.false_eq_true, if_false]
                cases hg3 : growthEv target s dT (s.cap + g1 + g2)
                    (handle (stepSign s.tcur (s.tcur + dT)) (orc k s.tcur (DV.Loop.request target s)).probes).1.length with
                | none => exact outcome_fail cfg orc s _ b _ _ 3 _ _ _ ⟨[], rfl⟩ hrec ⟨rfl, rfl, rfl⟩
                | some g3 =>
                  simp only
                  by_cases hcb : (orc k s.tcur (DV.Loop.request target s)).base.cbRaise = true
                  · simp only [hcb, if_true]
                    exact outcome_fail cfg orc s _ b _ _ 3 _ _ _ ⟨[s.tcur + dT], rfl⟩ hrec ⟨rfl, rfl, rfl⟩
                  · simp only [hcb, Bool.false_eq_true, if_false]
                    exact outcome_step cfg orc s _ b _ _ (s.tcur + dT)
                      (ih (k + 1) _ _ _ _ (by simp [finishIter])) (by simp [finishIter]) hrec (by simp [finishIter])
                      ⟨by simp [finishIter], by simp [finishIter], by simp [finishIter]⟩
    · have hg' : DV.Loop.guard cfg.loop target s = false := by simpa using hg
      simp only [hg', Bool.not_false, if_true]
      exact { samples := ⟨[], rfl⟩, events := ⟨[], by simp⟩, stop_status := fun h => by simp at h,
              plain_status := fun _ _ => rfl, static := ⟨rfl, rfl, rfl⟩, stop_grid := fun h => by simp at h }

/-! ## when no event fires, the loop with events is the plain loop -/

/-- the integrator and the callbacks of an event oracle, as the plain loop sees them -/
def baseOrc (orc : OracleEv ℚ) : Oracle ℚ := fun k t h => (orc k t h).base

/-- no event function fails and no event passes the selection, in any step -/
def Quiet (orc : OracleEv ℚ) : Prop := ∀ k t h, (orc k t h).evRaise = false ∧ ∀ sgn, (handle sgn (orc k t h).probes).1 = []

theorem handle_snd (sgn : ℚ) (ps : List (Probe ℚ)) : (handle sgn ps).2 = (handle sgn ps).1.any (fun x => x.2.terminal) := rfl

theorem allocSteps_pos (a b : ℚ) (n : Nat) (h : allocSteps a b = some n) : 1 ≤ n := by
  unfold allocSteps at h
  have e : HasTrunc.isInf a = false := rfl
  rw [e] at h
  simp only [Bool.false_eq_true, if_false] at h
  cases ht : HasTrunc.truncInt (a / b) with
  | none => simp [ht] at h
  | some k =>
    simp only [ht, Option.map_some, Option.some.injEq] at h
    omega

theorem growth_spec (target : ℚ) (s : Sys ℚ) (dT : ℚ) (g : Nat) (h : growth target s dT = some g) :
    (s.cap ≤ s.counter + 1 → 2 ≤ g) ∧ (¬ s.cap ≤ s.counter + 1 → g = 0) := by
  unfold growth at h
  by_cases hc : s.cap ≤ s.counter + 1
  · rw [if_pos hc] at h
    cases ha : allocSteps (target - dT - s.tcur) s.dt with
    | none => simp [ha] at h
    | some a =>
      simp only [ha, Option.map_some, Option.some.injEq] at h
      have := allocSteps_pos _ _ _ ha
      exact ⟨fun _ => by omega, fun h' => absurd hc h'⟩
  · rw [if_neg hc] at h
    simp only [Option.some.injEq] at h
    exact ⟨fun h' => absurd h' hc, fun _ => h.symm⟩

@[simp] theorem tcur_mk (x : ℚ) (l : List ℚ) (c : Nat) (d d0 t0 tf : ℚ) (st : Status) (cr : Bool) :
    (Sys.mk (x :: l) c d d0 t0 tf st cr).tcur = x := rfl

/-- **Refinement.**  If no event function fails and no event passes the selection, the loop with events does
exactly what the plain loop does with the same integrator and callbacks — same samples, step size, status,
buffer, requests — and records nothing. -/
theorem quiet_loop_is_plain_loop (cfg : CfgEv ℚ) (target : ℚ) (orc : OracleEv ℚ) (hq : Quiet orc) :
    ∀ (fuel k : Nat) (s : Sys ℚ) (b : Book ℚ) (kn : List ℚ) (reqs : List (Req ℚ)), s.ts ≠ [] → s.ts.length ≤ s.cap →
      (loopEv cfg target orc fuel k s b kn reqs).sys = (loop cfg.loop target (baseOrc orc) fuel k s reqs).sys ∧
      (loopEv cfg target orc fuel k s b kn reqs).reqs = (loop cfg.loop target (baseOrc orc) fuel k s reqs).reqs ∧
      (loopEv cfg target orc fuel k s b kn reqs).guardExit = (loop cfg.loop target (baseOrc orc) fuel k s reqs).guardExit ∧
      (loopEv cfg target orc fuel k s b kn reqs).iters = (loop cfg.loop target (baseOrc orc) fuel k s reqs).iters ∧
      (loopEv cfg target orc fuel k s b kn reqs).book = b ∧
      (loopEv cfg target orc fuel k s b kn reqs).stopped = false ∧
      (loopEv cfg target orc fuel k s b kn reqs).nestedReqs = [] := by
  intro fuel
  induction fuel with
  | zero => intro k s b kn reqs _ _; simp [loopEv, loop]
  | succ n ih =>
    intro k s b kn reqs hne hcap
    have hlen : s.counter + 1 = s.ts.length := by
      unfold Sys.counter
      have : 0 < s.ts.length := List.length_pos_of_ne_nil hne
      omega
    unfold loopEv loop
    by_cases hg : DV.Loop.guard cfg.loop target s = true
    · simp only [hg, Bool.not_true, Bool.false_eq_true, if_false, baseOrc]
      cases hret : (orc k s.tcur (DV.Loop.request target s)).base.ret with
      | raise => simp [failEv]
      | interrupt => simp [failEv]
      | ok newDt dT =>
        simp only
        cases hgr : growth target s dT with
        | none => simp [failEv]
        | some g1 =>
          simp only
          obtain ⟨hq1, hq2⟩ := hq k s.tcur (DV.Loop.request target s)
          have hsel := hq2 (stepSign s.tcur (s.tcur + dT))
          have hterm : (handle (stepSign s.tcur (s.tcur + dT)) (orc k s.tcur (DV.Loop.request target s)).probes).2 = false := by
            rw [handle_snd, hsel]; rfl
          obtain ⟨gs1, gs2⟩ := growth_spec target s dT g1 hgr
          have hcap1 : ¬ (s.cap + g1 ≤ s.counter + 0 + 1) := by
            by_cases hc : s.cap ≤ s.counter + 1
            · have := gs1 hc; omega
            · omega
          have hgev : growthEv target s dT (s.cap + g1) 0 = some 0 := by
            unfold growthEv; rw [if_neg hcap1]
          simp only [hq1, Bool.false_eq_true, if_false, hsel, List.length_nil, hgev, hterm, Nat.add_zero,
            DVP.Record.record_nil]
          by_cases hcb : (orc k s.tcur (DV.Loop.request target s)).base.cbRaise = true
          · simp only [hcb, if_true, failEv]
            cases hd : (orc k s.tcur (DV.Loop.request target s)).base.cbDt <;> simp [finishIter, advance, hd]
          · simp only [hcb, Bool.false_eq_true, if_false]
            have hadv : finishIter target (isFinal target s) { s with ts := (s.tcur + dT) :: s.ts, cap := s.cap + g1 }
                (orc k s.tcur (DV.Loop.request target s)).base newDt =
                advance target s (orc k s.tcur (DV.Loop.request target s)).base newDt dT g1 := by
              cases hd : (orc k s.tcur (DV.Loop.request target s)).base.cbDt <;> simp [finishIter, advance, hd]
            rw [hadv]
            refine ih (k + 1) _ b _ _ (by simp [advance]) ?_
            simp only [advance, List.length_cons]
            by_cases hc : s.cap ≤ s.counter + 1
            · have := gs1 hc; omega
            · omega
    · have hg' : DV.Loop.guard cfg.loop target s = false := by simpa using hg
      simp [hg']

theorem handle_no_active (sgn : ℚ) (ps : List (Probe ℚ)) (h : ∀ p ∈ ps, p.active = false) : (handle sgn ps).1 = [] := by
  unfold handle
  have hf : (List.zip (List.range ps.length) ps).filter (fun x => x.2.active) = [] := by
    rw [List.filter_eq_nil_iff]
    intro x hx
    have := (List.of_mem_zip hx).2
    simp [h x.2 this]
  simp [hf, sortByRoot, truncateAtTerminal]

/-! ## whole calls -/

theorem finalStatus_two (g : Bool) : finalStatus g 2 = 2 := by
  unfold finalStatus; cases g <;> simp

/-- `integrate(t, events=…)` as a whole: whatever happens — faults in the integrator, in an event function, in a
callback, inside the nested call of a terminal event, interrupts — the samples and the events recorded before
the call are kept in place; a call ended by a terminal event without a fault reports status 2; and after a
terminal stop the samples are those of the nested `integrate(root)` started from the samples before the
event step. -/
theorem integrateEv_outcome (cfg : CfgEv ℚ) (s : Sys ℚ) (evs : List (Nat × ℚ)) (kn : List ℚ) (nEvents : Nat) (target : ℚ)
    (orc : OracleEv ℚ) (fuel : Nat) (hne : s.ts ≠ []) :
    (∃ news, (integrateEv cfg s evs kn nEvents target orc fuel).sys.ts = news ++ s.ts) ∧
    (∃ more, (integrateEv cfg s evs kn nEvents target orc fuel).book.events = evs ++ more) ∧
    ((integrateEv cfg s evs kn nEvents target orc fuel).stopped = true →
      (integrateEv cfg s evs kn nEvents target orc fuel).guardExit = true →
      (integrateEv cfg s evs kn nEvents target orc fuel).sys.status = 2) ∧
    ((integrateEv cfg s evs kn nEvents target orc fuel).stopped = true →
      ∃ (s' : Sys ℚ) (root : ℚ) (k' : Nat) (t' h' : ℚ) (nf : Nat),
        (∃ mid, s'.ts = mid ++ s.ts) ∧ s'.ts ≠ [] ∧ s'.dt ≠ 0 ∧
        (integrateEv cfg s evs kn nEvents target orc fuel).sys.ts = (Loop.integrate cfg.loop s' root (orc k' t' h').nested nf).sys.ts ∧
        (integrateEv cfg s evs kn nEvents target orc fuel).nestedReqs = (Loop.integrate cfg.loop s' root (orc k' t' h').nested nf).reqs ∧
        (∃ x : Nat × Probe ℚ, x.2.terminal = true ∧ x.2.active = true ∧ (orc k' t' h').probes[x.1]? = some x.2 ∧ x.2.root = root)) := by
  unfold integrateEv
  by_cases hc : s.crashed = true
  · simp [hc]
  · rw [if_neg hc]
    by_cases hat : absC (target - s.tcur) < cfg.loop.tolEps
    · simp [hat]
    · rw [if_neg hat]
      cases hal : allocSteps (target - s.tcur) (initialDt cfg.loop s target) with
      | none => simp [hal]
      | some n =>
        simp only [hal]
        have o := loopEv_outcome cfg target orc fuel 0
          { s with dt := initialDt cfg.loop s target, cap := s.cap + n,
                   status := if s.status == 2 ∨ s.status == 3 ∨ s.status == 4 then 0 else s.status }
          { last := List.replicate nEvents none, events := evs } kn [] hne
        refine ⟨o.samples, o.events, fun h1 h2 => ?_, fun h1 => o.stop_grid h1⟩
        rw [o.stop_status h1 h2]
        exact finalStatus_two _

/-- a call with events in which no event function fails and no event passes the selection IS the plain call -/
theorem quiet_call_is_plain_call (cfg : CfgEv ℚ) (s : Sys ℚ) (evs : List (Nat × ℚ)) (kn : List ℚ) (nEvents : Nat) (target : ℚ)
    (orc : OracleEv ℚ) (fuel : Nat) (hq : Quiet orc) (hne : s.ts ≠ []) (hcap : s.ts.length ≤ s.cap) :
    (integrateEv cfg s evs kn nEvents target orc fuel).sys = (Loop.integrate cfg.loop s target (baseOrc orc) fuel).sys ∧
    (integrateEv cfg s evs kn nEvents target orc fuel).reqs = (Loop.integrate cfg.loop s target (baseOrc orc) fuel).reqs ∧
    (integrateEv cfg s evs kn nEvents target orc fuel).guardExit = (Loop.integrate cfg.loop s target (baseOrc orc) fuel).guardExit ∧
    (integrateEv cfg s evs kn nEvents target orc fuel).book.events = evs ∧
    (integrateEv cfg s evs kn nEvents target orc fuel).stopped = false := by
  unfold integrateEv Loop.integrate
  by_cases hc : s.crashed = true
  · simp [hc]
  · rw [if_neg hc, if_neg hc]
    by_cases hat : absC (target - s.tcur) < cfg.loop.tolEps
    · simp [hat]
    · rw [if_neg hat, if_neg hat]
      cases hal : allocSteps (target - s.tcur) (initialDt cfg.loop s target) with
      | none => simp [hal]
      | some n =>
        simp only [hal]
        obtain ⟨q1, q2, q3, _, q5, q6, _⟩ := quiet_loop_is_plain_loop cfg target orc hq fuel 0
          { s with dt := initialDt cfg.loop s target, cap := s.cap + n,
                   status := if s.status == 2 ∨ s.status == 3 ∨ s.status == 4 then 0 else s.status }
          { last := List.replicate nEvents none, events := evs } kn [] hne (by simp only; omega)
        refine ⟨?_, q2, q3, ?_, q6⟩
        · rw [q1, q3]
        · rw [q5]

end DVP.LoopEv
