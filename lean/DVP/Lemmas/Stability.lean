import DV.Model.Stability
import Mathlib.Data.Complex.Basic
import Mathlib.Tactic.Ring
import Mathlib.Tactic.Linarith
import Mathlib.Tactic.Positivity

/-! Semantics of the list polynomials of `DV.Stability` and soundness of the certificate check. -/
namespace DVP.Stability
open DV.Stability

/-! ## univariate polynomials, evaluated in a commutative ring `R` -/
section uni
variable {R : Type} [CommRing R]

/-- Horner evaluation -/
def pev (p : Poly) (w : R) : R := p.foldr (fun c acc => (c : R) + w * acc) 0

@[simp] theorem pev_nil (w : R) : pev [] w = 0 := rfl
@[simp] theorem pev_cons (c : Int) (p : Poly) (w : R) : pev (c :: p) w = (c : R) + w * pev p w := rfl

theorem pev_padd : ∀ (p q : Poly) (w : R), pev (padd p q) w = pev p w + pev q w
  | [], q, w => by simp [padd]
  | a :: p, [], w => by simp [padd]
  | a :: p, b :: q, w => by
    simp only [padd, pev_cons, pev_padd p q w, Int.cast_add]
    ring

theorem pev_pscale (c : Int) : ∀ (p : Poly) (w : R), pev (pscale c p) w = (c : R) * pev p w
  | [], w => by simp [pscale]
  | a :: p, w => by
    have ih := pev_pscale c p w
    simp only [pscale, List.map_cons, pev_cons, Int.cast_mul] at ih ⊢
    rw [ih]; ring

theorem pev_pneg : ∀ (p : Poly) (w : R), pev (pneg p) w = - pev p w
  | [], w => by simp [pneg]
  | a :: p, w => by
    have ih := pev_pneg p w
    simp only [pneg, List.map_cons, pev_cons, Int.cast_neg] at ih ⊢
    rw [ih]; ring

theorem pev_pmul : ∀ (p q : Poly) (w : R), pev (pmul p q) w = pev p w * pev q w
  | [], q, w => by simp [pmul]
  | a :: p, q, w => by
    simp only [pmul, pev_padd, pev_pscale, pev_cons, pev_pmul p q w, Int.cast_zero]
    ring

theorem pev_of_isZero : ∀ (p : Poly) (w : R), pIsZero p = true → pev p w = 0
  | [], w, _ => rfl
  | a :: p, w, h => by
    simp only [pIsZero, List.all_cons, Bool.and_eq_true, beq_iff_eq] at h
    have := pev_of_isZero p w (by simpa [pIsZero] using h.2)
    simp [h.1, this]

theorem pev_of_pEq (p q : Poly) (w : R) (h : pEq p q = true) : pev p w = pev q w := by
  have := pev_of_isZero _ w h
  rw [pev_padd, pev_pneg] at this
  exact sub_eq_zero.mp (by rw [sub_eq_add_neg]; exact this)

end uni

/-! ## bivariate polynomials over `ℝ` -/

/-- `Σ_k (c_k evaluated at u) · y^k` -/
def bev (B : BPoly) (u y : ℝ) : ℝ := B.foldr (fun c acc => pev c u + y * acc) 0

@[simp] theorem bev_nil (u y : ℝ) : bev [] u y = 0 := rfl
@[simp] theorem bev_cons (c : Poly) (B : BPoly) (u y : ℝ) : bev (c :: B) u y = pev c u + y * bev B u y := rfl

theorem bev_badd : ∀ (p q : BPoly) (u y : ℝ), bev (badd p q) u y = bev p u y + bev q u y
  | [], q, u, y => by simp [badd]
  | a :: p, [], u, y => by simp [badd]
  | a :: p, b :: q, u, y => by
    simp only [badd, bev_cons, bev_badd p q u y, pev_padd]
    ring

theorem bev_bscaleP (c : Poly) : ∀ (p : BPoly) (u y : ℝ), bev (bscaleP c p) u y = pev c u * bev p u y
  | [], u, y => by simp [bscaleP]
  | a :: p, u, y => by
    have ih := bev_bscaleP c p u y
    simp only [bscaleP, List.map_cons, bev_cons, pev_pmul] at ih ⊢
    rw [ih]; ring

theorem bev_bneg : ∀ (p : BPoly) (u y : ℝ), bev (bneg p) u y = - bev p u y
  | [], u, y => by simp [bneg]
  | a :: p, u, y => by
    have ih := bev_bneg p u y
    simp only [bneg, List.map_cons, bev_cons, pev_pneg] at ih ⊢
    rw [ih]; ring

theorem bev_bscale (c : Int) : ∀ (p : BPoly) (u y : ℝ), bev (bscale c p) u y = (c : ℝ) * bev p u y
  | [], u, y => by simp [bscale]
  | a :: p, u, y => by
    have ih := bev_bscale c p u y
    simp only [bscale, List.map_cons, bev_cons, pev_pscale] at ih ⊢
    rw [ih]; ring

theorem bev_bmul : ∀ (p q : BPoly) (u y : ℝ), bev (bmul p q) u y = bev p u y * bev q u y
  | [], q, u, y => by simp [bmul]
  | a :: p, q, u, y => by
    simp only [bmul, bev_badd, bev_bscaleP, bev_cons, bev_bmul p q u y, pev_nil]
    ring

theorem bev_mulU : ∀ (p : BPoly) (u y : ℝ), bev (mulU p) u y = u * bev p u y
  | [], u, y => by simp [mulU]
  | a :: p, u, y => by
    have ih := bev_mulU p u y
    simp only [mulU, List.map_cons, bev_cons, pev_cons, Int.cast_zero] at ih ⊢
    rw [ih]; ring

theorem bev_mulY (p : BPoly) (u y : ℝ) : bev (mulY p) u y = y * bev p u y := by
  simp [mulY]

/-- the two bivariate polynomials are the real and imaginary part of `p(−u + i y)` -/
theorem complexParts_spec : ∀ (p : Poly) (u y : ℝ),
    pev p (⟨-u, y⟩ : ℂ) = ⟨bev (complexParts p).1 u y, bev (complexParts p).2 u y⟩
  | [], u, y => by simp [complexParts]; rfl
  | c :: p, u, y => by
    have ih := complexParts_spec p u y
    simp only [pev_cons, complexParts]
    rw [ih]
    apply Complex.ext
    · simp only [bev_badd, bev_bneg, bev_mulU, bev_mulY, bev_cons, bev_nil, pev_cons, pev_nil, Complex.add_re, Complex.mul_re,
        Complex.intCast_re, Complex.intCast_im]
      ring
    · simp only [bev_badd, bev_bneg, bev_mulU, bev_mulY, Complex.add_im, Complex.mul_im, Complex.intCast_im]
      ring

theorem abs2_spec (p : Poly) (u y : ℝ) : bev (abs2 p) u y = Complex.normSq (pev p (⟨-u, y⟩ : ℂ)) := by
  rw [complexParts_spec p u y]
  simp only [abs2, bev_badd, bev_bmul, Complex.normSq_mk]

/-- a `u`-polynomial with non-negative coefficients is non-negative for `u ≥ 0` -/
theorem pev_nonneg : ∀ (c : Poly) (u : ℝ), 0 ≤ u → c.all (fun x => decide (0 ≤ x)) = true → 0 ≤ pev c u
  | [], u, _, _ => le_refl _
  | a :: c, u, hu, h => by
    simp only [List.all_cons, Bool.and_eq_true, decide_eq_true_eq] at h
    have := pev_nonneg c u hu h.2
    simp only [pev_cons]
    have ha : (0 : ℝ) ≤ (a : ℝ) := by exact_mod_cast h.1
    positivity

/-- the parity-aware check gives non-negativity on `u ≥ 0`, any `y` -/
theorem nonnegFrom_spec : ∀ (E : BPoly) (u y : ℝ), 0 ≤ u →
    (nonnegFrom true E = true → 0 ≤ bev E u y) ∧ (nonnegFrom false E = true → ∃ t, 0 ≤ t ∧ bev E u y = y * t)
  | [], u, y, _ => ⟨fun _ => le_refl _, fun _ => ⟨0, le_refl _, by simp⟩⟩
  | c :: r, u, y, hu => by
    obtain ⟨ihe, iho⟩ := nonnegFrom_spec r u y hu
    constructor
    · intro h
      simp only [nonnegFrom, Bool.and_eq_true] at h
      obtain ⟨t, ht, he⟩ := iho h.2
      simp only [bev_cons, he]
      have := pev_nonneg c u hu h.1
      have : 0 ≤ y * (y * t) := by nlinarith [mul_self_nonneg y]
      linarith
    · intro h
      simp only [nonnegFrom, Bool.and_eq_true] at h
      refine ⟨bev r u y, ihe h.2, ?_⟩
      simp only [bev_cons, pev_of_isZero c u h.1, zero_add]

/-- **Soundness of the certificate**: if the positivity check and the Bézout check pass, then for
every `w` in the closed left half-plane `Q(w) ≠ 0` and `sd·|P(w)| ≤ (sd+1)·|Q(w)|` (squared form) -/
theorem cert_sound (P Q U V : Poly) (c : Int) (sd : Nat) (hsd : 0 < sd)
    (hpos : certNonneg (certPoly P Q sd) = true) (hbez : bezoutOK P Q U V c = true) (u y : ℝ) (hu : 0 ≤ u) :
    pev Q (⟨-u, y⟩ : ℂ) ≠ 0 ∧
    ((sd : ℝ) ^ 2) * Complex.normSq (pev P (⟨-u, y⟩ : ℂ)) ≤ (((sd : ℝ) + 1) ^ 2) * Complex.normSq (pev Q (⟨-u, y⟩ : ℂ)) := by
  have hE := (nonnegFrom_spec (certPoly P Q sd) u y hu).1 hpos
  simp only [certPoly, bev_badd, bev_bneg, bev_bscale, abs2_spec] at hE
  have hineq : ((sd : ℝ) ^ 2) * Complex.normSq (pev P (⟨-u, y⟩ : ℂ)) ≤ (((sd : ℝ) + 1) ^ 2) * Complex.normSq (pev Q (⟨-u, y⟩ : ℂ)) := by
    push_cast at hE
    linarith
  refine ⟨?_, hineq⟩
  intro hQ
  rw [hQ, Complex.normSq_zero, mul_zero] at hineq
  have hsd' : (0 : ℝ) < (sd : ℝ) ^ 2 := by positivity
  have hP : Complex.normSq (pev P (⟨-u, y⟩ : ℂ)) = 0 := by
    have := Complex.normSq_nonneg (pev P (⟨-u, y⟩ : ℂ))
    nlinarith
  have hP0 : pev P (⟨-u, y⟩ : ℂ) = 0 := Complex.normSq_eq_zero.mp hP
  unfold bezoutOK at hbez
  simp only [Bool.and_eq_true, bne_iff_ne, ne_eq] at hbez
  have hb := pev_of_pEq _ _ (⟨-u, y⟩ : ℂ) hbez.2
  simp only [pev_padd, pev_pmul, hP0, hQ, mul_zero, add_zero, pev_cons, pev_nil] at hb
  have : (c : ℂ) = 0 := by simpa using hb.symm
  exact hbez.1 (by exact_mod_cast this)

end DVP.Stability
