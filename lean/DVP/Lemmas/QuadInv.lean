import Mathlib.Algebra.Module.LinearMap.Defs
import Mathlib.Algebra.BigOperators.Group.Finset.Basic
import Mathlib.Algebra.BigOperators.Ring.Finset
import Mathlib.Algebra.Module.BigOperators
import Mathlib.LinearAlgebra.BilinearMap
import Mathlib.Tactic.Ring
import Mathlib.Tactic.Linarith
import Mathlib.Tactic.FieldSimp
import Mathlib.Tactic.Positivity
import Mathlib.Algebra.Order.Field.Basic
import DV.Model.Trees

/-! The defect of a quadratic invariant over one Runge–Kutta step, for ANY table and ANY stage
values: `B(y₁,y₁) − B(y₀,y₀) = −h² Σ_ij (b_i a_ij + b_j a_ji − b_i b_j) B(k_i,k_j)` whenever the stage
slopes are tangent to the invariant at the stage states (`B(Y_i, k_i) = 0`). -/
namespace DVP.QuadInv
open Finset

variable {V : Type} [AddCommGroup V] [Module ℚ V]

/-- the symplecticity defect `m_ij = b_i a_ij + b_j a_ji − b_i b_j` -/
def mDefect (a : ℕ → ℕ → ℚ) (b : ℕ → ℚ) (i j : ℕ) : ℚ := b i * a i j + b j * a j i - b i * b j

theorem quadratic_defect (B : V →ₗ[ℚ] V →ₗ[ℚ] ℚ) (hsymm : ∀ x y, B x y = B y x)
    (s : ℕ) (a : ℕ → ℕ → ℚ) (b : ℕ → ℚ) (h : ℚ) (y0 : V) (k : ℕ → V)
    (htan : ∀ i, i < s → B (y0 + h • ∑ j ∈ range s, a i j • k j) (k i) = 0) :
    B (y0 + h • ∑ i ∈ range s, b i • k i) (y0 + h • ∑ i ∈ range s, b i • k i) - B y0 y0 =
      -(h ^ 2) * ∑ i ∈ range s, ∑ j ∈ range s, mDefect a b i j * B (k i) (k j) := by
  -- B(y0, k_i) from the tangency condition
  have h0 : ∀ i, i < s → B y0 (k i) = -h * ∑ j ∈ range s, a i j * B (k j) (k i) := by
    intro i hi
    have := htan i hi
    simp only [map_add, LinearMap.add_apply, map_smul, LinearMap.smul_apply, map_sum, LinearMap.sum_apply,
      smul_eq_mul] at this
    linarith
  -- expand B(y1, y1)
  have hexp : B (y0 + h • ∑ i ∈ range s, b i • k i) (y0 + h • ∑ i ∈ range s, b i • k i) =
      B y0 y0 + 2 * h * ∑ i ∈ range s, b i * B y0 (k i) + h ^ 2 * ∑ i ∈ range s, ∑ j ∈ range s, b i * b j * B (k i) (k j) := by
    simp only [map_add, LinearMap.add_apply, map_smul, LinearMap.smul_apply, map_sum, LinearMap.sum_apply,
      smul_eq_mul]
    have hs : ∑ i ∈ range s, b i * B (k i) y0 = ∑ i ∈ range s, b i * B y0 (k i) :=
      sum_congr rfl (fun i _ => by rw [hsymm])
    rw [hs]
    have hd : ∑ x ∈ range s, b x * ∑ x_1 ∈ range s, b x_1 * (B (k x_1)) (k x) =
        ∑ i ∈ range s, ∑ j ∈ range s, b i * b j * B (k i) (k j) := by
      apply sum_congr rfl
      intro i _
      rw [mul_sum]
      apply sum_congr rfl
      intro j _
      rw [hsymm (k j) (k i)]; ring
    have hsplit : ∑ x ∈ range s, b x * (B y0 (k x) + h * ∑ x_1 ∈ range s, b x_1 * B (k x_1) (k x)) =
        ∑ x ∈ range s, b x * B y0 (k x) + h * ∑ x ∈ range s, b x * ∑ x_1 ∈ range s, b x_1 * B (k x_1) (k x) := by
      rw [mul_sum, ← sum_add_distrib]
      apply sum_congr rfl
      intro x _
      ring
    rw [hsplit, hd]
    ring
  rw [hexp]
  have h1 : ∑ i ∈ range s, b i * B y0 (k i) = -h * ∑ i ∈ range s, ∑ j ∈ range s, b i * a i j * B (k i) (k j) := by
    rw [mul_sum]
    apply sum_congr rfl
    intro i hi
    rw [h0 i (mem_range.mp hi), mul_sum, mul_sum, mul_sum]
    apply sum_congr rfl
    intro j _
    rw [hsymm (k j) (k i)]; ring
  rw [h1]
  -- symmetrise Σ b_i a_ij B_ij
  have hswap : ∑ i ∈ range s, ∑ j ∈ range s, b i * a i j * B (k i) (k j) =
      ∑ i ∈ range s, ∑ j ∈ range s, b j * a j i * B (k i) (k j) := by
    rw [sum_comm]
    apply sum_congr rfl
    intro i _
    apply sum_congr rfl
    intro j _
    rw [hsymm (k j) (k i)]
  have hm : ∑ i ∈ range s, ∑ j ∈ range s, mDefect a b i j * B (k i) (k j) =
      ∑ i ∈ range s, ∑ j ∈ range s, b i * a i j * B (k i) (k j) +
      ∑ i ∈ range s, ∑ j ∈ range s, b j * a j i * B (k i) (k j) -
      ∑ i ∈ range s, ∑ j ∈ range s, b i * b j * B (k i) (k j) := by
    rw [← sum_add_distrib, ← sum_sub_distrib]
    apply sum_congr rfl
    intro i _
    rw [← sum_add_distrib, ← sum_sub_distrib]
    apply sum_congr rfl
    intro j _
    unfold mDefect; ring
  rw [hm, ← hswap]
  ring

/-- … hence an exactly symplectic table (`m_ij = 0`) conserves every quadratic invariant exactly … -/
theorem quadratic_invariant_conserved (B : V →ₗ[ℚ] V →ₗ[ℚ] ℚ) (hsymm : ∀ x y, B x y = B y x)
    (s : ℕ) (a : ℕ → ℕ → ℚ) (b : ℕ → ℚ) (hM : ∀ i j, i < s → j < s → mDefect a b i j = 0) (h : ℚ) (y0 : V) (k : ℕ → V)
    (htan : ∀ i, i < s → B (y0 + h • ∑ j ∈ range s, a i j • k j) (k i) = 0) :
    B (y0 + h • ∑ i ∈ range s, b i • k i) (y0 + h • ∑ i ∈ range s, b i • k i) = B y0 y0 := by
  have := quadratic_defect B hsymm s a b h y0 k htan
  have hz : ∑ i ∈ range s, ∑ j ∈ range s, mDefect a b i j * B (k i) (k j) = 0 := by
    apply sum_eq_zero
    intro i hi
    apply sum_eq_zero
    intro j hj
    rw [hM i j (mem_range.mp hi) (mem_range.mp hj), zero_mul]
  rw [hz, mul_zero] at this
  linarith

/-- … and a table whose defects are at most `ε` (the float64 tables: `ε = 1e-14`) changes it by at most
`h² ε Σ_ij |B(k_i,k_j)|` per step -/
theorem quadratic_invariant_drift_bound (B : V →ₗ[ℚ] V →ₗ[ℚ] ℚ) (hsymm : ∀ x y, B x y = B y x)
    (s : ℕ) (a : ℕ → ℕ → ℚ) (b : ℕ → ℚ) (ε : ℚ) (hM : ∀ i j, i < s → j < s → |mDefect a b i j| ≤ ε) (h : ℚ) (y0 : V) (k : ℕ → V)
    (htan : ∀ i, i < s → B (y0 + h • ∑ j ∈ range s, a i j • k j) (k i) = 0) :
    |B (y0 + h • ∑ i ∈ range s, b i • k i) (y0 + h • ∑ i ∈ range s, b i • k i) - B y0 y0| ≤
      h ^ 2 * (ε * ∑ i ∈ range s, ∑ j ∈ range s, |B (k i) (k j)|) := by
  rw [quadratic_defect B hsymm s a b h y0 k htan, abs_mul, abs_neg, abs_of_nonneg (sq_nonneg h)]
  apply mul_le_mul_of_nonneg_left _ (sq_nonneg h)
  calc |∑ i ∈ range s, ∑ j ∈ range s, mDefect a b i j * B (k i) (k j)|
      ≤ ∑ i ∈ range s, |∑ j ∈ range s, mDefect a b i j * B (k i) (k j)| := abs_sum_le_sum_abs _ _
    _ ≤ ∑ i ∈ range s, ∑ j ∈ range s, |mDefect a b i j * B (k i) (k j)| :=
        sum_le_sum (fun i _ => abs_sum_le_sum_abs _ _)
    _ ≤ ∑ i ∈ range s, ∑ j ∈ range s, ε * |B (k i) (k j)| := by
        apply sum_le_sum; intro i hi
        apply sum_le_sum; intro j hj
        rw [abs_mul]
        exact mul_le_mul_of_nonneg_right (hM i j (mem_range.mp hi) (mem_range.mp hj)) (abs_nonneg _)
    _ = ε * ∑ i ∈ range s, ∑ j ∈ range s, |B (k i) (k j)| := by
        rw [mul_sum]; apply sum_congr rfl; intro i _; rw [mul_sum]

end DVP.QuadInv

/-! ## from the integer table check to the rational defect bound -/
namespace DVP.QuadInv
open DV DV.Trees

/-- the coefficients of a generated table as rationals -/
def aOf (T : RKTab) (i j : ℕ) : ℚ := (((T.A.getD i []).getD j 0 : Int) : ℚ) / (2 : ℚ) ^ T.K
def bOf (T : RKTab) (i : ℕ) : ℚ := ((((T.bs.headD []).getD i 0) : Int) : ℚ) / (2 : ℚ) ^ T.K

theorem absI_eq (x : Int) : absI x = |x| := by
  unfold absI
  split
  · rename_i h; exact (abs_of_neg h).symm
  · rename_i h; exact (abs_of_nonneg (not_lt.mp h)).symm

/-- what `symplecticM T tolDen = true` means for the rational coefficients -/
theorem symplecticM_spec (T : RKTab) (tolDen : ℕ) (htol : 0 < tolDen) (h : symplecticM T tolDen = true)
    (i j : ℕ) (hi : i < (T.bs.headD []).length) (hj : j < (T.bs.headD []).length) :
    |mDefect (aOf T) (bOf T) i j| ≤ 1 / (tolDen : ℚ) := by
  unfold symplecticM at h
  simp only [List.all_eq_true, List.mem_range, decide_eq_true_eq] at h
  have hij := h i hi j hj
  rw [absI_eq] at hij
  set bi := (T.bs.headD []).getD i 0
  set bj := (T.bs.headD []).getD j 0
  set aij := (T.A.getD i []).getD j 0
  set aji := (T.A.getD j []).getD i 0
  have hq : ((tolDen : ℤ) : ℚ) * |((bi * aij + bj * aji - bi * bj : ℤ) : ℚ)| ≤ (((2 ^ (2 * T.K) : ℕ) : ℤ) : ℚ) := by
    have := (Int.cast_le (R := ℚ)).mpr hij
    simpa [Int.cast_mul, Int.cast_abs] using this
  have h2 : (0 : ℚ) < (2 : ℚ) ^ T.K := by positivity
  have hm : mDefect (aOf T) (bOf T) i j = ((bi * aij + bj * aji - bi * bj : ℤ) : ℚ) / ((2 : ℚ) ^ T.K * (2 : ℚ) ^ T.K) := by
    unfold mDefect aOf bOf
    push_cast
    field_simp
    rfl
  rw [hm, abs_div, abs_of_pos (mul_pos h2 h2)]
  have htq : (0 : ℚ) < (tolDen : ℚ) := by exact_mod_cast htol
  rw [div_le_div_iff₀ (mul_pos h2 h2) htq]
  have hp : (((2 ^ (2 * T.K) : ℕ) : ℤ) : ℚ) = (2 : ℚ) ^ T.K * (2 : ℚ) ^ T.K := by
    push_cast
    rw [← pow_add]; congr 1; omega
  rw [hp] at hq
  have : ((tolDen : ℤ) : ℚ) = (tolDen : ℚ) := by simp
  rw [this] at hq
  linarith

end DVP.QuadInv
