import DVP.Lemmas.Loop

/-! Fixed-step runs of the loop model: an integrator that takes every requested step whole and
proposes the same step again (explicit non-adaptive Runge–Kutta and splitting methods). -/
namespace DVP.Loop
open DV DV.Loop DVP.Brent

/-- the behaviour of a non-adaptive explicit integrator: `dTime = timestep`, proposal `= timestep`;
states are irrelevant for the time grid -/
def fixedOrc : Oracle ℚ := fun _ _ h => { ret := .ok h h }

theorem fixedOrc_ok : OracleOK fixedOrc := by
  intro k t h hh
  exact ⟨hh, mul_self_pos.mpr hh, le_refl _, hh⟩

theorem fixDir_same (d span : ℚ) (h : 0 < d * span) : fixDir d span = d := by
  unfold fixDir
  simp only [signC_rat]
  rcases lt_trichotomy span 0 with hs | hs | hs
  · have hd : d < 0 := by nlinarith
    simp [hd, hs]
  · rw [hs] at h; simp at h
  · have hd : 0 < d := by nlinarith
    have h1 : ¬ d < 0 := not_lt.mpr (le_of_lt hd)
    have h2 : ¬ span < 0 := not_lt.mpr (le_of_lt hs)
    simp [hd, hs, h1, h2]

/-- requests, newest first: every non-final request is exactly `d`, none is longer than `d`, and
only the newest one may be a (clipped) final request -/
def ReqsOK (d : ℚ) : List (Req ℚ) → Prop
  | [] => True
  | r :: rest => (r.final = false → r.h = d) ∧ |r.h| ≤ |d| ∧ (∀ r' ∈ rest, r'.final = false) ∧ ReqsOK d rest

/-- **Fixed-step requests.**  With a fixed-step integrator and no callback touching `dt`, starting
from a state whose step `d` points at the target: every step requested from the integrator equals
`d` exactly, except possibly the last one, which is the clipped remainder and shorter than `d`. -/
theorem loop_fixed_requests (cfg : Cfg ℚ) (htol : 0 < cfg.tolEps) (target d : ℚ) (hd : d ≠ 0) :
    ∀ (fuel k : Nat) (s : Sys ℚ) (reqs : List (Req ℚ)),
      (target = s.tcur ∨ (s.dt = d ∧ 0 < d * (target - s.tcur))) →
      ReqsOK d reqs → (target ≠ s.tcur → ∀ r ∈ reqs, r.final = false) →
      ReqsOK d (loop cfg target fixedOrc fuel k s reqs).reqs := by
  intro fuel
  induction fuel with
  | zero => intro k s reqs _ hr _; simpa [loop] using hr
  | succ n ih =>
    intro k s reqs hI hr hnf
    unfold loop
    by_cases hg : DV.Loop.guard cfg target s = true
    · simp only [hg, Bool.not_true, Bool.false_eq_true, if_false]
      obtain ⟨hdt, hD⟩ := (guard_rat cfg target s).mp hg
      have hDne : target ≠ s.tcur := by
        intro h; rw [h, sub_self, abs_zero] at hD; linarith
      rcases hI with h | ⟨hsd, hdir⟩
      · exact absurd h hDne
      have hnf' := hnf hDne
      simp only [fixedOrc]
      rcases hgrow : growth target s (DV.Loop.request target s) with _ | g
      · -- int() raised: one more request, then stop
        simp only
        refine ⟨?_, ?_, hnf', hr⟩
        · intro hfin
          have : ¬ (isFinal target s = true) := by simpa using hfin
          unfold DV.Loop.request; rw [if_neg this]; exact hsd
        · rw [request_rat]; split
          · rename_i h; rw [hsd] at h; exact le_of_lt h
          · rw [hsd]
      · simp only [Bool.false_eq_true, if_false]
        -- the new request
        have hreq : (isFinal target s = false → DV.Loop.request target s = d) ∧ |DV.Loop.request target s| ≤ |d| := by
          constructor
          · intro hfin
            have : ¬ (isFinal target s = true) := by simpa using hfin
            unfold DV.Loop.request; rw [if_neg this]; exact hsd
          · rw [request_rat]; split
            · rename_i h; rw [hsd] at h; exact le_of_lt h
            · rw [hsd]
        have hle_or : isFinal target s = false → |d| ≤ |target - s.tcur| := by
          intro hfin
          have hfin' : ¬ (isFinal target s = true) := by simpa using hfin
          have := (isFinal_rat target s).not.mp hfin'
          rw [hsd] at this; exact not_lt.mp this
        -- D' = D - d has the direction of d, or is zero
        have hD' : isFinal target s = false → (target = s.tcur + d ∨ 0 < d * (target - (s.tcur + d))) := by
          intro hfin
          have hle := hle_or hfin
          by_cases hz : target = s.tcur + d
          · exact Or.inl hz
          · right
            have hne : target - (s.tcur + d) ≠ 0 := sub_ne_zero.mpr hz
            rcases lt_trichotomy d 0 with h | h | h
            · have hDn : target - s.tcur < 0 := by nlinarith
              rw [abs_of_neg h, abs_of_neg hDn] at hle
              have : target - (s.tcur + d) ≤ 0 := by linarith
              have : target - (s.tcur + d) < 0 := lt_of_le_of_ne this hne
              nlinarith
            · exact absurd h hd
            · have hDp : 0 < target - s.tcur := by nlinarith
              rw [abs_of_pos h, abs_of_pos hDp] at hle
              have : 0 ≤ target - (s.tcur + d) := by linarith
              have : 0 < target - (s.tcur + d) := lt_of_le_of_ne this (Ne.symm hne)
              nlinarith
        apply ih
        · -- invariant for the advanced state
          show target = s.tcur + DV.Loop.request target s ∨ _
          by_cases hfin : isFinal target s = true
          · left
            unfold DV.Loop.request; rw [if_pos hfin]; ring
          · have hfin' : isFinal target s = false := by simpa using hfin
            have hreqd : DV.Loop.request target s = d := hreq.1 hfin'
            rw [hreqd]
            rcases hD' hfin' with hz | hpos
            · exact Or.inl hz
            · right
              refine ⟨?_, hpos⟩
              show (advance target s _ d d g).dt = d
              unfold advance
              simp only [hfin', Bool.false_eq_true, if_false]
              exact fixDir_same d _ hpos
        · exact ⟨hreq.1, hreq.2, hnf', hr⟩
        · intro hne r hr'
          rcases List.mem_cons.mp hr' with h | h
          · subst h
            show isFinal target s = false
            by_contra hfin
            have hfin' : isFinal target s = true := by simpa using hfin
            apply hne
            show target = s.tcur + DV.Loop.request target s
            unfold DV.Loop.request; rw [if_pos hfin']; ring
          · exact hnf' r h
    · have hg2 : DV.Loop.guard cfg target s = false := by simpa using hg
      simp only [hg2, Bool.not_false, if_true]
      exact hr

end DVP.Loop
