import DVP.Lemmas.Loop

/-! Equivariance of the `OdeSystem` loop model over `ℚ`: shifting every time by a constant, and
reflecting time (`t ↦ -t` together with `dt ↦ -dt`), commute with `integrate`.  The integrator and
the callbacks are an oracle; the statement is relative to the correspondingly transformed oracle
(an autonomous right-hand side makes the integrator's returns independent of the time shift; see
`DVP.RK` for the step itself). -/
namespace DVP.Loop
open DV DV.Loop DVP.Brent

/-! ## shift -/

def shiftSys (c : ℚ) (s : Sys ℚ) : Sys ℚ := { s with ts := s.ts.map (· + c), t0 := s.t0 + c, tf := s.tf + c }
/-- the same integrator seen from shifted time: the step it returns does not depend on the shift -/
def shiftOrc (c : ℚ) (orc : Oracle ℚ) : Oracle ℚ := fun k t h => orc k (t - c) h
def shiftReq (c : ℚ) (r : Req ℚ) : Req ℚ := { r with t := r.t + c }
def shiftOut (c : ℚ) (o : LoopOut ℚ) : LoopOut ℚ := { o with sys := shiftSys c o.sys, reqs := o.reqs.map (shiftReq c) }

@[simp] theorem tcur_shift (c : ℚ) (s : Sys ℚ) : (shiftSys c s).tcur = s.tcur + c := by
  unfold Sys.tcur shiftSys
  cases s.ts <;> simp

@[simp] theorem counter_shift (c : ℚ) (s : Sys ℚ) : (shiftSys c s).counter = s.counter := by
  simp [Sys.counter, shiftSys]

@[simp] theorem dt_shift (c : ℚ) (s : Sys ℚ) : (shiftSys c s).dt = s.dt := rfl
@[simp] theorem cap_shift (c : ℚ) (s : Sys ℚ) : (shiftSys c s).cap = s.cap := rfl
@[simp] theorem status_shift (c : ℚ) (s : Sys ℚ) : (shiftSys c s).status = s.status := rfl
@[simp] theorem crashed_shift (c : ℚ) (s : Sys ℚ) : (shiftSys c s).crashed = s.crashed := rfl

theorem shiftSys_status (c : ℚ) (s : Sys ℚ) (st : Status) :
    ({ shiftSys c s with status := st } : Sys ℚ) = shiftSys c { s with status := st } := rfl

private theorem sub_shift (a b c : ℚ) : a + c - (b + c) = a - b := by ring

theorem guard_shift (cfg : Cfg ℚ) (c target : ℚ) (s : Sys ℚ) :
    DV.Loop.guard cfg (target + c) (shiftSys c s) = DV.Loop.guard cfg target s := by
  simp [DV.Loop.guard]

theorem isFinal_shift (c target : ℚ) (s : Sys ℚ) : isFinal (target + c) (shiftSys c s) = isFinal target s := by
  simp [isFinal]

theorem request_shift (c target : ℚ) (s : Sys ℚ) : request (target + c) (shiftSys c s) = request target s := by
  simp [request, isFinal_shift]

theorem growth_shift (c target dT : ℚ) (s : Sys ℚ) : growth (target + c) (shiftSys c s) dT = growth target s dT := by
  have : target + c - dT - (s.tcur + c) = target - dT - s.tcur := by ring
  simp [growth, this]

theorem advance_shift (c target : ℚ) (s : Sys ℚ) (it : Iter ℚ) (newDt dT : ℚ) (g : Nat) :
    advance (target + c) (shiftSys c s) it newDt dT g = shiftSys c (advance target s it newDt dT g) := by
  have h1 : target + c - (s.tcur + c + dT) = target - (s.tcur + dT) := by ring
  have h2 : s.tf + c - (s.t0 + c) = s.tf - s.t0 := by ring
  have h3 : s.tcur + c + dT = s.tcur + dT + c := by ring
  unfold advance
  simp only [tcur_shift, isFinal_shift, dt_shift, cap_shift, h1]
  simp only [shiftSys, List.map_cons, h2, h3]

theorem loop_shift (cfg : Cfg ℚ) (c target : ℚ) (orc : Oracle ℚ) :
    ∀ (fuel k : Nat) (s : Sys ℚ) (reqs : List (Req ℚ)),
      loop cfg (target + c) (shiftOrc c orc) fuel k (shiftSys c s) (reqs.map (shiftReq c)) =
        shiftOut c (loop cfg target orc fuel k s reqs) := by
  intro fuel
  induction fuel with
  | zero => intro k s reqs; simp [loop, guard_shift, shiftOut]
  | succ n ih =>
    intro k s reqs
    unfold loop
    rw [guard_shift]
    by_cases hg : DV.Loop.guard cfg target s = true
    · simp only [hg, Bool.not_true, Bool.false_eq_true, if_false]
      have horc : shiftOrc c orc k (shiftSys c s).tcur (request (target + c) (shiftSys c s)) = orc k s.tcur (request target s) := by
        simp [shiftOrc, request_shift]
      rw [horc, request_shift, isFinal_shift]
      rcases hret : (orc k s.tcur (request target s)).ret with ⟨newDt, dT⟩ | _ | _
      · simp only
        rw [growth_shift]
        rcases hgrow : growth target s dT with _ | g
        · simp [shiftOut, shiftReq] <;> rfl
        · simp only
          rw [advance_shift]
          by_cases hcr : (orc k s.tcur (request target s)).cbRaise = true
          · simp [hcr, shiftOut, shiftReq] <;> rfl
          · simp only [hcr, Bool.false_eq_true, if_false]
            have := ih (k + 1) (advance target s (orc k s.tcur (request target s)) newDt dT g)
              ({ t := s.tcur, h := request target s, final := isFinal target s, cap := s.cap } :: reqs)
            simpa [shiftReq] using this
      · simp [shiftOut, shiftReq] <;> rfl
      · simp [shiftOut, shiftReq] <;> rfl
    · have hg2 : DV.Loop.guard cfg target s = false := by simpa using hg
      simp [hg2, shiftOut]

theorem initialDt_shift (cfg : Cfg ℚ) (c target : ℚ) (s : Sys ℚ) :
    initialDt cfg (shiftSys c s) (target + c) = initialDt cfg s target := by
  simp [initialDt]

/-- the system the loop of `integrate` starts from -/
def startSys (cfg : Cfg ℚ) (s : Sys ℚ) (target : ℚ) (n : Nat) : Sys ℚ :=
  { s with dt := initialDt cfg s target, cap := s.cap + n,
           status := if s.status == 2 ∨ s.status == 3 ∨ s.status == 4 then 0 else s.status }

/-- the bookkeeping after the loop (`else:` / `finally:` clauses) -/
def finish (out : LoopOut ℚ) : LoopOut ℚ :=
  { out with sys := { out.sys with status := finalStatus out.guardExit out.sys.status, cap := out.sys.ts.length } }

theorem integrate_eq (cfg : Cfg ℚ) (s : Sys ℚ) (target : ℚ) (orc : Oracle ℚ) (fuel : Nat) :
    integrate cfg s target orc fuel =
      if s.crashed then { sys := s, reqs := [], guardExit := false, iters := 0 } else
      if absC (target - s.tcur) < cfg.tolEps then { sys := s, reqs := [], guardExit := true, iters := 0 } else
      match allocSteps (target - s.tcur) (initialDt cfg s target) with
      | none => { sys := { startSys cfg s target 0 with cap := s.cap, crashed := true }, reqs := [], guardExit := false, iters := 0 }
      | some n => finish (loop cfg target orc fuel 0 (startSys cfg s target n) []) := by
  unfold integrate startSys finish
  rfl

theorem startSys_shift (cfg : Cfg ℚ) (c target : ℚ) (s : Sys ℚ) (n : Nat) :
    startSys cfg (shiftSys c s) (target + c) n = shiftSys c (startSys cfg s target n) := by
  unfold startSys
  rw [initialDt_shift]
  rfl

theorem finish_shift (c : ℚ) (o : LoopOut ℚ) : finish (shiftOut c o) = shiftOut c (finish o) := by
  simp [finish, shiftOut, shiftSys]

/-- **Shift equivariance of `integrate`**: integrating the shifted system to the shifted target, with
an integrator whose returns do not depend on the shift, records the same steps at shifted times —
same number of calls, same requests, same `dt`, same status. -/
theorem integrate_shift (cfg : Cfg ℚ) (c target : ℚ) (s : Sys ℚ) (orc : Oracle ℚ) (fuel : Nat) :
    integrate cfg (shiftSys c s) (target + c) (shiftOrc c orc) fuel = shiftOut c (integrate cfg s target orc fuel) := by
  rw [integrate_eq, integrate_eq]
  simp only [crashed_shift, tcur_shift, sub_shift, initialDt_shift]
  by_cases hc : s.crashed = true
  · simp [hc, shiftOut]
  · simp only [hc, Bool.false_eq_true, if_false]
    by_cases he : absC (target - s.tcur) < cfg.tolEps
    · simp [he, shiftOut]
    · simp only [he, if_false]
      rcases halloc : allocSteps (target - s.tcur) (initialDt cfg s target) with _ | n
      · simp only [startSys_shift, cap_shift]
        simp [shiftOut, shiftSys]
      · simp only [startSys_shift]
        have := loop_shift cfg c target orc fuel 0 (startSys cfg s target n) []
        simp only [List.map_nil] at this
        rw [this, finish_shift]

/-! ## reflection of time -/

def reflSys (s : Sys ℚ) : Sys ℚ :=
  { s with ts := s.ts.map (fun t => -t), dt := -s.dt, dt0 := -s.dt0, t0 := -s.t0, tf := -s.tf }
def reflIter (it : Iter ℚ) : Iter ℚ :=
  { ret := (match it.ret with
      | .ok newDt dT => .ok (-newDt) (-dT)
      | .raise => .raise
      | .interrupt => .interrupt),
    cbDt := it.cbDt.map (fun v => -v), cbRaise := it.cbRaise }
/-- the integrator of the time-reversed problem: asked for `-h` from `-t` it takes the mirrored step -/
def reflOrc (orc : Oracle ℚ) : Oracle ℚ := fun k t h => reflIter (orc k (-t) (-h))
def reflReq (r : Req ℚ) : Req ℚ := { r with t := -r.t, h := -r.h }
def reflOut (o : LoopOut ℚ) : LoopOut ℚ := { o with sys := reflSys o.sys, reqs := o.reqs.map reflReq }

@[simp] theorem tcur_refl (s : Sys ℚ) : (reflSys s).tcur = -s.tcur := by
  unfold Sys.tcur reflSys
  cases s.ts <;> simp

@[simp] theorem counter_refl (s : Sys ℚ) : (reflSys s).counter = s.counter := by
  simp [Sys.counter, reflSys]

@[simp] theorem dt_refl (s : Sys ℚ) : (reflSys s).dt = -s.dt := rfl
@[simp] theorem cap_refl (s : Sys ℚ) : (reflSys s).cap = s.cap := rfl
@[simp] theorem status_refl (s : Sys ℚ) : (reflSys s).status = s.status := rfl
@[simp] theorem crashed_refl (s : Sys ℚ) : (reflSys s).crashed = s.crashed := rfl
@[simp] theorem tf_refl (s : Sys ℚ) : (reflSys s).tf = -s.tf := rfl
@[simp] theorem t0_refl (s : Sys ℚ) : (reflSys s).t0 = -s.t0 := rfl

theorem absC_neg (x : ℚ) : absC (-x) = absC x := by rw [absC_rat, absC_rat, abs_neg]

theorem signC_neg (x : ℚ) : signC (-x) = -signC x := by
  simp only [signC_rat, neg_lt_zero, Left.neg_pos_iff]
  rcases lt_trichotomy x 0 with h | h | h
  · simp [h, not_lt.mpr (le_of_lt h)]
  · simp [h]
  · simp [h, not_lt.mpr (le_of_lt h)]

theorem fixDir_neg (dt span : ℚ) : fixDir (-dt) (-span) = -fixDir dt span := by
  unfold fixDir
  rw [signC_neg, signC_neg]
  have : (-signC dt != -signC span) = (signC dt != signC span) := by
    simp only [bne, Bool.not_eq_eq_eq_not, Bool.not_not]
    by_cases h : signC dt = signC span
    · simp [h]
    · have : ¬ (-signC dt = -signC span) := fun h' => h (neg_injective h')
      simp [h, this]
  rw [this]
  split <;> simp

/-- reversing the span reverses the fixed step (for a zero span the step must be zero as well) -/
theorem fixDir_neg_span (x span : ℚ) (h : span ≠ 0 ∨ x = 0) : fixDir x (-span) = -fixDir x span := by
  rcases h with h | h
  · unfold fixDir
    rw [signC_neg]
    simp only [signC_rat]
    rcases lt_or_gt_of_ne h with hs | hs <;> rcases lt_trichotomy x 0 with hx | hx | hx
    · simp [hs, hx, not_lt.mpr (le_of_lt hs)]
    · simp [hs, hx]
    · simp [hs, hx, not_lt.mpr (le_of_lt hx), not_lt.mpr (le_of_lt hs)]
    · simp [hs, hx, not_lt.mpr (le_of_lt hs)]
    · simp [hs, hx, not_lt.mpr (le_of_lt hs)]
    · simp [hs, hx, not_lt.mpr (le_of_lt hx), not_lt.mpr (le_of_lt hs)]
  · subst h
    unfold fixDir
    split <;> split <;> simp

theorem allocSteps_neg (a b : ℚ) : allocSteps (-a) (-b) = allocSteps a b := by
  unfold allocSteps
  have e : ∀ x : ℚ, HasTrunc.isInf x = false := fun _ => rfl
  rw [neg_div_neg_eq, e, e]

private theorem neg_sub_neg' (a b : ℚ) : -a - -b = -(a - b) := by ring

theorem guard_refl (cfg : Cfg ℚ) (target : ℚ) (s : Sys ℚ) :
    DV.Loop.guard cfg (-target) (reflSys s) = DV.Loop.guard cfg target s := by
  simp only [DV.Loop.guard, tcur_refl, dt_refl, neg_sub_neg', absC_neg]
  congr 2
  simp

theorem isFinal_refl (target : ℚ) (s : Sys ℚ) : isFinal (-target) (reflSys s) = isFinal target s := by
  simp only [isFinal, tcur_refl, dt_refl, neg_sub_neg', absC_neg]

theorem request_refl (target : ℚ) (s : Sys ℚ) : request (-target) (reflSys s) = -request target s := by
  simp only [request, isFinal_refl, tcur_refl, dt_refl, neg_sub_neg']
  split <;> rfl

theorem growth_refl (target dT : ℚ) (s : Sys ℚ) : growth (-target) (reflSys s) (-dT) = growth target s dT := by
  have : -target - -dT - -s.tcur = -(target - dT - s.tcur) := by ring
  simp only [growth, tcur_refl, dt_refl, cap_refl, counter_refl, this, allocSteps_neg]

theorem advance_refl (target : ℚ) (s : Sys ℚ) (it : Iter ℚ) (newDt dT : ℚ) (g : Nat) :
    advance (-target) (reflSys s) (reflIter it) (-newDt) (-dT) g = reflSys (advance target s it newDt dT g) := by
  have h1 : -target - -(s.tcur + dT) = -(target - (s.tcur + dT)) := by ring
  have h2 : -s.tf - -s.t0 = -(s.tf - s.t0) := by ring
  have h3 : -s.tcur + -dT = -(s.tcur + dT) := by ring
  unfold advance
  simp only [tcur_refl, isFinal_refl, dt_refl, cap_refl, tf_refl, t0_refl, h3, h1, h2, fixDir_neg]
  cases hcb : it.cbDt with
  | none =>
    simp only [reflIter, hcb, Option.map_none]
    split <;> simp [reflSys]
  | some v =>
    simp only [reflIter, hcb, Option.map_some, fixDir_neg]
    simp [reflSys]

theorem loop_refl (cfg : Cfg ℚ) (target : ℚ) (orc : Oracle ℚ) :
    ∀ (fuel k : Nat) (s : Sys ℚ) (reqs : List (Req ℚ)),
      loop cfg (-target) (reflOrc orc) fuel k (reflSys s) (reqs.map reflReq) = reflOut (loop cfg target orc fuel k s reqs) := by
  intro fuel
  induction fuel with
  | zero => intro k s reqs; simp [loop, guard_refl, reflOut]
  | succ n ih =>
    intro k s reqs
    unfold loop
    rw [guard_refl]
    by_cases hg : DV.Loop.guard cfg target s = true
    · simp only [hg, Bool.not_true, Bool.false_eq_true, if_false]
      have horc : reflOrc orc k (reflSys s).tcur (request (-target) (reflSys s)) = reflIter (orc k s.tcur (request target s)) := by
        simp [reflOrc, request_refl]
      rw [horc, request_refl, isFinal_refl]
      rcases hret : (orc k s.tcur (request target s)).ret with ⟨newDt, dT⟩ | _ | _
      · have hr : (reflIter (orc k s.tcur (request target s))).ret = .ok (-newDt) (-dT) := by simp [reflIter, hret]
        rw [hr]
        simp only
        rw [growth_refl]
        rcases hgrow : growth target s dT with _ | g
        · simp [reflOut, reflReq] <;> rfl
        · simp only
          rw [advance_refl]
          have hcb : (reflIter (orc k s.tcur (request target s))).cbRaise = (orc k s.tcur (request target s)).cbRaise := rfl
          rw [hcb]
          by_cases hcr : (orc k s.tcur (request target s)).cbRaise = true
          · simp [hcr, reflOut, reflReq] <;> rfl
          · simp only [hcr, Bool.false_eq_true, if_false]
            have := ih (k + 1) (advance target s (orc k s.tcur (request target s)) newDt dT g)
              ({ t := s.tcur, h := request target s, final := isFinal target s, cap := s.cap } :: reqs)
            simpa [reflReq] using this
      · have hr : (reflIter (orc k s.tcur (request target s))).ret = .raise := by simp [reflIter, hret]
        rw [hr]
        simp [reflOut, reflReq] <;> rfl
      · have hr : (reflIter (orc k s.tcur (request target s))).ret = .interrupt := by simp [reflIter, hret]
        rw [hr]
        simp [reflOut, reflReq] <;> rfl
    · have hg2 : DV.Loop.guard cfg target s = false := by simpa using hg
      simp [hg2, reflOut]

theorem initialDt_refl (cfg : Cfg ℚ) (target : ℚ) (s : Sys ℚ) :
    initialDt cfg (reflSys s) (-target) = -initialDt cfg s target := by
  simp only [initialDt, tcur_refl, dt_refl, neg_sub_neg', fixDir_neg, absC_neg]
  split
  · apply fixDir_neg_span
    by_cases h : target - s.tcur = 0
    · right; rw [h, absC_rat]; simp
    · left; exact h
  · rfl

theorem startSys_refl (cfg : Cfg ℚ) (target : ℚ) (s : Sys ℚ) (n : Nat) :
    startSys cfg (reflSys s) (-target) n = reflSys (startSys cfg s target n) := by
  unfold startSys
  rw [initialDt_refl]
  rfl

theorem finish_refl (o : LoopOut ℚ) : finish (reflOut o) = reflOut (finish o) := by
  simp [finish, reflOut, reflSys]

/-- **Reflection equivariance of `integrate`**: the time-reversed system (`t ↦ -t`, `dt ↦ -dt`),
integrated to the mirrored target with the integrator of the time-reversed problem, records the
mirrored times with the mirrored steps — same number of calls, same status. -/
theorem integrate_refl (cfg : Cfg ℚ) (target : ℚ) (s : Sys ℚ) (orc : Oracle ℚ) (fuel : Nat) :
    integrate cfg (reflSys s) (-target) (reflOrc orc) fuel = reflOut (integrate cfg s target orc fuel) := by
  rw [integrate_eq, integrate_eq]
  simp only [crashed_refl, tcur_refl, neg_sub_neg', absC_neg, initialDt_refl, allocSteps_neg]
  by_cases hc : s.crashed = true
  · simp [hc, reflOut]
  · simp only [hc, Bool.false_eq_true, if_false]
    by_cases he : absC (target - s.tcur) < cfg.tolEps
    · simp [he, reflOut]
    · simp only [he, if_false]
      rcases halloc : allocSteps (target - s.tcur) (initialDt cfg s target) with _ | n
      · simp only [startSys_refl, cap_refl]
        simp [reflOut, reflSys]
      · simp only [startSys_refl]
        have := loop_refl cfg target orc fuel 0 (startSys cfg s target n) []
        simp only [List.map_nil] at this
        rw [this, finish_refl]

end DVP.Loop
