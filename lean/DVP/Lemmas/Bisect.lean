import DV.Model.Bisect
import Mathlib.Order.Defs.LinearOrder
import Mathlib.Order.Basic

namespace DVP.Bisect
open DV.Bisect

variable {α : Type} [LinearOrder α]

/-- invariant of the scalar loop: `jl < ju`, `a jl ≤ val < a ju`; on exit `ju = jl + 1` -/
theorem loopS_inv (a : Nat → α) (val : α) (jl ju : Nat)
    (h1 : jl < ju) (h2 : a jl ≤ val) (h3 : val < a ju) :
    let r := loopS a val jl ju
    r.2 = r.1 + 1 ∧ a r.1 ≤ val ∧ val < a r.2 ∧ jl ≤ r.1 ∧ r.2 ≤ ju := by
  fun_induction loopS a val jl ju with
  | case1 jl ju hgt jm hle ih =>
    have hj : jl < jm ∧ jm < ju := by omega
    obtain ⟨e1, e2, e3, e4, e5⟩ := ih hj.2 hle h3
    exact ⟨e1, e2, e3, by omega, by omega⟩
  | case2 jl ju hgt jm hle ih =>
    have hj : jl < jm ∧ jm < ju := by omega
    obtain ⟨e1, e2, e3, e4, e5⟩ := ih hj.1 h2 (not_le.mp hle)
    exact ⟨e1, e2, e3, by omega, by omega⟩
  | case3 jl ju hgt =>
    simp only
    exact ⟨by omega, h2, h3, Nat.le_refl _, Nat.le_refl _⟩

/-- invariant of the vector-lane loop: `jl < ju`, `a jl < val ≤ a ju` -/
theorem loopV_inv (a : Nat → α) (val : α) (jl ju : Nat)
    (h1 : jl < ju) (h2 : a jl < val) (h3 : val ≤ a ju) :
    let r := loopV a val jl ju
    r.2 = r.1 + 1 ∧ a r.1 < val ∧ val ≤ a r.2 ∧ jl ≤ r.1 ∧ r.2 ≤ ju := by
  fun_induction loopV a val jl ju with
  | case1 jl ju hgt jm hlt ih =>
    have hj : jl < jm ∧ jm < ju := by omega
    obtain ⟨e1, e2, e3, e4, e5⟩ := ih hj.2 hlt h3
    exact ⟨e1, e2, e3, by omega, by omega⟩
  | case2 jl ju hgt jm hlt ih =>
    have hj : jl < jm ∧ jm < ju := by omega
    obtain ⟨e1, e2, e3, e4, e5⟩ := ih hj.1 h2 (not_lt.mp hlt)
    exact ⟨e1, e2, e3, by omega, by omega⟩
  | case3 jl ju hgt =>
    simp only
    exact ⟨by omega, h2, h3, Nat.le_refl _, Nat.le_refl _⟩

/-- strictly increasing on `[0, n)` -/
def StrictIncr (a : Nat → α) (n : Nat) : Prop := ∀ i j, i < j → j < n → a i < a j

theorem StrictIncr.le {a : Nat → α} {n : Nat} (h : StrictIncr a n) {i j : Nat} (hij : i ≤ j) (hj : j < n) :
    a i ≤ a j := by
  rcases Nat.lt_or_eq_of_le hij with h' | h'
  · exact le_of_lt (h i j h' hj)
  · subst h'; exact le_refl _

/-- `r` is "the index of the first element not smaller than `val`, clipped to the last index" -/
def IsFirstGEClipped (a : Nat → α) (n : Nat) (val : α) (r : Nat) : Prop :=
  r < n ∧ (∀ i, i < r → a i < val) ∧ (val ≤ a r ∨ r = n - 1)

/-- the specification determines the index uniquely -/
theorem IsFirstGEClipped.unique {a : Nat → α} {n : Nat} {val : α} {r s : Nat}
    (hr : IsFirstGEClipped a n val r) (hs : IsFirstGEClipped a n val s) : r = s := by
  obtain ⟨hr1, hr2, hr3⟩ := hr
  obtain ⟨hs1, hs2, hs3⟩ := hs
  rcases Nat.lt_trichotomy r s with h | h | h
  · rcases hr3 with h' | h'
    · exact absurd (hs2 r h) (not_lt.mpr h')
    · omega
  · exact h
  · rcases hs3 with h' | h'
    · exact absurd (hr2 s h) (not_lt.mpr h')
    · omega

theorem searchS_spec (a : Nat → α) (n : Nat) (hn : 0 < n) (hmono : StrictIncr a n) (val : α) :
    IsFirstGEClipped a n val (searchS a n val) := by
  unfold searchS
  simp only
  split
  · rename_i h
    exact ⟨hn, fun i hi => absurd hi (Nat.not_lt_zero _), Or.inl h⟩
  · rename_i h0
    split
    · rename_i h1
      refine ⟨by omega, fun i hi => ?_, Or.inr rfl⟩
      exact lt_of_lt_of_le (hmono i (n-1) hi (by omega)) h1
    · rename_i h1
      have h0' : a 0 < val := not_le.mp h0
      have h1' : val < a (n-1) := not_le.mp h1
      have hlt : 0 < n - 1 := by
        rcases Nat.eq_zero_or_pos (n-1) with h | h
        · rw [h] at h1'; exact absurd (lt_trans h0' h1') (lt_irrefl _)
        · exact h
      have hinv := loopS_inv a val 0 (n-1) hlt (le_of_lt h0') h1'
      simp only at hinv
      generalize loopS a val 0 (n-1) = r at hinv ⊢
      obtain ⟨jl, ju⟩ := r
      simp only at hinv ⊢
      obtain ⟨e, hle, hlt2, _, hju⟩ := hinv
      split
      · rename_i hlt3
        refine ⟨by omega, fun i hi => ?_, Or.inl (le_of_lt hlt2)⟩
        exact lt_of_le_of_lt (hmono.le (by omega) (by omega)) hlt3
      · rename_i hnlt
        have heq : a jl = val := le_antisymm hle (not_lt.mp hnlt)
        refine ⟨by omega, fun i hi => ?_, Or.inl (le_of_eq heq.symm)⟩
        exact heq ▸ hmono i jl hi (by omega)

theorem searchV_spec (a : Nat → α) (n : Nat) (hn : 0 < n) (hmono : StrictIncr a n) (val : α) :
    IsFirstGEClipped a n val (searchV a n val) := by
  unfold searchV
  -- case split on how `val` compares with the two ends
  by_cases h0 : a 0 < val
  · by_cases h1 : val ≤ a (n-1)
    · have hlt : 0 < n - 1 := by
        rcases Nat.eq_zero_or_pos (n-1) with h | h
        · rw [h] at h1; exact absurd (lt_of_lt_of_le h0 h1) (lt_irrefl _)
        · exact h
      have hinv := loopV_inv a val 0 (n-1) hlt h0 h1
      simp only at hinv
      generalize loopV a val 0 (n-1) = r at hinv ⊢
      obtain ⟨jl, ju⟩ := r
      simp only at hinv ⊢
      obtain ⟨e, hl, hu, _, hju⟩ := hinv
      rw [if_pos hl]
      refine ⟨by omega, fun i hi => ?_, Or.inl hu⟩
      exact lt_of_le_of_lt (hmono.le (by omega) (by omega)) hl
    · -- val beyond the last element: the loop walks the lower end up to n-2, result n-1
      have h1' : a (n-1) < val := not_le.mp h1
      -- generalised statement: if everything below ju is < val then the loop ends with jl+1 = ju or jl = ju
      have key : ∀ jl ju, jl ≤ ju → ju = n - 1 →
          let r := loopV a val jl ju
          (r.2 = n - 1) ∧ (r.1 = n - 1 ∨ r.1 + 1 = n - 1) := by
        intro jl ju hle hju
        fun_induction loopV a val jl ju with
        | case1 jl ju hgt jm hlt ih =>
          have := ih (by omega) hju
          simpa using this
        | case2 jl ju hgt jm hlt ih =>
          exfalso
          have : a jm ≤ a (n-1) := hmono.le (by omega) (by omega)
          exact hlt (lt_of_le_of_lt this h1')
        | case3 jl ju hgt =>
          simp only
          omega
      have := key 0 (n-1) (Nat.zero_le _) rfl
      simp only at this
      generalize loopV a val 0 (n-1) = r at this ⊢
      obtain ⟨jl, ju⟩ := r
      simp only at this ⊢
      obtain ⟨e1, e2⟩ := this
      have hjl : a jl < val := lt_of_le_of_lt (hmono.le (by omega) (by omega)) h1'
      rw [if_pos hjl, e1]
      refine ⟨by omega, fun i hi => ?_, Or.inr rfl⟩
      exact lt_of_le_of_lt (hmono.le (Nat.le_of_lt hi) (by omega)) h1'
  · -- val ≤ a 0: the loop walks the upper end down, lower end stays 0, result 0
    have h0' : val ≤ a 0 := not_lt.mp h0
    have key : ∀ jl ju, jl = 0 → ju < n → (loopV a val jl ju).1 = 0 := by
      intro jl ju hjl hju
      fun_induction loopV a val jl ju with
      | case1 jl ju hgt jm hlt ih =>
        exfalso
        have : a 0 ≤ a jm := hmono.le (Nat.zero_le _) (by omega)
        exact absurd (lt_of_le_of_lt (le_trans h0' this) hlt) (lt_irrefl _)
      | case2 jl ju hgt jm hlt ih => exact ih hjl (by omega)
      | case3 jl ju hgt => exact hjl
    have := key 0 (n-1) rfl (by omega)
    generalize loopV a val 0 (n-1) = r at this ⊢
    obtain ⟨jl, ju⟩ := r
    simp only at this ⊢
    subst this
    rw [if_neg h0]
    exact ⟨hn, fun i hi => absurd hi (Nat.not_lt_zero _), Or.inl h0'⟩

/-- the two searches agree on every strictly increasing array and every query -/
theorem searchV_eq_searchS (a : Nat → α) (n : Nat) (hn : 0 < n) (hmono : StrictIncr a n) (val : α) :
    searchV a n val = searchS a n val :=
  (searchV_spec a n hn hmono val).unique (searchS_spec a n hn hmono val)

end DVP.Bisect
