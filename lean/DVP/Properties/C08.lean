import DVP.Lemmas.Events
/-!
# C08 — no event crossing is missed

PARTIAL.  Proved on the selection model (`DV.Events`): a sign change seen by the samples around the
located root is classified as a crossing whatever the magnitude of the event function (only signs
enter), and every monitored event whose probe passes the direction mask is reported unless an
earlier terminal event cuts the step.  The first link of the chain — the root finder reports success for
every sign change — was false of the code (its success test was the absolute `|g(root)| ≤ eps` and its
width tolerance `eps` lies below the spacing of the floats for `|t| ≥ 2`: findings P14 / P12, half of the
crossings of a plain oscillator were dropped); since the repair in `/repo` it is C14's theorem
`lane_sign_change_success` (a lane with a sign change succeeds unless the iteration cap stops it,
whatever the scale of the function).  The completeness of the whole chain is evaluated on the
implementation (`harness/p_c08.py`: sign of `g` at consecutive recorded samples vs reported events, 12
decades of scale, both directions, dense output on/off, 1–6 simultaneous events, crossings on step
boundaries).
-/
namespace DVP.C08
open DV DV.Events DVP.Events

/-- a strict sign change across the located root is classified as an upward / downward crossing —
whatever the scale of the event function, only the signs of the samples matter -/
theorem sign_change_classified (a c b : Sgn) : (a < 0 ∧ 0 < b → upOf a c b = true) ∧ (0 < a ∧ b < 0 → downOf a c b = true) := by
  constructor
  · intro ⟨h1, h2⟩
    have ha : a ≤ 0 := Int.le_of_lt h1
    have hb : 0 ≤ b := Int.le_of_lt h2
    unfold upOf; simp [ha, hb]
  · intro ⟨h1, h2⟩
    have ha : 0 ≤ a := Int.le_of_lt h1
    have hb : b ≤ 0 := Int.le_of_lt h2
    unfold downOf; simp [ha, hb]

/-- a successfully located root with a compatible sign change passes the direction mask -/
theorem located_crossing_is_active (p : Probe ℚ) (hs : p.success = true) :
    (p.gm < 0 ∧ 0 < p.gp ∧ 0 ≤ p.direction → p.active = true) ∧ (0 < p.gm ∧ p.gp < 0 ∧ p.direction ≤ 0 → p.active = true) := by
  constructor
  · intro ⟨h1, h2, h3⟩
    have hu : p.up = true := by unfold Probe.up; simp [hs, (sign_change_classified p.gm p.gc p.gp).1 ⟨h1, h2⟩]
    unfold Probe.active
    rcases Int.lt_or_eq_of_le h3 with h | h
    · simp [hu, h]
    · simp [hu, h.symm]
  · intro ⟨h1, h2, h3⟩
    have hd : p.down = true := by unfold Probe.down; simp [hs, (sign_change_classified p.gm p.gc p.gp).2 ⟨h1, h2⟩]
    unfold Probe.active
    rcases Int.lt_or_eq_of_le h3 with h | h
    · simp [hd, h]
    · simp [hd, h]

/-- **Nothing that passes the mask is dropped**: every monitored event whose probe is active is
reported in this step, unless a terminal event with an earlier-or-equal root is reported (the
integration stops there and the rest of the step is discarded) -/
theorem active_event_reported (sgn : ℚ) (probes : List (Probe ℚ)) (i : Nat) (hi : i < probes.length)
    (hact : (probes[i]).active = true) :
    (i, probes[i]) ∈ (handle sgn probes).1 ∨
    ∃ y, y ∈ (handle sgn probes).1 ∧ y.2.terminal = true ∧ sgn * y.2.root ≤ sgn * (probes[i]).root :=
  handle_complete sgn probes i hi hact

/-- … for any number of simultaneously monitored events, non-terminal events never hide each other -/
theorem nonterminal_events_all_reported (sgn : ℚ) (probes : List (Probe ℚ)) (hnt : ∀ p ∈ probes, p.terminal = false)
    (i : Nat) (hi : i < probes.length) (hact : (probes[i]).active = true) : (i, probes[i]) ∈ (handle sgn probes).1 := by
  rcases handle_complete sgn probes i hi hact with h | ⟨y, hy, hyt, _⟩
  · exact h
  · have := (handle_sound sgn probes y hy).1
    have hm : y.2 ∈ probes := List.mem_of_getElem? this
    rw [hnt y.2 hm] at hyt
    exact absurd hyt (by simp)

end DVP.C08
