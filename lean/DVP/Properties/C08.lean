import DVP.Lemmas.Events
import DVP.Lemmas.Record
/-!
# C08 — no event crossing is missed

PARTIAL.  Proved on the selection model (`DV.Events`): a sign change seen by the samples around the
located root is classified as a crossing whatever the magnitude of the event function (only signs
enter), and every monitored event whose probe passes the direction mask is reported unless an
earlier terminal event cuts the step.  The first link of the chain — the root finder reports success for
every sign change — was false of the code (its success test was the absolute `|g(root)| ≤ eps` and its
width tolerance `eps` lies below the spacing of the floats for `|t| ≥ 2`: findings P14 / P12, half of the
crossings of a plain oscillator were dropped); since the repair in `/repo` it is C14's theorem
`lane_sign_change_success` (a lane with a sign change succeeds unless the iteration cap stops it,
whatever the scale of the function).  The completeness of the whole chain is evaluated on the
implementation (`harness/p_c08.py`: sign of `g` at consecutive recorded samples vs reported events, 12
decades of scale, both directions, dense output on/off, 1–6 simultaneous events, crossings on step
boundaries).  The last link — the book-keeping in `integrate` that drops roots it takes for duplicates — is
`located_events_all_recorded`: starting from the empty book, after any number of steps every root that was
reported inside its step has an event OF THE SAME FUNCTION recorded within the duplicate tolerance, however
many functions share the instant.
-/
namespace DVP.C08
open DV DV.Events DVP.Events
open DVP.Record (bookAfter emptyBook)

/-- a strict sign change across the located root is classified as an upward / downward crossing —
whatever the scale of the event function, only the signs of the samples matter -/
theorem sign_change_classified (a c b : Sgn) : (a < 0 ∧ 0 < b → upOf a c b = true) ∧ (0 < a ∧ b < 0 → downOf a c b = true) := by
  constructor
  · intro ⟨h1, h2⟩
    have ha : a ≤ 0 := Int.le_of_lt h1
    have hb : 0 ≤ b := Int.le_of_lt h2
    unfold upOf; simp [ha, hb]
  · intro ⟨h1, h2⟩
    have ha : 0 ≤ a := Int.le_of_lt h1
    have hb : b ≤ 0 := Int.le_of_lt h2
    unfold downOf; simp [ha, hb]

/-- a successfully located root with a compatible sign change passes the direction mask -/
theorem located_crossing_is_active (p : Probe ℚ) (hs : p.success = true) :
    (p.gm < 0 ∧ 0 < p.gp ∧ 0 ≤ p.direction → p.active = true) ∧ (0 < p.gm ∧ p.gp < 0 ∧ p.direction ≤ 0 → p.active = true) := by
  constructor
  · intro ⟨h1, h2, h3⟩
    have hu : p.up = true := by unfold Probe.up; simp [hs, (sign_change_classified p.gm p.gc p.gp).1 ⟨h1, h2⟩]
    unfold Probe.active
    rcases Int.lt_or_eq_of_le h3 with h | h
    · simp [hu, h]
    · simp [hu, h.symm]
  · intro ⟨h1, h2, h3⟩
    have hd : p.down = true := by unfold Probe.down; simp [hs, (sign_change_classified p.gm p.gc p.gp).2 ⟨h1, h2⟩]
    unfold Probe.active
    rcases Int.lt_or_eq_of_le h3 with h | h
    · simp [hd, h]
    · simp [hd, h]

/-- **Nothing that passes the mask is dropped**: every monitored event whose probe is active is
reported in this step, unless a terminal event with an earlier-or-equal root is reported (the
integration stops there and the rest of the step is discarded) -/
theorem active_event_reported (sgn : ℚ) (probes : List (Probe ℚ)) (i : Nat) (hi : i < probes.length)
    (hact : (probes[i]).active = true) :
    (i, probes[i]) ∈ (handle sgn probes).1 ∨
    ∃ y, y ∈ (handle sgn probes).1 ∧ y.2.terminal = true ∧ sgn * y.2.root ≤ sgn * (probes[i]).root :=
  handle_complete sgn probes i hi hact

/-- … for any number of simultaneously monitored events, non-terminal events never hide each other -/
theorem nonterminal_events_all_reported (sgn : ℚ) (probes : List (Probe ℚ)) (hnt : ∀ p ∈ probes, p.terminal = false)
    (i : Nat) (hi : i < probes.length) (hact : (probes[i]).active = true) : (i, probes[i]) ∈ (handle sgn probes).1 := by
  rcases handle_complete sgn probes i hi hact with h | ⟨y, hy, hyt, _⟩
  · exact h
  · have := (handle_sound sgn probes y hy).1
    have hm : y.2 ∈ probes := List.mem_of_getElem? this
    rw [hnt y.2 hm] at hyt
    exact absurd hyt (by simp)

private theorem bookAfter_inv (dupTol : ℚ) (steps : List (ℚ × ℚ × List (Nat × Probe ℚ))) : ∀ (b : Book ℚ) (n : Nat),
    DVP.Record.BookOK b → b.last.length = n → (∀ st ∈ steps, ∀ x ∈ st.2.2, x.1 < n) →
    DVP.Record.BookOK (bookAfter dupTol b steps) ∧ (bookAfter dupTol b steps).last.length = n ∧
      ∀ e ∈ b.events, e ∈ (bookAfter dupTol b steps).events := by
  induction steps with
  | nil => intro b n hb hn _; exact ⟨hb, hn, fun e he => he⟩
  | cons st rest ih =>
    intro b n hb hn hidx
    have hst : ∀ x ∈ st.2.2, x.1 < b.last.length := by
      intro x hx; rw [hn]; exact hidx st List.mem_cons_self x hx
    have h1 : DVP.Record.BookOK (record st.1 st.2.1 dupTol b st.2.2) := by
      rw [DVP.Record.record_eq_foldl]; exact DVP.Record.foldl_ok _ _ _ _ b hb hst
    have h2 : (record st.1 st.2.1 dupTol b st.2.2).last.length = n := by
      rw [DVP.Record.record_eq_foldl, ← hn]
      clear hst h1 hidx hb hn
      generalize st.2.2 = l
      induction l generalizing b with
      | nil => rfl
      | cons y ys ihl => simp only [List.foldl_cons]; rw [ihl, DVP.Record.recStep_length]
    obtain ⟨r1, r2, r3⟩ := ih (record st.1 st.2.1 dupTol b st.2.2) n h1 h2 (fun s hs => hidx s (List.mem_cons_of_mem _ hs))
    refine ⟨r1, r2, fun e he => r3 e ?_⟩
    rw [DVP.Record.record_eq_foldl]
    exact DVP.Record.foldl_mono _ _ _ _ b e he

/-- **No located crossing is lost by the book-keeping.**  Over any sequence of steps of one `integrate` call
monitoring `n` functions, every event that `handle_events` reported with its root inside its step has, at the
end, a recorded event of the same function at most `dupTol` away — a root is only ever dropped as the duplicate
of an event of ITS OWN function, never because another function was recorded at that instant. -/
theorem located_events_all_recorded (dupTol : ℚ) (hd : 0 ≤ dupTol) (n : Nat) (steps : List (ℚ × ℚ × List (Nat × Probe ℚ)))
    (hidx : ∀ st ∈ steps, ∀ x ∈ st.2.2, x.1 < n)
    (st : ℚ × ℚ × List (Nat × Probe ℚ)) (hst : st ∈ steps) (x : Nat × Probe ℚ) (hx : x ∈ st.2.2)
    (hin : min st.1 st.2.1 ≤ x.2.root ∧ x.2.root ≤ max st.1 st.2.1) :
    ∃ t, (x.1, t) ∈ (bookAfter dupTol (emptyBook n) steps).events ∧ |x.2.root - t| ≤ dupTol := by
  have h0 : DVP.Record.BookOK (emptyBook n) := by
    intro i tl h
    simp [emptyBook, List.getD_eq_getElem?_getD, List.getElem?_replicate] at h
    split at h <;> simp at h
  have hl0 : (emptyBook n).last.length = n := by simp [emptyBook]
  have hinside : DVP.Record.inside st.1 st.2.1 x.2.root = true := by
    unfold DVP.Record.inside
    by_cases hle : st.1 ≤ st.2.1
    · rw [if_pos hle]; rw [min_eq_left hle, max_eq_right hle] at hin; simp [hin.1, hin.2]
    · have hle' : st.2.1 ≤ st.1 := le_of_lt (not_le.mp hle)
      rw [if_neg hle]; rw [min_eq_right hle', max_eq_left hle'] at hin; simp [hin.1, hin.2]
  -- split the run at the step in question
  obtain ⟨pre, post, rfl⟩ := List.append_of_mem hst
  have hpre := bookAfter_inv dupTol pre (emptyBook n) n h0 hl0 (fun s hs => hidx s (List.mem_append_left _ hs))
  have hfold : bookAfter dupTol (emptyBook n) (pre ++ st :: post) =
      bookAfter dupTol (record st.1 st.2.1 dupTol (bookAfter dupTol (emptyBook n) pre) st.2.2) post := by
    simp [bookAfter, List.foldl_append]
  rw [hfold]
  set b1 := bookAfter dupTol (emptyBook n) pre with hb1
  have hidx_st : ∀ y ∈ st.2.2, y.1 < b1.last.length := by
    intro y hy; rw [hpre.2.1]; exact hidx st (List.mem_append_right _ List.mem_cons_self) y hy
  obtain ⟨t, ht, htd⟩ := DVP.Record.foldl_covers st.1 st.2.1 dupTol hd st.2.2 b1 hpre.1 hidx_st x hx hinside
  have hb2 : DVP.Record.BookOK (record st.1 st.2.1 dupTol b1 st.2.2) := by
    rw [DVP.Record.record_eq_foldl]; exact DVP.Record.foldl_ok _ _ _ _ b1 hpre.1 hidx_st
  have hl2 : (record st.1 st.2.1 dupTol b1 st.2.2).last.length = n := by
    have := (bookAfter_inv dupTol [st] b1 n hpre.1 hpre.2.1 (by
      intro s hs y hy
      rw [List.mem_singleton.mp hs] at hy
      exact hidx st (List.mem_append_right _ List.mem_cons_self) y hy)).2.1
    simpa [bookAfter] using this
  have hpost := bookAfter_inv dupTol post _ n hb2 hl2 (fun s hs => hidx s (List.mem_append_right _ (List.mem_cons_of_mem _ hs)))
  refine ⟨t, hpost.2.2 _ ?_, htd⟩
  rw [DVP.Record.record_eq_foldl]
  exact ht

/-- non-vacuity: two functions with the same roots in two consecutive steps — both are recorded both times -/
example :
    let p : ℚ → Probe ℚ := fun r => { root := r, success := true, gm := -1, gc := 0, gp := 1, fields := [], direction := 0, terminal := false }
    (bookAfter (1/1000) (emptyBook 2) [(0, 1, [(0, p (1/2)), (1, p (1/2))]), (1, 2, [(0, p (3/2)), (1, p (3/2))])]).events =
      [(0, 1/2), (1, 1/2), (0, 3/2), (1, 3/2)] := by decide +kernel

end DVP.C08
