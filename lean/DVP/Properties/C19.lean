import DV.Model.Lookup
import DVP.Lemmas.Bisect
import DVP.Lemmas.Brent
/-!
# C19 — trajectory lookup by index and by time returns the right sample

`DV.Lookup` mirrors `OdeSystem.__getitem__` and Python's iteration protocol; it is tied to the code by
`harness/p_c19.py` (every integer index in `[-len-2, len+2]`, numpy integers, query times inside and
outside the range, forward / backward / continued grids, whole-run slices, iteration, dense lookup).
The dense-output branch delegates to the dense solution (C06).
-/
namespace DVP.C19
open DV DV.Lookup DVP.Brent

/-- **Integer indices address the samples like a sequence**: `0 ≤ i < n` is sample `i`, `-n ≤ i < 0` is
sample `n + i` (from the end), everything else is `IndexError` -/
theorem int_index_like_sequence (n : Nat) (i : Int) :
    intIndex n i = if 0 ≤ i ∧ i < n then some i.toNat else if i < 0 ∧ -(n : Int) ≤ i then some ((n : Int) + i).toNat else none := by
  unfold intIndex
  split_ifs <;> first | rfl | omega

private theorem iterFrom_spec (n : Nat) : ∀ (fuel k : Nat), k ≤ n → n - k < fuel → iterFrom n k fuel = List.range' k (n - k) := by
  intro fuel
  induction fuel with
  | zero => intro k _ h; omega
  | succ f ih =>
    intro k hk hf
    unfold iterFrom
    rw [int_index_like_sequence]
    by_cases hkn : k < n
    · have : (0 : Int) ≤ Int.ofNat k ∧ Int.ofNat k < n := ⟨by simp, by simp; omega⟩
      rw [if_pos this]
      simp only [Int.ofNat_eq_natCast, Int.toNat_natCast]
      rw [ih (k + 1) (by omega) (by omega)]
      have : n - k = (n - (k + 1)) + 1 := by omega
      rw [this, List.range'_succ]
    · have hkeq : k = n := by omega
      subst hkeq
      have h1 : ¬ ((0 : Int) ≤ Int.ofNat k ∧ Int.ofNat k < k) := by simp
      have h2 : ¬ (Int.ofNat k < 0 ∧ -(k : Int) ≤ Int.ofNat k) := by simp
      rw [if_neg h1, if_neg h2]
      simp

/-- **Iteration yields each recorded sample once, in order** -/
theorem iteration_in_order (n fuel : Nat) (hf : n < fuel) : iterate n fuel = List.range n := by
  unfold iterate
  rw [iterFrom_spec n fuel 0 (Nat.zero_le _) (by omega), List.range_eq_range']
  simp

private theorem getD_app_left (l r : List ℚ) (i : Nat) (h : i < l.length) : (l ++ r).getD i 0 = l.getD i 0 := by
  simp [List.getD_eq_getElem?_getD, List.getElem?_append_left h]

private theorem getD_app_last (l : List ℚ) (t : ℚ) : (l ++ [t]).getD l.length 0 = t := by
  simp [List.getD_eq_getElem?_getD]

/-- the fold of `nearest`, with `|·|` for `absC` -/
private def step (q : ℚ) (acc : Nat × ℚ × Nat) (t : ℚ) : Nat × ℚ × Nat :=
  if |t - q| < acc.2.1 then (acc.2.2, |t - q|, acc.2.2 + 1) else (acc.1, acc.2.1, acc.2.2 + 1)

private theorem nearest_fold (q : ℚ) : ∀ (rest : List ℚ) (pre : List ℚ) (best : Nat) (bd : ℚ),
    best < pre.length → bd = |pre.getD best 0 - q| → (∀ j, j < pre.length → bd ≤ |pre.getD j 0 - q|) →
    (rest.foldl (step q) (best, bd, pre.length)).1 < (pre ++ rest).length ∧
      ∀ j, j < (pre ++ rest).length →
        |(pre ++ rest).getD (rest.foldl (step q) (best, bd, pre.length)).1 0 - q| ≤ |(pre ++ rest).getD j 0 - q| := by
  intro rest
  induction rest with
  | nil =>
    intro pre best bd hb hbd hmin
    simp only [List.foldl_nil, List.append_nil]
    exact ⟨hb, fun j hj => by rw [← hbd]; exact hmin j hj⟩
  | cons t r ih =>
    intro pre best bd hb hbd hmin
    have hlen : (pre ++ [t]).length = pre.length + 1 := by simp
    have happ : pre ++ t :: r = (pre ++ [t]) ++ r := by simp
    simp only [List.foldl_cons]
    rw [happ]
    unfold step
    simp only
    by_cases hlt : |t - q| < bd
    · rw [if_pos hlt]
      have := ih (pre ++ [t]) pre.length |t - q| (by simp) (by rw [getD_app_last]) (by
        intro j hj
        rw [hlen] at hj
        rcases Nat.lt_or_ge j pre.length with h | h
        · rw [getD_app_left _ _ _ h]; exact le_trans (le_of_lt hlt) (hmin j h)
        · have : j = pre.length := by omega
          subst this; rw [getD_app_last])
      rw [hlen] at this
      exact this
    · rw [if_neg hlt]
      have := ih (pre ++ [t]) best bd (by simp; omega) (by rw [getD_app_left _ _ _ hb]; exact hbd) (by
        intro j hj
        rw [hlen] at hj
        rcases Nat.lt_or_ge j pre.length with h | h
        · rw [getD_app_left _ _ _ h]; exact hmin j h
        · have : j = pre.length := by omega
          subst this; rw [getD_app_last]; exact not_lt.mp hlt)
      rw [hlen] at this
      exact this

private theorem nearest_eq_fold (t0 : ℚ) (rest : List ℚ) (q : ℚ) :
    nearest (t0 :: rest) q = (rest.foldl (step q) (0, |t0 - q|, 1)).1 := by
  unfold nearest
  simp only [absC_rat]
  rfl

/-- **Lookup by time without dense output returns the recorded sample nearest in time** — for any
recorded grid (forward, backward, continued, non-uniform): the returned index minimises `|t_i − q|` -/
theorem nearest_sample (ts : List ℚ) (q : ℚ) (hne : ts ≠ []) :
    nearest ts q < ts.length ∧ ∀ j, j < ts.length → |ts.getD (nearest ts q) 0 - q| ≤ |ts.getD j 0 - q| := by
  cases ts with
  | nil => exact absurd rfl hne
  | cons t0 rest =>
    rw [nearest_eq_fold]
    have := nearest_fold q rest [t0] 0 |t0 - q| (by simp) (by simp) (by
      intro j hj
      have : j = 0 := by simpa using hj
      subst this; simp)
    simpa using this

/-- non-vacuity and the old defect: on the grid 0, 1/4, 1/2, … the query 3/10 is answered by the
sample at 1/4 (not 1/2), also on the reversed grid -/
example : nearest [0, 1/4, 1/2, 3/4, (1:ℚ)] (3/10) = 1 ∧ nearest [1, 3/4, 1/2, 1/4, (0:ℚ)] (3/10) = 3 ∧
    intIndex 5 (-1) = some 4 ∧ intIndex 5 5 = none ∧ intIndex 5 (-6) = none ∧ iterate 5 20 = [0, 1, 2, 3, 4] := by
  decide +kernel

end DVP.C19
