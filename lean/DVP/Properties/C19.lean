import DV.Model.Lookup
import DVP.Lemmas.Bisect
import DVP.Lemmas.Brent
/-!
# C19 — trajectory lookup by index and by time returns the right sample

`DV.Lookup` mirrors `OdeSystem.__getitem__` and Python's iteration protocol; it is tied to the code by
`harness/p_c19.py` (every integer index in `[-len-2, len+2]`, numpy integers, query times inside and
outside the range, forward / backward / continued / against-span grids, time slices, iteration, dense lookup).
The dense-output branch delegates to the dense solution (C06).
-/
namespace DVP.C19
open DV DV.Lookup DVP.Brent

/-- **Integer indices address the samples like a sequence**: `0 ≤ i < n` is sample `i`, `-n ≤ i < 0` is
sample `n + i` (from the end), everything else is `IndexError` -/
theorem int_index_like_sequence (n : Nat) (i : Int) :
    intIndex n i = if 0 ≤ i ∧ i < n then some i.toNat else if i < 0 ∧ -(n : Int) ≤ i then some ((n : Int) + i).toNat else none := by
  unfold intIndex
  split_ifs <;> first | rfl | omega

private theorem iterFrom_spec (n : Nat) : ∀ (fuel k : Nat), k ≤ n → n - k < fuel → iterFrom n k fuel = List.range' k (n - k) := by
  intro fuel
  induction fuel with
  | zero => intro k _ h; omega
  | succ f ih =>
    intro k hk hf
    unfold iterFrom
    rw [int_index_like_sequence]
    by_cases hkn : k < n
    · have : (0 : Int) ≤ Int.ofNat k ∧ Int.ofNat k < n := ⟨by simp, by simp; omega⟩
      rw [if_pos this]
      simp only [Int.ofNat_eq_natCast, Int.toNat_natCast]
      rw [ih (k + 1) (by omega) (by omega)]
      have : n - k = (n - (k + 1)) + 1 := by omega
      rw [this, List.range'_succ]
    · have hkeq : k = n := by omega
      subst hkeq
      have h1 : ¬ ((0 : Int) ≤ Int.ofNat k ∧ Int.ofNat k < k) := by simp
      have h2 : ¬ (Int.ofNat k < 0 ∧ -(k : Int) ≤ Int.ofNat k) := by simp
      rw [if_neg h1, if_neg h2]
      simp

/-- **Iteration yields each recorded sample once, in order** -/
theorem iteration_in_order (n fuel : Nat) (hf : n < fuel) : iterate n fuel = List.range n := by
  unfold iterate
  rw [iterFrom_spec n fuel 0 (Nat.zero_le _) (by omega), List.range_eq_range']
  simp

private theorem getD_app_left (l r : List ℚ) (i : Nat) (h : i < l.length) : (l ++ r).getD i 0 = l.getD i 0 := by
  simp [List.getD_eq_getElem?_getD, List.getElem?_append_left h]

private theorem getD_app_last (l : List ℚ) (t : ℚ) : (l ++ [t]).getD l.length 0 = t := by
  simp [List.getD_eq_getElem?_getD]

/-- the fold of `nearest`, with `|·|` for `absC` -/
private def step (q : ℚ) (acc : Nat × ℚ × Nat) (t : ℚ) : Nat × ℚ × Nat :=
  if |t - q| < acc.2.1 then (acc.2.2, |t - q|, acc.2.2 + 1) else (acc.1, acc.2.1, acc.2.2 + 1)

private theorem nearest_fold (q : ℚ) : ∀ (rest : List ℚ) (pre : List ℚ) (best : Nat) (bd : ℚ),
    best < pre.length → bd = |pre.getD best 0 - q| → (∀ j, j < pre.length → bd ≤ |pre.getD j 0 - q|) →
    (rest.foldl (step q) (best, bd, pre.length)).1 < (pre ++ rest).length ∧
      ∀ j, j < (pre ++ rest).length →
        |(pre ++ rest).getD (rest.foldl (step q) (best, bd, pre.length)).1 0 - q| ≤ |(pre ++ rest).getD j 0 - q| := by
  intro rest
  induction rest with
  | nil =>
    intro pre best bd hb hbd hmin
    simp only [List.foldl_nil, List.append_nil]
    exact ⟨hb, fun j hj => by rw [← hbd]; exact hmin j hj⟩
  | cons t r ih =>
    intro pre best bd hb hbd hmin
    have hlen : (pre ++ [t]).length = pre.length + 1 := by simp
    have happ : pre ++ t :: r = (pre ++ [t]) ++ r := by simp
    simp only [List.foldl_cons]
    rw [happ]
    unfold step
    simp only
    by_cases hlt : |t - q| < bd
    · rw [if_pos hlt]
      have := ih (pre ++ [t]) pre.length |t - q| (by simp) (by rw [getD_app_last]) (by
        intro j hj
        rw [hlen] at hj
        rcases Nat.lt_or_ge j pre.length with h | h
        · rw [getD_app_left _ _ _ h]; exact le_trans (le_of_lt hlt) (hmin j h)
        · have : j = pre.length := by omega
          subst this; rw [getD_app_last])
      rw [hlen] at this
      exact this
    · rw [if_neg hlt]
      have := ih (pre ++ [t]) best bd (by simp; omega) (by rw [getD_app_left _ _ _ hb]; exact hbd) (by
        intro j hj
        rw [hlen] at hj
        rcases Nat.lt_or_ge j pre.length with h | h
        · rw [getD_app_left _ _ _ h]; exact hmin j h
        · have : j = pre.length := by omega
          subst this; rw [getD_app_last]; exact not_lt.mp hlt)
      rw [hlen] at this
      exact this

private theorem nearest_eq_fold (t0 : ℚ) (rest : List ℚ) (q : ℚ) :
    nearest (t0 :: rest) q = (rest.foldl (step q) (0, |t0 - q|, 1)).1 := by
  unfold nearest
  simp only [absC_rat]
  rfl

/-- **Lookup by time without dense output returns the recorded sample nearest in time** — for any
recorded grid (forward, backward, continued, non-uniform): the returned index minimises `|t_i − q|` -/
theorem nearest_sample (ts : List ℚ) (q : ℚ) (hne : ts ≠ []) :
    nearest ts q < ts.length ∧ ∀ j, j < ts.length → |ts.getD (nearest ts q) 0 - q| ≤ |ts.getD j 0 - q| := by
  cases ts with
  | nil => exact absurd rfl hne
  | cons t0 rest =>
    rw [nearest_eq_fold]
    have := nearest_fold q rest [t0] 0 |t0 - q| (by simp) (by simp) (by
      intro j hj
      have : j = 0 := by simpa using hj
      subst this; simp)
    simpa using this

/-- non-vacuity and the old defect: on the grid 0, 1/4, 1/2, … the query 3/10 is answered by the
sample at 1/4 (not 1/2), also on the reversed grid -/
example : nearest [0, 1/4, 1/2, 3/4, (1:ℚ)] (3/10) = 1 ∧ nearest [1, 3/4, 1/2, 1/4, (0:ℚ)] (3/10) = 3 ∧
    intIndex 5 (-1) = some 4 ∧ intIndex 5 5 = none ∧ intIndex 5 (-6) = none ∧ iterate 5 20 = [0, 1, 2, 3, 4] := by
  decide +kernel

/-! ## time slices -/

private theorem getElem!_map_sg (ts : Array ℚ) (neg : Bool) (i : Nat) :
    (ts.map (fun x => if neg = true then -x else x))[i]! = (if neg = true then -(ts[i]!) else ts[i]!) := by
  by_cases h : i < ts.size
  · simp [h]
  · have h' : ts.size ≤ i := Nat.le_of_not_lt h
    have hd : (default : ℚ) = 0 := rfl
    cases neg <;> simp [h', hd]

/-- the grid as the bisection sees it: negated when the run went backward -/
private def seen (ts : Array ℚ) (neg : Bool) : Nat → ℚ := fun i => if neg = true then -(ts[i]!) else ts[i]!

private theorem slice_unfold (ts : Array ℚ) (start stop : Option ℚ) :
    sliceRange ts start stop =
      (let neg := decide (1 < ts.size) && decide (ts[ts.size - 1]! < ts[0]!)
       ((match start with
          | some v => DV.Bisect.searchS (seen ts neg) ts.size (if neg = true then -v else v)
          | none => 0),
        (match stop with
          | some v => DV.Bisect.searchS (seen ts neg) ts.size (if neg = true then -v else v) + 1
          | none => ts.size))) := by
  unfold sliceRange DV.Bisect.searchSArr seen
  simp only [Array.size_map]
  have hf : ∀ neg : Bool, (fun i : Nat => ((ts.map (fun x => if neg = true then -x else x))[i]! : ℚ)) =
      (fun i : Nat => if neg = true then -(ts[i]!) else ts[i]!) := fun neg => funext (getElem!_map_sg ts neg)
  cases start <;> cases stop <;> simp only [hf]

/-- the window argument on the grid as the bisection sees it -/
private theorem window_core (f : Nat → ℚ) (n : Nat) (hn : 0 < n) (hinc : DVP.Bisect.StrictIncr f n) (i : Nat) (hi : i < n) :
    (∀ a, a ≤ f i → DV.Bisect.searchS f n a ≤ i) ∧
    (∀ b, f i ≤ b → i < DV.Bisect.searchS f n b + 1 ∧ DV.Bisect.searchS f n b + 1 ≤ n) := by
  refine ⟨fun a h1 => ?_, fun b h2 => ?_⟩
  · obtain ⟨_, s2, _⟩ := DVP.Bisect.searchS_spec f n hn hinc a
    by_contra hc
    exact absurd h1 (not_le.mpr (s2 i (by omega)))
  · obtain ⟨e1, _, e3⟩ := DVP.Bisect.searchS_spec f n hn hinc b
    refine ⟨?_, by omega⟩
    by_contra hc
    have hri : DV.Bisect.searchS f n b < i := by omega
    rcases e3 with h | h
    · exact absurd (lt_of_lt_of_le (hinc _ i hri hi) h2) (not_lt.mpr h)
    · omega

/-- a sample lies in the window `[start, stop]` of a slice (an open end does not restrict), for a run
in direction `fwd` -/
def InWindow (fwd : Bool) (start stop : Option ℚ) (t : ℚ) : Prop :=
  (∀ v, start = some v → if fwd then v ≤ t else t ≤ v) ∧ (∀ v, stop = some v → if fwd then t ≤ v else v ≤ t)

private theorem slice_core (ts : Array ℚ) (neg : Bool) (hn : 0 < ts.size)
    (hneg : (decide (1 < ts.size) && decide (ts[ts.size - 1]! < ts[0]!)) = neg)
    (hinc : DVP.Bisect.StrictIncr (seen ts neg) ts.size)
    (start stop : Option ℚ) (i : Nat) (hi : i < ts.size) (hw : InWindow (!neg) start stop (ts[i]!)) :
    (sliceRange ts start stop).1 ≤ i ∧ i < (sliceRange ts start stop).2 ∧ (sliceRange ts start stop).2 ≤ ts.size := by
  rw [slice_unfold]
  simp only [hneg]
  obtain ⟨c1, c2⟩ := window_core (seen ts neg) ts.size hn hinc i hi
  obtain ⟨w1, w2⟩ := hw
  refine ⟨?_, ?_⟩
  · cases start with
    | none => exact Nat.zero_le _
    | some v =>
      apply c1
      have := w1 v rfl
      cases neg <;> simp [seen] at this ⊢ <;> exact this
  · cases stop with
    | none => exact ⟨hi, Nat.le_refl _⟩
    | some v =>
      apply c2
      have := w2 v rfl
      cases neg <;> simp [seen] at this ⊢ <;> exact this

/-- **Time slices on a forward grid**: for every strictly increasing recorded grid, every window
`[start, stop]` (either end may be open) and every sample inside the window, the slice
`a[start:stop]` contains that sample and stays within the recorded samples -/
theorem slice_covers_window_forward (ts : Array ℚ) (hn : 0 < ts.size)
    (hinc : DVP.Bisect.StrictIncr (fun i => ts[i]!) ts.size) (start stop : Option ℚ) (i : Nat) (hi : i < ts.size)
    (hw : InWindow true start stop (ts[i]!)) :
    (sliceRange ts start stop).1 ≤ i ∧ i < (sliceRange ts start stop).2 ∧ (sliceRange ts start stop).2 ≤ ts.size := by
  have hneg : (decide (1 < ts.size) && decide (ts[ts.size - 1]! < ts[0]!)) = false := by
    by_cases h1n : 1 < ts.size
    · have := hinc 0 (ts.size - 1) (by omega) (by omega)
      simp only [Bool.and_eq_false_imp, decide_eq_true_eq, decide_eq_false_iff_not, not_lt]
      intro _; exact le_of_lt this
    · simp [h1n]
  have hs : seen ts false = fun i => ts[i]! := by funext i; simp [seen]
  exact slice_core ts false hn hneg (by rw [hs]; exact hinc) start stop i hi (by simpa using hw)

/-- **Time slices on a backward grid** (strictly decreasing recorded times, at least two samples):
the window is `[stop, start]` in time and the slice again contains every sample inside it -/
theorem slice_covers_window_backward (ts : Array ℚ) (hn : 1 < ts.size)
    (hdec : DVP.Bisect.StrictIncr (fun i => -(ts[i]!)) ts.size) (start stop : Option ℚ) (i : Nat) (hi : i < ts.size)
    (hw : InWindow false start stop (ts[i]!)) :
    (sliceRange ts start stop).1 ≤ i ∧ i < (sliceRange ts start stop).2 ∧ (sliceRange ts start stop).2 ≤ ts.size := by
  have hneg : (decide (1 < ts.size) && decide (ts[ts.size - 1]! < ts[0]!)) = true := by
    have := hdec 0 (ts.size - 1) (by omega) (by omega)
    simp only [Bool.and_eq_true, decide_eq_true_eq]
    exact ⟨hn, by simpa using this⟩
  have hs : seen ts true = fun i => -(ts[i]!) := by funext i; simp [seen]
  exact slice_core ts true (by omega) hneg (by rw [hs]; exact hdec) start stop i hi (by simpa using hw)

/-- **A slice spanning the whole run returns the whole run**, forward and backward -/
theorem whole_run_slice (ts : Array ℚ) (hn : 1 < ts.size)
    (hmono : DVP.Bisect.StrictIncr (fun i => ts[i]!) ts.size ∨ DVP.Bisect.StrictIncr (fun i => -(ts[i]!)) ts.size) :
    sliceRange ts (some ts[0]!) (some ts[ts.size - 1]!) = (0, ts.size) := by
  have key : ∀ i, i < ts.size →
      (sliceRange ts (some ts[0]!) (some ts[ts.size - 1]!)).1 ≤ i ∧ i < (sliceRange ts (some ts[0]!) (some ts[ts.size - 1]!)).2 ∧
      (sliceRange ts (some ts[0]!) (some ts[ts.size - 1]!)).2 ≤ ts.size := by
    intro i hi
    rcases hmono with hinc | hdec
    · apply slice_covers_window_forward ts (by omega) hinc _ _ i hi
      refine ⟨fun v hv => ?_, fun v hv => ?_⟩
      · cases hv; simpa using DVP.Bisect.StrictIncr.le hinc (Nat.zero_le i) hi
      · cases hv; simpa using DVP.Bisect.StrictIncr.le hinc (show i ≤ ts.size - 1 by omega) (by omega)
    · apply slice_covers_window_backward ts hn hdec _ _ i hi
      refine ⟨fun v hv => ?_, fun v hv => ?_⟩
      · cases hv
        have := DVP.Bisect.StrictIncr.le hdec (Nat.zero_le i) hi
        simpa using this
      · cases hv
        have := DVP.Bisect.StrictIncr.le hdec (show i ≤ ts.size - 1 by omega) (by omega)
        simpa using this
  have h0 := key 0 (by omega)
  have hl := key (ts.size - 1) (by omega)
  apply Prod.ext
  · simp only; omega
  · simp only; omega

/-- non-vacuity: a backward grid and a forward grid meet the hypotheses; interior windows -/
example : sliceRange #[(1:ℚ), 3/4, 1/2, 1/4, 0] (some 1) (some 0) = (0, 5) ∧
    sliceRange #[(0:ℚ), 1/4, 1/2, 3/4, 1] (some (1/4)) (some (3/4)) = (1, 4) ∧
    sliceRange #[(1:ℚ), 3/4, 1/2, 1/4, 0] (some (3/4)) (some (1/4)) = (1, 4) ∧
    sliceRange #[(0:ℚ), 1/4, 1/2, 3/4, 1] none (some (1/2)) = (0, 3) := by decide +kernel

end DVP.C19
