import DV.Model.Facade
import DVP.Lemmas.LoopBound
import DVP.Properties.C03
import DVP.Lemmas.Run
/-!
# C18 — the `solve_ivp` facade honours its arguments and agrees with the object API

`solve_ivp` is glue around one `OdeSystem`: `DV.Facade` mirrors the argument handling (binding of
`args`, clipping of `first_step`, the step-clipping callback, sorting / range check / visiting order
of `t_eval`), the rest is the object API whose loop is `DV.Loop` (C03).  Tied to the code by
`harness/p_c18.py`: the facade vs driving the object API by hand with the same settings, bit for
bit; shapes; `max_step`; scipy at tolerance level (measurement).
-/
namespace DVP.C18
open DV DV.Facade DV.Loop DVP.Loop DVP.Brent

/-- **`args` are bound to the right-hand side's parameters in order**: the `i`-th argument goes to
the `(i+2)`-th parameter name (after `t`, `y`) -/
theorem args_bound_in_order {β : Type} (params : List String) (args : List β) (i : Nat)
    (hi : i < args.length) (hp : i + 2 < params.length) :
    (bindArgs params args)[i]? = some (params[i + 2]'hp, args[i]'hi) := by
  unfold bindArgs
  rw [List.getElem?_zip_eq_some]
  constructor
  · rw [List.getElem?_drop]
    rw [List.getElem?_eq_getElem (by omega)]
    congr 1
    congr 1
    omega
  · exact List.getElem?_eq_getElem hi

theorem clip_abs_le (x lo hi : ℚ) (h : lo ≤ hi) : clip x lo hi ≤ hi ∧ lo ≤ clip x lo hi := by
  unfold clip minC maxC
  constructor <;> split <;> split <;> linarith

/-- the step-clipping callback returns a step of magnitude within `[min_step, max_step]` with the
sign of the current step — also for negative (backward) steps -/
theorem clipStep_bounds (dt lo hi : ℚ) (hlo : 0 ≤ lo) (h : lo ≤ hi) (hdt : dt ≠ 0) :
    |clipStep dt lo hi| ≤ hi ∧ lo ≤ |clipStep dt lo hi| ∧ 0 ≤ clipStep dt lo hi * dt := by
  have hc := clip_abs_le (absC dt) lo hi h
  have hm : 0 ≤ clip (absC dt) lo hi := le_trans hlo hc.2
  unfold clipStep
  simp only [lit_rat, Nat.cast_zero]
  rcases lt_or_gt_of_ne hdt with hneg | hpos
  · rw [if_pos hneg, abs_neg, abs_of_nonneg hm]
    exact ⟨hc.1, hc.2, by nlinarith⟩
  · rw [if_neg (not_lt.mpr (le_of_lt hpos)), if_pos hpos, abs_of_nonneg hm]
    exact ⟨hc.1, hc.2, by nlinarith⟩

/-- the initial step handed to the system is at most `max_step` (when `min_step ≤ max_step`) -/
theorem initialDt_le_max (first maxS minS : ℚ) (h : minS ≤ maxS) : Facade.initialDt first maxS minS ≤ maxS := by
  unfold Facade.initialDt minC maxC
  split <;> split <;> linarith

/-- **No requested (hence no recorded) step is longer than `max_step`**: with the clipping callback
running after every step and a starting step within the bound, every step requested from the
integrator is at most `max_step` in magnitude — any integrator, any span, either direction -/
theorem max_step_respected (cfg : Cfg ℚ) (target M : ℚ) (orc : Oracle ℚ) (hcb : CbBounded M orc)
    (fuel : Nat) (s : Sys ℚ) (hdt : |s.dt| ≤ M) :
    ∀ r ∈ (loop cfg target orc fuel 0 s []).reqs, |r.h| ≤ M :=
  loop_requests_bounded cfg target M orc hcb fuel 0 s [] hdt (fun _ h => absurd h (List.not_mem_nil))

/-- the requested times are visited in the direction of integration, so the C03 theorem about
sequences of `integrate(t)` calls applies: the time recorded after each call is within
`max eps tolEps` of the requested one, the samples in between move monotonically -/
theorem visit_order_direction (sorted : List ℚ) (t0 tf : ℚ) :
    visitOrder sorted t0 tf = if tf < t0 then sorted.reverse else sorted := rfl

theorem t_eval_calls_cover_spans (cfg : Cfg ℚ) (heps : 0 < cfg.eps) (htol : 0 < cfg.tolEps) (hhalf : 0 < cfg.half)
    (calls : List DVP.C03.Call) (s : Sys ℚ) (hdt : s.dt ≠ 0)
    (h : ∀ c ∈ calls, OracleOK c.orc ∧ CbsNonzero c.orc ∧ NoCbAssign c.orc) : DVP.C03.GridOK cfg s calls :=
  DVP.C03.call_sequence_covers_spans cfg heps htol hhalf calls s hdt h

/-- **With `t_eval` the facade agrees with driving the object API**: the per-time loop of `solve_ivp` (`DV.Run.tevalLoop`: for
each requested time `integrate(t)`, then take `ode_system[-1]`) leaves exactly the system that the same sequence of `integrate(t)`
calls leaves (whole-run model `DV.Run`, fixed-step methods, states included) -/
theorem t_eval_loop_is_the_object_api {V : Type} (cfg : Cfg ℚ) (add : V → V → V) (inc : ℚ → V → ℚ → V) (fuel : Nat)
    (s : DV.Run.SysY ℚ V) (times : List ℚ) :
    (DV.Run.tevalLoop cfg add inc fuel s times).1 = DV.Run.calls cfg add inc fuel s times :=
  DVP.Run.tevalLoop_sys cfg add inc fuel times s

/-- **Times and states returned for `t_eval` pair up**: one column per requested time, and every returned column `(t, y)` is a
recorded sample of the underlying system - the state that belongs to that time - whatever the span, the direction and the number
of steps between the requested times -/
theorem t_eval_columns_are_recorded_samples {V : Type} (cfg : Cfg ℚ) (add : V → V → V) (inc : ℚ → V → ℚ → V) (fuel : Nat)
    (t0 tf dt : ℚ) (y0 : V) (sortedTEval : List ℚ) :
    let r := DV.Run.solveIvpTEval cfg add inc fuel t0 tf dt y0 sortedTEval
    r.2.length = sortedTEval.length ∧ ∀ c ∈ r.2, c ∈ DVP.Run.samples r.1 := by
  have h0 : DVP.Run.StepsOK add inc (DV.Run.construct t0 tf dt y0).sys.ts (DV.Run.construct t0 tf dt y0).ys := by
    unfold DV.Run.construct DV.Loop.construct
    split <;> simp [DVP.Run.StepsOK]
  have := DVP.Run.tevalLoop_columns cfg add inc fuel (visitOrder sortedTEval t0 tf) _ h0
  refine ⟨?_, this.2⟩
  unfold DV.Run.solveIvpTEval
  rw [this.1, visit_order_direction]
  split <;> simp

/-- non-vacuity: Euler on `y' = y` backward over `(1, 0)`, `t_eval = [1/4, 3/4]` visited as `3/4, 1/4` -/
example : (DV.Run.solveIvpTEval (α := ℚ) (V := ℚ) { eps := 1/2^50, tolEps := 1/2^47, half := 1/2 } (· + ·) (fun _ y h => y * h) 20
    1 0 (1/4) 1 [1/4, 3/4]).2 = [(3/4, 3/4), (1/4, 27/64)] := by decide +kernel

example : bindArgs ["t", "y", "a", "b", "c"] [1, 2, 3] = [("a", 1), ("b", 2), ("c", 3)] ∧
    clipStep (-3/10 : ℚ) (1/100) (1/10) = -1/10 ∧ Facade.initialDt (1 : ℚ) (1/10) 0 = 1/10 ∧
    visitOrder [(1/5 : ℚ), 1/2, 4/5] 1 0 = [4/5, 1/2, 1/5] ∧ tEvalInRange [(1/5 : ℚ), 1/2, 4/5] 1 0 = true := by
  decide +kernel

end DVP.C18
