import DVP.Lemmas.Brent
import DVP.Lemmas.Consts
/-!
# C14 — bracketing root finders return certified roots

`DV.Brent.brentsroot` / `DV.Brent.lane` are hand-written mirrors of `brentsroot` and of one lane of
`brentsrootvec`; they are tied to the code by bit-exact replay of the implementation's iterate
sequences (`harness/p_c14.py`).  The theorems are over `ℚ` and hold for **every** function `f`
(continuous or not), every bracket in either order, every tolerance.

The property's completeness clause — "a sign change ⇒ success, whatever the steepness" — was false of
the code at first (success was the absolute test `|f(b)| ≤ tol` only: finding P14, negation witness
`DVP.Findings.C14.jump_success_after_fix` shows the same input after the repair); since the repair in `/repo` (success also when the
final bracket holds a sign change and is narrower than `xtol = max(tol, 4·eps·max(|lo|,|hi|))`, the
tolerance all width tests now use — an absolute `tol = eps` is below the spacing of the floats for
`|t| ≥ 2`, which made the bracket test unsatisfiable) it is proved here
(`sign_change_success`), up to the iteration cap (finding P14b: `c` is never advanced, so on some
inputs 64 evaluations do not shrink the bracket below `tol`).  Also proved: the point is in the
bracket, the sign change stays bracketed, on regular exit the bracket is narrower than `tol`, success
is sound (a zero to within `tol`, or a sign change within `tol` of the returned point), and a rejected
bracket never claims success.
-/
namespace DVP.C14
open DV DV.Brent DVP.Brent

/-- **The returned point lies inside the bracket** (either order), whenever the bracket is accepted. -/
theorem root_in_bracket (f : ℚ → ℚ) (lo hi tol eps inf : ℚ) (maxIter : Nat)
    (hacc : ¬ (eps ≤ f lo * f hi)) :
    InHull lo hi (brentsroot f lo hi tol eps inf maxIter).root := by
  unfold brentsroot
  rw [if_neg hacc]
  exact (run_invH f lo hi _ maxIter).hb

/-- a bracket that is not accepted (`f lo * f hi ≥ eps`: no sign change, no zero at an end) never
claims success -/
theorem rejected_no_success (f : ℚ → ℚ) (lo hi tol eps inf : ℚ) (maxIter : Nat)
    (hrej : eps ≤ f lo * f hi) :
    (brentsroot f lo hi tol eps inf maxIter).success = false ∧
      (brentsroot f lo hi tol eps inf maxIter).bracket = none := by
  unfold brentsroot
  rw [if_pos hrej]
  exact ⟨rfl, rfl⟩

/-- **Success is sound**: if success is reported, the function is zero at the returned point to
within the tolerance used (`max tol eps`), or it changes sign between the returned point and a point
of the bracket closer than that tolerance — for every function, whatever its scale. -/
theorem success_sound (f : ℚ → ℚ) (lo hi tol eps inf : ℚ) (maxIter : Nat)
    (hs : (brentsroot f lo hi tol eps inf maxIter).success = true) :
    let x := (brentsroot f lo hi tol eps inf maxIter).root
    |f x| ≤ tolUsed tol eps ∨ ∃ a, InHull lo hi a ∧ f a * f x ≤ 0 ∧ |x - a| < xtolUsed tol eps lo hi := by
  unfold brentsroot at hs ⊢
  split at hs
  · exact absurd hs (by simp)
  · rename_i hacc
    rw [if_neg hacc]
    have hinv := run_invH f lo hi (xtolUsed tol eps lo hi) maxIter
    simp only [Bool.or_eq_true, Bool.and_eq_true, decide_eq_true_eq, absC_rat, lit'_rat, Nat.cast_zero] at hs ⊢
    rcases hs with h | ⟨h1, h2⟩
    · exact Or.inl h
    · refine Or.inr ⟨_, hinv.ha, ?_, h2⟩
      rw [← hinv.hfa, ← hinv.hfb]; exact h1

/-- **A bracketed sign change stays bracketed**: if `f lo * f hi ≤ 0` the final interval `(a, b)`
is inside the original bracket, `f a * f b ≤ 0`, `|f b| ≤ |f a|`, and the returned point is `b`. -/
theorem sign_change_kept (f : ℚ → ℚ) (lo hi tol eps inf : ℚ) (maxIter : Nat) (heps : 0 < eps)
    (hsc : f lo * f hi ≤ 0) :
    ∃ a b, (brentsroot f lo hi tol eps inf maxIter).bracket = some (a, b) ∧
      (brentsroot f lo hi tol eps inf maxIter).root = b ∧
      InHull lo hi a ∧ InHull lo hi b ∧ f a * f b ≤ 0 ∧ |f b| ≤ |f a| := by
  have hacc : ¬ (eps ≤ f lo * f hi) := by intro h; linarith
  have hinv := run_inv f lo hi (xtolUsed tol eps lo hi) maxIter hsc
  unfold brentsroot
  rw [if_neg hacc]
  refine ⟨_, _, rfl, rfl, hinv.ha, hinv.hb, ?_, ?_⟩
  · rw [← hinv.hfa, ← hinv.hfb]; exact hinv.hsign
  · rw [← hinv.hfa, ← hinv.hfb]; exact hinv.hord

/-- **Exit condition**: when the bracket is accepted, on return either an exact zero was hit
(`f root = 0`, or the last evaluated point — which lies in the bracket — is a zero), or the final
bracket is narrower than the tolerance used, or the iteration cap was reached. -/
theorem exit_condition (f : ℚ → ℚ) (lo hi tol eps inf : ℚ) (maxIter : Nat) (h3 : 3 ≤ maxIter)
    (hacc : ¬ (eps ≤ f lo * f hi)) :
    ∃ a b, (brentsroot f lo hi tol eps inf maxIter).bracket = some (a, b) ∧
      (brentsroot f lo hi tol eps inf maxIter).root = b ∧
      (f b = 0 ∨ (∃ s, InHull lo hi s ∧ f s = 0) ∨ |b - a| < xtolUsed tol eps lo hi ∨
        maxIter ≤ (brentsroot f lo hi tol eps inf maxIter).iters) := by
  have hinv := run_invH f lo hi (xtolUsed tol eps lo hi) maxIter
  have hex := run_exit f lo hi (xtolUsed tol eps lo hi) maxIter h3
  simp only at hex
  unfold brentsroot
  rw [if_neg hacc]
  refine ⟨_, _, rfl, rfl, ?_⟩
  rcases hex with h | h | h | h
  · left; rw [← hinv.hfb]; exact h
  · right; left; exact ⟨_, hinv.hs, by rw [← hinv.hfs]; exact h⟩
  · right; right; left; exact h
  · right; right; right; exact h

/-- **Certified root**: if the function changes sign over the bracket (or vanishes at an end) and the
iteration cap is not what stopped the solver, then the returned point is a zero, or a zero was
evaluated inside the bracket, or the returned point is within the tolerance of a point `a` of the
bracket with `f a * f root ≤ 0` (a sign change within the tolerance). -/
theorem root_within_tol_of_sign_change (f : ℚ → ℚ) (lo hi tol eps inf : ℚ) (maxIter : Nat) (h3 : 3 ≤ maxIter)
    (heps : 0 < eps) (hsc : f lo * f hi ≤ 0)
    (hcap : (brentsroot f lo hi tol eps inf maxIter).iters < maxIter) :
    let x := (brentsroot f lo hi tol eps inf maxIter).root
    InHull lo hi x ∧ (f x = 0 ∨ (∃ s, InHull lo hi s ∧ f s = 0) ∨
      ∃ a, InHull lo hi a ∧ |x - a| < xtolUsed tol eps lo hi ∧ f a * f x ≤ 0) := by
  have hacc : ¬ (eps ≤ f lo * f hi) := by intro h; linarith
  obtain ⟨a, b, hb1, hb2, ha, hb, hsign, _⟩ := sign_change_kept f lo hi tol eps inf maxIter heps hsc
  obtain ⟨a', b', hb1', hb2', hex⟩ := exit_condition f lo hi tol eps inf maxIter h3 hacc
  have hab : a' = a ∧ b' = b := by
    rw [hb1] at hb1'; injection hb1' with h; injection h with h1 h2; exact ⟨h1.symm, h2.symm⟩
  obtain ⟨rfl, rfl⟩ := hab
  simp only
  rw [hb2]
  refine ⟨hb, ?_⟩
  rcases hex with h | h | h | h
  · exact Or.inl h
  · exact Or.inr (Or.inl h)
  · exact Or.inr (Or.inr ⟨a', ha, h, hsign⟩)
  · omega

/-- **A sign change is found and reported**: if the function changes sign over the bracket (or vanishes
at an end) and the iteration cap is not what stopped the solver, success is reported — however steep
or badly scaled the function is (the clause that was false before the repair of P14). -/
theorem sign_change_success (f : ℚ → ℚ) (lo hi tol eps inf : ℚ) (maxIter : Nat) (h3 : 3 ≤ maxIter)
    (heps : 0 < eps) (hsc : f lo * f hi ≤ 0)
    (hcap : (brentsroot f lo hi tol eps inf maxIter).iters < maxIter) :
    (brentsroot f lo hi tol eps inf maxIter).success = true := by
  have hacc : ¬ (eps ≤ f lo * f hi) := by intro h; linarith
  have hinv := run_inv f lo hi (xtolUsed tol eps lo hi) maxIter hsc
  have hex := run_exit f lo hi (xtolUsed tol eps lo hi) maxIter h3
  have hz := run_fs_zero f lo hi (xtolUsed tol eps lo hi) maxIter
  have htol : 0 < tolUsed tol eps := by
    unfold tolUsed; split
    · exact heps
    · rename_i h; exact lt_of_lt_of_le heps (not_lt.mp h)
  unfold brentsroot at hcap ⊢
  rw [if_neg hacc] at hcap ⊢
  simp only at hcap hex ⊢
  simp only [Bool.or_eq_true, Bool.and_eq_true, decide_eq_true_eq, absC_rat, lit'_rat, Nat.cast_zero]
  have hfb0 : (run f lo hi (xtolUsed tol eps lo hi) maxIter).1.fb = 0 → |f (run f lo hi (xtolUsed tol eps lo hi) maxIter).1.b| ≤ tolUsed tol eps := by
    intro h
    rw [← hinv.hfb, h, abs_zero]; exact le_of_lt htol
  rcases hex with h | h | h | h
  · exact Or.inl (hfb0 h)
  · exact Or.inl (hfb0 (hz h))
  · exact Or.inr ⟨hinv.hsign, h⟩
  · omega

/-! ## the vector solver, lane by lane -/

/-- a lane's returned point lies in its bracket -/
theorem lane_root_in_bracket (f : ℚ → ℚ) (lo hi tol eps : ℚ) (maxIter : Nat) :
    InHull lo hi (lane f lo hi tol eps maxIter).root := by
  unfold lane
  simp only
  split
  · exact (start_facts f lo hi).1.hb
  · exact (run_invH f lo hi _ _).hb

/-- a lane that reports success has `|f root| ≤ max tol eps`, or a sign change between the returned point
and a point of its bracket closer than that -/
theorem lane_success_sound (f : ℚ → ℚ) (lo hi tol eps : ℚ) (maxIter : Nat)
    (hs : (lane f lo hi tol eps maxIter).success = true) :
    let x := (lane f lo hi tol eps maxIter).root
    |f x| ≤ tolUsed tol eps ∨ ∃ a, InHull lo hi a ∧ f a * f x ≤ 0 ∧ |x - a| < xtolUsed tol eps lo hi := by
  unfold lane at hs ⊢
  simp only at hs ⊢
  split at hs
  · rename_i h
    rw [if_pos h]
    simp only [decide_eq_true_eq, absC_rat] at hs ⊢
    left
    rw [← (start_facts f lo hi).1.hfb]; exact hs
  · rename_i h
    rw [if_neg h]
    have hsc : f lo * f hi ≤ 0 := by
      have hq : (start f lo hi).fa * (start f lo hi).fb = f lo * f hi := start_prod f lo hi
      rw [signC_mul_nonneg_iff, not_le, hq] at h; exact le_of_lt h
    have hinv := run_inv f lo hi (xtolUsed tol eps lo hi) (maxIter + 1) hsc
    simp only [Bool.or_eq_true, decide_eq_true_eq, absC_rat] at hs ⊢
    rcases hs with h1 | h2
    · left; rw [← hinv.hfb]; exact h1
    · right
      refine ⟨_, hinv.ha, ?_, h2⟩
      rw [← hinv.hfa, ← hinv.hfb]; exact hinv.hsign

/-- **A lane with a sign change reports success** unless the iteration cap stopped it -/
theorem lane_sign_change_success (f : ℚ → ℚ) (lo hi tol eps : ℚ) (maxIter : Nat) (h3 : 3 ≤ maxIter) (heps : 0 < eps)
    (hsc : f lo * f hi < 0) (hcap : (lane f lo hi tol eps maxIter).iters < maxIter + 1) :
    (lane f lo hi tol eps maxIter).success = true := by
  have hq : (start f lo hi).fa * (start f lo hi).fb = f lo * f hi := start_prod f lo hi
  have hbr : ¬ ((0 : Int) ≤ signC (start f lo hi).fa * signC (start f lo hi).fb) := by
    rw [signC_mul_nonneg_iff, not_le, hq]; exact hsc
  have hinv := run_inv f lo hi (xtolUsed tol eps lo hi) (maxIter + 1) (le_of_lt hsc)
  have hex := run_exit f lo hi (xtolUsed tol eps lo hi) (maxIter + 1) (by omega)
  have hz := run_fs_zero f lo hi (xtolUsed tol eps lo hi) (maxIter + 1)
  have htol : 0 < tolUsed tol eps := by
    unfold tolUsed; split
    · exact heps
    · rename_i h; exact lt_of_lt_of_le heps (not_lt.mp h)
  unfold lane at hcap ⊢
  simp only at hcap hex ⊢
  rw [if_neg hbr] at hcap ⊢
  simp only at hcap ⊢
  simp only [Bool.or_eq_true, decide_eq_true_eq, absC_rat]
  rcases hex with h | h | h | h
  · left; rw [h, abs_zero]; exact le_of_lt htol
  · left; rw [hz h, abs_zero]; exact le_of_lt htol
  · exact Or.inr h
  · omega

/-- non-vacuity: a concrete bracket with a sign change meets the hypotheses and the solver returns
the exact root with success -/
example : (brentsroot (fun x : ℚ => 3 * x - 1) 0 1 (1/1000) (1/2^50) 1000000).success = true ∧
    (brentsroot (fun x : ℚ => 3 * x - 1) 0 1 (1/1000) (1/2^50) 1000000).root = 1/3 := by decide +kernel

/-- the iteration cap of the Brent models is the one in the source text of both solvers (regenerated `DV.Gen.Consts`) -/
theorem brent_cap_is_the_sources (f : Rat → Rat) (lo hi tol eps inf : Rat) :
    DV.Brent.brentsroot f lo hi tol eps inf = DV.Brent.brentsroot f lo hi tol eps inf DV.Gen.Consts.brentMaxIter ∧
    DV.Brent.lane f lo hi tol eps = DV.Brent.lane f lo hi tol eps DV.Gen.Consts.brentMaxIter := DVP.Consts.brent_cap f lo hi tol eps inf

end DVP.C14
