import DV.Model.Solvers
import DVP.Lemmas.Brent
/-!
# C15 — nonlinear system solvers only claim success at an actual solution

PARTIAL.  The convergence of the iterations is numerical analysis; what is modelled and proved is
the **decision logic** of `nonlinear_roots` over the reports of its back ends (`DV.Solvers`, tied to
the code by `harness/p_c15.py`, which records what MINPACK / `hybrj` / `newtontrustregion` returned
for a bank of systems and feeds it to the model).  Known finding P21: on the extended-precision path
`hybrj` also reports success when only the step or the trust region became small, and hands back
`‖dx‖` — not the residual — as the precision; the counterexample at model level is
`DVP.Findings.C15`, the failing inputs on the implementation are in `known_findings.json`.
-/
namespace DVP.C15
open DV DV.Solvers DVP.Brent

/-- **Success through a residual disjunct is sound** (double-precision path): if the front end reports
success although no back end claimed convergence by its own criterion, the residual norm at the
returned point is at most `tol_epsilon` -/
theorem success_via_residual_sound_minpack (tolEps : ℚ) (m : Minpack ℚ) (h : Hybrj ℚ) (n : Ntr ℚ)
    (hm : m.success = false) (hn : n.success = false)
    (hs : (front tolEps .minpack m h n).success = true) :
    ((front tolEps .minpack m h n).via = 0 ∧ m.resNorm ≤ tolEps) ∨ ((front tolEps .minpack m h n).via = 2 ∧ n.resNorm ≤ tolEps) := by
  simp only [front, hm, hn, Bool.false_or] at hs ⊢
  by_cases hc : (m.noImprovement && decide (m.resNorm ≤ tolEps)) = true
  · simp only [hc, if_true]
    left
    simp only [Bool.and_eq_true, decide_eq_true_eq] at hc
    exact ⟨trivial, hc.2⟩
  · simp only [hc, Bool.false_eq_true, if_false] at hs ⊢
    right
    exact ⟨trivial, by simpa using hs⟩

/-- the same on the extended-precision path -/
theorem success_via_residual_sound_hybrj (tolEps : ℚ) (m : Minpack ℚ) (h : Hybrj ℚ) (n : Ntr ℚ)
    (hh : h.success = false) (hn : n.success = false)
    (hs : (front tolEps .hybrj m h n).success = true) :
    ((front tolEps .hybrj m h n).via = 1 ∧ h.resNorm ≤ tolEps) ∨ ((front tolEps .hybrj m h n).via = 2 ∧ n.resNorm ≤ tolEps) := by
  simp only [front, hh, hn, Bool.false_or] at hs ⊢
  by_cases hc : decide (h.resNorm ≤ tolEps) = true
  · simp only [hc, if_true]
    left
    exact ⟨trivial, by simpa using hc⟩
  · simp only [hc, Bool.false_eq_true, if_false] at hs ⊢
    right
    exact ⟨trivial, by simpa using hs⟩

/-- on the double-precision path the precision handed back is the residual norm of the point
returned: the consumer's test `prec < desired_tol` is then a residual test -/
theorem minpack_path_prec_is_residual (tolEps : ℚ) (m : Minpack ℚ) (h : Hybrj ℚ) (n : Ntr ℚ) :
    (front tolEps .minpack m h n).prec = m.resNorm ∨ (front tolEps .minpack m h n).prec = n.resNorm := by
  simp only [front]; split <;> simp

/-- **The consumer accepts only what the front end called a success** and only with `prec < tol` -/
theorem consumer_accepts_iff (o : Out ℚ) (tol : ℚ) : consumerAccepts o tol = true ↔ o.success = true ∧ o.prec < tol := by
  simp [consumerAccepts]

/-- hence on the double-precision path an accepted implicit stage solve has residual norm below the
requested tolerance, whatever the back ends did -/
theorem minpack_path_accept_implies_small_residual (tolEps tol : ℚ) (m : Minpack ℚ) (h : Hybrj ℚ) (n : Ntr ℚ)
    (hacc : consumerAccepts (front tolEps .minpack m h n) tol = true) :
    ((front tolEps .minpack m h n).via = 0 ∧ m.resNorm < tol) ∨ ((front tolEps .minpack m h n).via = 2 ∧ n.resNorm < tol) := by
  rw [consumer_accepts_iff] at hacc
  simp only [front] at hacc ⊢
  by_cases hc : (m.success || (m.noImprovement && decide (m.resNorm ≤ tolEps))) = true
  · simp only [hc, if_true] at hacc ⊢
    exact Or.inl ⟨trivial, hacc.2⟩
  · simp only [hc, Bool.false_eq_true, if_false] at hacc ⊢
    exact Or.inr ⟨trivial, hacc.2⟩


/-- **An implicit stage solve is accepted only with a small residual, on every path** (since fix P32 the extended-precision path
hands back the residual norm as well): whatever the three back ends report, if the consumer in `RungeKuttaIntegrator.step` accepts,
the residual norm of the returned point - MINPACK's, `hybrj`'s or `newtontrustregion`'s, whichever produced it - is below the
requested tolerance. -/
theorem accept_implies_small_residual (tolEps tol : ℚ) (path : Path) (m : Minpack ℚ) (h : Hybrj ℚ) (n : Ntr ℚ)
    (hacc : consumerAccepts (front tolEps path m h n) tol = true) :
    ((front tolEps path m h n).via = 0 ∧ m.resNorm < tol) ∨ ((front tolEps path m h n).via = 1 ∧ h.resNorm < tol) ∨
      ((front tolEps path m h n).via = 2 ∧ n.resNorm < tol) := by
  rw [consumer_accepts_iff] at hacc
  cases path with
  | minpack =>
    simp only [front] at hacc ⊢
    by_cases hc : (m.success || (m.noImprovement && decide (m.resNorm ≤ tolEps))) = true
    · simp only [hc, if_true] at hacc ⊢
      exact Or.inl ⟨trivial, hacc.2⟩
    · simp only [hc, Bool.false_eq_true, if_false] at hacc ⊢
      exact Or.inr (Or.inr ⟨trivial, hacc.2⟩)
  | hybrj =>
    simp only [front] at hacc ⊢
    by_cases hc : (h.success || decide (h.resNorm ≤ tolEps)) = true
    · simp only [hc, if_true] at hacc ⊢
      exact Or.inr (Or.inl ⟨trivial, hacc.2⟩)
    · simp only [hc, Bool.false_eq_true, if_false] at hacc ⊢
      exact Or.inr (Or.inr ⟨trivial, hacc.2⟩)

end DVP.C15
