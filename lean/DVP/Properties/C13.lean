import DVP.Lemmas.LoopReset
import DVP.Lemmas.LoopIdem
import DVP.Lemmas.LoopEvReset
import DVP.Lemmas.RunSplit
import DVP.Properties.C03
/-!
# C13 — results do not depend on call history; reset restores the initial state

Loop model of C03.  PARTIAL: the theorems are about the time-grid state (`ts`, `dt`, status,
`t0`, `tf`); the states `y`, the integrator's memory, the event list, the dense output and the
counters are compared on the implementation (`harness/p_c13.py`: any op sequence, then `reset()`,
then the re-run must coincide bit for bit with a freshly constructed system), as is the
tolerance-level equality of differently split adaptive runs.  For the fixed-step explicit and splitting methods
the whole-run model `DV.Run` carries the states, and a run split at one of its own grid points is proved to record
exactly the samples of the single call (`split_at_grid_point_changes_no_sample`; exact arithmetic — what the
implementation may differ by is rounding, and `harness/runsim.py` compares split plans with the model).  Determinism ("bit-for-bit for identical call
sequences") is immediate for the model — it is a function — and is checked on the implementation.
-/
namespace DVP.C13
open DV DV.Loop DVP.Loop

/-- **`reset()` after anything**: after any sequence of `integrate` calls with any environment (faults,
callbacks, reversals …), `dt` assignments and resets, `reset()` yields a state observationally
equal to the freshly constructed system: same single sample `t0`, same `dt`, status "not run". -/
theorem reset_restores (cfg : Cfg ℚ) (t0 tf dt : ℚ) (ops : List Op)
    (hc : (construct t0 tf dt).crashed = false) :
    Obs (DV.Loop.reset (ops.foldl (applyOp cfg) (construct t0 tf dt))) = Obs (construct t0 tf dt) := by
  have hcon : (construct t0 tf dt).ts = [t0] ∧ (construct t0 tf dt).t0 = t0 ∧ (construct t0 tf dt).tf = tf ∧
      (construct t0 tf dt).dt0 = dt ∧ (construct t0 tf dt).dt = fixDir dt (tf - t0) ∧ (construct t0 tf dt).status = 0 := by
    unfold construct at hc ⊢
    split
    · exact ⟨rfl, rfl, rfl, rfl, rfl, rfl⟩
    · rename_i h; simp [h] at hc
  obtain ⟨c1, c2, c3, c4, c5, c6⟩ := hcon
  have hne : (construct t0 tf dt).ts ≠ [] := by rw [c1]; simp
  have hs := applyOps_static cfg ops (construct t0 tf dt) hne
  unfold Obs DV.Loop.reset
  simp only [hs.t0, hs.tf, hs.dt0, hs.first, c1, c2, c3, c4, c5, c6]
  simp

/-- **A call made when already at the target changes nothing** (not even the status). -/
theorem at_target_noop (cfg : Cfg ℚ) (s : Sys ℚ) (target : ℚ) (orc : Oracle ℚ) (fuel : Nat)
    (hat : |target - s.tcur| < cfg.tolEps) : (integrate cfg s target orc fuel).sys = s := by
  unfold integrate
  split
  · rfl
  · rw [if_pos (by rw [DVP.Brent.absC_rat]; exact hat)]

/-- **… and so does a repeated call**: once `integrate(T)` has ended normally (its loop guard became false —
the target is reached to within `tolEps`, or the step size is zero),
calling `integrate(T)` again makes no integrator call and records no sample, whatever the integrator and the
callbacks would do. -/
theorem repeated_call_idle (cfg : Cfg ℚ) (s : Sys ℚ) (target : ℚ) (orc orc' : Oracle ℚ) (fuel fuel' : Nat)
    (h : (integrate cfg s target orc fuel).guardExit = true) :
    (integrate cfg (integrate cfg s target orc fuel).sys target orc' fuel').sys.ts = (integrate cfg s target orc fuel).sys.ts ∧
    (integrate cfg (integrate cfg s target orc fuel).sys target orc' fuel').reqs = [] ∧
    (integrate cfg (integrate cfg s target orc fuel).sys target orc' fuel').iters = 0 :=
  second_call_idle cfg s target orc orc' fuel fuel' h

/-- **… in fact nothing at all** (since the repair `fix: a call made when already at the target …`): after a call
that ended normally with a non-zero step size, the same call again returns the system unchanged — samples, step
size, status, buffer.  Before the repair the early-return test used `eps` while the loop guard used `tolEps`: a
system that had stopped between the two (a few ulp short of the target, as every run with a rounded last step
does) went through the set-up of a new call, which clipped `dt` to half the remaining rounding-level distance;
the next call to anywhere else then crawled at `dt ≈ 1e-16`. -/
theorem repeated_call_changes_nothing (cfg : Cfg ℚ) (s : Sys ℚ) (target : ℚ) (orc orc' : Oracle ℚ) (fuel fuel' : Nat)
    (h : (integrate cfg s target orc fuel).guardExit = true) (hdt : (integrate cfg s target orc fuel).sys.dt ≠ 0) :
    (integrate cfg (integrate cfg s target orc fuel).sys target orc' fuel').sys = (integrate cfg s target orc fuel).sys := by
  have hat : |target - (integrate cfg s target orc fuel).sys.tcur| < cfg.tolEps := by
    rcases first_call_state cfg s target orc fuel h with h1 | h1
    · rwa [DVP.Brent.absC_rat] at h1
    · by_contra hge
      have : DV.Loop.guard cfg target (integrate cfg s target orc fuel).sys = true :=
        (guard_rat cfg target _).mpr ⟨hdt, not_lt.mp hge⟩
      rw [h1] at this; exact absurd this (by simp)
  exact at_target_noop cfg _ target orc' fuel' hat

/-- non-vacuity: a run of four steps that ends through the guard -/
example : (integrate (α := ℚ) { eps := 1/2^50, tolEps := 1/2^47, half := 1/2 } (construct (α := ℚ) 0 1 (3/10)) 1
      (fun _ _ h => { ret := .ok h h }) 50).guardExit = true ∧
    (integrate (α := ℚ) { eps := 1/2^50, tolEps := 1/2^47, half := 1/2 } (construct (α := ℚ) 0 1 (3/10)) 1
      (fun _ _ h => { ret := .ok h h }) 50).sys.ts = [1, 9/10, 3/5, 3/10, 0] := by decide +kernel

/-- assigning `dt` never moves the trajectory -/
theorem setDt_keeps_grid (s : Sys ℚ) (v : ℚ) : (setDt s v).ts = s.ts ∧ (setDt s v).status = s.status := ⟨rfl, rfl⟩

/-- non-vacuity: a run with a fault and a reversal, then reset -/
example : Obs (DV.Loop.reset ([Op.integrate 1 (fun k _ h => if k = 1 then { ret := .raise } else { ret := .ok h h }) 9,
      Op.setDt (1/7), Op.integrate (-2) (fun _ _ h => { ret := .ok h h }) 50].foldl
      (applyOp { eps := 1/2^50, tolEps := 1/2^47, half := 1/2 }) (construct (α := ℚ) 0 1 (3/10)))) =
    ([0], 3/10, 0, 0, 1) := by decide +kernel

/-- **`reset()` after anything, events included**: after any sequence of calls with events (terminal stops, raising
event functions, faults inside the nested call of a terminal event, callbacks), calls without events, `dt`
assignments and resets, `reset()` leaves the time-grid state of the freshly constructed system, **no recorded
event and no dense-output piece**.  (The op machine is the one the model driver runs against the implementation:
`DV.LoopEv` / `runScenarioEv`.) -/
theorem reset_restores_after_events (cfg : DV.LoopEv.CfgEv ℚ) (t0 tf dt : ℚ) (ops : List DVP.LoopEv.OpEv)
    (hc : (construct t0 tf dt).crashed = false) :
    let st := DVP.LoopEv.applyOpEv cfg (ops.foldl (DVP.LoopEv.applyOpEv cfg) { sys := construct t0 tf dt, evs := [], kn := [] }) .reset
    Obs st.sys = Obs (construct t0 tf dt) ∧ st.evs = [] ∧ st.kn = [] := by
  have hcon : (construct t0 tf dt).ts = [t0] ∧ (construct t0 tf dt).t0 = t0 ∧ (construct t0 tf dt).tf = tf ∧
      (construct t0 tf dt).dt0 = dt ∧ (construct t0 tf dt).dt = fixDir dt (tf - t0) ∧ (construct t0 tf dt).status = 0 := by
    unfold construct at hc ⊢
    split
    · exact ⟨rfl, rfl, rfl, rfl, rfl, rfl⟩
    · rename_i h; simp [h] at hc
  obtain ⟨c1, c2, c3, c4, c5, c6⟩ := hcon
  have hne : (construct t0 tf dt).ts ≠ [] := by rw [c1]; simp
  have hs := DVP.LoopEv.applyOpsEv_static cfg ops { sys := construct t0 tf dt, evs := [], kn := [] } hne
  refine ⟨?_, rfl, rfl⟩
  show Obs (DV.Loop.reset (ops.foldl (DVP.LoopEv.applyOpEv cfg) { sys := construct t0 tf dt, evs := [], kn := [] }).sys) = _
  unfold Obs DV.Loop.reset
  simp only [hs.t0, hs.tf, hs.dt0, hs.first, c1, c2, c3, c4, c5, c6]
  simp

/-- **However a fixed-step span is split at its own grid points, the samples are the same.**  Whole-run model
`DV.Run` (time-grid machine + recorded states; fixed-step explicit Runge–Kutta and splitting methods, `inc` the
increment of one step, any right-hand side).  The system's step `dt` points at `T`; the intermediate target lies
`j ≥ 1` whole steps ahead of the current time and at least one whole step before `T` (closer than that the second
call starts by halving what is left - see the second example below - and the runs agree to tolerance only).  Then
`integrate(t₁); integrate(T)` records exactly the times AND states of `integrate(T)` and leaves the same step,
whatever was recorded before, for every number of steps. -/
theorem split_at_grid_point_changes_no_sample {V : Type} (cfg : Cfg ℚ) (htolpos : 0 < cfg.tolEps)
    (add : V → V → V) (inc : ℚ → V → ℚ → V) (s : DV.Run.SysY ℚ V) (T : ℚ) (j F1 m : Nat) (hj : 1 ≤ j) (hF1 : j ≤ F1)
    (hok : DVP.Run.StepsOK add inc s.sys.ts s.ys) (hcr : s.sys.crashed = false) (hdir : 0 < s.sys.dt * (T - s.sys.tcur))
    (hside : 0 < s.sys.dt * (T - (s.sys.tcur + j * s.sys.dt))) (hfar : |s.sys.dt| ≤ |T - (s.sys.tcur + j * s.sys.dt)|)
    (htol : cfg.tolEps ≤ |s.sys.dt|) :
    let A := DV.Run.integrate cfg add inc s T (j + m)
    let B := DV.Run.integrate cfg add inc (DV.Run.integrate cfg add inc s (s.sys.tcur + j * s.sys.dt) F1) T m
    B.sys.ts = A.sys.ts ∧ B.ys = A.ys ∧ B.sys.dt = A.sys.dt :=
  DVP.RunSplit.split_samples cfg htolpos add inc s T j F1 m hj hF1 hok hcr hdir hside hfar htol

/-- **After `reset()` the system is back at `(t0, y0)`** - with the states: whole-run model `DV.Run`, after any
sequence of `integrate(t)` calls of a fixed-step method (any right-hand side, spans, directions, numbers of steps)
the only sample left is the initial time with the initial condition. -/
theorem reset_back_at_initial_condition {V : Type} (cfg : Cfg ℚ) (add : V → V → V) (inc : ℚ → V → ℚ → V) (t0 tf dt : ℚ) (y0 : V)
    (targets : List ℚ) (fuel : Nat) :
    let r := DV.Run.reset (DV.Run.calls cfg add inc fuel (DV.Run.construct t0 tf dt y0) targets)
    r.ys = [y0] ∧ r.sys.ts = [t0] ∧ r.sys.status = 0 := by
  obtain ⟨_, h2, h3, _⟩ := DVP.C03.fixed_step_samples_paired cfg add inc t0 tf dt y0 targets fuel
  simp only [DV.Run.reset, DV.Loop.reset, h2, h3]
  simp

/-- **After `reset()`, whatever happened before, integrating again reproduces what a freshly constructed system with the same
settings produces** - the times, the STATES and the step, for every earlier history of `integrate(t)` calls and every later sequence of
calls (whole-run model `DV.Run`, fixed-step methods, any right-hand side; exact arithmetic - the implementation's bit-for-bit clause is
the harness's comparison).  Buffer capacity and status, the only things in which the two systems differ, do not influence what is
recorded (`loop_cap_irrel`), and the states are a function of the recorded times. -/
theorem reset_then_rerun_equals_fresh {V : Type} (cfg : Cfg ℚ) (add : V → V → V) (inc : ℚ → V → ℚ → V) (fuel : Nat) (t0 tf dt : ℚ) (y0 : V)
    (before after : List ℚ) :
    let r := DV.Run.calls cfg add inc fuel (DV.Run.reset (DV.Run.calls cfg add inc fuel (DV.Run.construct t0 tf dt y0) before)) after
    let f := DV.Run.calls cfg add inc fuel (DV.Run.construct t0 tf dt y0) after
    r.sys.ts = f.sys.ts ∧ r.ys = f.ys ∧ r.sys.dt = f.sys.dt :=
  DVP.RunSplit.reset_then_calls_eq_fresh cfg add inc fuel t0 tf dt y0 before after

/-- non-vacuity: Euler on `y' = y`, `dt = 1/4`, `integrate(1/2); integrate(9/8)` against `integrate(9/8)` -/
example : (DV.Run.calls (α := ℚ) (V := ℚ) { eps := 1/2^50, tolEps := 1/2^47, half := 1/2 } (· + ·)
      (fun _ y h => y * h) 10 (DV.Run.construct 0 2 (1/4) 1) [1/2, 9/8]).ys =
    (DV.Run.calls (α := ℚ) (V := ℚ) { eps := 1/2^50, tolEps := 1/2^47, half := 1/2 } (· + ·)
      (fun _ y h => y * h) 10 (DV.Run.construct 0 2 (1/4) 1) [9/8]).ys := by decide +kernel

/-- the hypothesis "at least one whole step before `T`" cannot be dropped: split one eighth before the target,
the second call takes two steps of one sixteenth and the states differ -/
example : (DV.Run.calls (α := ℚ) (V := ℚ) { eps := 1/2^50, tolEps := 1/2^47, half := 1/2 } (· + ·)
      (fun _ y h => y * h) 10 (DV.Run.construct 0 2 (1/4) 1) [1, 9/8]).ys ≠
    (DV.Run.calls (α := ℚ) (V := ℚ) { eps := 1/2^50, tolEps := 1/2^47, half := 1/2 } (· + ·)
      (fun _ y h => y * h) 10 (DV.Run.construct 0 2 (1/4) 1) [9/8]).ys := by decide +kernel

/-- non-vacuity: a call with a terminal event, a plain continuation, a call with an event function that raises, then reset -/
example :
    let cfg : DV.LoopEv.CfgEv ℚ := { loop := { eps := 1/2^50, tolEps := 1/2^47, half := 1/2 }, dupTol := 1/2^30 }
    let p : DV.Events.Probe ℚ := { root := 9/20, success := true, gm := -1, gc := 0, gp := 1, fields := [], direction := 0, terminal := true }
    let o1 : DV.LoopEv.OracleEv ℚ := fun k _ h =>
      { base := { ret := .ok h h }, probes := if k = 1 then [p] else [], nested := fun _ _ h => { ret := .ok h h }, nestedFuel := 10 }
    let o2 : DV.LoopEv.OracleEv ℚ := fun k _ h => { base := { ret := .ok h h }, evRaise := decide (k = 1) }
    let ops := [DVP.LoopEv.OpEv.evint 1 1 o1 50, .integrate (7/10) (fun _ _ h => { ret := .ok h h }) 50, .evint 1 1 o2 50]
    let st := ops.foldl (DVP.LoopEv.applyOpEv cfg) { sys := construct 0 1 (3/10), evs := [], kn := [] }
    st.evs = [(0, 9/20)] ∧ st.sys.status = 3 ∧ st.kn.length + 1 = st.sys.ts.length ∧
      (DVP.LoopEv.applyOpEv cfg st .reset).sys.ts = [0] := by decide +kernel

end DVP.C13
