import DVP.Lemmas.Events
import DVP.Properties.C03
import DVP.Lemmas.LoopEv
/-!
# C09 — a terminal event stops the integration exactly at the event

PARTIAL.  Proved on the selection model: among the events of a step only the earliest terminal one
(in the direction of integration) and the non-terminal ones before it are reported, the terminal one
last.  The stop itself is `integrate(root)` on the rolled-back system — an ordinary call of the loop
of C03, so the C03 theorem gives "the last recorded time is within `max eps tolEps` of the event
time, nothing beyond it is recorded".  Status, continuation and the order of the dense output after
the stop are compared on the implementation (`harness/p_c09.py`); known finding P11: after a terminal
event the dense output keeps the piece of the rolled-back step.
-/
namespace DVP.C09
open DV DV.Events DVP.Events

/-- a terminal event, if reported, is the last reported event of its step … -/
theorem terminal_is_last (sgn : ℚ) (probes : List (Probe ℚ)) : TerminalOnlyLast (handle sgn probes).1 :=
  handle_terminal_last sgn probes

/-- … `terminate` is raised exactly when one is reported … -/
theorem terminate_iff (sgn : ℚ) (probes : List (Probe ℚ)) :
    (handle sgn probes).2 = true ↔ ∃ x, x ∈ (handle sgn probes).1 ∧ x.2.terminal = true := by
  unfold handle
  simp [List.any_eq_true]

/-- … and it is the **earliest** terminal event in the direction of integration: every other active
terminal event of the step has a root that is not earlier -/
theorem earliest_terminal_event (sgn : ℚ) (probes : List (Probe ℚ)) (i : Nat) (hi : i < probes.length)
    (hact : (probes[i]).active = true) (_hterm : (probes[i]).terminal = true) :
    ∃ y, y ∈ (handle sgn probes).1 ∧ y.2.terminal = true ∧ sgn * y.2.root ≤ sgn * (probes[i]).root := by
  rcases handle_complete sgn probes i hi hact with h | h
  · exact ⟨(i, probes[i]), h, _hterm, le_refl _⟩
  · exact h

/-- the non-terminal events before it are all reported (C08) and reported in order (C07): everything
reported is sorted along the direction of integration -/
theorem reported_sorted (sgn : ℚ) (probes : List (Probe ℚ)) : SortedBy sgn (handle sgn probes).1 :=
  handle_sorted sgn probes

/-- the stop is an ordinary `integrate(root)` call: the C03 theorem applies verbatim -/
theorem stop_lands_on_event (cfg : DV.Loop.Cfg ℚ) (heps : 0 < cfg.eps) (htol : 0 < cfg.tolEps) (hhalf : 0 < cfg.half)
    (s : DV.Loop.Sys ℚ) (root : ℚ) (orc : DV.Loop.Oracle ℚ) (fuel : Nat)
    (hdt : s.dt ≠ 0) (hor : DVP.Loop.OracleOK orc) (hcv : DVP.Loop.CbsNonzero orc) (hn : DVP.Loop.NoCbAssign orc) :
    ∃ news : List ℚ, (DV.Loop.integrate cfg s root orc fuel).sys.ts = news.reverse ++ s.ts ∧
      DVP.Loop.Steps root s.tcur news ∧
      ((DV.Loop.integrate cfg s root orc fuel).guardExit = true →
        |root - (DV.Loop.integrate cfg s root orc fuel).sys.tcur| < max cfg.eps cfg.tolEps) :=
  DVP.C03.integrate_covers_span cfg heps htol hhalf s root orc fuel hdt hor hcv (Or.inl hn)

/-! ## the whole call with events (`DV.LoopEv`, compared bit for bit with `integrate(t, events=…)` on every run) -/

/-- **Termination by event is reported as a success with status 2**: a call that ended through a terminal event,
without a fault in the nested call or in the callbacks, has status 2 — whatever the integrator, the events and
the callbacks did before. -/
theorem terminal_stop_reports_status_two (cfg : DV.LoopEv.CfgEv ℚ) (s : DV.Loop.Sys ℚ) (evs : List (Nat × ℚ)) (kn : List ℚ) (nEvents : Nat)
    (target : ℚ) (orc : DV.LoopEv.OracleEv ℚ) (fuel : Nat) (hne : s.ts ≠ [])
    (hstop : (DV.LoopEv.integrateEv cfg s evs kn nEvents target orc fuel).stopped = true)
    (hok : (DV.LoopEv.integrateEv cfg s evs kn nEvents target orc fuel).guardExit = true) :
    (DV.LoopEv.integrateEv cfg s evs kn nEvents target orc fuel).sys.status = 2 :=
  (DVP.LoopEv.integrateEv_outcome cfg s evs kn nEvents target orc fuel hne).2.2.1 hstop hok

/-- **The stop lands on the event and nothing beyond it is kept.**  The time `root` the call stops at is the located root of a
monitored event of some step that is terminal and passed the direction mask.  After a terminal stop the recorded samples
are: the samples `s'.ts` recorded before the event step (they extend the samples at the start of the call; the end
of the event step is NOT among them), followed by the steps `news` of the nested `integrate(root)` — which move
strictly toward the event time `root`, never pass it, and, when the nested loop ends through its guard, end within
`max eps tolEps` of it.  Hypothesis: the integrator honours its contract inside the nested calls. -/
theorem terminal_stop_lands_on_event (cfg : DV.LoopEv.CfgEv ℚ) (heps : 0 < cfg.loop.eps) (htol : 0 < cfg.loop.tolEps)
    (hhalf : 0 < cfg.loop.half) (s : DV.Loop.Sys ℚ) (evs : List (Nat × ℚ)) (kn : List ℚ) (nEvents : Nat)
    (target : ℚ) (orc : DV.LoopEv.OracleEv ℚ) (fuel : Nat) (hne : s.ts ≠ [])
    (hnest : ∀ k t h, DVP.Loop.OracleOK (orc k t h).nested ∧ DVP.Loop.CbsNonzero (orc k t h).nested ∧ DVP.Loop.NoCbAssign (orc k t h).nested)
    (hstop : (DV.LoopEv.integrateEv cfg s evs kn nEvents target orc fuel).stopped = true) :
    ∃ (s' : DV.Loop.Sys ℚ) (root : ℚ) (N : DV.Loop.LoopOut ℚ) (news : List ℚ),
      (∃ (k : Nat) (t h : ℚ) (x : Nat × Probe ℚ), x.2.terminal = true ∧ x.2.active = true ∧
        (orc k t h).probes[x.1]? = some x.2 ∧ x.2.root = root) ∧
      (∃ mid, s'.ts = mid ++ s.ts) ∧
      (DV.LoopEv.integrateEv cfg s evs kn nEvents target orc fuel).sys.ts = news.reverse ++ s'.ts ∧
      DVP.Loop.Steps root s'.tcur news ∧
      (DV.LoopEv.integrateEv cfg s evs kn nEvents target orc fuel).nestedReqs = N.reqs ∧
      (N.guardExit = true → |root - (DV.LoopEv.integrateEv cfg s evs kn nEvents target orc fuel).sys.tcur| < max cfg.loop.eps cfg.loop.tolEps) := by
  obtain ⟨s', root, k', t', h', nf, hmid, hne', hdt', e1, e2, x, hx1, hx2, hx3, hx4⟩ :=
    (DVP.LoopEv.integrateEv_outcome cfg s evs kn nEvents target orc fuel hne).2.2.2 hstop
  obtain ⟨ho, hc, hn⟩ := hnest k' t' h'
  obtain ⟨news, g1, g2, g3⟩ := DVP.C03.integrate_covers_span cfg.loop heps htol hhalf s' root (orc k' t' h').nested nf hdt' ho hc (Or.inl hn)
  refine ⟨s', root, DV.Loop.integrate cfg.loop s' root (orc k' t' h').nested nf, news, ⟨k', t', h', x, hx1, hx2, hx3, hx4⟩, hmid, by rw [e1, g1], g2, e2, fun hg => ?_⟩
  have := g3 hg
  -- the current time only depends on the (non-empty) list of samples
  have htc : (DV.LoopEv.integrateEv cfg s evs kn nEvents target orc fuel).sys.tcur =
      (DV.Loop.integrate cfg.loop s' root (orc k' t' h').nested nf).sys.tcur := by
    unfold DV.Loop.Sys.tcur
    rw [e1, g1]
    cases hr : news.reverse ++ s'.ts with
    | nil => exact absurd (List.append_eq_nil_iff.mp hr).2 hne'
    | cons x xs => rfl
  rw [htc]
  exact this

/-- non-vacuity: a plain step, then a step with a terminal crossing at `9/20`; the step `[3/10, 6/10]` is dropped,
the nested call walks to the event in two steps, status 2, the event is recorded, `dt` is the one the integrator
proposed for the dropped step, the dense-output container has one piece per recorded step (C12:
`dense_pieces_are_the_recorded_steps`) -/
example :
    let cfg : DV.LoopEv.CfgEv ℚ := { loop := { eps := 1/2^50, tolEps := 1/2^47, half := 1/2 }, dupTol := 1/2^30 }
    let p : Probe ℚ := { root := 9/20, success := true, gm := -1, gc := 0, gp := 1, fields := [], direction := 0, terminal := true }
    let orc : DV.LoopEv.OracleEv ℚ := fun k _ h =>
      { base := { ret := .ok h h }, probes := if k = 1 then [p] else [], nested := fun _ _ h => { ret := .ok h h }, nestedFuel := 10 }
    let o := DV.LoopEv.integrateEv cfg (DV.Loop.construct 0 1 (3/10)) [] [] 1 1 orc 50
    o.stopped = true ∧ o.guardExit = true ∧ o.sys.status = 2 ∧ o.sys.ts = [9/20, 3/8, 3/10, 0] ∧
      o.book.events = [(0, 9/20)] ∧ o.sys.dt = 3/10 ∧ o.knots = [3/10, 3/8, 9/20] := by decide +kernel

end DVP.C09
