import DVP.Lemmas.Events
import DVP.Properties.C03
/-!
# C09 — a terminal event stops the integration exactly at the event

PARTIAL.  Proved on the selection model: among the events of a step only the earliest terminal one
(in the direction of integration) and the non-terminal ones before it are reported, the terminal one
last.  The stop itself is `integrate(root)` on the rolled-back system — an ordinary call of the loop
of C03, so the C03 theorem gives "the last recorded time is within `max eps tolEps` of the event
time, nothing beyond it is recorded".  Status, continuation and the order of the dense output after
the stop are compared on the implementation (`harness/p_c09.py`); known finding P11: after a terminal
event the dense output keeps the piece of the rolled-back step.
-/
namespace DVP.C09
open DV DV.Events DVP.Events

/-- a terminal event, if reported, is the last reported event of its step … -/
theorem terminal_is_last (sgn : ℚ) (probes : List (Probe ℚ)) : TerminalOnlyLast (handle sgn probes).1 :=
  handle_terminal_last sgn probes

/-- … `terminate` is raised exactly when one is reported … -/
theorem terminate_iff (sgn : ℚ) (probes : List (Probe ℚ)) :
    (handle sgn probes).2 = true ↔ ∃ x, x ∈ (handle sgn probes).1 ∧ x.2.terminal = true := by
  unfold handle
  simp [List.any_eq_true]

/-- … and it is the **earliest** terminal event in the direction of integration: every other active
terminal event of the step has a root that is not earlier -/
theorem earliest_terminal_event (sgn : ℚ) (probes : List (Probe ℚ)) (i : Nat) (hi : i < probes.length)
    (hact : (probes[i]).active = true) (_hterm : (probes[i]).terminal = true) :
    ∃ y, y ∈ (handle sgn probes).1 ∧ y.2.terminal = true ∧ sgn * y.2.root ≤ sgn * (probes[i]).root := by
  rcases handle_complete sgn probes i hi hact with h | h
  · exact ⟨(i, probes[i]), h, _hterm, le_refl _⟩
  · exact h

/-- the non-terminal events before it are all reported (C08) and reported in order (C07): everything
reported is sorted along the direction of integration -/
theorem reported_sorted (sgn : ℚ) (probes : List (Probe ℚ)) : SortedBy sgn (handle sgn probes).1 :=
  handle_sorted sgn probes

/-- the stop is an ordinary `integrate(root)` call: the C03 theorem applies verbatim -/
theorem stop_lands_on_event (cfg : DV.Loop.Cfg ℚ) (heps : 0 < cfg.eps) (htol : 0 < cfg.tolEps) (hhalf : 0 < cfg.half)
    (s : DV.Loop.Sys ℚ) (root : ℚ) (orc : DV.Loop.Oracle ℚ) (fuel : Nat)
    (hdt : s.dt ≠ 0) (hor : DVP.Loop.OracleOK orc) (hcv : DVP.Loop.CbsNonzero orc) (hn : DVP.Loop.NoCbAssign orc) :
    ∃ news : List ℚ, (DV.Loop.integrate cfg s root orc fuel).sys.ts = news.reverse ++ s.ts ∧
      DVP.Loop.Steps root s.tcur news ∧
      ((DV.Loop.integrate cfg s root orc fuel).guardExit = true →
        |root - (DV.Loop.integrate cfg s root orc fuel).sys.tcur| < max cfg.eps cfg.tolEps) :=
  DVP.C03.integrate_covers_span cfg heps htol hhalf s root orc fuel hdt hor hcv (Or.inl hn)

end DVP.C09
