import DVP.Lemmas.LoopFault
import DVP.Properties.C03
import DVP.Lemmas.LoopEv
import DVP.Lemmas.LoopDense
import DVP.Lemmas.RunSplit
/-!
# C12 — a failure leaves a consistent, resumable prefix of the trajectory

Loop model of C03 (`DV.Loop`; the environment — integrator incl. the user's right-hand side,
callbacks — is an oracle that may raise at any iteration).  Theorems hold for **every** fault
position, every environment, every span.

PARTIAL.  Outside the model: the integrator-internal state after a fault and the dense-output
container (known finding: an *event function* that raises leaves the dense piece of the dropped
step behind; checked on the implementation by exhaustive crash-point enumeration), event
evaluation sites are modelled in `DV.LoopEv` (the whole call with events, compared bit for bit on every run):
`event_call_keeps_what_was_recorded` covers a raising event function, faults inside the nested call of a
terminal event and callback faults after a stop.
-/
namespace DVP.C12
open DV DV.Loop DVP.Loop

/-- **The recorded trajectory after a fault is exactly the prefix of fully accepted steps**: if the
environment behaves like a fault-free one for `j` iterations and its integrator raises (or is
interrupted) in iteration `j`, the recorded times and the step size are those of the fault-free
run stopped after `j` iterations. -/
theorem fault_leaves_prefix (cfg : Cfg ℚ) (target : ℚ) (orc orc' : Oracle ℚ) (j fuel : Nat) (s : Sys ℚ)
    (hagree : ∀ i, i < j → ∀ t h, orc' i t h = orc i t h)
    (hfault : ∀ t h, (orc' j t h).ret = .raise ∨ (orc' j t h).ret = .interrupt) (hfuel : j < fuel) :
    (loop cfg target orc' fuel 0 s []).sys.ts = (loop cfg target orc j 0 s []).sys.ts ∧
    (loop cfg target orc' fuel 0 s []).sys.dt = (loop cfg target orc j 0 s []).sys.dt :=
  loop_fault_prefix cfg target orc orc' j fuel 0 s []
    (fun i _ hi t h => hagree i (by omega) t h) (fun t h => by simpa using hfault t h) hfuel

/-- **… with the states**: for an explicit one-step method (any step-size control; `inc` the increment of the accepted step) the
whole-run model `DV.Run.integrateO` recomputes the recorded states from the recorded times, so the SAMPLES `(t, y)` left by a
run whose integrator raises in iteration `j` are exactly those of the fault-free run stopped after `j` iterations - paired, and
each state its predecessor advanced by one step of the method. -/
theorem fault_leaves_prefix_of_samples {V : Type} (cfg : Cfg ℚ) (add : V → V → V) (inc : ℚ → V → ℚ → V) (y0 : V)
    (target : ℚ) (orc orc' : Oracle ℚ) (j fuel : Nat) (s : Sys ℚ)
    (hagree : ∀ i, i < j → ∀ t h, orc' i t h = orc i t h)
    (hfault : ∀ t h, (orc' j t h).ret = .raise ∨ (orc' j t h).ret = .interrupt) (hfuel : j < fuel) :
    DV.Run.ysOf add inc y0 (loop cfg target orc' fuel 0 s []).sys.ts = DV.Run.ysOf add inc y0 (loop cfg target orc j 0 s []).sys.ts ∧
    ((loop cfg target orc' fuel 0 s []).sys.ts ≠ [] →
      DVP.Run.StepsOK add inc (loop cfg target orc' fuel 0 s []).sys.ts (DV.Run.ysOf add inc y0 (loop cfg target orc' fuel 0 s []).sys.ts)) := by
  rw [(fault_leaves_prefix cfg target orc orc' j fuel s hagree hfault hfuel).1]
  exact ⟨rfl, fun hne => (DVP.Run.ysOf_steps add inc y0 _ hne).1⟩

/-- the instance the harness replays (`DV.Run.integrateFault`, driver op `f<j>@<target>`): a fixed-step integrator whose `j`-th call
raises leaves the times - hence the samples - of the fault-free fixed-step run stopped after `j` iterations -/
theorem fixed_step_fault_leaves_prefix (cfg : Cfg ℚ) (target : ℚ) (j fuel : Nat) (s : Sys ℚ) (hfuel : j < fuel) :
    (loop cfg target (DV.Run.faultOrc j) fuel 0 s []).sys.ts = (loop cfg target DVP.Loop.fixedOrc j 0 s []).sys.ts :=
  (fault_leaves_prefix cfg target DVP.Loop.fixedOrc (DV.Run.faultOrc j) j fuel s
    (fun i hi t h => by simp [DV.Run.faultOrc, DVP.Loop.fixedOrc, Nat.ne_of_lt hi])
    (fun t h => by simp [DV.Run.faultOrc]) hfuel).1

/-- the status reports the failure (3) or the keyboard interrupt (4) whenever the loop stops for
any reason other than its guard while fuel is left -/
theorem fault_reported (cfg : Cfg ℚ) (target : ℚ) (orc : Oracle ℚ) (fuel : Nat) (s : Sys ℚ)
    (hng : (loop cfg target orc (fuel + 1) 0 s []).guardExit = false)
    (hleft : (loop cfg target orc (fuel + 1) 0 s []).iters < fuel + 1) :
    (loop cfg target orc (fuel + 1) 0 s []).sys.status = 3 ∨ (loop cfg target orc (fuel + 1) 0 s []).sys.status = 4 := by
  rcases loop_fault_status cfg target orc (fuel + 1) 0 s [] hng (Or.inl (by omega)) with h | h | h
  · exact Or.inl h
  · exact Or.inr h
  · omega

/-- leaving through the guard never changes the status inside the loop, so a call that returns
normally reports success (1) even when an earlier call had failed or was stopped by an event -/
theorem success_after_resume (cfg : Cfg ℚ) (s : Sys ℚ) (target : ℚ) (orc : Oracle ℚ) (fuel : Nat)
    (hcr : s.crashed = false) (hfar : ¬ (DV.absC (target - s.tcur) < cfg.tolEps))
    (halloc : (allocSteps (target - s.tcur) (initialDt cfg s target)).isSome)
    (hg : (integrate cfg s target orc fuel).guardExit = true) :
    (integrate cfg s target orc fuel).sys.status = 1 := by
  unfold integrate at hg ⊢
  rw [hcr] at hg ⊢
  simp only [Bool.false_eq_true, if_false] at hg ⊢
  rw [if_neg hfar] at hg ⊢
  obtain ⟨n, hn⟩ := Option.isSome_iff_exists.mp halloc
  simp only [hn] at hg ⊢
  have := loop_status_guard cfg target orc fuel 0 _ [] hg
  simp only [this, hg, finalStatus, if_true]
  split <;> simp_all

/-- `finally:` the buffers are trimmed to the recorded samples whatever happened -/
theorem buffers_trimmed (cfg : Cfg ℚ) (s : Sys ℚ) (target : ℚ) (orc : Oracle ℚ) (fuel : Nat)
    (hcr : s.crashed = false) (hfar : ¬ (DV.absC (target - s.tcur) < cfg.tolEps))
    (halloc : (allocSteps (target - s.tcur) (initialDt cfg s target)).isSome) :
    (integrate cfg s target orc fuel).sys.cap = (integrate cfg s target orc fuel).sys.ts.length := by
  unfold integrate
  rw [hcr]
  simp only [Bool.false_eq_true, if_false]
  rw [if_neg hfar]
  obtain ⟨n, hn⟩ := Option.isSome_iff_exists.mp halloc
  simp only [hn]

/-- **Resumable**: faults are admissible behaviours of the environment in `OracleOK`, so the C03
theorem about call sequences already covers "fault, then integrate again": every later call
extends the kept prefix monotonically toward its target. -/
theorem resume_after_faults (cfg : Cfg ℚ) (heps : 0 < cfg.eps) (htol : 0 < cfg.tolEps) (hhalf : 0 < cfg.half)
    (calls : List DVP.C03.Call) (s : Sys ℚ) (hdt : s.dt ≠ 0)
    (h : ∀ c ∈ calls, OracleOK c.orc ∧ CbsNonzero c.orc ∧ NoCbAssign c.orc) : DVP.C03.GridOK cfg s calls :=
  DVP.C03.call_sequence_covers_spans cfg heps htol hhalf calls s hdt h

/-- non-vacuity: an environment that raises in its third iteration honours the contract, and the
faulty run over (1/2 → -1/4) keeps exactly the two accepted steps and reports failure -/
example : OracleOK (fun k _ h => if k = 2 then { ret := .raise } else { ret := .ok h h }) := by
  intro k t h hh
  by_cases hk : k = 2
  · simp [hk, RetOK]
  · simp only [hk, if_false]; exact ⟨hh, mul_self_pos.mpr hh, le_refl _, hh⟩

def demoRun : LoopOut ℚ :=
  integrate (α := ℚ) { eps := 1/2^50, tolEps := 1/2^47, half := 1/2 } (construct (α := ℚ) (1/2) (-1/4) (1/10)) (-1/4)
    (fun k _ h => if k = 2 then { ret := .raise } else { ret := .ok h h }) 20

example : demoRun.sys.ts.reverse = [1/2, 2/5, 3/10] ∧ demoRun.sys.status = 3 ∧ demoRun.sys.cap = 3 := by decide +kernel

/-- **A call with events keeps what was recorded, whatever fails.**  For every behaviour of the integrator, the
event functions (including one that raises inside `handle_events` — the step is dropped), the callbacks and the
nested call of a terminal event (faults and interrupts included): the samples present at the start of the call
stay in place at the head of the trajectory, and the events recorded by earlier calls stay in place at the head
of the event list. -/
theorem event_call_keeps_what_was_recorded (cfg : DV.LoopEv.CfgEv ℚ) (s : Sys ℚ) (evs : List (Nat × ℚ)) (kn : List ℚ) (nEvents : Nat)
    (target : ℚ) (orc : DV.LoopEv.OracleEv ℚ) (fuel : Nat) (hne : s.ts ≠ []) :
    (∃ news, (DV.LoopEv.integrateEv cfg s evs kn nEvents target orc fuel).sys.ts = news ++ s.ts) ∧
    (∃ more, (DV.LoopEv.integrateEv cfg s evs kn nEvents target orc fuel).book.events = evs ++ more) :=
  ⟨(DVP.LoopEv.integrateEv_outcome cfg s evs kn nEvents target orc fuel hne).1,
   (DVP.LoopEv.integrateEv_outcome cfg s evs kn nEvents target orc fuel hne).2.1⟩

/-- **Dense output covers exactly the recorded steps, however the call ends** (forward integration, dense output
on, one piece per step).  If the container holds the pieces of the recorded steps when `integrate(t, events=…)`
is called, it holds exactly the pieces of the recorded steps when the call returns or raises: whatever the
integrator, the event functions (a raising one: the piece of the dropped step is taken out), the callbacks and
the nested call of a terminal event (the piece of the rolled-back step is taken out, the nested call's pieces are
added) do.  Hypothesis: accepted steps do not go backward (`0 ≤ dTime`), in the outer and in the nested calls. -/
theorem dense_pieces_are_the_recorded_steps (cfg : DV.LoopEv.CfgEv ℚ) (hd : cfg.dense = true) (s : Sys ℚ)
    (evs : List (Nat × ℚ)) (nEvents : Nat) (target : ℚ) (orc : DV.LoopEv.OracleEv ℚ) (fuel : Nat)
    (hf : DVP.LoopDense.FwdOrcEv orc) (hne : s.ts ≠ []) :
    (DV.LoopEv.integrateEv cfg s evs (DVP.LoopDense.knotsOf s.ts) nEvents target orc fuel).knots =
      DVP.LoopDense.knotsOf (DV.LoopEv.integrateEv cfg s evs (DVP.LoopDense.knotsOf s.ts) nEvents target orc fuel).sys.ts :=
  DVP.LoopDense.integrateEv_knots cfg hd s evs nEvents target orc fuel hf hne

/-- … and the mirror image for backward integration (strictly backward steps; the pieces are inserted at the front of
the container, which stays ordered by time): the knots are the recorded samples, newest first, without the first. -/
theorem dense_pieces_are_the_recorded_steps_backward (cfg : DV.LoopEv.CfgEv ℚ) (hd : cfg.dense = true) (s : Sys ℚ)
    (evs : List (Nat × ℚ)) (nEvents : Nat) (target : ℚ) (orc : DV.LoopEv.OracleEv ℚ) (fuel : Nat)
    (hf : DVP.LoopDense.BwdOrcEv orc) (hne : s.ts ≠ []) (ha : DVP.LoopDense.Asc s.ts) :
    (DV.LoopEv.integrateEv cfg s evs (DVP.LoopDense.knotsOfB s.ts) nEvents target orc fuel).knots =
      DVP.LoopDense.knotsOfB (DV.LoopEv.integrateEv cfg s evs (DVP.LoopDense.knotsOfB s.ts) nEvents target orc fuel).sys.ts :=
  DVP.LoopDense.integrateEv_knots_bwd cfg hd s evs nEvents target orc fuel hf hne ha

/-- non-vacuity (backward): a terminal event in the second step of a run from 1 to 0 -/
example :
    let cfg : DV.LoopEv.CfgEv ℚ := { loop := { eps := 1/2^50, tolEps := 1/2^47, half := 1/2 }, dupTol := 1/2^30 }
    let p : DV.Events.Probe ℚ := { root := 11/20, success := true, gm := 1, gc := 0, gp := -1, fields := [], direction := 0, terminal := true }
    let orc : DV.LoopEv.OracleEv ℚ := fun k _ h =>
      { base := { ret := .ok h h }, probes := if k = 1 then [p] else [], nested := fun _ _ h => { ret := .ok h h }, nestedFuel := 10 }
    let o := DV.LoopEv.integrateEv cfg (construct 1 0 (3/10)) [] [] 1 0 orc 50
    o.stopped = true ∧ o.sys.status = 2 ∧ o.sys.ts = [11/20, 5/8, 7/10, 1] ∧ o.knots = [11/20, 5/8, 7/10] := by decide +kernel

/-- non-vacuity: an event function that raises in the third step — two pieces for two recorded steps, status 3 -/
example :
    let cfg : DV.LoopEv.CfgEv ℚ := { loop := { eps := 1/2^50, tolEps := 1/2^47, half := 1/2 }, dupTol := 1/2^30 }
    let orc : DV.LoopEv.OracleEv ℚ := fun k _ h => { base := { ret := .ok h h }, evRaise := decide (k = 2) }
    let o := DV.LoopEv.integrateEv cfg (construct 0 1 (3/10)) [] [] 1 1 orc 50
    o.sys.status = 3 ∧ o.sys.ts = [3/5, 3/10, 0] ∧ o.knots = [3/10, 3/5] := by decide +kernel

end DVP.C12
