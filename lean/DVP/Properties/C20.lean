import DV
import DVP.Lemmas.Loop
/-!
# C20 — evaluation counters and callbacks are exact

`DV.Counters` mirrors the counter bookkeeping of `DiffRHS` (increment after the user function
returned; finite-difference Jacobians evaluate through the counting wrapper; `reset()` zeroes).
The callback clauses are statements about `DV.Loop.advance` (the loop model of C03).  The substance
of this property is the correspondence run (`harness/p_c20.py`): an independent counter inside the
user's function vs `nfev`/`njev` for every method family, with events, dense output, rejected
steps, failures and resets; callback order, visibility and once-per-step.
-/
namespace DVP.C20
open DV DV.Counters

private theorem run_append (s : St) (a b : List Op) : run s (a ++ b) = run (run s a) b := by
  simp [run, List.foldl_append]

/-- a history without resets -/
def NoReset (ops : List Op) : Prop := ∀ op ∈ ops, op ≠ Op.reset

/-- **Counters are exact (1)**: over any history of right-hand-side calls (completing or raising)
and Jacobian requests (user-supplied or by finite differences, completing or raising) the counters
grow by exactly the number of completed right-hand-side calls — including those made for
finite-difference Jacobians — and the number of completed Jacobian requests. -/
theorem counters_count_completed_calls : ∀ (ops : List Op) (s : St), NoReset ops →
    (run s ops).nfev = s.nfev + completedCalls ops ∧ (run s ops).njev = s.njev + completedJacs ops := by
  intro ops
  induction ops with
  | nil => intro s _; simp [run, completedCalls, completedJacs]
  | cons op r ih =>
    intro s hnr
    have hr : NoReset r := fun o ho => hnr o (List.mem_cons_of_mem _ ho)
    have hop : op ≠ Op.reset := hnr op (List.mem_cons_self ..)
    have := ih (step s op) hr
    simp only [run, List.foldl_cons] at this ⊢
    cases op with
    | call ok => cases ok <;> simp [step, completedCalls, completedJacs] at this ⊢ <;> omega
    | jacUser ok => cases ok <;> simp [step, completedCalls, completedJacs] at this ⊢ <;> omega
    | jacFD evals ok => cases ok <;> simp [step, completedCalls, completedJacs] at this ⊢ <;> omega
    | reset => exact absurd rfl hop

/-- **Counters are exact (2)**: a reset forgets everything before it — whatever happened earlier, the
counters after `… reset, later` are those of a fresh wrapper after `later` -/
theorem reset_forgets (s : St) (before later : List Op) :
    run s (before ++ [Op.reset] ++ later) = run {} later := by
  rw [run_append, run_append]
  simp [run, step]

/-- both together: since construction or the last reset -/
theorem counters_since_last_reset (s : St) (before later : List Op) (h : NoReset later) :
    (run s (before ++ [Op.reset] ++ later)).nfev = completedCalls later ∧
    (run s (before ++ [Op.reset] ++ later)).njev = completedJacs later := by
  rw [reset_forgets]
  have := counters_count_completed_calls later {} h
  simpa using this

/-! ## callbacks (loop model) -/
open DV.Loop DVP.Loop

/-- a step size assigned by a callback (through the property setter, which fixes its sign against
the system's own span) is the step stored after that iteration … -/
theorem callback_dt_is_stored (target : ℚ) (s : Sys ℚ) (it : Iter ℚ) (newDt dT v : ℚ) (g : Nat)
    (hcb : it.cbDt = some v) : (advance target s it newDt dT g).dt = fixDir v (s.tf - s.t0) := by
  unfold advance; simp [hcb]

/-- … and it is the one requested from the integrator in the next iteration unless that step is the
clipped final one -/
theorem callback_dt_used_next (target : ℚ) (s : Sys ℚ) (it : Iter ℚ) (newDt dT v : ℚ) (g : Nat)
    (hcb : it.cbDt = some v) (hnf : isFinal target (advance target s it newDt dT g) = false) :
    DV.Loop.request target (advance target s it newDt dT g) = fixDir v (s.tf - s.t0) := by
  unfold DV.Loop.request
  rw [hnf]
  simp only [Bool.false_eq_true, if_false]
  exact callback_dt_is_stored target s it newDt dT v g hcb

/-- the callbacks run after the new sample is recorded: the state they see has the new time as its
current time -/
theorem callback_sees_recorded_step (target : ℚ) (s : Sys ℚ) (it : Iter ℚ) (newDt dT : ℚ) (g : Nat) :
    (advance target s it newDt dT g).tcur = s.tcur + dT ∧ (advance target s it newDt dT g).ts.length = s.ts.length + 1 :=
  ⟨rfl, by simp [advance]⟩

example : (run {} [.call true, .call false, .jacFD 9 true, .reset, .call true, .jacUser true, .jacFD 4 false]) = { nfev := 5, njev := 1 } := by decide

end DVP.C20
