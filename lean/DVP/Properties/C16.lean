import DV
import DVP.Lemmas.Brent
import Mathlib.Algebra.Module.LinearMap.Defs
import Mathlib.Tactic.Module
import Mathlib.Tactic.FieldSimp
/-!
# C16 — Jacobians are the true derivative, from the user's function when one is given

PARTIAL.  **Proved**: the dispatch of `DiffRHS.jac` (`DV.Jac` mirrors the private state machine; tied
to the code by replaying random op sequences on the real wrapper and observing who answered and at
which time the right-hand side was evaluated): for every sequence of `jac(t, y)` / hook / unhook /
`set_jac_base_order` the request is answered by the user's Jacobian whenever one is attached, else by
the right-hand side's own `jac`, else by finite differences of the right-hand side **at the requested
time** — never at a cached time; and the finite-difference stencils (regenerated from the code) are
exact on polynomials of degree below their node count.  **Not proved** (numerical analysis): accuracy
of the Richardson-extrapolated finite differences on non-polynomial functions; layout and accuracy
are measured on the implementation (`harness/p_c16.py`).
-/
namespace DVP.C16
open DV DV.Jac

/-- invariant linking the private state to the ghost "currently attached user function" -/
def Inv (s : St) (attached : Option Nat) : Prop :=
  (s.wrapped = true → s.rhsHasJac = false) ∧
  (∀ g, attached = some g → s.jac = .hooked g ∧ s.wrapped = false) ∧
  (attached = none →
    (s.jac = .none ∧ s.initialised = false) ∨
    (s.jac = .rhsAttr ∧ s.wrapped = false ∧ s.rhsHasJac = true ∧ s.initialised = true) ∨
    ((∃ τ raw, s.jac = .fd τ raw ∧ s.time = some τ) ∧ s.wrapped = true))

private theorem inv_fresh (r : Bool) : Inv { rhsHasJac := r } none := by
  refine ⟨by simp, by simp, fun _ => Or.inl ⟨rfl, rfl⟩⟩

/-- the state right before the answer is computed, in each case of the invariant -/
private theorem step_jac (s : St) (t : Nat) :
    (step s (.jac t)).2 = some (answerOf (refresh (initIfNeeded s) t).jac) ∧
    (step s (.jac t)).1.jac = (refresh (initIfNeeded s) t).jac ∧
    (step s (.jac t)).1.wrapped = (refresh (initIfNeeded s) t).wrapped ∧
    (step s (.jac t)).1.time = (refresh (initIfNeeded s) t).time ∧
    (step s (.jac t)).1.initialised = (refresh (initIfNeeded s) t).initialised ∧
    (step s (.jac t)).1.rhsHasJac = (refresh (initIfNeeded s) t).rhsHasJac := ⟨rfl, rfl, rfl, rfl, rfl, rfl⟩

/-- one operation keeps the invariant, and a `jac` request is answered according to the specification -/
theorem step_correct (s : St) (attached : Option Nat) (op : Op) (h : Inv s attached) :
    Inv (step s op).1 (attachedAfter attached op) ∧
    (∀ t, op = .jac t → ∃ a, (step s op).2 = some a ∧ Spec s.rhsHasJac attached t a) := by
  obtain ⟨h1, h2, h3⟩ := h
  cases op with
  | hook g =>
    refine ⟨⟨by simp [step], by simp [step, attachedAfter], by simp [attachedAfter]⟩, by simp⟩
  | unhook =>
    refine ⟨⟨by simpa [step] using h1, by simp [attachedAfter], fun _ => Or.inl (by simp [step])⟩, by simp⟩
  | setOrder =>
    refine ⟨?_, by simp⟩
    by_cases hw : s.wrapped = true
    · have hr := h1 hw
      cases attached with
      | some g => have := (h2 g rfl).2; simp [hw] at this
      | none =>
        refine ⟨by simp [step, hw, hr], by simp [attachedAfter], fun _ => Or.inr (Or.inr ?_)⟩
        simp [step, hw]
    · have hw' : s.wrapped = false := by simpa using hw
      simp only [step, hw', Bool.false_eq_true, if_false, attachedAfter]
      exact ⟨h1, h2, h3⟩
  | jac t =>
    obtain ⟨a1, a2, a3, a4, a5, a6⟩ := step_jac s t
    -- describe the state `refresh (initIfNeeded s) t` in each case
    cases attached with
    | some g =>
      obtain ⟨hj, hw⟩ := h2 g rfl
      have e : (refresh (initIfNeeded s) t).jac = .hooked g ∧ (refresh (initIfNeeded s) t).wrapped = false := by
        unfold refresh initIfNeeded
        split <;> split <;> simp_all
      refine ⟨⟨by rw [a3, e.2]; simp, ?_, by simp [attachedAfter]⟩, ?_⟩
      · intro g' hg'
        simp only [attachedAfter] at hg'
        cases hg'
        rw [a2, a3]; exact e
      · intro t' ht'
        cases ht'
        exact ⟨.user g, by rw [a1, e.1]; rfl, by simp [Spec]⟩
    | none =>
      rcases h3 rfl with ⟨hj, hi⟩ | ⟨hj, hw, hr, hi⟩ | ⟨⟨τ, raw, hj, ht⟩, hw⟩
      · by_cases hr : s.rhsHasJac = true
        · have e : (refresh (initIfNeeded s) t).jac = .rhsAttr ∧ (refresh (initIfNeeded s) t).wrapped = false ∧
              (refresh (initIfNeeded s) t).initialised = true ∧ (refresh (initIfNeeded s) t).rhsHasJac = true := by
            unfold refresh initIfNeeded; simp [hi, hj, hr]
          refine ⟨⟨by rw [a3, e.2.1]; simp, by simp [attachedAfter], fun _ => Or.inr (Or.inl ⟨by rw [a2]; exact e.1, by rw [a3]; exact e.2.1, by rw [a6]; exact e.2.2.2, by rw [a5]; exact e.2.2.1⟩)⟩, ?_⟩
          intro t' ht'; cases ht'
          exact ⟨.rhsAttr, by rw [a1, e.1]; rfl, by simp [Spec, hr]⟩
        · have hr' : s.rhsHasJac = false := by simpa using hr
          have e : (refresh (initIfNeeded s) t).jac = .fd t false ∨ ((refresh (initIfNeeded s) t).jac = .fd 0 false ∧ t = 0) := by
            unfold refresh initIfNeeded
            by_cases h0 : t = 0
            · right; subst h0; simp [hi, hj, hr']
            · left; simp [hi, hj, hr', Ne.symm h0]
          have e2 : (refresh (initIfNeeded s) t).wrapped = true ∧ (refresh (initIfNeeded s) t).rhsHasJac = false ∧
              ∃ τ raw, (refresh (initIfNeeded s) t).jac = .fd τ raw ∧ (refresh (initIfNeeded s) t).time = some τ := by
            unfold refresh initIfNeeded
            by_cases h0 : t = 0
            · subst h0; simp [hi, hj, hr']
            · simp [hi, hj, hr']
              split <;> simp_all
          refine ⟨⟨by intro _; rw [a6]; exact e2.2.1, by simp [attachedAfter], fun _ => Or.inr (Or.inr ⟨?_, by rw [a3]; exact e2.1⟩)⟩, ?_⟩
          · obtain ⟨τ, raw, q1, q2⟩ := e2.2.2
            exact ⟨τ, raw, by rw [a2]; exact q1, by rw [a4]; exact q2⟩
          · intro t' ht'; cases ht'
            rcases e with e | ⟨e, h0⟩
            · exact ⟨.fd t false, by rw [a1, e]; rfl, by simp [Spec, hr']⟩
            · subst h0
              exact ⟨.fd 0 false, by rw [a1, e]; rfl, by simp [Spec, hr']⟩
      · have e : (refresh (initIfNeeded s) t) = s := by unfold refresh initIfNeeded; simp [hi, hw]
        refine ⟨⟨by rw [a3, e, hw]; simp, by simp [attachedAfter], fun _ => Or.inr (Or.inl ⟨by rw [a2, e]; exact hj, by rw [a3, e]; exact hw, by rw [a6, e]; exact hr, by rw [a5, e]; exact hi⟩)⟩, ?_⟩
        intro t' ht'; cases ht'
        exact ⟨.rhsAttr, by rw [a1, e, hj]; rfl, by simp [Spec, hr]⟩
      · have hr := h1 hw
        have e : (refresh (initIfNeeded s) t).wrapped = true ∧ (refresh (initIfNeeded s) t).rhsHasJac = false ∧
            (refresh (initIfNeeded s) t).time = some ((if τ = t then τ else t)) ∧
            (refresh (initIfNeeded s) t).jac = (if τ = t then Fn.fd τ raw else Fn.fd t false) := by
          unfold refresh initIfNeeded
          by_cases hτ : τ = t
          · subst hτ; split <;> simp_all
          · split <;> simp_all
        obtain ⟨e1, e2, e3, e4⟩ := e
        refine ⟨⟨by intro _; rw [a6]; exact e2, by simp [attachedAfter], fun _ => Or.inr (Or.inr ⟨?_, by rw [a3]; exact e1⟩)⟩, ?_⟩
        · by_cases hτ : τ = t
          · exact ⟨τ, raw, by rw [a2, e4, if_pos hτ], by rw [a4, e3, if_pos hτ]⟩
          · exact ⟨t, false, by rw [a2, e4, if_neg hτ], by rw [a4, e3, if_neg hτ]⟩
        · intro t' ht'; cases ht'
          by_cases hτ : τ = t
          · subst hτ
            exact ⟨.fd τ raw, by rw [a1, e4, if_pos rfl]; rfl, by simp [Spec, hr]⟩
          · exact ⟨.fd t false, by rw [a1, e4, if_neg hτ]; rfl, by simp [Spec, hr]⟩

private theorem refresh_rhsHasJac (s : St) (t : Nat) : (refresh s t).rhsHasJac = s.rhsHasJac := by
  unfold refresh; split <;> rfl

private theorem initIfNeeded_rhsHasJac (s : St) : (initIfNeeded s).rhsHasJac = s.rhsHasJac := by
  unfold initIfNeeded
  by_cases h1 : s.initialised = true
  · simp [h1]
  · by_cases h2 : s.jac = .none
    · by_cases h3 : s.rhsHasJac = true <;> simp [h1, h2, h3]
    · simp [h1, h2]

private theorem step_keeps_rhsHasJac (s : St) (op : Op) : (step s op).1.rhsHasJac = s.rhsHasJac := by
  cases op with
  | jac t =>
    show (refresh (initIfNeeded s) t).rhsHasJac = s.rhsHasJac
    rw [refresh_rhsHasJac, initIfNeeded_rhsHasJac]
  | hook g => rfl
  | unhook => rfl
  | setOrder => simp only [step]; split <;> rfl

/-- the invariant holds along every operation sequence -/
private theorem inv_along (ops : List Op) : ∀ (s : St) (a : Option Nat), Inv s a →
    Inv (ops.foldl (fun s op => (step s op).1) s) (ops.foldl attachedAfter a) ∧
    (ops.foldl (fun s op => (step s op).1) s).rhsHasJac = s.rhsHasJac := by
  induction ops with
  | nil => intro s a h; exact ⟨h, rfl⟩
  | cons op r ih =>
    intro s a h
    have h1 := (step_correct s a op h).1
    have h2 := ih (step s op).1 (attachedAfter a op) h1
    exact ⟨h2.1, by simp only [List.foldl_cons]; rw [h2.2, step_keeps_rhsHasJac]⟩

/-- **Dispatch is correct after any history**: after every sequence of `jac(t, y)` calls at varying
times, hooks, unhooks, assignments and `set_jac_base_order` calls on a fresh wrapper, the next
request `jac(t, y)` is answered by the user's Jacobian if one is attached, else by the right-hand
side's own `jac` attribute, else by finite differences of the right-hand side evaluated **at the
requested time `t`** (never at a time cached from an earlier call); it never fails. -/
theorem dispatch_correct (rhsHasJac : Bool) (ops : List Op) (t : Nat) :
    ∃ a, (step (ops.foldl (fun s op => (step s op).1) { rhsHasJac := rhsHasJac }) (.jac t)).2 = some a ∧
      Spec rhsHasJac (ops.foldl attachedAfter none) t a := by
  have h := inv_along ops { rhsHasJac := rhsHasJac } none (inv_fresh rhsHasJac)
  obtain ⟨a, h1, h2⟩ := (step_correct _ _ (.jac t) h.1).2 t rfl
  refine ⟨a, h1, ?_⟩
  rw [h.2] at h2
  exact h2

/-- **The finite-difference stencils differentiate polynomials exactly**: every stencil the code builds
(`get_finite_difference_weights` with 2..8 nodes, regenerated from `/repo` as the float64 values it
returns, after the code's own filter of negligible weights) satisfies `Σ_k w_k x_k^j = [j = 1]` for
all `j` below its node count, to `1e-12` — so the column estimate `Σ_k w_k f(y + x_k δ e_j) / δ` is
the exact partial derivative for polynomial maps of that degree (and for every affine map) -/
theorem stencils_exact :
    DV.Gen.allStencils.all (fun s => stencilExact s.K s.nodes s.weights s.n (10 ^ 12)) = true := by decide +kernel

/-- the repaired defect P16 as a regression example, and a time-cache example: after a finite-
difference request at time 3, hook, unhook, the request at time 7 is answered by finite differences
at time 7 -/
example : (run { rhsHasJac := false } [.jac 3, .hook 11, .jac 4, .unhook, .jac 7, .jac 7, .setOrder, .jac 0, .jac 2]).2 =
    [.fd 3 false, .user 11, .fd 7 false, .fd 7 false, .fd 0 true, .fd 2 false] := by decide

/-- the sums a stencil is judged by -/
def wSum (st : List (ℚ × ℚ)) : ℚ := (st.map (·.2)).sum
def wxSum (st : List (ℚ × ℚ)) : ℚ := (st.map (fun p => p.2 * p.1)).sum

private theorem fd_fold {W V : Type} [AddCommGroup W] [Module ℚ W] [AddCommGroup V] [Module ℚ V] (L : W →ₗ[ℚ] V) (c : V) (y e : W) (dy : ℚ) :
    ∀ (st : List (ℚ × ℚ)) (acc : V),
      st.foldl (fun acc p => acc + p.2 • (L (y + (p.1 * dy) • e) + c)) acc =
        acc + wSum st • (L y + c) + (dy * wxSum st) • L e
  | [], acc => by simp [wSum, wxSum]
  | p :: st, acc => by
    rw [List.foldl_cons, fd_fold L c y e dy st]
    simp only [wSum, wxSum, List.map_cons, List.sum_cons, map_add, map_smul]
    module

/-- **To rounding for linear maps, laid out column by column**: for every affine map `f(y) = L y + c` (any input and output
spaces), every point, every input direction `e` and every step `dy ≠ 0`, the column the coded loop computes is
`(Σ w_k / dy) · f(y) + (Σ w_k x_k) · L e` - the derivative of every output with respect to that input, times `Σ w_k x_k`,
plus `f(y)` times the defect `Σ w_k` of the stencil over `dy`.  With `stencils_exact` (`|Σ w_k| ≤ 1e-12`,
`|Σ w_k x_k - 1| ≤ 1e-12` for the regenerated stencils) this is the derivative to rounding. -/
theorem fd_column_of_affine_map {W V : Type} [AddCommGroup W] [Module ℚ W] [AddCommGroup V] [Module ℚ V] (L : W →ₗ[ℚ] V) (c : V)
    (y e : W) (dy : ℚ) (hdy : dy ≠ 0) (st : List (ℚ × ℚ)) :
    fdColumn (α := ℚ) ⟨(· + ·), (· • ·), 0⟩ ⟨(· + ·), (· • ·), 0⟩ (fun w => L w + c) y e dy st =
      (wSum st / dy) • (L y + c) + wxSum st • L e := by
  unfold fdColumn
  simp only [DVP.Brent.lit_rat, Nat.cast_one]
  rw [fd_fold L c y e dy st 0, zero_add, smul_add, smul_smul, smul_smul]
  congr 1
  · congr 1; field_simp
  · congr 1; field_simp

/-- an exact stencil (`Σ w_k = 0`, `Σ w_k x_k = 1`) returns exactly the derivative of an affine map, whatever the step -/
theorem fd_column_exact_stencil {W V : Type} [AddCommGroup W] [Module ℚ W] [AddCommGroup V] [Module ℚ V] (L : W →ₗ[ℚ] V) (c : V)
    (y e : W) (dy : ℚ) (hdy : dy ≠ 0) (st : List (ℚ × ℚ)) (h0 : wSum st = 0) (h1 : wxSum st = 1) :
    fdColumn (α := ℚ) ⟨(· + ·), (· • ·), 0⟩ ⟨(· + ·), (· • ·), 0⟩ (fun w => L w + c) y e dy st = L e := by
  rw [fd_column_of_affine_map L c y e dy hdy st, h0, h1]; simp

/-- non-vacuity: the central difference `[(-1, -1/2), (1, 1/2)]` on `f(y) = 3 y + 2` over ℚ -/
example : fdColumn (α := ℚ) (W := ℚ) (V := ℚ) ⟨(· + ·), (· * ·), 0⟩ ⟨(· + ·), (· * ·), 0⟩ (fun w => 3 * w + 2) 5 1 (1/8) [(-1, -1/2), (1, 1/2)] = 3 := by
  decide +kernel

end DVP.C16
