import DVP.Lemmas.LoopFixed
import DVP.Lemmas.LoopEquiv
import DVP.Lemmas.RK
import DVP.Lemmas.RKEquiv
import DVP.Lemmas.Run
/-!
# C04 — fixed-step methods take the requested step wherever the time axis sits

Same loop model as C03 (`DV.Loop`, tied to the code by bit-exact replay).  A non-adaptive explicit
or splitting integrator is the oracle `fixedOrc`: it takes every requested step whole and proposes
the same step again (this is what `RungeKuttaIntegrator.__call__` / `ExplicitSymplecticIntegrator.
__call__` return when the method is neither adaptive nor implicit; checked on every recorded
return of the real integrators).

PARTIAL.  Proved: the requested steps; shift and reflection equivariance of the whole time-grid
state machine relative to an integrator whose returns are equivariant (`shift_equivariance`,
`reflection_equivariance`), and that the explicit Runge–Kutta step of an autonomous right-hand side
does not see the time at all (`autonomous_step_ignores_time`) and that the step of the time-reversed
problem is the mirrored step (`step_reflection`).  Known finding P8 (implicit fixed-step methods): the step
controller runs with a zero error estimate and *grows* the step — the parenthesis of the property
("an implicit method may only shorten a step whose stage equations fail to converge") is false of
the code.  The computed STATES of shifted / reflected fixed-step runs are part of the whole-run model `DV.Run`
(`shifted_run_computes_same_states`, `reflected_run_computes_same_states`: identical in exact arithmetic, so what
the implementation may differ by is rounding); for adaptive methods the agreement is measured only.
-/
namespace DVP.C04
open DV DV.Loop DVP.Loop

/-- **Every requested step except possibly the last equals `dt` exactly and none is longer**, for
every span (any signs, either direction), every `dt ≠ 0` pointing at the target, every number of
steps. -/
theorem fixed_step_requests (cfg : Cfg ℚ) (htol : 0 < cfg.tolEps) (target d : ℚ) (hd : d ≠ 0)
    (fuel : Nat) (s : Sys ℚ) (hs : s.dt = d) (hdir : 0 < d * (target - s.tcur)) :
    ReqsOK d (loop cfg target fixedOrc fuel 0 s []).reqs :=
  loop_fixed_requests cfg htol target d hd fuel 0 s [] (Or.inr ⟨hs, hdir⟩) trivial (fun _ _ h => absurd h (List.not_mem_nil))

/-- the step `integrate` starts from (`initialDt`: direction fixed against the target, clipped to half
the span when longer than the span) points at the target, so the previous theorem applies to every
`integrate` call whatever the sign the user gave `dt` -/
theorem integrate_initial_step_points_at_target (cfg : Cfg ℚ) (hhalf : 0 < cfg.half) (s : Sys ℚ) (target : ℚ)
    (hdt : s.dt ≠ 0) (hD : target ≠ s.tcur) : 0 < initialDt cfg s target * (target - s.tcur) :=
  initialDt_toward cfg hhalf s target hdt hD

/-- … and has the magnitude the user asked for whenever that is not longer than the span -/
theorem integrate_initial_step_magnitude (cfg : Cfg ℚ) (s : Sys ℚ) (target : ℚ)
    (hle : |s.dt| ≤ |target - s.tcur|) : |initialDt cfg s target| = |s.dt| := by
  unfold initialDt
  simp only [DVP.Brent.absC_rat, fixDir_abs]
  rw [if_neg (not_lt.mpr hle)]
  exact fixDir_abs _ _

/-- the recorded steps are the requested ones: the fixed-step integrator honours the contract, so
all of C03 applies as well -/
theorem fixed_oracle_honours_contract : OracleOK fixedOrc := fixedOrc_ok

/-- **Shift equivariance**: for every system, target, shift `c`, integrator/callback oracle and number
of steps, integrating the system shifted by `c` to the shifted target — with the same integrator seen
from shifted time, i.e. one whose returns do not depend on where the time axis sits — records exactly
the shifted times, makes the same requests, ends with the same `dt` and the same status. -/
theorem shift_equivariance (cfg : Cfg ℚ) (c target : ℚ) (s : Sys ℚ) (orc : Oracle ℚ) (fuel : Nat) :
    let a := integrate cfg (shiftSys c s) (target + c) (shiftOrc c orc) fuel
    let b := integrate cfg s target orc fuel
    a.sys.ts = b.sys.ts.map (· + c) ∧ a.reqs.map (·.h) = b.reqs.map (·.h) ∧ a.sys.dt = b.sys.dt ∧
      a.sys.status = b.sys.status ∧ a.iters = b.iters := by
  simp only [integrate_shift]
  refine ⟨rfl, ?_, rfl, rfl, rfl⟩
  simp [shiftOut, shiftReq, Function.comp_def]

/-- **Reflection equivariance**: the time-reversed system integrated to the mirrored target with the
integrator of the time-reversed problem records the mirrored times with the mirrored steps. -/
theorem reflection_equivariance (cfg : Cfg ℚ) (target : ℚ) (s : Sys ℚ) (orc : Oracle ℚ) (fuel : Nat) :
    let a := integrate cfg (reflSys s) (-target) (reflOrc orc) fuel
    let b := integrate cfg s target orc fuel
    a.sys.ts = b.sys.ts.map (fun t => -t) ∧ a.reqs.map (·.h) = b.reqs.map (fun r => -r.h) ∧ a.sys.dt = -b.sys.dt ∧
      a.sys.status = b.sys.status ∧ a.iters = b.iters := by
  simp only [integrate_refl]
  refine ⟨rfl, ?_, rfl, rfl, rfl⟩
  simp [reflOut, reflReq, Function.comp_def]

/-- the fixed-step integrator is such an integrator: it is its own shifted and reflected version -/
theorem fixed_oracle_equivariant (c : ℚ) : shiftOrc c fixedOrc = fixedOrc ∧ reflOrc fixedOrc = fixedOrc := by
  constructor
  · funext k t h; rfl
  · funext k t h; simp [reflOrc, reflIter, fixedOrc]

/-- **An autonomous right-hand side makes the explicit Runge–Kutta step independent of the time**:
the increment, the end slope and the stages are the same wherever the step starts (so the returns of
the real integrator on an autonomous system do not depend on the shift — the hypothesis under which
`shift_equivariance` speaks about actual runs). -/
theorem autonomous_step_ignores_time {V : Type} (ops : DV.RK.VOps ℚ V) (g : V → V) (t t' : ℚ) (y : V) (h : ℚ)
    (c : List ℚ) (A : List (List ℚ)) (b : List ℚ) (fsal : Bool) (stages : List V) :
    DV.RK.rkStepExplicit ops (fun _ y => g y) t y h c A b fsal stages =
      DV.RK.rkStepExplicit ops (fun _ y => g y) t' y h c A b fsal stages := rfl

/-- **Reflection of the explicit Runge–Kutta step**: for every right-hand side `f`, explicit or FSAL
table, state and step `h` of either sign, the step of the time-reversed problem
`f'(τ, y) = −f(−τ, y)` by `−h` from `−t` yields the same increment (hence the same new state), the
negated stage slopes and the negated end slope — the returns of the real integrator on the reflected
problem are the mirrored ones, the hypothesis under which `reflection_equivariance` speaks about runs. -/
theorem step_reflection {V : Type} [AddCommGroup V] [Module ℚ V] (f : ℚ → V → V) (t : ℚ) (y : V) (h : ℚ)
    (c : List ℚ) (A : List (List ℚ)) (b : List ℚ) (fsal : Bool) (stages : List V) :
    let o' := DV.RK.rkStepExplicit (DVP.RK.modOps (V := V)) (DVP.RK.reflF f) (-t) y (-h) c A b fsal (stages.map (fun k => -k))
    let o := DV.RK.rkStepExplicit (DVP.RK.modOps (V := V)) f t y h c A b fsal stages
    o'.dState = o.dState ∧ o'.finalRhs = -o.finalRhs ∧ o'.stages = o.stages.map (fun k => -k) :=
  DVP.RK.rkStep_reflection f t y h c A b fsal stages

/-- **Shifting the whole span of an autonomous system changes no computed state** (fixed-step explicit
Runge–Kutta and splitting methods, exact arithmetic): the run of the system shifted by `c`, to the shifted
target, records the shifted times and exactly the same states, whatever the span, the step, the number of
steps and the earlier calls.  `inc` is the increment of one step; the hypothesis is that it does not see
the time, which `rk_increment_ignores_time_when_autonomous` provides for every table and every `g`. -/
theorem shifted_run_computes_same_states {V : Type} (cfg : Cfg ℚ) (add : V → V → V) (inc : ℚ → V → ℚ → V) (c : ℚ)
    (hinc : ∀ t y h, inc (t + c) y h = inc t y h) (s : DV.Run.SysY ℚ V) (target : ℚ) (fuel : Nat) :
    let a := DV.Run.integrate cfg add inc { sys := shiftSys c s.sys, ys := s.ys } (target + c) fuel
    let b := DV.Run.integrate cfg add inc s target fuel
    a.ys = b.ys ∧ a.sys.ts = b.sys.ts.map (· + c) := by
  simp only [DVP.Run.integrate_shift_states cfg add inc c hinc s target fuel]
  simp [shiftSys]

/-- the hypothesis of the previous theorem for the shipped step maps: explicit Runge–Kutta tables and
drift/kick compositions applied to an autonomous right-hand side -/
theorem rk_increment_ignores_time_when_autonomous {V : Type} (ops : DV.RK.VOps ℚ V) (g : V → V) (c : List ℚ) (A : List (List ℚ))
    (b : List ℚ) (fsal : Bool) (mm : ℚ → ℚ → V → V) (drift kick : List ℚ) (shift t : ℚ) (y : V) (h : ℚ) :
    DV.Run.rkInc ops (fun _ y => g y) c A b fsal (t + shift) y h = DV.Run.rkInc ops (fun _ y => g y) c A b fsal t y h ∧
    DV.Run.splitInc ops (fun _ y => g y) mm drift kick (t + shift) y h = DV.Run.splitInc ops (fun _ y => g y) mm drift kick t y h :=
  ⟨DVP.Run.rkInc_autonomous ops g c A b fsal _ _ y h, DVP.Run.splitInc_autonomous ops g mm drift kick _ _ y h⟩

/-- **Integrating the time-reflected problem backward changes no computed state** (same methods, exact
arithmetic): the mirrored system run to the mirrored target with the step map of the time-reversed problem
`f'(τ, y) = −f(−τ, y)` records the mirrored times and exactly the same states. -/
theorem reflected_run_computes_same_states {V : Type} (cfg : Cfg ℚ) (add : V → V → V) (inc inc' : ℚ → V → ℚ → V)
    (hinc : ∀ t y h, inc' (-t) y (-h) = inc t y h) (s : DV.Run.SysY ℚ V) (target : ℚ) (fuel : Nat) :
    let a := DV.Run.integrate cfg add inc' { sys := reflSys s.sys, ys := s.ys } (-target) fuel
    let b := DV.Run.integrate cfg add inc s target fuel
    a.ys = b.ys ∧ a.sys.ts = b.sys.ts.map (fun t => -t) := by
  simp only [DVP.Run.integrate_refl_states cfg add inc inc' hinc s target fuel]
  simp [reflSys]

/-- the hypothesis of the previous theorem for the shipped step maps, for EVERY right-hand side (autonomous
or not): the increment of the time-reversed problem over the mirrored step is the same increment -/
theorem increment_of_reversed_problem {W : Type} [AddCommGroup W] [Module ℚ W] (f : ℚ → W → W) (c : List ℚ) (A : List (List ℚ))
    (b : List ℚ) (fsal : Bool) (mm : ℚ → ℚ → W → W) (drift kick : List ℚ) (t : ℚ) (y : W) (h : ℚ) :
    DV.Run.rkInc (DVP.RK.modOps (V := W)) (DVP.RK.reflF f) c A b fsal (-t) y (-h) = DV.Run.rkInc (DVP.RK.modOps (V := W)) f c A b fsal t y h ∧
    DV.Run.splitInc (DVP.RK.modOps (V := W)) (DVP.RK.reflF f) mm drift kick (-t) y (-h) =
      DV.Run.splitInc (DVP.RK.modOps (V := W)) f mm drift kick t y h :=
  ⟨DVP.Run.rkInc_reflection f c A b fsal t y h, DVP.Run.splitInc_reflection f mm drift kick t y h⟩

/-- non-vacuity: backward over a mixed-sign span, 0.3 does not divide 0.75: requests -0.3, -0.3, -0.15 -/
example : ((integrate (α := ℚ) { eps := 1/2^50, tolEps := 1/2^47, half := 1/2 } (construct (α := ℚ) (1/2) (-1/4) (3/10)) (-1/4)
    fixedOrc 10).reqs.reverse.map (·.h) = [-3/10, -3/10, -3/20]) := by decide +kernel

end DVP.C04
