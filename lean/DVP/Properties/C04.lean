import DVP.Lemmas.LoopFixed
/-!
# C04 — fixed-step methods take the requested step wherever the time axis sits

Same loop model as C03 (`DV.Loop`, tied to the code by bit-exact replay).  A non-adaptive explicit
or splitting integrator is the oracle `fixedOrc`: it takes every requested step whole and proposes
the same step again (this is what `RungeKuttaIntegrator.__call__` / `ExplicitSymplecticIntegrator.
__call__` return when the method is neither adaptive nor implicit; checked on every recorded
return of the real integrators).

PARTIAL.  Proved: the requested steps.  Known finding P8 (implicit fixed-step methods): the step
controller runs with a zero error estimate and *grows* the step — the parenthesis of the property
("an implicit method may only shorten a step whose stage equations fail to converge") is false of
the code.  Checked on the implementation only (states are not part of the loop model): shift and
reflection invariance of the computed states.
-/
namespace DVP.C04
open DV DV.Loop DVP.Loop

/-- **Every requested step except possibly the last equals `dt` exactly and none is longer**, for
every span (any signs, either direction), every `dt ≠ 0` pointing at the target, every number of
steps. -/
theorem fixed_step_requests (cfg : Cfg ℚ) (htol : 0 < cfg.tolEps) (target d : ℚ) (hd : d ≠ 0)
    (fuel : Nat) (s : Sys ℚ) (hs : s.dt = d) (hdir : 0 < d * (target - s.tcur)) :
    ReqsOK d (loop cfg target fixedOrc fuel 0 s []).reqs :=
  loop_fixed_requests cfg htol target d hd fuel 0 s [] (Or.inr ⟨hs, hdir⟩) trivial (fun _ _ h => absurd h (List.not_mem_nil))

/-- the step `integrate` starts from (`initialDt`: direction fixed against the target, clipped to half
the span when longer than the span) points at the target, so the previous theorem applies to every
`integrate` call whatever the sign the user gave `dt` -/
theorem integrate_initial_step_points_at_target (cfg : Cfg ℚ) (hhalf : 0 < cfg.half) (s : Sys ℚ) (target : ℚ)
    (hdt : s.dt ≠ 0) (hD : target ≠ s.tcur) : 0 < initialDt cfg s target * (target - s.tcur) :=
  initialDt_toward cfg hhalf s target hdt hD

/-- … and has the magnitude the user asked for whenever that is not longer than the span -/
theorem integrate_initial_step_magnitude (cfg : Cfg ℚ) (s : Sys ℚ) (target : ℚ)
    (hle : |s.dt| ≤ |target - s.tcur|) : |initialDt cfg s target| = |s.dt| := by
  unfold initialDt
  simp only [DVP.Brent.absC_rat, fixDir_abs]
  rw [if_neg (not_lt.mpr hle)]
  exact fixDir_abs _ _

/-- the recorded steps are the requested ones: the fixed-step integrator honours the contract, so
all of C03 applies as well -/
theorem fixed_oracle_honours_contract : OracleOK fixedOrc := fixedOrc_ok

/-- non-vacuity: backward over a mixed-sign span, 0.3 does not divide 0.75: requests -0.3, -0.3, -0.15 -/
example : ((integrate (α := ℚ) { eps := 1/2^50, tolEps := 1/2^47, half := 1/2 } (construct (α := ℚ) (1/2) (-1/4) (3/10)) (-1/4)
    fixedOrc 10).reqs.reverse.map (·.h) = [-3/10, -3/10, -3/20]) := by decide +kernel

end DVP.C04
