import DVP.Lemmas.Bisect
import DVP.Lemmas.Hermite
/-!
# C17 — interval lookup and Hermite interpolation primitives are exact

Property theorems only.  The bisection models (`DV.Bisect.searchS`, `searchV`) are hand-written
mirrors of `search_bisection` / `search_bisection_vec` (tied to the code by the exhaustive
correspondence run of `harness/p_c17.py`); the Hermite definitions `DVP.Gen.Hermite.call/grad` are
regenerated from `interpolation.py` on every run by the translator.
-/
namespace DVP.C17
open DV.Bisect DVP.Bisect DVP.Gen.Hermite

/-- On every strictly increasing array of every length `n ≥ 1` and for every query the scalar
search returns the index of the first element not smaller than the query, clipped to `n - 1`. -/
theorem bisect_scalar_spec {α : Type} [LinearOrder α] (a : Nat → α) (n : Nat) (hn : 0 < n)
    (hmono : StrictIncr a n) (val : α) : IsFirstGEClipped a n val (searchS a n val) :=
  searchS_spec a n hn hmono val

/-- the same for (each lane of) the vectorised search -/
theorem bisect_vector_spec {α : Type} [LinearOrder α] (a : Nat → α) (n : Nat) (hn : 0 < n)
    (hmono : StrictIncr a n) (val : α) : IsFirstGEClipped a n val (searchV a n val) :=
  searchV_spec a n hn hmono val

/-- the specification pins the index down uniquely … -/
theorem bisect_spec_unique {α : Type} [LinearOrder α] (a : Nat → α) (n : Nat) (val : α) (r s : Nat)
    (hr : IsFirstGEClipped a n val r) (hs : IsFirstGEClipped a n val s) : r = s := hr.unique hs

/-- … hence the scalar and the vector search agree with each other -/
theorem bisect_vector_eq_scalar {α : Type} [LinearOrder α] (a : Nat → α) (n : Nat) (hn : 0 < n)
    (hmono : StrictIncr a n) (val : α) : searchV a n val = searchS a n val :=
  searchV_eq_searchS a n hn hmono val

/-- non-vacuity: a concrete strictly increasing array meets the hypotheses, and the spec is
non-trivial on it (query strictly inside, equal to an element, beyond the end) -/
example : StrictIncr (fun i => (2 * i : Int)) 5 := by
  intro i j hij _; show (2 * (i:Int)) < 2 * j; omega
example : searchS (fun i => (2 * i : Int)) 5 3 = 2 ∧ searchS (fun i => (2 * i : Int)) 5 4 = 2 ∧
    searchS (fun i => (2 * i : Int)) 5 100 = 4 ∧ searchV (fun i => (2 * i : Int)) 5 3 = 2 := by decide +kernel

variable {K : Type} [Field K] [DecidableEq K]

/-- a cubic Hermite piece reproduces its end values … -/
theorem hermite_end_values (t0 t1 p0 p1 m0 m1 : K) (h : t1 ≠ t0) :
    call t0 t1 p0 p1 m0 m1 t0 = p0 ∧ call t0 t1 p0 p1 m0 m1 t1 = p1 :=
  ⟨Hermite.call_left .., Hermite.call_right _ _ _ _ _ _ h⟩

/-- … and its end slopes, for intervals of either orientation (`t1 ≠ t0` is the only guard; the
code divides by `t1 - t0`) -/
theorem hermite_end_slopes (t0 t1 p0 p1 m0 m1 : K) (h : t1 ≠ t0) :
    grad t0 t1 p0 p1 m0 m1 t0 = m0 ∧ grad t0 t1 p0 p1 m0 m1 t1 = m1 :=
  ⟨Hermite.grad_left .., Hermite.grad_right _ _ _ _ _ _ h⟩

/-- every cubic polynomial is reproduced exactly, inside and outside the interval -/
theorem hermite_cubic_exact (a b c d t0 t1 te : K) (h : t1 ≠ t0) :
    call t0 t1 (a + b*t0 + c*t0^2 + d*t0^3) (a + b*t1 + c*t1^2 + d*t1^3)
      (b + 2*c*t0 + 3*d*t0^2) (b + 2*c*t1 + 3*d*t1^2) te = a + b*te + c*te^2 + d*te^3 :=
  Hermite.call_cubic_exact a b c d t0 t1 te h

/-- the gradient is the derivative of the value: for data coming from a cubic `p` the gradient is
`p'` everywhere … -/
theorem hermite_grad_cubic_exact (a b c d t0 t1 te : K) (h : t1 ≠ t0) :
    grad t0 t1 (a + b*t0 + c*t0^2 + d*t0^3) (a + b*t1 + c*t1^2 + d*t1^3)
      (b + 2*c*t0 + 3*d*t0^2) (b + 2*c*t1 + 3*d*t1^2) te = b + 2*c*te + 3*d*te^2 :=
  Hermite.grad_cubic_exact a b c d t0 t1 te h

/-- … and every datum `(p0, p1, m0, m1)` comes from a cubic, so the previous two theorems cover
arbitrary data: value = that cubic, gradient = its derivative. -/
theorem hermite_grad_is_derivative (t0 t1 p0 p1 m0 m1 : K) (h : t1 ≠ t0) :
    ∃ a b c d : K, (∀ te, call t0 t1 p0 p1 m0 m1 te = a + b*te + c*te^2 + d*te^3) ∧
      (∀ te, grad t0 t1 p0 p1 m0 m1 te = b + 2*c*te + 3*d*te^2) := by
  obtain ⟨a, b, c, d, h0, h1, h2, h3⟩ := Hermite.data_from_cubic t0 t1 p0 p1 m0 m1 h
  refine ⟨a, b, c, d, fun te => ?_, fun te => ?_⟩
  · rw [h0, h1, h2, h3]; exact Hermite.call_cubic_exact a b c d t0 t1 te h
  · rw [h0, h1, h2, h3]; exact Hermite.grad_cubic_exact a b c d t0 t1 te h

/-- non-vacuity on concrete rational data with a reversed interval -/
example : call (2:ℚ) 1 5 3 (-1) 4 (3/2) = 37/8 := by
  unfold call; norm_num

end DVP.C17
