import DVP.Lemmas.Controller
import DVP.Lemmas.Consts
import DVP.Lemmas.Arctan
import DVP.Properties.C03
import DV.Model.Run
/-!
# C05 — adaptive integration keeps the global error proportional to the tolerances

PARTIAL — this is the property where proof reaches least.  **Proved** (logic of the controller,
`DV.Controller` mirrors the accept/retry loop of `RungeKuttaIntegrator.__call__`, tied to the code by
replaying recorded attempt sequences bit for bit): the limiter keeps the correction factor in
`[1 − π/4, 1 + π/2)`, so a proposal never changes sign or vanishes; a rejected step is retried with
a strictly smaller magnitude (steps of either sign); after `num_step_retries` rejections an error
is raised; an accepted call honours the integrator contract used by the loop theorems (C03); and on
the memory-less controller branch an accepted step has scaled error norm below one.
**Not provable here** (numerical analysis of smooth problems): that the *global* error of a run is
bounded by a modest constant × tolerance × amplification.  `harness/p_c05.py` measures it
(tolerance sweeps on problems with closed-form solutions, both directions, initial steps from
1e-4 to beyond the span) as validation and as the failing-input search only.
-/
namespace DVP.C05
open DV DV.Controller DVP.Controller DVP.Arctan

/-- the limited correction factor stays in `[1 − π/4, 1 + π/2)` for every non-negative raw
correction: proposals keep the sign of the step and never vanish -/
theorem correction_factor_bounds (sf c : ℝ) (hsf : 0 ≤ sf) (hc : 0 ≤ c) :
    1 - Real.pi / 4 ≤ corr sf c ∧ corr sf c < 1 + Real.pi / 2 ∧ 0 < corr sf c :=
  ⟨(corr_bounds sf c hsf hc).1, (corr_bounds sf c hsf hc).2, corr_pos sf c hsf hc⟩

/-- what the controller model assumes of an attempt (`AttOK`) is what `update_timestep` delivers:
the proposal `corr · dT` has the sign of the step, and a rejection (`corr < 0.9²`) proposes a
strictly smaller magnitude -/
theorem proposal_has_step_sign_and_rejection_shrinks (sf c dT : ℝ) (hsf : 0 ≤ sf) (hc : 0 ≤ c) (hdT : dT ≠ 0) :
    0 < (corr sf c * dT) * dT ∧ (corr sf c < 0.9 ^ 2 → |corr sf c * dT| < |dT|) :=
  proposal_props sf c dT hsf hc hdT

/-- **A rejected step is retried with a strictly smaller step magnitude** — the whole sequence of
attempted steps of one call of an explicit adaptive method strictly decreases in magnitude, for
requested steps of either sign -/
theorem rejected_step_retried_strictly_smaller (c08 h : ℚ) (hh : h ≠ 0) (att : Attempts ℚ) (hatt : AllOK att) (retries : Nat) :
    DecNF (triedOf (call true false c08 h att retries)).reverse :=
  call_strictly_shrinks c08 h hh att hatt retries

/-- **If the tolerances cannot be met an error is raised** — after exactly `1 + retries` attempts, and
(C12) the caller records nothing for that step -/
theorem unmeetable_tolerances_raise (ai implicit : Bool) (c08 h : ℚ) (att : Attempts ℚ) (retries : Nat) (tr : List ℚ)
    (hres : call ai implicit c08 h att retries = .raise tr) : tr.length = 1 + retries :=
  call_raise_length ai implicit c08 h att retries tr hres

/-- an accepted call honours the integrator contract of the loop theorems: non-zero step in the
direction of the request, not longer than the request, non-zero proposal -/
theorem accepted_call_honours_contract (ai implicit : Bool) (c08 h : ℚ) (hc : 0 < c08) (hh : h ≠ 0) (att : Attempts ℚ)
    (hatt : AllOK att) (retries : Nat) (newDt dT : ℚ) (tr : List ℚ) (hres : call ai implicit c08 h att retries = .ok newDt dT tr) :
    dT ≠ 0 ∧ 0 < dT * h ∧ |dT| ≤ |h| ∧ newDt ≠ 0 :=
  call_contract ai implicit c08 h hc hh att hatt retries newDt dT tr hres

/-- PARTIAL (memory-less branch only): a step is accepted only if the raw correction exceeds one,
i.e. `(1/‖err/(atol + rtol·scale)‖)^(1/order) > 1`: the scaled error estimate is below one -/
theorem accepted_step_estimate_within_tolerance_partial (c : ℝ) (hacc : (0.9 : ℝ) ^ 2 ≤ corr 0.8 c) : 1 < c :=
  accepted_implies_raw_correction_gt_one c hacc

/-- the accept/retry loop as an integrator of the time-grid machine (`DV.Run.ctrlOrc`) honours the integrator contract of C03
whenever its attempts are what `update_timestep` delivers (`AllOK`: the proposal keeps the sign of the step, a rejection shrinks) -/
theorem controller_is_an_admissible_integrator (ai implicit : Bool) (c08 : ℚ) (hc : 0 < c08) (atts : Nat → ℚ → Attempts ℚ)
    (hatt : ∀ k t, AllOK (atts k t)) (retries : Nat) : DVP.Loop.OracleOK (DV.Run.ctrlOrc ai implicit c08 atts retries) := by
  intro k t h hh
  unfold DV.Run.ctrlOrc
  cases hres : call ai implicit c08 h (atts k t) retries with
  | ok newDt dT tr => exact call_contract ai implicit c08 h hc hh (atts k t) (hatt k t) retries newDt dT tr hres
  | raise tr => trivial

/-- **A whole adaptive run**: the time-grid machine of C03 driven by the accept/retry loop of the integrator (every step goes
through `Controller.call`: first attempt, rejections retried with strictly smaller steps, an error after `retries` of them).  For
every behaviour of the error estimates (the attempts), every span, direction and `dt ≠ 0`: the samples the call adds start from
the current time, move strictly monotonically toward the target and never pass it - every one of them an ACCEPTED step - and a
call that returns through the loop guard ends within `max eps tolEps` of the target; a call in which the tolerances cannot be met
raises (oracle `.raise`, `fault_leaves_prefix` of C12 applies) instead of recording a step. -/
theorem adaptive_run_covers_span (cfg : DV.Loop.Cfg ℚ) (heps : 0 < cfg.eps) (htol : 0 < cfg.tolEps) (hhalf : 0 < cfg.half)
    (s : DV.Loop.Sys ℚ) (target : ℚ) (ai implicit : Bool) (c08 : ℚ) (hc : 0 < c08) (atts : Nat → ℚ → Attempts ℚ)
    (hatt : ∀ k t, AllOK (atts k t)) (retries fuel : Nat) (hdt : s.dt ≠ 0) :
    ∃ news : List ℚ,
      (DV.Loop.integrate cfg s target (DV.Run.ctrlOrc ai implicit c08 atts retries) fuel).sys.ts = news.reverse ++ s.ts ∧
      DVP.Loop.Steps target s.tcur news ∧
      ((DV.Loop.integrate cfg s target (DV.Run.ctrlOrc ai implicit c08 atts retries) fuel).guardExit = true →
        |target - (DV.Loop.integrate cfg s target (DV.Run.ctrlOrc ai implicit c08 atts retries) fuel).sys.tcur| < max cfg.eps cfg.tolEps) :=
  DVP.C03.integrate_covers_span cfg heps htol hhalf s target _ fuel hdt
    (controller_is_an_admissible_integrator ai implicit c08 hc atts hatt retries)
    (fun k t h v hv => by
      unfold DV.Run.ctrlOrc at hv
      split at hv <;> simp at hv)
    (Or.inl (fun k t h => by unfold DV.Run.ctrlOrc; split <;> rfl))

/-- non-vacuity of `adaptive_run_covers_span`: the second step is rejected once (retried with half the step), every accepted step
proposes 1.1 times itself; the run lands on the target -/
example : (DV.Loop.integrate (α := ℚ) { eps := 1/2^50, tolEps := 1/2^47, half := 1/2 } (DV.Loop.construct 0 1 (1/4)) 1
    (DV.Run.ctrlOrc true false (4/5) (fun k _ => fun j hi => if k == 1 && j == 0 then { ts := hi / 2, redo := true } else { ts := hi * (11/10), redo := false }) 64) 20).sys.ts.reverse
      = [0, 1/4, 31/80, 431/800, 5641/8000, 71051/80000, 1] := by decide +kernel

/-- non-vacuity: three rejections then an acceptance, backward step -/
example : triedOf (call (α := ℚ) true false (4/5) (-1)
    (fun k hi => if k < 3 then { ts := hi / 2, redo := true } else { ts := hi * (11/10), redo := false }) 64) = [-1, -1/2, -1/4, -1/8] := by
  decide +kernel

/-- the constants of the controller theorems (`corr 0.8 c`, `0.9 ^ 2`, 64 retries, the 0.8 shrink after a failed Newton solve) are
the ones in the source text (regenerated `DV.Gen.Consts`) -/
theorem controller_constants_are_the_sources :
    (DV.Gen.Consts.safetyFactor = 4/5 ∧ DV.Gen.Consts.redoThreshold = 81/100 ∧ DV.Gen.Consts.newtonShrink = 4/5) ∧
    (∀ (ai implicit : Bool) (c08 h : Rat) (att : DV.Controller.Attempts Rat),
      DV.Controller.call ai implicit c08 h att = DV.Controller.call ai implicit c08 h att DV.Gen.Consts.numStepRetries) :=
  ⟨DVP.Consts.controller_literals, DVP.Consts.retries_default⟩

end DVP.C05
