import DVP.Lemmas.Events
import DVP.Lemmas.Consts
import DVP.Lemmas.Record
/-!
# C07 — reported events are genuine, correctly located, ordered and unique

`DV.Events` mirrors the selection logic of `handle_events` and the bookkeeping in `integrate`, given
what the root finder and the sampled event function delivered for each monitored event (tied to the
code by `harness/eventsim.py`, which recomputes these inputs for every step of real runs and compares
the model's selection with what `handle_events` returned).  PARTIAL: "within tolerance level of a
true root of g along the exact trajectory" needs the global error of the integration (C05) and the
accuracy of the dense output (C06); it is measured on closed-form problems.
-/
namespace DVP.C07
open DV DV.Events DVP.Events

/-- every reported event is one of the monitored events, was located successfully by the root finder,
and crosses in a direction compatible with the direction the event function requests -/
theorem reported_genuine_and_direction_compatible (sgn : ℚ) (probes : List (Probe ℚ)) (x : Nat × Probe ℚ)
    (hx : x ∈ (handle sgn probes).1) :
    probes[x.1]? = some x.2 ∧ x.2.success = true ∧
    (0 < x.2.direction → x.2.up = true) ∧ (x.2.direction < 0 → x.2.down = true) ∧ (x.2.up = true ∨ x.2.down = true) := by
  obtain ⟨h1, h2⟩ := handle_sound sgn probes x hx
  refine ⟨h1, ?_, ?_, ?_, ?_⟩
  all_goals
    unfold Probe.active at h2
    simp only [Bool.or_eq_true, Bool.and_eq_true, decide_eq_true_eq] at h2
  · rcases h2 with (⟨h, _⟩ | ⟨h, _⟩) | ⟨h, _⟩
    · unfold Probe.up at h; simp at h; exact h.1
    · unfold Probe.down at h; simp at h; exact h.1
    · rcases h with h | h
      · unfold Probe.up at h; simp at h; exact h.1
      · unfold Probe.down at h; simp at h; exact h.1
  · intro hd
    rcases h2 with (⟨h, _⟩ | ⟨_, h'⟩) | ⟨_, h'⟩
    · exact h
    · omega
    · omega
  · intro hd
    rcases h2 with (⟨_, h'⟩ | ⟨h, _⟩) | ⟨_, h'⟩
    · omega
    · exact h
    · omega
  · rcases h2 with (⟨h, _⟩ | ⟨h, _⟩) | ⟨h, _⟩
    · exact Or.inl h
    · exact Or.inr h
    · exact h

/-- events are listed in the order they are met along the direction of integration
(`sgn = sign(t_next − t_prev)`: non-decreasing `sgn · root`) -/
theorem reported_in_order (sgn : ℚ) (probes : List (Probe ℚ)) : SortedBy sgn (handle sgn probes).1 :=
  handle_sorted sgn probes

/-- bookkeeping: an event is only recorded if its root lies inside the step, and not within `dupTol`
of the last recorded event of the same function: **no crossing is recorded twice** -/
theorem record_one (tPrev tNext dupTol : ℚ) (b : Book ℚ) (x : Nat × Probe ℚ) :
    let b' := record tPrev tNext dupTol b [x]
    b'.events = b.events ∨
    (b'.events = b.events ++ [(x.1, x.2.root)] ∧ (min tPrev tNext ≤ x.2.root ∧ x.2.root ≤ max tPrev tNext) ∧
      (∀ tl, b.last.getD x.1 none = some tl → dupTol < |x.2.root - tl|)) := by
  simp only [record, List.foldl_cons, List.foldl_nil]
  by_cases hin : (if tPrev ≤ tNext then decide (tPrev ≤ x.2.root) && decide (x.2.root ≤ tNext) else decide (tNext ≤ x.2.root) && decide (x.2.root ≤ tPrev)) = true
  · simp only [hin, Bool.not_true, Bool.false_eq_true, if_false]
    have hhull : min tPrev tNext ≤ x.2.root ∧ x.2.root ≤ max tPrev tNext := by
      by_cases hd : tPrev ≤ tNext
      · simp only [hd, if_true, Bool.and_eq_true, decide_eq_true_eq] at hin
        rw [min_eq_left hd, max_eq_right hd]; exact hin
      · simp only [hd, if_false, Bool.and_eq_true, decide_eq_true_eq] at hin
        have hd' : tNext ≤ tPrev := le_of_lt (not_le.mp hd)
        rw [min_eq_right hd', max_eq_left hd']; exact hin
    cases hl : b.last.getD x.1 none with
    | none => right; exact ⟨rfl, hhull, fun tl h => by simp at h⟩
    | some tl =>
      simp only
      by_cases hdup : dupTol < absC (x.2.root - tl)
      · rw [if_pos hdup]
        right
        refine ⟨rfl, hhull, fun tl' h => ?_⟩
        injection h with h; subst h
        rwa [DVP.Brent.absC_rat] at hdup
      · rw [if_neg hdup]; left; rfl
  · simp only [hin, Bool.not_false, if_true]
    left; trivial

/-- **No crossing is recorded twice, over a whole run.**  Starting from the empty book of `n` monitored
functions, after any sequence of steps (any reported events with indices below `n`), the recorded times of each
function are pairwise-consecutively more than `dupTol` apart: a root found again from the next step (a crossing
on a step boundary) is not listed a second time. -/
theorem no_crossing_recorded_twice (dupTol : ℚ) (n : Nat) (steps : List (ℚ × ℚ × List (Nat × Probe ℚ)))
    (hidx : ∀ st ∈ steps, ∀ x ∈ st.2.2, x.1 < n) (i : Nat) (hi : i < n) :
    DVP.Record.Sep dupTol (DVP.Record.timesOf i (DVP.Record.bookAfter dupTol (DVP.Record.emptyBook n) steps).events) := by
  have hl : (DVP.Record.emptyBook n).last.length = n := by simp [DVP.Record.emptyBook]
  obtain ⟨h1, h2⟩ := DVP.Record.bookAfter_sep dupTol steps (DVP.Record.emptyBook n) (DVP.Record.emptyBook_sep dupTol n)
    (by intro st hst x hx; rw [hl]; exact hidx st hst x hx)
  exact (h1 i (by rw [h2, hl]; exact hi)).2

/-- **Events are listed in the order they are met (forward run).**  Over consecutive forward steps (every step
starts where, or after, the previous one ended), with the events of each step reported in the order `handle_events`
gives them (`reported_in_order`), the recorded list is ordered by time: what a later step records is never earlier
than what is already there, whichever functions the events belong to and whatever the duplicate filter drops.
(The backward run: `events_listed_in_order_backward`.) -/
theorem events_listed_in_order_forward (dupTol : ℚ) (n : Nat) (steps : List (ℚ × ℚ × List (Nat × Probe ℚ))) (L : ℚ)
    (hw : DVP.Record.Windows L steps) (hs : ∀ st ∈ steps, SortedBy 1 st.2.2) :
    DVP.Record.SortedT (DVP.Record.bookAfter dupTol (DVP.Record.emptyBook n) steps).events :=
  DVP.Record.bookAfter_sorted dupTol steps (DVP.Record.emptyBook n) L hw hs trivial (fun e he => by simp [DVP.Record.emptyBook] at he)

/-- … and the mirror image for a backward run: consecutive backward steps, each step's events in `handle_events`' order
for a negative step sign, give a list ordered by DEcreasing time. -/
theorem events_listed_in_order_backward (dupTol : ℚ) (n : Nat) (steps : List (ℚ × ℚ × List (Nat × Probe ℚ))) (U : ℚ)
    (hw : DVP.Record.WindowsB U steps) (hs : ∀ st ∈ steps, SortedBy (-1) st.2.2) :
    DVP.Record.SortedTB (DVP.Record.bookAfter dupTol (DVP.Record.emptyBook n) steps).events :=
  DVP.Record.bookAfter_sorted_bwd dupTol steps (DVP.Record.emptyBook n) U hw hs trivial (fun e he => by simp [DVP.Record.emptyBook] at he)

/-- non-vacuity: the same root of function 0 reported from two adjacent steps is listed once, function 1 both times -/
example :
    let p : ℚ → Probe ℚ := fun r => { root := r, success := true, gm := -1, gc := 0, gp := 1, fields := [], direction := 0, terminal := false }
    (DVP.Record.bookAfter (1/1000) (DVP.Record.emptyBook 2) [(0, 1, [(0, p 1), (1, p (1/2))]), (1, 2, [(0, p 1), (1, p (3/2))])]).events =
      [(0, 1), (1, 1/2), (1, 3/2)] := by decide +kernel

/-- the constants of event handling used by the harness and the models (duplicate tolerance `eps^0.7`, probe offsets, receptive
fields) are the ones in the source text (regenerated `DV.Gen.Consts`) -/
theorem event_constants_are_the_sources :
    DV.Gen.Consts.dupTolExp = 7/10 ∧ DV.Gen.Consts.probeExpWide = 1/2 ∧ DV.Gen.Consts.probeExpNarrow = 3/4 ∧
      DV.Gen.Consts.receptiveFields = [1, 2, 3] := DVP.Consts.event_literals

end DVP.C07
