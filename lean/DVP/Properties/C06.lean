import DV.Model.Dense
import DVP.Lemmas.Bisect
import DVP.Lemmas.Hermite
import DVP.Lemmas.SlopeCache
/-!
# C06 — dense output is a consistent continuous extension of the computed trajectory

PARTIAL.  **Proved**: the lookup of `DenseOutput` (`DV.Dense`, tied to the code by comparing
`find_interval` / `find_interval_vec` of real dense outputs with the model on seeded queries) returns,
for every strictly increasing array of piece end times and every query, the piece whose interval
contains the query — for forward runs and, with the repaired lookup, for backward runs; the scalar
and the vector lookup agree; a Hermite piece (regenerated from the source, C17) reproduces its end
values and end slopes and every cubic; on data taken from a QUARTIC the interpolation error is exactly
`e (t - t0)^2 (t - t1)^2` (`e` the leading coefficient, i.e. `p/24`), hence at most `|p| h^4 / 384` inside the
step, with equality at the midpoint - the `O(h⁴)` clause with its sharp classical constant, for the first
polynomial degree the piece does not reproduce (`interpolation_error_on_quartic`, `…_bound`, `…_sharp`).
**Not proved** (numerical analysis / outside the model): the
`O(h⁴)` interpolation error for general smooth data (Peano kernel bound for cubic Hermite interpolation, cited), that the end
end slope computed by a step is the right-hand side at its end state (C02's step theorems give it for
the explicit model; measured on the implementation for every method family), Richardson wrappers.
**Proved as well** (`DV.SlopeCache`, tied to the code by replaying call sequences with jumps, repeated
starts and calls abandoned by a fault at a random evaluation): the cache through which a step's end slope
becomes the next step's start slope is consistent after EVERY history of completed and abandoned calls,
so the start slope of every dense piece is the right-hand side at the piece's start state.
-/
namespace DVP.C06
open DV DV.Dense DV.Bisect DVP.Bisect

variable {α : Type} [LinearOrder α]

/-- **Forward runs**: the piece returned spans `(tEval (r-1), tEval r]` around the query (piece `0`
also answers everything before it, the last piece everything after it) -/
theorem forward_query_answered_by_containing_piece (tEval : Nat → α) (n : Nat) (hn : 0 < n) (hmono : StrictIncr tEval n) (q : α) :
    let r := findInterval tEval n false q
    r < n ∧ (∀ i, i < r → tEval i < q) ∧ (q ≤ tEval r ∨ r = n - 1) := by
  have h := searchS_spec tEval n hn hmono q
  obtain ⟨h1, h2, h3⟩ := h
  have hmin : min (searchS tEval n q) (n - 1) = searchS tEval n q := Nat.min_eq_left (by omega)
  simp only [Dense.findInterval, hmin, Bool.false_and, Bool.false_eq_true, if_false]
  exact ⟨h1, h2, h3⟩

/-- **Backward runs** (pieces stored front-inserted: piece `r` spans `[tEval r, tEval (r+1)]`, the last
one reaches back to the start): the piece returned contains the query — never a neighbouring piece -/
theorem backward_query_answered_by_containing_piece (tEval : Nat → α) (n : Nat) (hn : 0 < n) (hmono : StrictIncr tEval n) (q : α) :
    let r := findInterval tEval n true q
    r < n ∧ (tEval r ≤ q ∨ r = 0) ∧ (r + 1 < n → q ≤ tEval (r + 1)) := by
  obtain ⟨h1, h2, h3⟩ := searchS_spec tEval n hn hmono q
  have hmin : min (searchS tEval n q) (n - 1) = searchS tEval n q := Nat.min_eq_left (by omega)
  simp only [Dense.findInterval, hmin, Bool.true_and]
  set idx := searchS tEval n q with hidx
  by_cases hc : (decide (0 < idx) && decide (q < tEval idx)) = true
  · rw [if_pos hc]
    simp only [Bool.and_eq_true, decide_eq_true_eq] at hc
    obtain ⟨hpos, hlt⟩ := hc
    refine ⟨by omega, Or.inl (le_of_lt (h2 (idx - 1) (by omega))), fun _ => ?_⟩
    have : idx - 1 + 1 = idx := by omega
    rw [this]; exact le_of_lt hlt
  · rw [if_neg hc]
    simp only [Bool.and_eq_true, decide_eq_true_eq, not_and, not_lt] at hc
    refine ⟨h1, ?_, fun hr => ?_⟩
    · by_cases h0 : 0 < idx
      · exact Or.inl (hc h0)
      · exact Or.inr (by omega)
    · rcases h3 with h | h
      · exact le_trans h (le_of_lt (hmono idx (idx + 1) (by omega) hr))
      · omega

/-- scalar and array queries are answered by the same piece -/
theorem vector_lookup_agrees (tEval : Nat → α) (n : Nat) (hn : 0 < n) (hmono : StrictIncr tEval n) (b : Bool) (q : α) :
    findIntervalVec tEval n b q = findInterval tEval n b q := by
  unfold Dense.findIntervalVec Dense.findInterval
  rw [searchV_eq_searchS tEval n hn hmono q]

/-- a piece reproduces the recorded states at both of its ends and its end slopes (C17, regenerated
Hermite definitions), so evaluating the dense solution at a recorded time returns the recorded state
whichever of the two adjacent pieces answers -/
theorem piece_reproduces_recorded_states {K : Type} [Field K] [DecidableEq K] (t0 t1 p0 p1 m0 m1 : K) (h : t1 ≠ t0) :
    DVP.Gen.Hermite.call t0 t1 p0 p1 m0 m1 t0 = p0 ∧ DVP.Gen.Hermite.call t0 t1 p0 p1 m0 m1 t1 = p1 ∧
    DVP.Gen.Hermite.grad t0 t1 p0 p1 m0 m1 t0 = m0 ∧ DVP.Gen.Hermite.grad t0 t1 p0 p1 m0 m1 t1 = m1 :=
  ⟨DVP.Hermite.call_left .., DVP.Hermite.call_right _ _ _ _ _ _ h, DVP.Hermite.grad_left .., DVP.Hermite.grad_right _ _ _ _ _ _ h⟩

/-- **Between grid points the error is of the order a cubic Hermite interpolant allows**: for data taken from
any quartic `p` (values and slopes at both ends), the piece differs from `p` at EVERY `te` by exactly
`e (te - t0)^2 (te - t1)^2`, `e = p''''/24` - either orientation of the interval, inside or outside it. -/
theorem interpolation_error_on_quartic {K : Type} [Field K] [DecidableEq K] (a b c d e t0 t1 te : K) (h : t1 ≠ t0) :
    (a + b*te + c*te^2 + d*te^3 + e*te^4) -
      DVP.Gen.Hermite.call t0 t1 (a + b*t0 + c*t0^2 + d*t0^3 + e*t0^4) (a + b*t1 + c*t1^2 + d*t1^3 + e*t1^4)
        (b + 2*c*t0 + 3*d*t0^2 + 4*e*t0^3) (b + 2*c*t1 + 3*d*t1^2 + 4*e*t1^3) te = e * ((te - t0)^2 * (te - t1)^2) :=
  DVP.Hermite.call_quartic_error a b c d e t0 t1 te h

/-- … so for a query inside the step (`(te - t0)(te - t1) ≤ 0`, either orientation) the error is at most
`|e| h^4 / 16 = |p''''| h^4 / 384` … -/
theorem interpolation_error_on_quartic_bound {K : Type} [Field K] [LinearOrder K] [IsStrictOrderedRing K] [DecidableEq K]
    (a b c d e t0 t1 te : K) (h : t1 ≠ t0) (hin : (te - t0) * (te - t1) ≤ 0) :
    |(a + b*te + c*te^2 + d*te^3 + e*te^4) -
      DVP.Gen.Hermite.call t0 t1 (a + b*t0 + c*t0^2 + d*t0^3 + e*t0^4) (a + b*t1 + c*t1^2 + d*t1^3 + e*t1^4)
        (b + 2*c*t0 + 3*d*t0^2 + 4*e*t0^3) (b + 2*c*t1 + 3*d*t1^2 + 4*e*t1^3) te| ≤ |e| * ((t1 - t0)^4 / 16) := by
  rw [DVP.Hermite.call_quartic_error a b c d e t0 t1 te h, abs_mul]
  have h0 : 0 ≤ (te - t0)^2 * (te - t1)^2 := by positivity
  rw [abs_of_nonneg h0]
  exact mul_le_mul_of_nonneg_left (DVP.Hermite.node_product_bound t0 t1 te hin) (abs_nonneg e)

/-- … and the bound is attained at the midpoint of the step: no smaller constant is true of the code -/
theorem interpolation_error_on_quartic_sharp {K : Type} [Field K] [CharZero K] [DecidableEq K] (a b c d e t0 t1 : K) (h : t1 ≠ t0) :
    (a + b*((t0 + t1)/2) + c*((t0 + t1)/2)^2 + d*((t0 + t1)/2)^3 + e*((t0 + t1)/2)^4) -
      DVP.Gen.Hermite.call t0 t1 (a + b*t0 + c*t0^2 + d*t0^3 + e*t0^4) (a + b*t1 + c*t1^2 + d*t1^3 + e*t1^4)
        (b + 2*c*t0 + 3*d*t0^2 + 4*e*t0^3) (b + 2*c*t1 + 3*d*t1^2 + 4*e*t1^3) ((t0 + t1)/2) = e * ((t1 - t0)^4 / 16) := by
  rw [DVP.Hermite.call_quartic_error a b c d e t0 t1 _ h]
  have h2 : (2 : K) ≠ 0 := by exact_mod_cast (two_ne_zero : (2 : ℕ) ≠ 0)
  field_simp
  ring

/-- **The start slope of every step's dense piece is the right-hand side at the step's start**, after any
history of calls on the integrator object: completed (with any number of rejected attempts before the
accepted one) or abandoned by an exception at any point, from any points, with any steps — whether the
slope was reused from the cache or evaluated -/
theorem start_slope_is_rhs_after_every_history {α S R : Type} [DecidableEq α] [DecidableEq S] [Add α]
    (f : α → S → R) (adv : α → S → α → S) (calls : List (α × S × DV.SlopeCache.Ending α)) (t : α) (y : S)
    (e : DV.SlopeCache.Ending α) :
    (DV.SlopeCache.call f adv (DVP.SlopeCache.runCalls f adv DV.SlopeCache.empty calls) t y e).initialRhs = f t y :=
  DVP.SlopeCache.history_initial f adv calls t y e

/-- the cache invariant itself: whenever the tags name a point, the cached slope is the right-hand side there -/
theorem slope_cache_consistent {α S R : Type} [DecidableEq α] [DecidableEq S] [Add α]
    (f : α → S → R) (adv : α → S → α → S) (calls : List (α × S × DV.SlopeCache.Ending α)) :
    DVP.SlopeCache.Inv f (DVP.SlopeCache.runCalls f adv DV.SlopeCache.empty calls) :=
  DVP.SlopeCache.history_inv f adv calls DV.SlopeCache.empty (DVP.SlopeCache.inv_empty f)

/-- non-vacuity, and the reuse really happens: after a completed call with a rejected attempt (steps 4 then 2
from time 0, state 10; `f t y = 100 t + y`, a step adds `h` to the state) the next call from the end point
`(2, 12)` reuses the cached slope `212`, a call from elsewhere does not -/
example : let f : Int → Int → Int := fun t y => 100 * t + y
          let adv : Int → Int → Int → Int := fun _ y h => y + h
          let c := (DV.SlopeCache.call f adv DV.SlopeCache.empty 0 10 (.completed [4, 2])).cache
          (DV.SlopeCache.call f adv c 2 12 (.completed [1])).reused = true ∧
          (DV.SlopeCache.call f adv c 2 12 (.completed [1])).initialRhs = 212 ∧
          (DV.SlopeCache.call f adv c 2 13 (.completed [1])).reused = false := by decide

/-- non-vacuity: end times 1,2,3,4; forward the query 5/2 is answered by piece 2 (spanning (2,3]),
backward by piece 1 (spanning [2,3]); at a stored time both conventions return a piece ending there -/
example : findInterval (fun i => ((i : Int) + 1)) 4 false 3 = 2 ∧ findInterval (fun i => ((i : Int) + 1)) 4 true 3 = 2 ∧
    findInterval (fun i => (2 * (i : Int) + 2)) 4 false 5 = 2 ∧ findInterval (fun i => (2 * (i : Int) + 2)) 4 true 5 = 1 := by decide +kernel

end DVP.C06
