import DV.Model.Dense
import DVP.Lemmas.Bisect
import DVP.Lemmas.Hermite
import DVP.Lemmas.SlopeCache
import DVP.Lemmas.HermiteError
/-!
# C06 — dense output is a consistent continuous extension of the computed trajectory

PARTIAL.  **Proved**: the lookup of `DenseOutput` (`DV.Dense`, tied to the code by comparing
`find_interval` / `find_interval_vec` of real dense outputs with the model on seeded queries) returns,
for every strictly increasing array of piece end times and every query, the piece whose interval
contains the query — for forward runs and, with the repaired lookup, for backward runs; the scalar
and the vector lookup agree; a Hermite piece (regenerated from the source, C17) reproduces its end
values and end slopes and every cubic; on data taken from a QUARTIC the interpolation error is exactly
`e (t - t0)^2 (t - t1)^2` (`e` the leading coefficient, i.e. `p/24`), hence at most `|p| h^4 / 384` inside the
step, with equality at the midpoint - the `O(h⁴)` clause with its sharp classical constant, for the first
polynomial degree the piece does not reproduce (`interpolation_error_on_quartic`, `…_bound`, `…_sharp`).
For EVERY four times differentiable function the classical error formula `f - H = f4(ξ)/24 (t - t0)^2 (t - t1)^2` and the bound
`max|f4| h^4/384` (`f4` the fourth derivative) are proved as well (`interpolation_error_smooth`, `…_bound`; four rounds of Rolle's theorem
on the regenerated piece).
**Not proved** (outside the model): that the trajectory the pieces interpolate is the exact solution (the integrator's own error, C05), that the end
end slope computed by a step is the right-hand side at its end state (C02's step theorems give it for
the explicit model; measured on the implementation for every method family), Richardson wrappers.
**Proved as well** (`DV.SlopeCache`, tied to the code by replaying call sequences with jumps, repeated
starts and calls abandoned by a fault at a random evaluation): the cache through which a step's end slope
becomes the next step's start slope is consistent after EVERY history of completed and abandoned calls,
so the start slope of every dense piece is the right-hand side at the piece's start state.
-/
namespace DVP.C06
open DV DV.Dense DV.Bisect DVP.Bisect

variable {α : Type} [LinearOrder α]

/-- **Forward runs**: the piece returned spans `(tEval (r-1), tEval r]` around the query (piece `0`
also answers everything before it, the last piece everything after it) -/
theorem forward_query_answered_by_containing_piece (tEval : Nat → α) (n : Nat) (hn : 0 < n) (hmono : StrictIncr tEval n) (q : α) :
    let r := findInterval tEval n false q
    r < n ∧ (∀ i, i < r → tEval i < q) ∧ (q ≤ tEval r ∨ r = n - 1) := by
  have h := searchS_spec tEval n hn hmono q
  obtain ⟨h1, h2, h3⟩ := h
  have hmin : min (searchS tEval n q) (n - 1) = searchS tEval n q := Nat.min_eq_left (by omega)
  simp only [Dense.findInterval, hmin, Bool.false_and, Bool.false_eq_true, if_false]
  exact ⟨h1, h2, h3⟩

/-- **Backward runs** (pieces stored front-inserted: piece `r` spans `[tEval r, tEval (r+1)]`, the last
one reaches back to the start): the piece returned contains the query — never a neighbouring piece -/
theorem backward_query_answered_by_containing_piece (tEval : Nat → α) (n : Nat) (hn : 0 < n) (hmono : StrictIncr tEval n) (q : α) :
    let r := findInterval tEval n true q
    r < n ∧ (tEval r ≤ q ∨ r = 0) ∧ (r + 1 < n → q ≤ tEval (r + 1)) := by
  obtain ⟨h1, h2, h3⟩ := searchS_spec tEval n hn hmono q
  have hmin : min (searchS tEval n q) (n - 1) = searchS tEval n q := Nat.min_eq_left (by omega)
  simp only [Dense.findInterval, hmin, Bool.true_and]
  set idx := searchS tEval n q with hidx
  by_cases hc : (decide (0 < idx) && decide (q < tEval idx)) = true
  · rw [if_pos hc]
    simp only [Bool.and_eq_true, decide_eq_true_eq] at hc
    obtain ⟨hpos, hlt⟩ := hc
    refine ⟨by omega, Or.inl (le_of_lt (h2 (idx - 1) (by omega))), fun _ => ?_⟩
    have : idx - 1 + 1 = idx := by omega
    rw [this]; exact le_of_lt hlt
  · rw [if_neg hc]
    simp only [Bool.and_eq_true, decide_eq_true_eq, not_and, not_lt] at hc
    refine ⟨h1, ?_, fun hr => ?_⟩
    · by_cases h0 : 0 < idx
      · exact Or.inl (hc h0)
      · exact Or.inr (by omega)
    · rcases h3 with h | h
      · exact le_trans h (le_of_lt (hmono idx (idx + 1) (by omega) hr))
      · omega

/-- scalar and array queries are answered by the same piece -/
theorem vector_lookup_agrees (tEval : Nat → α) (n : Nat) (hn : 0 < n) (hmono : StrictIncr tEval n) (b : Bool) (q : α) :
    findIntervalVec tEval n b q = findInterval tEval n b q := by
  unfold Dense.findIntervalVec Dense.findInterval
  rw [searchV_eq_searchS tEval n hn hmono q]

/-- a piece reproduces the recorded states at both of its ends and its end slopes (C17, regenerated
Hermite definitions), so evaluating the dense solution at a recorded time returns the recorded state
whichever of the two adjacent pieces answers -/
theorem piece_reproduces_recorded_states {K : Type} [Field K] [DecidableEq K] (t0 t1 p0 p1 m0 m1 : K) (h : t1 ≠ t0) :
    DVP.Gen.Hermite.call t0 t1 p0 p1 m0 m1 t0 = p0 ∧ DVP.Gen.Hermite.call t0 t1 p0 p1 m0 m1 t1 = p1 ∧
    DVP.Gen.Hermite.grad t0 t1 p0 p1 m0 m1 t0 = m0 ∧ DVP.Gen.Hermite.grad t0 t1 p0 p1 m0 m1 t1 = m1 :=
  ⟨DVP.Hermite.call_left .., DVP.Hermite.call_right _ _ _ _ _ _ h, DVP.Hermite.grad_left .., DVP.Hermite.grad_right _ _ _ _ _ _ h⟩

/-- **Between grid points the error is of the order a cubic Hermite interpolant allows**: for data taken from
any quartic `p` (values and slopes at both ends), the piece differs from `p` at EVERY `te` by exactly
`e (te - t0)^2 (te - t1)^2`, `e = p''''/24` - either orientation of the interval, inside or outside it. -/
theorem interpolation_error_on_quartic {K : Type} [Field K] [DecidableEq K] (a b c d e t0 t1 te : K) (h : t1 ≠ t0) :
    (a + b*te + c*te^2 + d*te^3 + e*te^4) -
      DVP.Gen.Hermite.call t0 t1 (a + b*t0 + c*t0^2 + d*t0^3 + e*t0^4) (a + b*t1 + c*t1^2 + d*t1^3 + e*t1^4)
        (b + 2*c*t0 + 3*d*t0^2 + 4*e*t0^3) (b + 2*c*t1 + 3*d*t1^2 + 4*e*t1^3) te = e * ((te - t0)^2 * (te - t1)^2) :=
  DVP.Hermite.call_quartic_error a b c d e t0 t1 te h

/-- … so for a query inside the step (`(te - t0)(te - t1) ≤ 0`, either orientation) the error is at most
`|e| h^4 / 16 = |p''''| h^4 / 384` … -/
theorem interpolation_error_on_quartic_bound {K : Type} [Field K] [LinearOrder K] [IsStrictOrderedRing K] [DecidableEq K]
    (a b c d e t0 t1 te : K) (h : t1 ≠ t0) (hin : (te - t0) * (te - t1) ≤ 0) :
    |(a + b*te + c*te^2 + d*te^3 + e*te^4) -
      DVP.Gen.Hermite.call t0 t1 (a + b*t0 + c*t0^2 + d*t0^3 + e*t0^4) (a + b*t1 + c*t1^2 + d*t1^3 + e*t1^4)
        (b + 2*c*t0 + 3*d*t0^2 + 4*e*t0^3) (b + 2*c*t1 + 3*d*t1^2 + 4*e*t1^3) te| ≤ |e| * ((t1 - t0)^4 / 16) := by
  rw [DVP.Hermite.call_quartic_error a b c d e t0 t1 te h, abs_mul]
  have h0 : 0 ≤ (te - t0)^2 * (te - t1)^2 := by positivity
  rw [abs_of_nonneg h0]
  exact mul_le_mul_of_nonneg_left (DVP.Hermite.node_product_bound t0 t1 te hin) (abs_nonneg e)

/-- … and the bound is attained at the midpoint of the step: no smaller constant is true of the code -/
theorem interpolation_error_on_quartic_sharp {K : Type} [Field K] [CharZero K] [DecidableEq K] (a b c d e t0 t1 : K) (h : t1 ≠ t0) :
    (a + b*((t0 + t1)/2) + c*((t0 + t1)/2)^2 + d*((t0 + t1)/2)^3 + e*((t0 + t1)/2)^4) -
      DVP.Gen.Hermite.call t0 t1 (a + b*t0 + c*t0^2 + d*t0^3 + e*t0^4) (a + b*t1 + c*t1^2 + d*t1^3 + e*t1^4)
        (b + 2*c*t0 + 3*d*t0^2 + 4*e*t0^3) (b + 2*c*t1 + 3*d*t1^2 + 4*e*t1^3) ((t0 + t1)/2) = e * ((t1 - t0)^4 / 16) := by
  rw [DVP.Hermite.call_quartic_error a b c d e t0 t1 _ h]
  have h2 : (2 : K) ≠ 0 := by exact_mod_cast (two_ne_zero : (2 : ℕ) ≠ 0)
  field_simp
  ring

/-- **The interpolation error is `O(h⁴)` for every four times differentiable function** (the classical theorem,
proved here for the library's own piece - `call` is the regenerated `CubicHermiteInterp.__call__`): if the data of
the piece are the values and slopes of `f` at its two ends, then for every `x` strictly inside the piece (either
orientation) there is a `ξ` strictly inside with `f x - H x = f4(ξ)/24 · (x - t0)² (x - t1)²`, `f4` the fourth
derivative of `f`.  (Four rounds of Rolle's theorem, `DVP/Lemmas/HermiteError.lean`.) -/
theorem interpolation_error_smooth [DecidableEq ℝ] (f f1 f2 f3 f4 : ℝ → ℝ)
    (h0 : ∀ s, HasDerivAt f (f1 s) s) (h1 : ∀ s, HasDerivAt f1 (f2 s) s)
    (h2 : ∀ s, HasDerivAt f2 (f3 s) s) (h3 : ∀ s, HasDerivAt f3 (f4 s) s)
    (t0 t1 x : ℝ) (hx : (x - t0) * (x - t1) < 0) :
    ∃ ξ, (ξ - t0) * (ξ - t1) < 0 ∧
      f x - DVP.Gen.Hermite.call t0 t1 (f t0) (f t1) (f1 t0) (f1 t1) x = f4 ξ / 24 * ((x - t0) ^ 2 * (x - t1) ^ 2) :=
  DVP.HermiteError.hermite_error f f1 f2 f3 f4 h0 h1 h2 h3 t0 t1 x hx

/-- … hence `|f - H| ≤ M h⁴ / 384` inside the piece whenever `|f4| ≤ M` (the constant `1/384` is sharp:
`interpolation_error_on_quartic_sharp`) -/
theorem interpolation_error_smooth_bound [DecidableEq ℝ] (f f1 f2 f3 f4 : ℝ → ℝ)
    (h0 : ∀ s, HasDerivAt f (f1 s) s) (h1 : ∀ s, HasDerivAt f1 (f2 s) s)
    (h2 : ∀ s, HasDerivAt f2 (f3 s) s) (h3 : ∀ s, HasDerivAt f3 (f4 s) s)
    (M : ℝ) (hM : ∀ s, |f4 s| ≤ M) (t0 t1 x : ℝ) (hx : (x - t0) * (x - t1) < 0) :
    |f x - DVP.Gen.Hermite.call t0 t1 (f t0) (f t1) (f1 t0) (f1 t1) x| ≤ M / 384 * (t1 - t0) ^ 4 := by
  obtain ⟨ξ, _, hE⟩ := DVP.HermiteError.hermite_error f f1 f2 f3 f4 h0 h1 h2 h3 t0 t1 x hx
  rw [hE, abs_mul]
  have hw0 : 0 ≤ (x - t0) ^ 2 * (x - t1) ^ 2 := by positivity
  rw [abs_of_nonneg hw0, abs_div]
  have hw : (x - t0) ^ 2 * (x - t1) ^ 2 ≤ (t1 - t0) ^ 4 / 16 := DVP.Hermite.node_product_bound t0 t1 x (le_of_lt hx)
  have h24 : |(24 : ℝ)| = 24 := by norm_num
  rw [h24]
  have hM0 : 0 ≤ M := le_trans (abs_nonneg _) (hM ξ)
  calc |f4 ξ| / 24 * ((x - t0) ^ 2 * (x - t1) ^ 2) ≤ M / 24 * ((t1 - t0) ^ 4 / 16) := by
        apply mul_le_mul (div_le_div_of_nonneg_right (hM ξ) (by norm_num)) hw hw0 (by positivity)
    _ = M / 384 * (t1 - t0) ^ 4 := by ring

/-- non-vacuity: the quintic `s^5` meets the hypotheses of `interpolation_error_smooth` -/
example [DecidableEq ℝ] : ∃ ξ : ℝ, (ξ - 0) * (ξ - 1) < 0 ∧
    (1/2 : ℝ)^5 - DVP.Gen.Hermite.call (0:ℝ) 1 ((0:ℝ)^5) ((1:ℝ)^5) (5 * (0:ℝ)^4) (5 * (1:ℝ)^4) (1/2) = 120 * ξ / 24 * (((1/2:ℝ) - 0)^2 * ((1/2:ℝ) - 1)^2) := by
  have h0 : ∀ s : ℝ, HasDerivAt (fun s : ℝ => s^5) (5 * s^4) s := fun s => by simpa using hasDerivAt_pow 5 s
  have h1 : ∀ s : ℝ, HasDerivAt (fun s : ℝ => 5 * s^4) (20 * s^3) s := fun s => ((hasDerivAt_pow 4 s).const_mul 5).congr_deriv (by push_cast; ring)
  have h2 : ∀ s : ℝ, HasDerivAt (fun s : ℝ => 20 * s^3) (60 * s^2) s := fun s => ((hasDerivAt_pow 3 s).const_mul 20).congr_deriv (by push_cast; ring)
  have h3 : ∀ s : ℝ, HasDerivAt (fun s : ℝ => 60 * s^2) (120 * s) s := fun s => ((hasDerivAt_pow 2 s).const_mul 60).congr_deriv (by push_cast; ring)
  exact interpolation_error_smooth (fun s => s^5) (fun s => 5 * s^4) (fun s => 20 * s^3) (fun s => 60 * s^2) (fun s => 120 * s)
    h0 h1 h2 h3 0 1 (1/2) (by norm_num)

/-- **The start slope of every step's dense piece is the right-hand side at the step's start**, after any
history of calls on the integrator object: completed (with any number of rejected attempts before the
accepted one) or abandoned by an exception at any point, from any points, with any steps — whether the
slope was reused from the cache or evaluated -/
theorem start_slope_is_rhs_after_every_history {α S R : Type} [DecidableEq α] [DecidableEq S] [Add α]
    (f : α → S → R) (adv : α → S → α → S) (calls : List (α × S × DV.SlopeCache.Ending α)) (t : α) (y : S)
    (e : DV.SlopeCache.Ending α) :
    (DV.SlopeCache.call f adv (DVP.SlopeCache.runCalls f adv DV.SlopeCache.empty calls) t y e).initialRhs = f t y :=
  DVP.SlopeCache.history_initial f adv calls t y e

/-- the cache invariant itself: whenever the tags name a point, the cached slope is the right-hand side there -/
theorem slope_cache_consistent {α S R : Type} [DecidableEq α] [DecidableEq S] [Add α]
    (f : α → S → R) (adv : α → S → α → S) (calls : List (α × S × DV.SlopeCache.Ending α)) :
    DVP.SlopeCache.Inv f (DVP.SlopeCache.runCalls f adv DV.SlopeCache.empty calls) :=
  DVP.SlopeCache.history_inv f adv calls DV.SlopeCache.empty (DVP.SlopeCache.inv_empty f)

/-- non-vacuity, and the reuse really happens: after a completed call with a rejected attempt (steps 4 then 2
from time 0, state 10; `f t y = 100 t + y`, a step adds `h` to the state) the next call from the end point
`(2, 12)` reuses the cached slope `212`, a call from elsewhere does not -/
example : let f : Int → Int → Int := fun t y => 100 * t + y
          let adv : Int → Int → Int → Int := fun _ y h => y + h
          let c := (DV.SlopeCache.call f adv DV.SlopeCache.empty 0 10 (.completed [4, 2])).cache
          (DV.SlopeCache.call f adv c 2 12 (.completed [1])).reused = true ∧
          (DV.SlopeCache.call f adv c 2 12 (.completed [1])).initialRhs = 212 ∧
          (DV.SlopeCache.call f adv c 2 13 (.completed [1])).reused = false := by decide

/-- non-vacuity: end times 1,2,3,4; forward the query 5/2 is answered by piece 2 (spanning (2,3]),
backward by piece 1 (spanning [2,3]); at a stored time both conventions return a piece ending there -/
example : findInterval (fun i => ((i : Int) + 1)) 4 false 3 = 2 ∧ findInterval (fun i => ((i : Int) + 1)) 4 true 3 = 2 ∧
    findInterval (fun i => (2 * (i : Int) + 2)) 4 false 5 = 2 ∧ findInterval (fun i => (2 * (i : Int) + 2)) 4 true 5 = 1 := by decide +kernel

end DVP.C06
