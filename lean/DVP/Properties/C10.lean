import DV
import DVP.Lemmas.Split
import DVP.Lemmas.Symplectic
/-!
# C10 — symplectic methods produce symplectic, time-reversible maps

Splitting schemes (`DV.RK.splitStep` mirrors `ExplicitSymplecticIntegrator.step`, tied to the code by
the exact-rational step correspondence of C02 incl. random kick masks; the coefficient tables are
regenerated from `/repo`):
* every stage of every shipped table is a shear (`drift_i = 0 ∨ kick_i = 0`), the tables are
  palindromic and their coefficients sum to one (verified computation on the generated data);
* the coded step equals the composition of the stage maps, each stage is undone by the same stage
  with the opposite step, hence **a palindromic scheme is time-reversible for every separable
  autonomous system, every state and every `h`**;
* the Jacobian of a stage is a shear `[[1, S], [0, 1]]` / `[[1, 0], [S, 1]]` with `S` symmetric (a
  Hessian), shears are symplectic and so is every product of shears: **the step map is symplectic**.
  (The chain rule — Jacobian of the composition = product of the stage Jacobians at the intermediate
  states — is the modelling step; it is not formalised.)

Implicit methods flagged symplectic: the condition `b_i a_ij + b_j a_ji − b_i b_j = 0` and the
symmetry of the table hold for the generated coefficients to `1e-14` (verified computation).  Cited,
not formalised: that this condition implies symplecticity of the nonlinear map (Lasagni, Sanz-Serna,
Suris) and that symplectic integrators have no secular energy drift (backward error analysis).  The
implementation is measured (`harness/p_c10.py`): `MᵀJM = J` by finite differences, `h` then `−h`,
energy over long runs.
-/
namespace DVP.C10
open DV DV.Trees DV.Gen DV.RK DVP.RK DVP.Split DVP.Symplectic
open Matrix

/-- the shipped splitting tables: shears, palindromic, consistent -/
theorem shipped_splitting_tables :
    allSplit.all (fun T => T.symplectic && stagesAreShears T && palindromic T && coeffsSumOne T (10 ^ 14)) = true := by
  decide +kernel

/-- the shipped Runge–Kutta tables flagged symplectic satisfy the symplecticity condition and are
symmetric, to `1e-14`; they are exactly the Gauss methods and the implicit midpoint rule -/
theorem shipped_symplectic_rk_tables :
    (allRK.filter (·.symplectic)).map (·.name) = ["GaussLegendre4", "GaussLegendre6", "ImplicitMidpoint"] ∧
    (allRK.filter (·.symplectic)).all (fun T => symplecticM T (10 ^ 14) && symmetricTab T (10 ^ 14)) = true := by
  decide +kernel

variable {Q P : Type} [AddCommGroup Q] [Module ℚ Q] [AddCommGroup P] [Module ℚ P]

/-- the coded splitting step is the composition of its drift/kick stage maps -/
theorem step_is_composition (F : P → Q) (G : Q → P) (t : ℚ) (y : Q × P) (h : ℚ) (drift kick : List ℚ) :
    y + (splitStep (modOps (V := Q × P)) (sepF F G) pairMask t y h drift kick).1 = compose F G h (List.zip drift kick) y :=
  splitStep_eq_compose F G t y h drift kick

/-- **Time-reversible**: for a palindromic scheme of shears, a step of `h` followed by a step of `-h`
returns the starting state — every separable autonomous system, every state, every `h` -/
theorem palindromic_scheme_reversible (F : P → Q) (G : Q → P) (h : ℚ) (l : List (ℚ × ℚ)) (hpal : l.reverse = l)
    (hs : ∀ ab ∈ l, ab.1 = 0 ∨ ab.2 = 0) (x : Q × P) : compose F G (-h) l (compose F G h l x) = x :=
  palindromic_reversible F G h l hpal hs x

/-- **Symplectic**: the product of the stage Jacobians of any drift/kick composition satisfies
`M J Mᵀ = J` (any number of degrees of freedom, any symmetric Hessian blocks) -/
theorem composition_of_shears_symplectic {l : Type} [DecidableEq l] [Fintype l] (stages : List (Stage l))
    (h : ∀ s ∈ stages, s.symm) :
    (stages.map Stage.jac).prod * Matrix.J l ℚ * ((stages.map Stage.jac).prod)ᵀ = Matrix.J l ℚ :=
  SymplecticGroup.mem_iff.mp (composition_symplectic stages h)

/-- non-vacuity: the Störmer–Verlet composition on the harmonic oscillator, forth and back -/
example : compose (Q := ℚ) (P := ℚ) (fun p => p) (fun q => -q) (-1/10) [(0, 1/2), (1, 0), (0, 1/2)]
    (compose (fun p => p) (fun q => -q) (1/10) [(0, 1/2), (1, 0), (0, 1/2)] (1, 1/3)) = (1, 1/3) := by
  simp [compose, stageMap, pairMask, sepF]; norm_num

end DVP.C10
