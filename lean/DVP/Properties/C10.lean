import DV
import DVP.Lemmas.Split
import DVP.Lemmas.Symplectic
import DVP.Lemmas.QuadInv
import Mathlib.Tactic.NormNum
import Mathlib.Tactic.Linarith
import Mathlib.Tactic.Ring
import Mathlib.Algebra.Module.Prod
import Mathlib.Algebra.Algebra.Bilinear
import Mathlib.LinearAlgebra.Prod
/-!
# C10 — symplectic methods produce symplectic, time-reversible maps

Splitting schemes (`DV.RK.splitStep` mirrors `ExplicitSymplecticIntegrator.step`, tied to the code by
the exact-rational step correspondence of C02 incl. random kick masks; the coefficient tables are
regenerated from `/repo`):
* every stage of every shipped table is a shear (`drift_i = 0 ∨ kick_i = 0`), the tables are
  palindromic and their coefficients sum to one (verified computation on the generated data);
* the coded step equals the composition of the stage maps, each stage is undone by the same stage
  with the opposite step, hence **a palindromic scheme is time-reversible for every separable
  autonomous system, every state and every `h`**;
* the Jacobian of a stage is a shear `[[1, S], [0, 1]]` / `[[1, 0], [S, 1]]` with `S` symmetric (a
  Hessian), shears are symplectic and so is every product of shears: **the step map is symplectic**.
  (The chain rule — Jacobian of the composition = product of the stage Jacobians at the intermediate
  states — is the modelling step; it is not formalised.)

Implicit methods flagged symplectic: the condition `b_i a_ij + b_j a_ji − b_i b_j = 0` and the
symmetry of the table hold for the generated coefficients to `1e-14` (verified computation).  Proved
from it (`quadratic_invariant_defect`, `symplectic_rk_quadratic_invariants`): for ANY table and ANY
stage values the change of a quadratic invariant over one step is exactly
`−h² Σ_ij (b_i a_ij + b_j a_ji − b_i b_j) B(k_i,k_j)`, hence at most `1e-14 h² Σ|B(k_i,k_j)|` per step
for the three shipped tables — whatever the (nonlinear) right-hand side, the state, the step of either
sign and the stage solution.  Cited, not formalised: that the symplectic two-form of the flow map is
such a quadratic invariant of the variational system (Bochev–Scovel; Lasagni, Sanz-Serna, Suris) and
that symplectic integrators have no secular energy drift (backward error analysis).  The
implementation is measured (`harness/p_c10.py`): `MᵀJM = J` by finite differences, `h` then `−h`,
energy over long runs.
-/
namespace DVP.C10
open DV DV.Trees DV.Gen DV.RK DVP.RK DVP.Split DVP.Symplectic
open Matrix

/-- the shipped splitting tables: shears, palindromic, consistent -/
theorem shipped_splitting_tables :
    allSplit.all (fun T => T.symplectic && stagesAreShears T && palindromic T && coeffsSumOne T (10 ^ 14)) = true := by
  decide +kernel

/-- the shipped Runge–Kutta tables flagged symplectic satisfy the symplecticity condition and are
symmetric, to `1e-14`; they are exactly the Gauss methods and the implicit midpoint rule -/
theorem shipped_symplectic_rk_tables :
    (allRK.filter (·.symplectic)).map (·.name) = ["GaussLegendre4", "GaussLegendre6", "ImplicitMidpoint"] ∧
    (allRK.filter (·.symplectic)).all (fun T => symplecticM T (10 ^ 14) && symmetricTab T (10 ^ 14)) = true := by
  decide +kernel

variable {Q P : Type} [AddCommGroup Q] [Module ℚ Q] [AddCommGroup P] [Module ℚ P]

/-- the coded splitting step is the composition of its drift/kick stage maps -/
theorem step_is_composition (F : P → Q) (G : Q → P) (t : ℚ) (y : Q × P) (h : ℚ) (drift kick : List ℚ) :
    y + (splitStep (modOps (V := Q × P)) (sepF F G) pairMask t y h drift kick).1 = compose F G h (List.zip drift kick) y :=
  splitStep_eq_compose F G t y h drift kick

/-- **Time-reversible**: for a palindromic scheme of shears, a step of `h` followed by a step of `-h`
returns the starting state — every separable autonomous system, every state, every `h` -/
theorem palindromic_scheme_reversible (F : P → Q) (G : Q → P) (h : ℚ) (l : List (ℚ × ℚ)) (hpal : l.reverse = l)
    (hs : ∀ ab ∈ l, ab.1 = 0 ∨ ab.2 = 0) (x : Q × P) : compose F G (-h) l (compose F G h l x) = x :=
  palindromic_reversible F G h l hpal hs x

/-- **Symplectic**: the product of the stage Jacobians of any drift/kick composition satisfies
`M J Mᵀ = J` (any number of degrees of freedom, any symmetric Hessian blocks) -/
theorem composition_of_shears_symplectic {l : Type} [DecidableEq l] [Fintype l] (stages : List (Stage l))
    (h : ∀ s ∈ stages, s.symm) :
    (stages.map Stage.jac).prod * Matrix.J l ℚ * ((stages.map Stage.jac).prod)ᵀ = Matrix.J l ℚ :=
  SymplecticGroup.mem_iff.mp (composition_symplectic stages h)

/-- **The defect of a quadratic invariant over one Runge–Kutta step**, for every table `(a, b)` with
`s` stages, every symmetric bilinear form `B`, step `h` of either sign, state `y₀` and stage slopes
`k_i` tangent to the invariant at the stage states: `B(y₁,y₁) − B(y₀,y₀) = −h² Σ_ij m_ij B(k_i,k_j)` -/
theorem quadratic_invariant_defect {V : Type} [AddCommGroup V] [Module ℚ V]
    (B : V →ₗ[ℚ] V →ₗ[ℚ] ℚ) (hsymm : ∀ x y, B x y = B y x) (s : ℕ) (a : ℕ → ℕ → ℚ) (b : ℕ → ℚ) (h : ℚ) (y0 : V) (k : ℕ → V)
    (htan : ∀ i, i < s → B (y0 + h • ∑ j ∈ Finset.range s, a i j • k j) (k i) = 0) :
    B (y0 + h • ∑ i ∈ Finset.range s, b i • k i) (y0 + h • ∑ i ∈ Finset.range s, b i • k i) - B y0 y0 =
      -(h ^ 2) * ∑ i ∈ Finset.range s, ∑ j ∈ Finset.range s, DVP.QuadInv.mDefect a b i j * B (k i) (k j) :=
  DVP.QuadInv.quadratic_defect B hsymm s a b h y0 k htan

/-- **The shipped symplectic Runge–Kutta methods (Gauss 4, Gauss 6, implicit midpoint) conserve every
quadratic invariant to within `1e-14·h²·Σ|B(k_i,k_j)|` per step**, for the float64 coefficients the
classes hold, every right-hand side, state, step of either sign and stage solution -/
theorem symplectic_rk_quadratic_invariants (T : RKTab) (hT : T ∈ allRK.filter (·.symplectic))
    {V : Type} [AddCommGroup V] [Module ℚ V] (B : V →ₗ[ℚ] V →ₗ[ℚ] ℚ) (hsymm : ∀ x y, B x y = B y x) (h : ℚ) (y0 : V) (k : ℕ → V)
    (htan : ∀ i, i < (T.bs.headD []).length →
      B (y0 + h • ∑ j ∈ Finset.range (T.bs.headD []).length, DVP.QuadInv.aOf T i j • k j) (k i) = 0) :
    |B (y0 + h • ∑ i ∈ Finset.range (T.bs.headD []).length, DVP.QuadInv.bOf T i • k i)
        (y0 + h • ∑ i ∈ Finset.range (T.bs.headD []).length, DVP.QuadInv.bOf T i • k i) - B y0 y0| ≤
      h ^ 2 * (1 / ((10 ^ 14 : ℕ) : ℚ) * ∑ i ∈ Finset.range (T.bs.headD []).length, ∑ j ∈ Finset.range (T.bs.headD []).length, |B (k i) (k j)|) := by
  have hall := shipped_symplectic_rk_tables.2
  rw [List.all_eq_true] at hall
  have hM := hall T hT
  simp only [Bool.and_eq_true] at hM
  exact DVP.QuadInv.quadratic_invariant_drift_bound B hsymm _ _ _ _
    (fun i j hi hj => DVP.QuadInv.symplecticM_spec T (10 ^ 14) (by positivity) hM.1 i j hi hj) h y0 k htan

/-- the Euclidean form on `ℚ × ℚ` (for the example below) -/
private def dotB : (ℚ × ℚ) →ₗ[ℚ] (ℚ × ℚ) →ₗ[ℚ] ℚ :=
  (LinearMap.mul ℚ ℚ).compl₁₂ (LinearMap.fst ℚ ℚ ℚ) (LinearMap.fst ℚ ℚ ℚ) +
  (LinearMap.mul ℚ ℚ).compl₁₂ (LinearMap.snd ℚ ℚ ℚ) (LinearMap.snd ℚ ℚ ℚ)

/-- non-vacuity of the tangency hypothesis: implicit midpoint (`a = 1/2`, `b = 1`) on the rotation
`(q, p)' = (p, −q)` from `(1, 0)` with `h = 1`: the stage slope `k = (−2/5, −4/5)` solves the stage
equation and is tangent to `q² + p²` at the stage state `(4/5, −2/5)`; the step lands on `(3/5, −4/5)`,
again of norm one -/
example : dotB ((1, 0) + (1 : ℚ) • ∑ _j ∈ Finset.range 1, ((1/2 : ℚ)) • ((-2/5, -4/5) : ℚ × ℚ)) ((-2/5, -4/5) : ℚ × ℚ) = 0 ∧
    dotB ((1, 0) + (1 : ℚ) • ∑ _i ∈ Finset.range 1, (1 : ℚ) • ((-2/5, -4/5) : ℚ × ℚ))
         ((1, 0) + (1 : ℚ) • ∑ _i ∈ Finset.range 1, (1 : ℚ) • ((-2/5, -4/5) : ℚ × ℚ)) = dotB (1, 0) (1, 0) := by
  constructor <;> (simp [dotB]; norm_num)

/-- non-vacuity: the Störmer–Verlet composition on the harmonic oscillator, forth and back -/
example : compose (Q := ℚ) (P := ℚ) (fun p => p) (fun q => -q) (-1/10) [(0, 1/2), (1, 0), (0, 1/2)]
    (compose (fun p => p) (fun q => -q) (1/10) [(0, 1/2), (1, 0), (0, 1/2)] (1, 1/3)) = (1, 1/3) := by
  simp [compose, stageMap, pairMask, sepF]; norm_num

/-! ### no secular energy drift: the shipped kick-drift-kick scheme on the harmonic oscillator -/

/-- the stages of the shipped `SymplecticEulerSolver` table (regenerated): kick 1/2, drift 1, kick 1/2 -/
theorem symplectic_euler_table_is_kick_drift_kick :
    (List.zip (split_SymplecticEulerSolver.drift.map (fun x => (x : ℚ) / 2 ^ split_SymplecticEulerSolver.K))
      (split_SymplecticEulerSolver.kick.map (fun x => (x : ℚ) / 2 ^ split_SymplecticEulerSolver.K))) =
      [((0 : ℚ), (1 / 2 : ℚ)), (1, 0), (0, 1 / 2)] := by
  simp only [split_SymplecticEulerSolver, List.map_cons, List.map_nil, List.zip_cons_cons, List.zip_nil_right]
  norm_num

/-- one step of that scheme on `q' = p`, `p' = -q` -/
def kdkStep (h : ℚ) (x : ℚ × ℚ) : ℚ × ℚ := compose (fun p => p) (fun q => -q) h [((0 : ℚ), (1 / 2 : ℚ)), (1, 0), (0, 1 / 2)] x

/-- twice the modified energy `p²/2 + (1 - h²/4) q²/2` -/
def modifiedEnergy (h : ℚ) (x : ℚ × ℚ) : ℚ := x.2 ^ 2 + (1 - h ^ 2 / 4) * x.1 ^ 2

/-- twice the energy -/
def energy (x : ℚ × ℚ) : ℚ := x.2 ^ 2 + x.1 ^ 2

/-- **The modified energy is an exact invariant of the step**, for every state and every step size -/
theorem kdk_modified_energy_invariant (h : ℚ) (x : ℚ × ℚ) : modifiedEnergy h (kdkStep h x) = modifiedEnergy h x := by
  obtain ⟨q, p⟩ := x
  simp only [kdkStep, compose, List.foldl_cons, List.foldl_nil, stageMap, pairMask, sepF, modifiedEnergy,
    Prod.smul_mk, Prod.mk_add_mk, smul_eq_mul]
  ring

theorem kdk_iterate_invariant (h : ℚ) (x : ℚ × ℚ) : ∀ n : Nat, modifiedEnergy h ((kdkStep h)^[n] x) = modifiedEnergy h x
  | 0 => rfl
  | n + 1 => by rw [Function.iterate_succ_apply', kdk_modified_energy_invariant, kdk_iterate_invariant h x n]

/-- **Consequently the energy error stays bounded without secular drift**: with a step `|h| < 2`, after ANY number of steps of the
shipped kick-drift-kick scheme on the harmonic oscillator the energy is at most `E₀ / (1 - h²/4)` (and at least `(1 - h²/4) E₀`):
the error is `O(h²) E₀` uniformly in the number of steps. -/
theorem kdk_energy_bounded_for_all_times (h : ℚ) (hh : h ^ 2 < 4) (x : ℚ × ℚ) (n : Nat) :
    energy ((kdkStep h)^[n] x) ≤ energy x / (1 - h ^ 2 / 4) ∧ (1 - h ^ 2 / 4) * energy x ≤ energy ((kdkStep h)^[n] x) := by
  have hc : 0 < 1 - h ^ 2 / 4 := by linarith
  have hc1 : 1 - h ^ 2 / 4 ≤ 1 := by nlinarith [sq_nonneg h]
  have hinv := kdk_iterate_invariant h x n
  set y := (kdkStep h)^[n] x
  have hq0 : 0 ≤ x.1 ^ 2 := sq_nonneg _
  have hp0 : 0 ≤ x.2 ^ 2 := sq_nonneg _
  have hq1 : 0 ≤ y.1 ^ 2 := sq_nonneg _
  have hp1 : 0 ≤ y.2 ^ 2 := sq_nonneg _
  simp only [modifiedEnergy] at hinv
  constructor
  · rw [le_div_iff₀ hc]
    simp only [energy]
    nlinarith
  · simp only [energy]
    nlinarith

/-- the coded step of the shipped table IS that map: `y + dState = kdkStep h y` -/
theorem coded_symplectic_euler_step_is_kdk (t h : ℚ) (y : ℚ × ℚ) :
    y + (splitStep (modOps (V := ℚ × ℚ)) (sepF (fun p => p) (fun q => -q)) pairMask t y h
      (split_SymplecticEulerSolver.drift.map (fun x => (x : ℚ) / 2 ^ split_SymplecticEulerSolver.K))
      (split_SymplecticEulerSolver.kick.map (fun x => (x : ℚ) / 2 ^ split_SymplecticEulerSolver.K))).1 = kdkStep h y := by
  rw [splitStep_eq_compose, symplectic_euler_table_is_kick_drift_kick]; rfl

end DVP.C10
