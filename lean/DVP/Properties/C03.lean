import DVP.Lemmas.Loop
import DVP.Lemmas.Consts
import DVP.Lemmas.LoopEv
import DVP.Lemmas.Run
/-!
# C03 — integration covers exactly the requested time span, in order

`DV.Loop` is a hand-written mirror of the `OdeSystem` time-grid state machine (construction,
`integrate(t)` without events, setters, `reset`), tied to the code by bit-exact replay of recorded
runs (`harness/p_c03.py`: recorded times, `dt`, status, buffer capacity and every step requested
from the integrator must coincide).  The integrator and the callbacks are an **oracle**: the
theorems hold for *every* integrator behaviour that honours the contract `OracleOK` (each return
is a non-zero step in the direction of the request, not longer than it, with a non-zero proposal
for the next step; or an exception), for every span, every sign pattern, every `dt ≠ 0` of either
sign and any size, and every sequence of calls.  The contract itself is a theorem for the
integrator models where it can be (C04/C05) and is checked on every recorded return.

States: for the fixed-step explicit and splitting methods `DV.Run` carries the recorded states along
(`fixed_step_samples_paired`); for the other integrators pairing is checked on the implementation only, as are:
stored values finite and of the initial dtype, and IEEE rounding ("a few rounding
units": the loop guard leaves at `|tf - t| < 32u`, the final step is `t + (tf - t)`).
-/
namespace DVP.C03
open DV DV.Loop DVP.Loop

/-- **One call.**  The recorded grid is extended — earlier samples untouched — by samples that start
from the current time, move strictly monotonically toward the target and never pass it; when the
call returns through the loop guard the last time is within `max eps tolEps` of the target. -/
theorem integrate_covers_span (cfg : Cfg ℚ) (heps : 0 < cfg.eps) (htol : 0 < cfg.tolEps) (hhalf : 0 < cfg.half)
    (s : Sys ℚ) (target : ℚ) (orc : Oracle ℚ) (fuel : Nat)
    (hdt : s.dt ≠ 0) (hor : OracleOK orc) (hcv : CbsNonzero orc)
    (hcb : NoCbAssign orc ∨ 0 < (s.tf - s.t0) * (target - s.tcur)) :
    ∃ news : List ℚ, (integrate cfg s target orc fuel).sys.ts = news.reverse ++ s.ts ∧
      Steps target s.tcur news ∧
      ((integrate cfg s target orc fuel).guardExit = true →
        |target - (integrate cfg s target orc fuel).sys.tcur| < max cfg.eps cfg.tolEps) := by
  obtain ⟨news, h1, h2, _, _, _, _, h7⟩ := integrate_grid cfg heps htol hhalf s target orc fuel hdt hor hcv hcb
  exact ⟨news, h1, h2, h7⟩

/-- a clipped final step that the integrator takes whole lands on the target exactly -/
theorem final_step_lands_exactly (target : ℚ) (s : Sys ℚ) (it : Iter ℚ) (newDt : ℚ) (g : Nat)
    (hfin : isFinal target s = true) :
    (advance target s it newDt (DV.Loop.request target s) g).tcur = target := by
  have : DV.Loop.request target s = target - s.tcur := by unfold DV.Loop.request; rw [if_pos hfin]
  rw [this]
  show s.tcur + (target - s.tcur) = target
  ring

/-- one `integrate` call of a sequence -/
structure Call where
  target : ℚ
  orc : Oracle ℚ
  fuel : Nat

/-- every call of a sequence extends the grid monotonically toward its own target -/
def GridOK (cfg : Cfg ℚ) : Sys ℚ → List Call → Prop
  | _, [] => True
  | s, c :: r =>
    (∃ news : List ℚ, (integrate cfg s c.target c.orc c.fuel).sys.ts = news.reverse ++ s.ts ∧
      Steps c.target s.tcur news ∧
      ((integrate cfg s c.target c.orc c.fuel).guardExit = true →
        |c.target - (integrate cfg s c.target c.orc c.fuel).sys.tcur| < max cfg.eps cfg.tolEps)) ∧
    GridOK cfg (integrate cfg s c.target c.orc c.fuel).sys r

/-- **Any sequence of calls** — forward, backward, reversing, with targets of any sign — keeps the
property, by induction over the call list. -/
theorem call_sequence_covers_spans (cfg : Cfg ℚ) (heps : 0 < cfg.eps) (htol : 0 < cfg.tolEps) (hhalf : 0 < cfg.half) :
    ∀ (calls : List Call) (s : Sys ℚ), s.dt ≠ 0 →
      (∀ c ∈ calls, OracleOK c.orc ∧ CbsNonzero c.orc ∧ NoCbAssign c.orc) → GridOK cfg s calls := by
  intro calls
  induction calls with
  | nil => intro s _ _; trivial
  | cons c r ih =>
    intro s hdt hall
    obtain ⟨ho, hc, hn⟩ := hall c (List.mem_cons_self ..)
    obtain ⟨news, h1, h2, h3, _, _, _, h7⟩ := integrate_grid cfg heps htol hhalf s c.target c.orc c.fuel hdt ho hc (Or.inl hn)
    exact ⟨⟨news, h1, h2, h7⟩, ih _ h3 (fun c' hc' => hall c' (List.mem_cons_of_mem _ hc'))⟩

/-- the first recorded sample is never touched: it stays the start time of the construction -/
theorem first_sample_kept (cfg : Cfg ℚ) (heps : 0 < cfg.eps) (htol : 0 < cfg.tolEps) (hhalf : 0 < cfg.half)
    (s : Sys ℚ) (target : ℚ) (orc : Oracle ℚ) (fuel : Nat)
    (hdt : s.dt ≠ 0) (hor : OracleOK orc) (hcv : CbsNonzero orc) (hn : NoCbAssign orc) (hne : s.ts ≠ []) :
    (integrate cfg s target orc fuel).sys.ts.getLast? = s.ts.getLast? := by
  obtain ⟨news, h1, _⟩ := integrate_grid cfg heps htol hhalf s target orc fuel hdt hor hcv (Or.inl hn)
  rw [h1, List.getLast?_append_of_ne_nil _ hne]

/-- non-vacuity: an integrator that takes every requested step whole honours the contract, and a
concrete backward run over a mixed-sign span with a step that does not divide the span produces the
expected grid and lands on the target -/
example : OracleOK (fun _ _ h => { ret := .ok h h }) := by
  intro k t h hh
  exact ⟨hh, mul_self_pos.mpr hh, le_refl _, hh⟩

example : ((integrate (α := ℚ) { eps := 1/2^50, tolEps := 1/2^47, half := 1/2 } (construct (α := ℚ) (1/2) (-1/4) (3/10)) (-1/4)
    (fun _ _ h => { ret := .ok h h }) 10).sys.ts.reverse = [1/2, 1/5, -1/10, -1/4]) := by decide +kernel

/-- **A call with events in which nothing fires is the plain call.**  If no event function fails and no probe
passes the direction mask in any step (no crossing located), `integrate(t, events=…)` leaves exactly the system
that `integrate(t)` leaves with the same integrator and callbacks — same samples, step size, status, buffer,
same requests — records no event and does not stop.  Every theorem of this file (and of C04, C12, C13) about
the plain call therefore holds for such calls with events. -/
theorem quiet_event_call_is_plain_call (cfg : DV.LoopEv.CfgEv ℚ) (s : Sys ℚ) (evs : List (Nat × ℚ)) (kn : List ℚ) (nEvents : Nat)
    (target : ℚ) (orc : DV.LoopEv.OracleEv ℚ) (fuel : Nat)
    (hq : ∀ k t h, (orc k t h).evRaise = false ∧ ∀ p ∈ (orc k t h).probes, p.active = false)
    (hne : s.ts ≠ []) (hcap : s.ts.length ≤ s.cap) :
    (DV.LoopEv.integrateEv cfg s evs kn nEvents target orc fuel).sys = (integrate cfg.loop s target (DVP.LoopEv.baseOrc orc) fuel).sys ∧
    (DV.LoopEv.integrateEv cfg s evs kn nEvents target orc fuel).reqs = (integrate cfg.loop s target (DVP.LoopEv.baseOrc orc) fuel).reqs ∧
    (DV.LoopEv.integrateEv cfg s evs kn nEvents target orc fuel).guardExit = (integrate cfg.loop s target (DVP.LoopEv.baseOrc orc) fuel).guardExit ∧
    (DV.LoopEv.integrateEv cfg s evs kn nEvents target orc fuel).book.events = evs ∧
    (DV.LoopEv.integrateEv cfg s evs kn nEvents target orc fuel).stopped = false :=
  DVP.LoopEv.quiet_call_is_plain_call cfg s evs kn nEvents target orc fuel
    (fun k t h => ⟨(hq k t h).1, fun sgn => DVP.LoopEv.handle_no_active sgn _ (hq k t h).2⟩) hne hcap


/-- **Times and states stay paired one-to-one, the first state is the initial condition, and every
recorded state is its predecessor advanced by one step of the method over the recorded interval** —
for the whole-run model `DV.Run` (the time-grid machine with the states put back; fixed-step explicit
Runge–Kutta and splitting methods, `inc` the increment of one step of the method, e.g. `DV.Run.rkInc`),
for every right-hand side, every span and step of either sign, any sequence of `integrate(t)` calls and
however many steps are taken. -/
theorem fixed_step_samples_paired {V : Type} (cfg : Cfg ℚ) (add : V → V → V) (inc : ℚ → V → ℚ → V) (t0 tf dt : ℚ) (y0 : V)
    (targets : List ℚ) (fuel : Nat) :
    let r := DV.Run.calls cfg add inc fuel (DV.Run.construct t0 tf dt y0) targets
    r.sys.ts.length = r.ys.length ∧ r.ys.getLast? = some y0 ∧ r.sys.ts.getLast? = some t0 ∧
      DVP.Run.StepsOK add inc r.sys.ts r.ys := by
  have h0 : DVP.Run.StepsOK add inc (DV.Run.construct t0 tf dt y0).sys.ts (DV.Run.construct t0 tf dt y0).ys := by
    unfold DV.Run.construct DV.Loop.construct
    split <;> simp [DVP.Run.StepsOK]
  have h := DVP.Run.calls_steps cfg add inc fuel targets _ h0
  refine ⟨h.1.length_eq, by rw [h.2]; rfl, ?_, h.1⟩
  exact DVP.Run.calls_first_time cfg add inc fuel targets _ (by unfold DV.Run.construct DV.Loop.construct; split <;> simp)
    |>.trans (by unfold DV.Run.construct DV.Loop.construct; split <;> rfl)

/-- non-vacuity: Euler on `y' = y` backward from 1/2 with a step that does not divide the span; two calls (the
second call finds its step longer than what is left and starts with half the distance) -/
example : (DV.Run.calls (α := ℚ) (V := ℚ) { eps := 1/2^50, tolEps := 1/2^47, half := 1/2 } (· + ·)
      (fun _ y h => y * h) 10 (DV.Run.construct (1/2) (-1/4) (3/10) 1) [0, -1/4]).sys.ts = [-1/4, -1/8, 0, 1/5, 1/2] := by decide +kernel
example : (DV.Run.calls (α := ℚ) (V := ℚ) { eps := 1/2^50, tolEps := 1/2^47, half := 1/2 } (· + ·)
      (fun _ y h => y * h) 10 (DV.Run.construct (1/2) (-1/4) (3/10) 1) [0, -1/4]).ys = [343/800, 49/100, 14/25, 7/10, 1] := by decide +kernel

/-- the constants of the loop model are the ones in the source text (regenerated `DV.Gen.Consts`): buffer cap, halving, `epsilon`,
`tol_epsilon` -/
theorem loop_constants_are_the_sources :
    (DV.Loop.allocSteps (((DV.Gen.Consts.allocCap + 1000 : Nat) : Rat)) 1 = some DV.Gen.Consts.allocCap ∧ DV.Gen.Consts.allocCap = 5000) ∧
    (DV.Gen.Consts.halving = 1/2 ∧ DV.Gen.Consts.epsilonFactor = 4 ∧ DV.Gen.Consts.tolEpsilonFactor = 32) :=
  ⟨DVP.Consts.alloc_cap, DVP.Consts.loop_literals⟩

end DVP.C03
