import DV
/-! C01, thorough tier only: the full declared order of the two largest tables. -/
namespace DVP.C01Deep
open DV DV.Trees DV.Gen

/-- Feagin RK14(12): all 53 270 rooted trees up to order 14 (compiled evaluation) -/
theorem order_RK1412Solver : tab_RK1412Solver.order = 14 ∧ checkOrder (ofRK tab_RK1412Solver) 14 (10^12) = true := by
  native_decide

/-- RadauIIA19: all rooted trees up to order 12 -/
theorem order_RadauIIA19_to12 : checkOrder (ofRK tab_RadauIIA19) 12 (10^12) = true := by native_decide

end DVP.C01Deep
