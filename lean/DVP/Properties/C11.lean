import DV
import DVP.Lemmas.Stability
import DVP.Lemmas.StabilityStep
/-!
# C11 — implicit methods are unconditionally stable on stiff decay

For every implicit table the translator computes, from the float64 coefficients the running class
holds (dyadic rationals; with `w = z/2^K` everything is an integer polynomial), the adjugate
`Adj(w)` and determinant `Q(w)` of `I − w·A`, the numerator `P = Q + w·bᵀAdj 𝟙` of the stability
function `R = P/Q`, a Bézout identity `U·P + V·Q = c ≠ 0` and the bivariate expansion of
`(1+δ)²|Q(−u+iy)|² − |P(−u+iy)|²`, `δ = 1e-12`.  Lean **checks** the certificates (polynomial identities
and sign conditions, by computation) and **proves** what a valid certificate means: for every `w` in the
closed left half-plane `Q(w) ≠ 0` (no pole) and `|P(w)| ≤ (1+δ)|Q(w)|`.  The slack `δ = 1e-12` is
what the rounding of the coefficients to float64 costs: the statement is about the coefficients the
code really uses.  `step_is_stability_function` then proves the step itself: whatever stage values
solve the stage equations of `y' = λy` (`Adj·(I − wA) = Q·I` makes `Adj/Q` the inverse of the stage
matrix), the new state satisfies `Q(w)·y₁ = P(w)·y₀`; `implicit_step_does_not_grow` combines the two:
`|y₁| ≤ (1+δ)|y₀|` for every `hλ` in the closed left half-plane, of any magnitude.  That the real
integrator's Newton solve returns such stage values is compared on the implementation
(`harness/p_c11.py`: computed step vs `R(z)` exactly evaluated).
-/
namespace DVP.C11
open DV DV.Gen DV.Stability DVP.Stability

/-- every generated certificate passes all four checks -/
theorem certificates_valid : allCerts.all (·.valid) = true := by decide +kernel

/-- the certificates are about the shipped implicit tables: same methods, same coefficients (as
rationals) as the generated tables of C01/C02 -/
theorem certificates_match_tables :
    allCerts.map (·.name) = (allRK.filter (fun T => !T.listedExplicit)).map (·.name) ∧
    (List.zip allCerts (allRK.filter (fun T => !T.listedExplicit))).all (fun x =>
      let C := x.1
      let T := x.2
      (List.zip C.A T.A).all (fun r => (List.zip r.1 r.2).all (fun e => e.1 * (2 ^ T.K : Nat) == e.2 * (2 ^ C.K : Nat))) &&
      (List.zip C.b (T.bs.headD [])).all (fun e => e.1 * (2 ^ T.K : Nat) == e.2 * (2 ^ C.K : Nat)) &&
      C.A.length == T.A.length && C.b.length == (T.bs.headD []).length) = true := by
  decide +kernel

/-- **A valid certificate means A-stability with slack `1/slackDen`**: for every point `w = −u + iy`,
`u ≥ 0` (the closed left half-plane, any magnitude), the stability function has no pole and
`slackDen·|P(w)| ≤ (slackDen + 1)·|Q(w)|` (in squared form) -/
theorem valid_certificate_means_stable (C : Cert) (hv : C.valid = true) (hsd : 0 < C.slackDen) (u y : ℝ) (hu : 0 ≤ u) :
    pev C.Q (⟨-u, y⟩ : ℂ) ≠ 0 ∧
    ((C.slackDen : ℝ) ^ 2) * Complex.normSq (pev C.P (⟨-u, y⟩ : ℂ)) ≤
      (((C.slackDen : ℝ) + 1) ^ 2) * Complex.normSq (pev C.Q (⟨-u, y⟩ : ℂ)) := by
  unfold Cert.valid at hv
  simp only [Bool.and_eq_true] at hv
  exact cert_sound C.P C.Q C.U C.V C.c C.slackDen hsd hv.2 hv.1.2 u y hu

/-- **All 16 implicit methods**: no pole in the closed left half-plane and `|R(z)| ≤ 1 + 1e-12` there,
for the coefficients the running classes hold -/
theorem implicit_methods_A_stable (C : Cert) (hC : C ∈ allCerts) (u y : ℝ) (hu : 0 ≤ u) :
    pev C.Q (⟨-u, y⟩ : ℂ) ≠ 0 ∧
    ((10 ^ 12 : ℝ) ^ 2) * Complex.normSq (pev C.P (⟨-u, y⟩ : ℂ)) ≤ (((10 ^ 12 : ℝ) + 1) ^ 2) * Complex.normSq (pev C.Q (⟨-u, y⟩ : ℂ)) := by
  have hall := certificates_valid
  rw [List.all_eq_true] at hall
  have hv := hall C hC
  have hsd : C.slackDen = 10 ^ 12 := by
    have : allCerts.all (fun C => C.slackDen == 10 ^ 12) = true := by decide +kernel
    rw [List.all_eq_true] at this
    simpa using this C hC
  have := valid_certificate_means_stable C hv (by rw [hsd]; positivity) u y hu
  rw [hsd] at this
  norm_num at this ⊢
  exact this

/-- **The step is the stability function**: for every shipped implicit table, every complex `w = hλ/2^K`
and ANY stage values `κ_j = h k_j` solving the stage equations `Σ_j (I − wA)_ij κ_j = hλ·y₀` of
`y' = λy`, the new state `y₁ = y₀ + Σ_i b_i κ_i` satisfies `Q(w)·y₁ = P(w)·y₀` -/
theorem step_is_stability_function (C : Cert) (hC : C ∈ allCerts) (w y0 : ℂ) (κ : Nat → ℂ)
    (hstage : ∀ i, i < C.A.length →
      ∑ j ∈ Finset.range C.A.length, pev (iMinusWA C.A i j) w * κ j = w * (2 : ℂ) ^ C.K * y0) :
    pev C.Q w * (y0 + ∑ i ∈ Finset.range C.A.length, ((C.b.getD i 0 : Int) : ℂ) / (2 : ℂ) ^ C.K * κ i) = pev C.P w * y0 := by
  have hall := certificates_valid
  rw [List.all_eq_true] at hall
  have hv := hall C hC
  unfold Cert.valid at hv
  simp only [Bool.and_eq_true] at hv
  have hb : C.b.length = C.A.length := by
    have : allCerts.all (fun C => C.b.length == C.A.length) = true := by decide +kernel
    rw [List.all_eq_true] at this
    simpa using this C hC
  exact step_eq_stability C.K C.A C.b C.Adj C.P C.Q hv.1.1.1 hv.1.1.2 hb w y0 κ hstage

/-- **An implicit step on stiff decay never grows** (beyond the rounding slack of the coefficients):
for every shipped implicit method, every `hλ` with `Re(hλ) ≤ 0` of any magnitude and any solution of
the stage equations, `|y₁| ≤ (1 + 1e-12)·|y₀|` (squared form) -/
theorem implicit_step_does_not_grow (C : Cert) (hC : C ∈ allCerts) (u y : ℝ) (hu : 0 ≤ u) (y0 : ℂ) (κ : Nat → ℂ)
    (hstage : ∀ i, i < C.A.length →
      ∑ j ∈ Finset.range C.A.length, pev (iMinusWA C.A i j) (⟨-u, y⟩ : ℂ) * κ j = (⟨-u, y⟩ : ℂ) * (2 : ℂ) ^ C.K * y0) :
    ((10 ^ 12 : ℝ) ^ 2) * Complex.normSq (y0 + ∑ i ∈ Finset.range C.A.length, ((C.b.getD i 0 : Int) : ℂ) / (2 : ℂ) ^ C.K * κ i) ≤
      (((10 ^ 12 : ℝ) + 1) ^ 2) * Complex.normSq y0 := by
  obtain ⟨hQ, hineq⟩ := implicit_methods_A_stable C hC u y hu
  have hstep := step_is_stability_function C hC (⟨-u, y⟩ : ℂ) y0 κ hstage
  set y1 := y0 + ∑ i ∈ Finset.range C.A.length, ((C.b.getD i 0 : Int) : ℂ) / (2 : ℂ) ^ C.K * κ i
  have hn := congrArg Complex.normSq hstep
  rw [Complex.normSq_mul, Complex.normSq_mul] at hn
  have hQpos : 0 < Complex.normSq (pev C.Q (⟨-u, y⟩ : ℂ)) := Complex.normSq_pos.mpr hQ
  have h0 := Complex.normSq_nonneg y0
  have h1 := Complex.normSq_nonneg y1
  -- multiply the goal by normSq Q > 0
  have key : Complex.normSq (pev C.Q (⟨-u, y⟩ : ℂ)) * (((10 ^ 12 : ℝ) ^ 2) * Complex.normSq y1) ≤
      Complex.normSq (pev C.Q (⟨-u, y⟩ : ℂ)) * ((((10 ^ 12 : ℝ) + 1) ^ 2) * Complex.normSq y0) := by
    calc Complex.normSq (pev C.Q (⟨-u, y⟩ : ℂ)) * (((10 ^ 12 : ℝ) ^ 2) * Complex.normSq y1)
        = ((10 ^ 12 : ℝ) ^ 2) * (Complex.normSq (pev C.Q (⟨-u, y⟩ : ℂ)) * Complex.normSq y1) := by ring
      _ = (((10 ^ 12 : ℝ) ^ 2) * Complex.normSq (pev C.P (⟨-u, y⟩ : ℂ))) * Complex.normSq y0 := by rw [hn]; ring
      _ ≤ ((((10 ^ 12 : ℝ) + 1) ^ 2) * Complex.normSq (pev C.Q (⟨-u, y⟩ : ℂ))) * Complex.normSq y0 :=
          mul_le_mul_of_nonneg_right hineq h0
      _ = Complex.normSq (pev C.Q (⟨-u, y⟩ : ℂ)) * ((((10 ^ 12 : ℝ) + 1) ^ 2) * Complex.normSq y0) := by ring
  exact le_of_mul_le_mul_left key hQpos

/-- non-vacuity of the stage equations: backward Euler at `w = −1` (`hλ = −1`), `y₀ = 1`: `κ = −1/2`
solves `(1 + 1)κ = −1`, and the step gives `y₁ = 1/2 = R(−1)` -/
example : (∑ j ∈ Finset.range cert_BackwardEuler.A.length, pev (iMinusWA cert_BackwardEuler.A 0 j) (-1 : ℂ) * (fun _ => (-1/2 : ℂ)) j) =
    (-1 : ℂ) * (2 : ℂ) ^ cert_BackwardEuler.K * 1 := by
  have hA : cert_BackwardEuler.A = [[1]] := by decide +kernel
  have hK : cert_BackwardEuler.K = 0 := by decide +kernel
  rw [hA, hK]
  simp [iMinusWA]
  norm_num

/-- non-vacuity: backward Euler, `R(z) = 1/(1 − z)` (here in `w = z/2^K` with `K = 0`) -/
example : cert_BackwardEuler.Q = [1, -1] ∧ cert_BackwardEuler.P = [1, 0] ∧ cert_BackwardEuler.valid = true := by decide +kernel

end DVP.C11
