import DV
import DVP.Lemmas.Stability
/-!
# C11 — implicit methods are unconditionally stable on stiff decay

For every implicit table the translator computes, from the float64 coefficients the running class
holds (dyadic rationals; with `w = z/2^K` everything is an integer polynomial), the adjugate
`Adj(w)` and determinant `Q(w)` of `I − w·A`, the numerator `P = Q + w·bᵀAdj 𝟙` of the stability
function `R = P/Q`, a Bézout identity `U·P + V·Q = c ≠ 0` and the bivariate expansion of
`(1+δ)²|Q(−u+iy)|² − |P(−u+iy)|²`, `δ = 1e-12`.  Lean **checks** the certificates (polynomial identities
and sign conditions, by computation) and **proves** what a valid certificate means: for every `w` in the
closed left half-plane `Q(w) ≠ 0` (no pole) and `|P(w)| ≤ (1+δ)|Q(w)|`.  The slack `δ = 1e-12` is
what the rounding of the coefficients to float64 costs: the statement is about the coefficients the
code really uses.  (`Adj·(I − wA) = Q·I` makes `Adj/Q` the inverse of the stage matrix wherever
`Q ≠ 0`, so the stage equations of `y' = λy` have the unique solution `k = λy₀ Adj 𝟙 / Q` and the step
is `y₁ = (P/Q)(hλ) y₀`; this last piece of linear algebra is written out in DESIGN.md, not formalised.)
The computed step is compared with `R(z)` on the implementation (`harness/p_c11.py`).
-/
namespace DVP.C11
open DV DV.Gen DV.Stability DVP.Stability

/-- every generated certificate passes all four checks -/
theorem certificates_valid : allCerts.all (·.valid) = true := by decide +kernel

/-- the certificates are about the shipped implicit tables: same methods, same coefficients (as
rationals) as the generated tables of C01/C02 -/
theorem certificates_match_tables :
    allCerts.map (·.name) = (allRK.filter (fun T => !T.listedExplicit)).map (·.name) ∧
    (List.zip allCerts (allRK.filter (fun T => !T.listedExplicit))).all (fun x =>
      let C := x.1
      let T := x.2
      (List.zip C.A T.A).all (fun r => (List.zip r.1 r.2).all (fun e => e.1 * (2 ^ T.K : Nat) == e.2 * (2 ^ C.K : Nat))) &&
      (List.zip C.b (T.bs.headD [])).all (fun e => e.1 * (2 ^ T.K : Nat) == e.2 * (2 ^ C.K : Nat)) &&
      C.A.length == T.A.length && C.b.length == (T.bs.headD []).length) = true := by
  decide +kernel

/-- **A valid certificate means A-stability with slack `1/slackDen`**: for every point `w = −u + iy`,
`u ≥ 0` (the closed left half-plane, any magnitude), the stability function has no pole and
`slackDen·|P(w)| ≤ (slackDen + 1)·|Q(w)|` (in squared form) -/
theorem valid_certificate_means_stable (C : Cert) (hv : C.valid = true) (hsd : 0 < C.slackDen) (u y : ℝ) (hu : 0 ≤ u) :
    pev C.Q (⟨-u, y⟩ : ℂ) ≠ 0 ∧
    ((C.slackDen : ℝ) ^ 2) * Complex.normSq (pev C.P (⟨-u, y⟩ : ℂ)) ≤
      (((C.slackDen : ℝ) + 1) ^ 2) * Complex.normSq (pev C.Q (⟨-u, y⟩ : ℂ)) := by
  unfold Cert.valid at hv
  simp only [Bool.and_eq_true] at hv
  exact cert_sound C.P C.Q C.U C.V C.c C.slackDen hsd hv.2 hv.1.2 u y hu

/-- **All 16 implicit methods**: no pole in the closed left half-plane and `|R(z)| ≤ 1 + 1e-12` there,
for the coefficients the running classes hold -/
theorem implicit_methods_A_stable (C : Cert) (hC : C ∈ allCerts) (u y : ℝ) (hu : 0 ≤ u) :
    pev C.Q (⟨-u, y⟩ : ℂ) ≠ 0 ∧
    ((10 ^ 12 : ℝ) ^ 2) * Complex.normSq (pev C.P (⟨-u, y⟩ : ℂ)) ≤ (((10 ^ 12 : ℝ) + 1) ^ 2) * Complex.normSq (pev C.Q (⟨-u, y⟩ : ℂ)) := by
  have hall := certificates_valid
  rw [List.all_eq_true] at hall
  have hv := hall C hC
  have hsd : C.slackDen = 10 ^ 12 := by
    have : allCerts.all (fun C => C.slackDen == 10 ^ 12) = true := by decide +kernel
    rw [List.all_eq_true] at this
    simpa using this C hC
  have := valid_certificate_means_stable C hv (by rw [hsd]; positivity) u y hu
  rw [hsd] at this
  norm_num at this ⊢
  exact this

/-- non-vacuity: backward Euler, `R(z) = 1/(1 − z)` (here in `w = z/2^K` with `K = 0`) -/
example : cert_BackwardEuler.Q = [1, -1] ∧ cert_BackwardEuler.P = [1, 0] ∧ cert_BackwardEuler.valid = true := by decide +kernel

end DVP.C11
