import DV
import DVP.Lemmas.RK
import DVP.Lemmas.Controller
import DVP.Properties.C15
/-!
# C02 — one step equals the Runge–Kutta update defined by the method's coefficients

`DV.RK` mirrors `compute_step` / `RungeKuttaIntegrator.step` / `ExplicitSymplecticIntegrator.step`,
`DV.Controller` the accept/retry logic of `RungeKuttaIntegrator.__call__`.  Both are tied to the
code by `harness/p_c02.py` (every method × float32/64/longdouble × random polynomial right-hand
sides, `h` of either sign: stages, increment, end slope and error estimate against the exact
rational value of the model under a forward-error bound; returned implicit stages substituted
into the stage equations exactly; recorded attempt sequences).  The theorems hold for **every**
right-hand side `f`, time, state (any `ℚ`-module), step of either sign and any stale content of
the stage storage.

Outside the theorems: floating-point rounding of the vector kernels (bounded, not formalised) and
what the nonlinear solver's `prec` means (C15).
-/
namespace DVP.C02
open DV DV.RK DVP.RK DV.Controller DVP.Controller

variable {V : Type} [AddCommGroup V] [Module ℚ V]

/-- the code sums only over non-zero coefficients (or over all of them for an all-zero row): that is
the full sum -/
theorem masked_sum_is_full_sum (coeffs : List ℚ) (ks : List V) :
    maskedSum (modOps (V := V)) coeffs ks = wsum (modOps (V := V)) coeffs ks := maskedSum_eq_wsum coeffs ks

/-- **Stage slopes**: for an explicit table the slopes left in the stage storage satisfy
`k_i = f(t + c_i h, y + h Σ_j a_ij k_j)`, whatever the storage held before -/
theorem stage_loop_computes_rk_stages (f : ℚ → V → V) (t : ℚ) (y : V) (h : ℚ) (c : List ℚ) (A : List (List ℚ))
    (hA : Explicit A) (stages : List V) :
    let ks := (computeStep (modOps (V := V)) f t y h c A stages).stages
    ks.length = stages.length ∧ ∀ i, i < stages.length → ks.getD i 0 = stageEq f t y h c A i ks :=
  computeStep_spec f t y h c A hA stages

/-- **Increment** (generic branch): `h · Σ b_i k_i`, end slope `f(t + h, y + increment)` -/
theorem explicit_step_is_rk_update (f : ℚ → V → V) (t : ℚ) (y : V) (h : ℚ) (c : List ℚ) (A : List (List ℚ)) (b : List ℚ)
    (hA : Explicit A) (stages : List V) :
    let out := rkStepExplicit (modOps (V := V)) f t y h c A b false stages
    (∀ i, i < stages.length → out.stages.getD i 0 = stageEq f t y h c A i out.stages) ∧
    out.dState = h • wsum (modOps (V := V)) b out.stages ∧ out.finalRhs = f (t + h) (y + out.dState) :=
  rkStep_generic f t y h c A b hA stages

/-- **Increment** (FSAL branch: last row of `A` equals `b`): the same increment, and the reused
slope is `f(t + c_s h, y + increment)` -/
theorem fsal_step_is_rk_update (f : ℚ → V → V) (t : ℚ) (y : V) (h : ℚ) (c : List ℚ) (A : List (List ℚ)) (b : List ℚ)
    (hA : Explicit A) (stages : List V) (n : Nat) (hn : stages.length = n + 1) (hb : A.getD n [] = b) :
    let out := rkStepExplicit (modOps (V := V)) f t y h c A b true stages
    (∀ i, i < stages.length → out.stages.getD i 0 = stageEq f t y h c A i out.stages) ∧
    out.dState = h • wsum (modOps (V := V)) b out.stages ∧ out.finalRhs = f (t + h * c.getD n 0) (y + out.dState) :=
  rkStep_fsal f t y h c A b hA stages n hn hb

/-- the hypotheses of the three theorems hold for the shipped tables (regenerated from `/repo`):
every table listed as explicit is strictly lower triangular, and the only explicit table whose last
row equals its weights (DOPRI45, the one the code treats as FSAL) has `c_s = 1` -/
theorem shipped_explicit_tables_are_explicit :
    (DV.Gen.allRK.filter (·.listedExplicit)).all (fun T =>
      (List.range T.A.length).all (fun i => (List.range T.A.length).all (fun j =>
        decide (i ≤ j → (T.A.getD i []).getD j 0 = 0)))) = true ∧
    (DV.Gen.allRK.filter (fun T => T.listedExplicit && (T.A.getLast?.getD [] == T.bs.headD []))).map (·.name) = ["DOPRI45"] ∧
    DV.Gen.tab_DOPRI45.c.getLast? = some (2 ^ DV.Gen.tab_DOPRI45.K) := by decide +kernel

/-- **An implicit step whose stage equations were not solved to tolerance is never handed back**:
whenever `__call__` of an implicit method returns, the attempt it hands back had its Newton flag set
(which `step` only sets when the solver reported success *and* `prec < tol`) and was accepted by
the controller -/
theorem implicit_accept_only_converged (c08 h : ℚ) (att : Attempts ℚ) (retries : Nat) (newDt dT : ℚ) (tr : List ℚ)
    (hres : call true true c08 h att retries = .ok newDt dT tr) :
    ∃ k, (att k dT).newtonOk = true ∧ (att k dT).redo = false ∧ newDt = (att k dT).ts :=
  call_accepts_converged c08 h att retries newDt dT tr hres

/-- … and the Newton flag of an attempt is the consumer's test of `RungeKuttaIntegrator.step` on what `nonlinear_roots` returned:
if the flag of each attempt is `consumerAccepts (front …) tol` (C15's model of the solver front end and its consumer), then the
attempt handed back solved its stage equations with a RESIDUAL norm below the tolerance - whichever back end produced the stage
values (MINPACK, the built-in dogleg for extended precision, or the trust-region fall-back; the dogleg path since fix P32). -/
theorem implicit_step_handed_back_has_small_residual (c08 h : ℚ) (att : Attempts ℚ) (retries : Nat) (newDt dT : ℚ) (tr : List ℚ)
    (tolEps tol : ℚ) (path : DV.Solvers.Path) (m : Nat → ℚ → DV.Solvers.Minpack ℚ) (hy : Nat → ℚ → DV.Solvers.Hybrj ℚ) (n : Nat → ℚ → DV.Solvers.Ntr ℚ)
    (hflag : ∀ k hi, (att k hi).newtonOk = DV.Solvers.consumerAccepts (DV.Solvers.front tolEps path (m k hi) (hy k hi) (n k hi)) tol)
    (hres : call true true c08 h att retries = .ok newDt dT tr) :
    ∃ k, (m k dT).resNorm < tol ∨ (hy k dT).resNorm < tol ∨ (n k dT).resNorm < tol := by
  obtain ⟨k, hk, _, _⟩ := call_accepts_converged c08 h att retries newDt dT tr hres
  rw [hflag k dT] at hk
  rcases DVP.C15.accept_implies_small_residual tolEps tol path (m k dT) (hy k dT) (n k dT) hk with h1 | h1 | h1
  · exact ⟨k, Or.inl h1.2⟩
  · exact ⟨k, Or.inr (Or.inl h1.2)⟩
  · exact ⟨k, Or.inr (Or.inr h1.2)⟩

/-- otherwise it raises, after exactly `1 + retries` attempts -/
theorem raises_after_all_retries (ai implicit : Bool) (c08 h : ℚ) (att : Attempts ℚ) (retries : Nat) (tr : List ℚ)
    (hres : call ai implicit c08 h att retries = .raise tr) : tr.length = 1 + retries :=
  call_raise_length ai implicit c08 h att retries tr hres

/-- the splitting step is, by definition of the model, the left-to-right composition of the
drift/kick sub-steps `(δ, τ) ↦ (δ + mask(a_i, b_i) · h f(τ, y + δ), τ + a_i h)` -/
theorem split_step_is_composition (f : ℚ → V → V) (mulMask : ℚ → ℚ → V → V) (t : ℚ) (y : V) (h : ℚ) (drift kick : List ℚ) :
    splitStep (modOps (V := V)) f mulMask t y h drift kick =
      (List.zip drift kick).foldl (fun acc p => (acc.1 + mulMask p.1 p.2 (h • f acc.2 (y + acc.1)), acc.2 + h * p.1)) (0, t) := rfl

/-- non-vacuity: the classical RK4 table over `ℚ` on `y' = y`, one step of `1/10` from `1` -/
example : (rkStepExplicit (RK.listOpsN (α := ℚ) 1) (fun _ y => y) 0 [1] (1/10) [0, 1/2, 1/2, 1]
    [[0,0,0,0],[1/2,0,0,0],[0,1/2,0,0],[0,0,1,0]] [1/6,1/3,1/3,1/6] false [[0],[0],[0],[0]]).dState = [25241/240000] := by
  decide +kernel

end DVP.C02
