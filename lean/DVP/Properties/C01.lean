import DV
import DVP.Lemmas.Trees
/-!
# C01 — every integrator attains its declared order of accuracy

Property theorems only.  `DV.Gen.tab_*` / `split_*` are regenerated from `/repo` on every run: the
exact values of the float64 coefficients the running classes hold, and the declared `__order__`.
`RKOrderOK T` says: **all** rooted-tree order conditions up to the declared order hold for the
propagating weight row to within `1e-12` (`checkOrder`, sound for every tree by
`DVP.Trees.checkOrder_sound`), the abscissae are the row sums (so the conditions also cover
non-autonomous problems), and the weights used only for the error estimate are consistent.

Cited, not formalised: Butcher's theorem (tree conditions ⇔ local error `O(h^(p+1))` for smooth
right-hand sides) and its P-series analogue for partitioned methods.
-/
namespace DVP.C01
open DV DV.Trees DV.Gen

/-- tolerance of every order condition: `|b·Φ(τ) − 1/γ(τ)| ≤ 1e-12` -/
def tol : Nat := 10 ^ 12

def RKOrderOK (T : RKTab) : Bool :=
  checkOrder (ofRK T) T.order tol && rowSumsOk T tol && estimatorConsistent T tol

/-- the registry of Runge–Kutta tables is the one these theorems enumerate (a new or renamed
method makes this fail, so that it cannot escape the per-method obligations) -/
theorem registry_covered : allRK.map (·.name) =
    ["RK1412Solver", "RK108Solver", "RK8713MSolver", "RK45CKSolver", "RK5Solver", "RK4Solver", "MidpointSolver", "HeunsSolver", "RalstonsSolver", "EulerSolver", "EulerTrapSolver", "HeunEulerSolver", "DOPRI45", "GaussLegendre4", "GaussLegendre6", "BackwardEuler", "ImplicitMidpoint", "LobattoIIIA2", "LobattoIIIA4", "LobattoIIIB2", "LobattoIIIB4", "LobattoIIIC2", "LobattoIIIC4", "CrankNicolson", "RadauIA3", "RadauIA5", "RadauIIA3", "RadauIIA5", "RadauIIA19"] ∧
    allSplit.map (·.name) = ["SymplecticEulerSolver", "BABs9o7HSolver", "ABAs5o6HSolver"] := by decide

theorem order_RK8713MSolver : tab_RK8713MSolver.order = 8 ∧ RKOrderOK tab_RK8713MSolver = true := by decide +kernel
theorem order_RK45CKSolver : tab_RK45CKSolver.order = 5 ∧ RKOrderOK tab_RK45CKSolver = true := by decide +kernel
theorem order_RK5Solver : tab_RK5Solver.order = 5 ∧ RKOrderOK tab_RK5Solver = true := by decide +kernel
theorem order_RK4Solver : tab_RK4Solver.order = 4 ∧ RKOrderOK tab_RK4Solver = true := by decide +kernel
theorem order_MidpointSolver : tab_MidpointSolver.order = 2 ∧ RKOrderOK tab_MidpointSolver = true := by decide +kernel
theorem order_HeunsSolver : tab_HeunsSolver.order = 2 ∧ RKOrderOK tab_HeunsSolver = true := by decide +kernel
theorem order_RalstonsSolver : tab_RalstonsSolver.order = 2 ∧ RKOrderOK tab_RalstonsSolver = true := by decide +kernel
theorem order_EulerSolver : tab_EulerSolver.order = 1 ∧ RKOrderOK tab_EulerSolver = true := by decide +kernel
theorem order_EulerTrapSolver : tab_EulerTrapSolver.order = 2 ∧ RKOrderOK tab_EulerTrapSolver = true := by decide +kernel
theorem order_HeunEulerSolver : tab_HeunEulerSolver.order = 2 ∧ RKOrderOK tab_HeunEulerSolver = true := by decide +kernel
theorem order_DOPRI45 : tab_DOPRI45.order = 5 ∧ RKOrderOK tab_DOPRI45 = true := by decide +kernel
theorem order_GaussLegendre4 : tab_GaussLegendre4.order = 4 ∧ RKOrderOK tab_GaussLegendre4 = true := by decide +kernel
theorem order_GaussLegendre6 : tab_GaussLegendre6.order = 6 ∧ RKOrderOK tab_GaussLegendre6 = true := by decide +kernel
theorem order_BackwardEuler : tab_BackwardEuler.order = 1 ∧ RKOrderOK tab_BackwardEuler = true := by decide +kernel
theorem order_ImplicitMidpoint : tab_ImplicitMidpoint.order = 2 ∧ RKOrderOK tab_ImplicitMidpoint = true := by decide +kernel
theorem order_LobattoIIIA2 : tab_LobattoIIIA2.order = 2 ∧ RKOrderOK tab_LobattoIIIA2 = true := by decide +kernel
theorem order_LobattoIIIA4 : tab_LobattoIIIA4.order = 4 ∧ RKOrderOK tab_LobattoIIIA4 = true := by decide +kernel
theorem order_LobattoIIIB2 : tab_LobattoIIIB2.order = 2 ∧ RKOrderOK tab_LobattoIIIB2 = true := by decide +kernel
theorem order_LobattoIIIB4 : tab_LobattoIIIB4.order = 4 ∧ RKOrderOK tab_LobattoIIIB4 = true := by decide +kernel
theorem order_LobattoIIIC2 : tab_LobattoIIIC2.order = 2 ∧ RKOrderOK tab_LobattoIIIC2 = true := by decide +kernel
theorem order_LobattoIIIC4 : tab_LobattoIIIC4.order = 4 ∧ RKOrderOK tab_LobattoIIIC4 = true := by decide +kernel
theorem order_CrankNicolson : tab_CrankNicolson.order = 2 ∧ RKOrderOK tab_CrankNicolson = true := by decide +kernel
theorem order_RadauIA3 : tab_RadauIA3.order = 3 ∧ RKOrderOK tab_RadauIA3 = true := by decide +kernel
theorem order_RadauIA5 : tab_RadauIA5.order = 5 ∧ RKOrderOK tab_RadauIA5 = true := by decide +kernel
theorem order_RadauIIA3 : tab_RadauIIA3.order = 3 ∧ RKOrderOK tab_RadauIIA3 = true := by decide +kernel
theorem order_RadauIIA5 : tab_RadauIIA5.order = 5 ∧ RKOrderOK tab_RadauIIA5 = true := by decide +kernel

/-- Feagin's 10th-order method: 1 205 rooted trees × 17 stages — evaluated by compiled code
(`native_decide`; the kernel evaluator needs > 9 min, see DESIGN.md section 4) -/
theorem order_RK108Solver : tab_RK108Solver.order = 10 ∧ RKOrderOK tab_RK108Solver = true := by native_decide

/-- Feagin's 14th-order method, here to order 12 (the full order 14 — 53 270 trees — is
`DVP.C01Deep.order_RK1412Solver`, built in the thorough tier) -/
theorem order_RK1412Solver_partial : tab_RK1412Solver.order = 14 ∧
    checkOrder (ofRK tab_RK1412Solver) 12 tol = true ∧ rowSumsOk tab_RK1412Solver tol = true ∧
    estimatorConsistent tab_RK1412Solver tol = true := by native_decide

/-- RadauIIA19 (order 19: 7.4 million trees) — PARTIAL: all rooted trees up to order 10 and the
simplifying assumptions `B(19)`, `C(10)`, `D(9)` to `1e-12`; Butcher's theorem (1964) that these
imply order 19 (`19 ≤ 10 + 9 + 1`, `19 ≤ 2·10 + 2`) is cited, not proved. -/
theorem order_RadauIIA19_partial : tab_RadauIIA19.order = 19 ∧
    checkOrder (ofRK tab_RadauIIA19) 10 tol = true ∧ assumptionB tab_RadauIIA19 19 tol = true ∧
    assumptionC tab_RadauIIA19 10 tol = true ∧ assumptionD tab_RadauIIA19 9 tol = true ∧
    rowSumsOk tab_RadauIIA19 tol = true ∧ estimatorConsistent tab_RadauIIA19 tol = true := by native_decide

/-- drift/kick splitting schemes as partitioned RK methods over bicoloured trees with alternating
colours (separable systems).  `SymplecticEulerSolver` (a Störmer–Verlet table) attains its
declared order 1 (in fact 2). -/
theorem order_SymplecticEulerSolver : split_SymplecticEulerSolver.order = 1 ∧
    checkOrder (ofSplit split_SymplecticEulerSolver) 2 tol = true := by decide +kernel

/-- PARTIAL (known finding P3): the two Nielsen schemes declare order 7 / 6 but satisfy the
conditions of a general separable system only up to order 4 (they are 7th/6th order for the
harmonic oscillator only).  Proved: order 4.  The negation at order 5 is `DVP.Findings.C01`. -/
theorem order_BABs9o7HSolver_partial : checkOrder (ofSplit split_BABs9o7HSolver) 4 tol = true := by decide +kernel
theorem order_ABAs5o6HSolver_partial : checkOrder (ofSplit split_ABAs5o6HSolver) 4 tol = true := by decide +kernel

/-! ## Richardson wrappers (`DV.Richardson` mirrors the extrapolation table as coded) -/
open DV.Richardson

/-- the returned entry is an affine combination of the basis results: the weights sum to one for
2..5 levels, so a wrapper never has lower order than the method it wraps -/
theorem richardson_weights_sum_one : ∀ R ∈ [2, 3, 4, 5], (weights R).foldl (· + ·) 0 = 1 := by decide +kernel

/-- the combination annihilates exactly the powers `h^1 … h^(R-2)` of the basis method's error
expansion and not `h^(R-1)` -/
theorem richardson_annihilates : ∀ R ∈ [2, 3, 4, 5], (∀ k ∈ List.range (R - 1), k ≠ 0 → momentum R k = 0) ∧
    momentum R (R - 1) ≠ 0 := by decide +kernel

/-- hence (Gragg's expansion cited) the order is `max p (R − 1)`: never lower … -/
theorem richardson_never_lower : ∀ p ∈ List.range 15, ∀ R ∈ [2, 3, 4, 5], p ≤ effectiveOrder p R := by decide +kernel

/-- … and PARTIAL (known finding P4): strictly higher exactly when `p ≤ R − 2`; the property's
clause "with three or more levels strictly higher" only holds under that guard -/
theorem richardson_raised_partial : ∀ p ∈ List.range 15, ∀ R ∈ [3, 4, 5], 1 ≤ p → p ≤ R - 2 →
    p < effectiveOrder p R := by decide +kernel

/-! ## what an accepted check means: every tree -/

/-- **The checker misses no tree**: whenever `checkOrder` accepts a (partitioned) table up to order `p`,
the order condition `|b·Φ(τ) − 1/γ(τ)| ≤ 1e-12` holds for EVERY well-formed coloured rooted tree `τ` in
Butcher-product form with at most `p` vertices (for a splitting scheme: every tree with alternating
colours).  Proved for every table, by induction over the enumeration with its de-duplication. -/
theorem accepted_order_covers_every_tree (T : PTab) (p : Nat) (h : checkOrder T p tol = true)
    (τ : BTree) (hwf : τ.wf T = true) (hs : τ.size ≤ p) : treeCond T tol τ = true :=
  DVP.Trees.checkOrder_sound T p tol h τ hwf hs

/-- … in particular for every Runge–Kutta table whose per-method theorem above holds: all rooted trees
up to the declared order -/
theorem rk_order_covers_every_tree (T : RKTab) (h : RKOrderOK T = true)
    (τ : BTree) (hwf : τ.wf (ofRK T) = true) (hs : τ.size ≤ T.order) : treeCond (ofRK T) tol τ = true := by
  unfold RKOrderOK at h
  simp only [Bool.and_eq_true] at h
  exact DVP.Trees.checkOrder_sound (ofRK T) T.order tol h.1.1 τ hwf hs

/-- non-vacuity: the bushy tree with four vertices and the tall tree with four vertices are well-formed
for RK4, distinct, and covered by `order_RK4Solver` -/
example : let bushy := BTree.graft (BTree.graft (BTree.graft (.leaf 0) (.leaf 0)) (.leaf 0)) (.leaf 0)
          let tall := BTree.graft (.leaf 0) (BTree.graft (.leaf 0) (BTree.graft (.leaf 0) (.leaf 0)))
          bushy.wf (ofRK tab_RK4Solver) = true ∧ tall.wf (ofRK tab_RK4Solver) = true ∧ bushy.size = 4 ∧ tall.size = 4 ∧
          bushy.gamma = 4 ∧ tall.gamma = 24 ∧ treeCond (ofRK tab_RK4Solver) tol bushy = true ∧ treeCond (ofRK tab_RK4Solver) tol tall = true := by
  decide +kernel

end DVP.C01
