import DV
/-! Model driver: one operation per input line, one result line per operation.
Run as the compiled executable `dvdriver` (or `lake env lean --run Driver.lean`). -/
open DV DV.Proto

def bad : String := "bad-op"

instance : Inhabited Rat := ⟨0⟩

def stepLine (line : String) : String :=
  match (line.trimAscii.toString.splitOn " ").filter (· ≠ "") with
  -- bisect q <val> <a0,a1,...>   (exact rationals): scalar and vector search
  | ["bisect", "q", v, arr] =>
    match parseRat? v, parseList? parseRat? arr with
    | some v, some l =>
      if l.isEmpty then "index-error" else
      let a := l.toArray
      s!"{Bisect.searchSArr a v} {Bisect.searchVArr a v}"
    | _, _ => bad
  -- bisect f <val> <a0,...>   (IEEE doubles by bit pattern)
  | ["bisect", "f", v, arr] =>
    match parseFloatBits? v, parseList? parseFloatBits? arr with
    | some v, some l =>
      if l.isEmpty then "index-error" else
      let a := l.toArray
      s!"{Bisect.searchSArr a v} {Bisect.searchVArr a v}"
    | _, _ => bad
  -- hermite t0 t1 p0 p1 m0 m1 te  -> value grad (exact)
  | ["hermite", t0, t1, p0, p1, m0, m1, te] =>
    match [t0, t1, p0, p1, m0, m1, te].mapM parseRat? with
    | some [t0, t1, p0, p1, m0, m1, te] =>
      if t1 = t0 then "zero-division" else
      s!"{showRat (Gen.Hermite.call t0 t1 p0 p1 m0 m1 te)} {showRat (Gen.Hermite.grad t0 t1 p0 p1 m0 m1 te)}"
    | _ => bad
  | [] => ""
  | _ => bad

partial def loop (h : IO.FS.Stream) (out : IO.FS.Stream) : IO Unit := do
  let line ← h.getLine
  if line.isEmpty then return ()
  out.putStrLn (stepLine line)
  loop h out

def main : IO Unit := do
  let out ← IO.getStdout
  loop (← IO.getStdin) out
  out.flush
