import DV
/-! Model driver: one operation per input line, one result line per operation.
Run as the compiled executable `dvdriver` (or `lake env lean --run Driver.lean`). -/
open DV DV.Proto

def bad : String := "bad-op"

/-- float64 values compared like Python floats (`+0.0 == -0.0`), added like floats -/
structure FB where
  bits : UInt64
  deriving DecidableEq
def FB.norm (x : Float) : FB := if x == 0.0 then ⟨(0.0 : Float).toBits⟩ else ⟨x.toBits⟩
instance : Add FB := ⟨fun a b => FB.norm (Float.ofBits a.bits + Float.ofBits b.bits)⟩

def parsePair? (s : String) : Option (Float × Float) :=
  match s.splitOn ":" with
  | [a, b] => do let a ← parseFloatBits? a; let b ← parseFloatBits? b; pure (a, b)
  | _ => none

/-! loop scenarios: `loopf <eps> <tolEps> | new t0 tf dt | int target it;it;.. | setdt v | settf v | reset` -/
def parseIter? (s : String) : Option (Loop.Iter Float) :=
  match s.splitOn ":" with
  | ["x"] => some { ret := .raise }
  | ["k"] => some { ret := .interrupt }
  | "o" :: nd :: dT :: rest => do
      let nd ← parseFloatBits? nd
      let dT ← parseFloatBits? dT
      let mut cb : Option Float := none
      let mut cr := false
      for r in rest do
        if r == "r" then cr := true
        else if r.startsWith "c" then cb := parseFloatBits? (r.drop 1).toString
      pure { ret := .ok nd dT, cbDt := cb, cbRaise := cr }
  | _ => none

def dumpSys (s : Loop.Sys Float) : String :=
  s!"T {showList showFloatBits s.ts.reverse} D {showFloatBits s.dt} S {s.status} C {s.cap} X {s.crashed}"

def runScenario (eps tolEps : Float) (ops : List String) : String := Id.run do
  let cfg : Loop.Cfg Float := { eps := eps, tolEps := tolEps, half := 0.5 }
  let mut sys : Loop.Sys Float := Loop.construct 0.0 1.0 1.0
  let mut outs : List String := []
  for op in ops do
    match (op.splitOn " ").filter (· ≠ "") with
    | ["new", t0, tf, dt] =>
      match parseFloatBits? t0, parseFloatBits? tf, parseFloatBits? dt with
      | some t0, some tf, some dt => sys := Loop.construct t0 tf dt; outs := dumpSys sys :: outs
      | _, _, _ => outs := "bad-op" :: outs
    | "int" :: target :: rest =>
      let its := match rest with
        | [] => some []
        | [x] => parseList? parseIter? (x.replace ";" ",")
        | _ => none
      match parseFloatBits? target, its with
      | some target, some its =>
        let arr := its.toArray
        let orc : Loop.Oracle Float := fun k _ _ => arr.getD k { ret := .raise }
        -- one more unit of fuel than recorded calls: the model must leave by its guard, not by fuel
        let out := Loop.integrate cfg sys target orc (arr.size + 1)
        sys := out.sys
        let rq := out.reqs.reverse.map (fun r => s!"{showFloatBits r.h}:{r.final}:{r.cap}")
        outs := s!"{dumpSys sys} G {out.guardExit} U {(arr.size : Int) - out.iters} R {showList id rq}" :: outs
      | _, _ => outs := "bad-op" :: outs
    | ["setdt", v] =>
      match parseFloatBits? v with
      | some v => sys := Loop.setDt sys v; outs := dumpSys sys :: outs
      | none => outs := "bad-op" :: outs
    | ["settf", v] =>
      match parseFloatBits? v with
      | some v => match Loop.setTf cfg sys v with
        | some s' => sys := s'; outs := dumpSys sys :: outs
        | none => outs := "value-error" :: outs
      | none => outs := "bad-op" :: outs
    | ["reset"] => sys := Loop.reset sys; outs := dumpSys sys :: outs
    | _ => outs := "bad-op" :: outs
  return " | ".intercalate outs.reverse

/-! loop scenarios with events:
`loopev <eps> <tolEps> <dupTol> | new t0 tf dt | evint target nEvents it;it;.. | int target it;.. | setdt v | reset`
with `it = base/probes/nested`: `base` as in `loopf`, `probes` = `E` (handle_events raised) or probes separated by `~`
(format of the `events` command), `nested` = iterations of the nested call separated by `!` -/
def parseProbe? (s : String) : Option (Events.Probe Float) :=
  match s.splitOn ":" with
  | [r, su, gm, gc, gp, fs, d, tm] => do
      let r ← parseFloatBits? r
      let gm ← parseInt? gm
      let gc ← parseInt? gc
      let gp ← parseInt? gp
      let fl ← (fs.splitOn ".").mapM parseInt?
      let d ← parseInt? d
      let fields := match fl with
        | [a, b, c, d2, e, f] => [(a, b), (c, d2), (e, f)]
        | _ => []
      pure { root := r, success := su == "1", gm := gm, gc := gc, gp := gp, fields := fields, direction := d, terminal := tm == "1" }
  | _ => none

def parseIterEv? (s : String) : Option (LoopEv.IterEv Float) :=
  match s.splitOn "/" with
  | [b, ps, ns] => do
      let base ← parseIter? b
      let nested ← if ns == "" then some [] else (ns.splitOn "!").mapM parseIter?
      let arr := nested.toArray
      let norc : Loop.Oracle Float := fun k _ _ => arr.getD k { ret := .raise }
      if ps == "E" then pure { base := base, evRaise := true, nested := norc, nestedFuel := arr.size + 1 }
      else
        let probes ← if ps == "" then some [] else (ps.splitOn "~").mapM parseProbe?
        pure { base := base, probes := probes, nested := norc, nestedFuel := arr.size + 1 }
  | _ => none

def showReqs (l : List (Loop.Req Float)) : String :=
  showList id (l.reverse.map (fun r => s!"{showFloatBits r.h}:{r.final}:{r.cap}"))

def runScenarioEv (eps tolEps dupTol : Float) (dense : Bool) (ops : List String) : String := Id.run do
  let cfg : LoopEv.CfgEv Float := { loop := { eps := eps, tolEps := tolEps, half := 0.5 }, dupTol := dupTol, dense := dense }
  let mut sys : Loop.Sys Float := Loop.construct 0.0 1.0 1.0
  let mut evs : List (Nat × Float) := []
  let mut kn : List Float := []
  let showK (l : List Float) : String := showList showFloatBits l
  let mut outs : List String := []
  for op in ops do
    match (op.splitOn " ").filter (· ≠ "") with
    | ["new", t0, tf, dt] =>
      match parseFloatBits? t0, parseFloatBits? tf, parseFloatBits? dt with
      | some t0, some tf, some dt => sys := Loop.construct t0 tf dt; evs := []; kn := []; outs := s!"{dumpSys sys} K {showK kn}" :: outs
      | _, _, _ => outs := "bad-op" :: outs
    | "evint" :: target :: nev :: rest =>
      let its := match rest with
        | [] => some []
        | [x] => (x.splitOn ";").mapM parseIterEv?
        | _ => none
      match parseFloatBits? target, nev.toNat?, its with
      | some target, some nev, some its =>
        let arr := its.toArray
        let orc : LoopEv.OracleEv Float := fun k _ _ => arr.getD k { base := { ret := .raise } }
        let out := LoopEv.integrateEv cfg sys evs kn nev target orc (arr.size + 1)
        sys := out.sys
        evs := out.book.events
        kn := out.knots
        let ev := showList (fun (e : Nat × Float) => s!"{e.1}@{showFloatBits e.2}") evs
        outs := s!"{dumpSys sys} G {out.guardExit} P {out.stopped} U {(arr.size : Int) - out.iters} R {showReqs out.reqs} N {showReqs out.nestedReqs} E {ev} K {showK kn}" :: outs
      | _, _, _ => outs := "bad-op" :: outs
    | "int" :: target :: rest =>
      let its := match rest with
        | [] => some []
        | [x] => parseList? parseIter? (x.replace ";" ",")
        | _ => none
      match parseFloatBits? target, its with
      | some target, some its =>
        let arr := its.toArray
        let orc : Loop.Oracle Float := fun k _ _ => arr.getD k { ret := .raise }
        let out := Loop.integrate cfg.loop sys target orc (arr.size + 1)
        kn := LoopEv.plainKnots dense kn sys.ts out.sys.ts
        sys := out.sys
        outs := s!"{dumpSys sys} G {out.guardExit} U {(arr.size : Int) - out.iters} R {showReqs out.reqs} K {showK kn}" :: outs
      | _, _ => outs := "bad-op" :: outs
    | ["setdt", v] =>
      match parseFloatBits? v with
      | some v => sys := Loop.setDt sys v; outs := s!"{dumpSys sys} K {showK kn}" :: outs
      | none => outs := "bad-op" :: outs
    | ["reset"] => sys := Loop.reset sys; evs := []; kn := []; outs := s!"{dumpSys sys} K {showK kn}" :: outs
    | _ => outs := "bad-op" :: outs
  return " | ".intercalate outs.reverse

/-! polynomial right-hand sides: terms `comp:coef:tpow:e0.e1...` separated by `;` -/
structure Term where
  comp : Nat
  coef : Rat
  tpow : Nat
  exps : List Nat

def parseTerm? (s : String) : Option Term :=
  match s.splitOn ":" with
  | [c, k, tp, es] => do
      let c ← c.toNat?
      let k ← parseRat? k
      let tp ← tp.toNat?
      let es ← if es == "" then some [] else (es.splitOn ".").mapM (·.toNat?)
      pure { comp := c, coef := k, tpow := tp, exps := es }
  | _ => none

def polyRhs (n : Nat) (terms : List Term) (t : Rat) (y : List Rat) : List Rat :=
  (List.range n).map (fun i =>
    (terms.filter (·.comp == i)).foldl (fun acc tm =>
      acc + tm.coef * t ^ tm.tpow * ((List.zip y tm.exps).foldl (fun p ye => p * ye.1 ^ ye.2) 1)) 0)

def tabRat (K : Nat) (x : Int) : Rat := (x : Rat) / ((2 ^ K : Nat) : Rat)

def chunks (n : Nat) (l : List Rat) : List (List Rat) :=
  if n = 0 then [] else (List.range (l.length / n)).map (fun i => (l.drop (i * n)).take n)

def showRats (l : List Rat) : String := showList showRat l

def showList' (l : List Int) : String := "[" ++ showList toString l ++ "]"

instance : Inhabited Rat := ⟨0⟩

def stepLine (line : String) : String :=
  match (line.trimAscii.toString.splitOn " ").filter (· ≠ "") with
  -- bisect q <val> <a0,a1,...>   (exact rationals): scalar and vector search
  | ["bisect", "q", v, arr] =>
    match parseRat? v, parseList? parseRat? arr with
    | some v, some l =>
      if l.isEmpty then "index-error" else
      let a := l.toArray
      s!"{Bisect.searchSArr a v} {Bisect.searchVArr a v}"
    | _, _ => bad
  -- bisect f <val> <a0,...>   (IEEE doubles by bit pattern)
  | ["bisect", "f", v, arr] =>
    match parseFloatBits? v, parseList? parseFloatBits? arr with
    | some v, some l =>
      if l.isEmpty then "index-error" else
      let a := l.toArray
      s!"{Bisect.searchSArr a v} {Bisect.searchVArr a v}"
    | _, _ => bad
  -- hermite t0 t1 p0 p1 m0 m1 te  -> value grad (exact)
  | ["hermite", t0, t1, p0, p1, m0, m1, te] =>
    match [t0, t1, p0, p1, m0, m1, te].mapM parseRat? with
    | some [t0, t1, p0, p1, m0, m1, te] =>
      if t1 = t0 then "zero-division" else
      s!"{showRat (Gen.Hermite.call t0 t1 p0 p1 m0 m1 te)} {showRat (Gen.Hermite.grad t0 t1 p0 p1 m0 m1 te)}"
    | _ => bad
  -- tab rk|split <name> : checksum of the generated table the driver was compiled with
  | ["tab", "rk", name] =>
    match Gen.allRK.find? (·.name == name) with
    | some T => s!"{T.K} {T.order} {showList toString T.c} {showList (showList' ) T.A} {showList showList' T.bs}"
    | none => "unknown-method"
  | ["tab", "split", name] =>
    match Gen.allSplit.find? (·.name == name) with
    | some T => s!"{T.K} {T.order} {showList toString T.col0} {showList toString T.drift} {showList toString T.kick}"
    | none => "unknown-method"
  -- order rk <name> <row> <pmax> <tolDen> : attained order, level sizes
  | ["order", "rk", name, row, pmax, tolDen] =>
    match Gen.allRK.find? (·.name == name), row.toNat?, pmax.toNat?, tolDen.toNat? with
    | some T, some row, some pmax, some tolDen =>
      let P := Trees.ofRK T row
      s!"{Trees.attainedOrder P pmax tolDen} {Trees.rowSumsOk T tolDen} {Trees.estimatorConsistent T tolDen} {showList toString (Trees.levelSizes P pmax)}"
    | _, _, _, _ => bad
  | ["order", "split", name, alt, pmax, tolDen] =>
    match Gen.allSplit.find? (·.name == name), pmax.toNat?, tolDen.toNat? with
    | some T, some pmax, some tolDen =>
      let P := Trees.ofSplit T (alt == "alt")
      s!"{Trees.attainedOrder P pmax tolDen} {showList toString (Trees.levelSizes P pmax)}"
    | _, _, _ => bad
  -- worst <rk|split> <name> <n> : largest residual |b·Φ − 1/γ| among the trees with n vertices
  | ["worst", kind, name, n] =>
    let P? : Option Trees.PTab := if kind == "rk" then (Gen.allRK.find? (·.name == name)).map (Trees.ofRK ·)
      else (Gen.allSplit.find? (·.name == name)).map (Trees.ofSplit ·)
    match P?, n.toNat? with
    | some P, some n =>
      if n = 0 then bad else
      let lv := (Trees.buildLevels P n).getD (n - 1) []
      let res := lv.map (fun e =>
        let S : Rat := (Trees.dot (P.b e.colour) e.phi : Int) / ((2 ^ (P.K * n) : Nat) : Int)
        let r := S - 1 / ((n * e.g : Nat) : Int)
        if r < 0 then -r else r)
      showRat (res.foldl (fun a b => if a < b then b else a) 0)
    | _, _ => bad
  -- rich <mLast> <v0,v1,..> : returned increment and error estimate of the extrapolation table
  | ["rich", m, vals] =>
    match m.toNat?, parseList? parseRat? vals with
    | some m, some vals =>
      if m = 0 ∨ vals.length ≤ m then bad else
      s!"{showRat (Richardson.returned vals m)} {showRat (Richardson.diff vals m)}"
    | _, _ => bad
  | ["richorder", p, R] =>
    match p.toNat?, R.toNat? with
    | some p, some R => s!"{Richardson.effectiveOrder p R} {showList showRat (Richardson.weights R)}"
    | _, _ => bad
  -- brent s|v <lo> <hi> <tol> <x:fx,...> : bit-exact replay of the scalar solver / one vector lane;
  -- f is the table of logged evaluations (looked up by bit pattern, NaN if the model asks elsewhere)
  | ["brent", kind, lo, hi, tol, tbl] =>
    match parseFloatBits? lo, parseFloatBits? hi, parseFloatBits? tol, parseList? parsePair? tbl with
    | some lo, some hi, some tol, some tbl =>
      let f : Float → Float := fun x => match tbl.find? (fun p => p.1.toBits == x.toBits) with
        | some p => p.2
        | none => (0.0 : Float) / 0.0
      let eps : Float := Float.ofBits 0x3CD0000000000000   -- 4 * 2^-52 = D.epsilon(float64)
      let r := if kind == "s" then Brent.brentsroot f lo hi tol eps (1.0 / 0.0) else Brent.lane f lo hi tol eps
      s!"{showFloatBits r.root} {r.success} {r.iters} {showList showFloatBits r.trace}"
    | _, _, _, _ => bad
  -- rkstep <method> <n> <terms> <t> <y> <h> <initial stages, flattened | -> : exact explicit RK step
  | ["rkstep", name, n, terms, t, y, h, st0] =>
    match Gen.allRK.find? (·.name == name), n.toNat?, parseList? parseTerm? (terms.replace ";" ","), parseRat? t,
          parseList? parseRat? y, parseRat? h, parseList? parseRat? st0 with
    | some T, some n, some terms, some t, some y, some h, some st0 =>
      let A := T.A.map (·.map (tabRat T.K))
      let c := T.c.map (tabRat T.K)
      let b := (T.bs.headD []).map (tabRat T.K)
      let s := T.c.length
      let stages := if st0.isEmpty then List.replicate s (List.replicate n (0 : Rat)) else chunks n st0
      let fsal := (T.A.getLast?.getD []) == (T.bs.headD [])
      let ops := RK.listOpsN (α := Rat) n
      let out := RK.rkStepExplicit ops (polyRhs n terms) t y h c A b fsal stages
      let est := match T.bs with
        | [b0, b1] => RK.errorEstimate ops (b0.map (tabRat T.K)) (b1.map (tabRat T.K)) out.stages
        | _ => List.replicate n 0
      s!"{showRats out.dState} {showRats out.finalRhs} {showRats out.stages.flatten} {showRats est} {fsal}"
    | _, _, _, _, _, _, _ => bad
  -- fixedrun rk|split <method> <n> <kickmask or -> <terms> <eps> <tolEps> <t0> <tf> <dt> <y0> <ops: i<target> | f<j>@<target> (fault in the j-th integrator call) | r, comma separated> :
  -- whole fixed-step run with states (DV.Run), exact; output: times ; states (oldest first, states flattened) ; dt ; status
  | ["fixedrun", kind, name, n, mask, terms, eps, tolEps, t0, tf, dt, y0, ops] =>
    match n.toNat?, parseList? (·.toNat?) mask, parseList? parseTerm? (terms.replace ";" ","), parseRat? eps, parseRat? tolEps,
          parseRat? t0, parseRat? tf, parseRat? dt, parseList? parseRat? y0 with
    | some n, some mask, some terms, some eps, some tolEps, some t0, some tf, some dt, some y0 =>
      let vops := RK.listOpsN (α := Rat) n
      let inc? : Option (Rat → List Rat → Rat → List Rat) :=
        if kind == "rk" then
          (Gen.allRK.find? (·.name == name)).map (fun T =>
            Run.rkInc vops (polyRhs n terms) (T.c.map (tabRat T.K)) (T.A.map (·.map (tabRat T.K))) ((T.bs.headD []).map (tabRat T.K))
              ((T.A.getLast?.getD []) == (T.bs.headD [])))
        else
          (Gen.allSplit.find? (·.name == name)).map (fun T =>
            let mm : Rat → Rat → List Rat → List Rat := fun a b v => List.zipWith (fun x m => x * (if m == 1 then b else a)) v mask
            Run.splitInc vops (polyRhs n terms) mm (T.drift.map (tabRat T.K)) (T.kick.map (tabRat T.K)))
      match inc? with
      | none => "unknown-method"
      | some inc =>
        let cfg : Loop.Cfg Rat := { eps := eps, tolEps := tolEps, half := 1/2 }
        let step (s : Option (Run.SysY Rat (List Rat))) (op : String) : Option (Run.SysY Rat (List Rat)) :=
          s.bind (fun s =>
            if op == "r" then some (Run.reset s)
            else if op.startsWith "i" then (parseRat? (op.drop 1).toString).map (fun t => Run.integrate cfg vops.add inc s t 100000)
            else if op.startsWith "f" then
              match (op.drop 1).toString.splitOn "@" with
              | [j, t] => match j.toNat?, parseRat? t with
                | some j, some t => some (Run.integrateFault cfg vops.add inc s t j 100000)
                | _, _ => none
              | _ => none
            else none)
        match (ops.splitOn ",").foldl step (some (Run.construct t0 tf dt y0)) with
        | none => bad
        | some r => s!"{showRats r.sys.ts.reverse} ; {showRats r.ys.reverse.flatten} ; {showRat r.sys.dt} ; {r.sys.status}"
    | _, _, _, _, _, _, _, _, _ => bad
  -- fdcol <base order> <n> <terms> <y> <idx> <dy> : one column of JacobianWrapper.estimate (DV.Jac.fdColumn), exact, with the regenerated stencil
  | ["fdcol", order, n, terms, y, idx, dy] =>
    match order.toNat?, n.toNat?, parseList? parseTerm? (terms.replace ";" ","), parseList? parseRat? y, idx.toNat?, parseRat? dy with
    | some order, some n, some terms, some y, some idx, some dy =>
      match Gen.allStencils.find? (·.n == order) with
      | none => "unknown-stencil"
      | some S =>
        if dy == 0 then "zero-division" else
        let st := List.zip (S.nodes.map (tabRat S.K)) (S.weights.map (tabRat S.K))
        let ops := RK.listOpsN (α := Rat) n
        let e : List Rat := (List.range n).map (fun i => if i == idx then 1 else 0)
        showRats (Jac.fdColumn ops ops (fun w => polyRhs n terms 0 w) y e dy st)
    | _, _, _, _, _, _ => bad
  -- stageres <method> <n> <terms> <t> <y> <h> <stages flattened> : residual of the stage equations and the increment from given stages
  | ["stageres", name, n, terms, t, y, h, st] =>
    match Gen.allRK.find? (·.name == name), n.toNat?, parseList? parseTerm? (terms.replace ";" ","), parseRat? t,
          parseList? parseRat? y, parseRat? h, parseList? parseRat? st with
    | some T, some n, some terms, some t, some y, some h, some st =>
      let A := T.A.map (·.map (tabRat T.K))
      let c := T.c.map (tabRat T.K)
      let b := (T.bs.headD []).map (tabRat T.K)
      let ops := RK.listOpsN (α := Rat) n
      let ks := chunks n st
      let res := RK.stageResiduals ops (fun x y => List.zipWith (· - ·) x y) (polyRhs n terms) t y h c A ks
      let mx := res.flatten.foldl (fun a r => let r := if r < 0 then -r else r; if a < r then r else a) 0
      s!"{showRat mx} {showRats (ops.smul h (RK.wsum ops b ks))}"
    | _, _, _, _, _, _, _ => bad
  -- splitstep <method> <n> <kickmask 0/1,...> <terms> <t> <y> <h>
  | ["splitstep", name, n, mask, terms, t, y, h] =>
    match Gen.allSplit.find? (·.name == name), n.toNat?, parseList? (·.toNat?) mask, parseList? parseTerm? (terms.replace ";" ","),
          parseRat? t, parseList? parseRat? y, parseRat? h with
    | some T, some n, some mask, some terms, some t, some y, some h =>
      let ops := RK.listOpsN (α := Rat) n
      let mm : Rat → Rat → List Rat → List Rat := fun a b v =>
        List.zipWith (fun x m => x * (if m == 1 then b else a)) v mask
      let out := RK.splitStep ops (polyRhs n terms) mm t y h (T.drift.map (tabRat T.K)) (T.kick.map (tabRat T.K))
      s!"{showRats out.1} {showRat out.2}"
    | _, _, _, _, _, _, _ => bad
  -- events <sgn> <root:succ:gm:gc:gp:f1m.f1p.f2m.f2p.f3m.f3p:dir:term;...> : selection of handle_events
  | ["events", sgn, ps] =>
    let parseP (s : String) : Option (Events.Probe Float) :=
      match s.splitOn ":" with
      | [r, su, gm, gc, gp, fs, d, tm] => do
          let r ← parseFloatBits? r
          let gm ← parseInt? gm
          let gc ← parseInt? gc
          let gp ← parseInt? gp
          let fl ← (fs.splitOn ".").mapM parseInt?
          let d ← parseInt? d
          let fields := match fl with
            | [a, b, c, d2, e, f] => [(a, b), (c, d2), (e, f)]
            | _ => []
          pure { root := r, success := su == "1", gm := gm, gc := gc, gp := gp, fields := fields, direction := d, terminal := tm == "1" }
      | _ => none
    match parseFloatBits? sgn, parseList? parseP (ps.replace ";" ",") with
    | some sgn, some l =>
      let r := Events.handle sgn l
      s!"{showList (fun (x : Nat × Events.Probe Float) => toString x.1) r.1} {r.2}"
    | _, _ => bad
  -- evrecord <dupTol> <nEvents> <tPrev:tNext:idx@root.idx@root;...> : bookkeeping of one integrate call
  | ["evrecord", dup, nev, steps] =>
    let parseStep (s : String) : Option (Float × Float × List (Nat × Float)) :=
      match s.splitOn ":" with
      | [a, b, evs] => do
          let a ← parseFloatBits? a
          let b ← parseFloatBits? b
          let l ← if evs == "" then some [] else (evs.splitOn ".").mapM (fun e => match e.splitOn "@" with
            | [i, r] => do let i ← i.toNat?; let r ← parseFloatBits? r; pure (i, r)
            | _ => none)
          pure (a, b, l)
      | _ => none
    match parseFloatBits? dup, nev.toNat?, parseList? parseStep (steps.replace ";" ",") with
    | some dup, some nev, some sts =>
      let b0 : Events.Book Float := { last := List.replicate nev none, events := [] }
      let b := sts.foldl (fun b (st : Float × Float × List (Nat × Float)) =>
        Events.record st.1 st.2.1 dup b (st.2.2.map (fun e => (e.1, ({ root := e.2, success := true, gm := 0, gc := 0, gp := 0, fields := [], direction := 0, terminal := false } : Events.Probe Float))))) b0
      showList (fun (e : Nat × Float) => s!"{e.1}@{showFloatBits e.2}") b.events
    | _, _, _ => bad
  -- stab <name> <re z> <im z> : R(z) = P/Q of the generated certificate at a complex rational point (exact)
  | ["stab", name, re, im] =>
    match Gen.allCerts.find? (·.name == name), parseRat? re, parseRat? im with
    | some C, some x, some y =>
      let sc : Rat := ((2 ^ C.K : Nat) : Rat)
      let wr := x / sc
      let wi := y / sc
      let ev (p : Stability.Poly) : Rat × Rat := List.foldr (fun (c : Int) (acc : Rat × Rat) => ((c : Rat) + wr * acc.1 - wi * acc.2, wr * acc.2 + wi * acc.1)) (0, 0) p
      let P := ev C.P
      let Q := ev C.Q
      let d := Q.1 * Q.1 + Q.2 * Q.2
      if d == 0 then "pole" else
      s!"{showRat ((P.1 * Q.1 + P.2 * Q.2) / d)} {showRat ((P.2 * Q.1 - P.1 * Q.2) / d)}"
    | _, _, _ => bad
  -- slopecache <call>;<call>;...   call = t:ytoken:c|a:h1,h2,..|-:endtoken1,endtoken2,..|-   -> reuse decisions 0/1
  | ["slopecache", calls] =>
    let parseCall (c : String) : Option (FB × String × SlopeCache.Ending FB × List (FB × String)) :=
      match c.splitOn ":" with
      | [t, y, kind, hs, es] =>
        let hl := if hs == "-" then some [] else parseList? parseFloatBits? hs
        let el := if es == "-" then [] else es.splitOn ","
        match parseFloatBits? t, hl with
        | some t, some hl =>
          if hl.length != el.length then none else
          let hb := hl.map FB.norm
          some (FB.norm t, y, (if kind == "c" then SlopeCache.Ending.completed hb else SlopeCache.Ending.abandoned hb), List.zip hb el)
        | _, _ => none
      | _ => none
    match (calls.splitOn ";").mapM parseCall with
    | none => bad
    | some cs =>
      let (_, flags) := cs.foldl (fun (acc : SlopeCache.Cache FB String Unit × List String) c =>
        let (t, y, e, table) := c
        let adv : FB → String → FB → String := fun _ _ h => ((table.find? (fun p => p.1 == h)).map (·.2)).getD "?"
        let o := SlopeCache.call (fun _ _ => ()) adv acc.1 t y e
        (o.cache, acc.2 ++ [if o.reused then "1" else "0"])) (SlopeCache.empty, [])
      ",".intercalate flags
  -- dense <backward 0/1> <q> <tEval> : find_interval / find_interval_vec
  | ["dense", b, q, ts] =>
    match parseFloatBits? q, parseList? parseFloatBits? ts with
    | some q, some ts => if ts.isEmpty then bad else
      let r := Dense.findArr ts.toArray (b == "1") q
      s!"{r.1} {r.2}"
    | _, _ => bad
  -- nlfront <path m|h> <tolEps> <m: succ:noimp:res> <h: resBelow:stepBelow:trustBelow:dxn:res> <n: succ:res> <desiredTol>
  | ["nlfront", path, tolEps, m, h, n, dtol] =>
    let b (s : String) : Bool := s == "1"
    match parseFloatBits? tolEps, m.splitOn ":", h.splitOn ":", n.splitOn ":", parseFloatBits? dtol with
    | some te, [ms, mn, mr], [h1, h2, h3, hd, hr], [ns, nr], some dt =>
      match parseFloatBits? mr, parseFloatBits? hd, parseFloatBits? hr, parseFloatBits? nr with
      | some mr, some hd, some hr, some nr =>
        let o := Solvers.front te (if path == "m" then .minpack else .hybrj)
          { success := b ms, noImprovement := b mn, resNorm := mr }
          { resBelowTol := b h1, stepBelowXtol := b h2, trustBelowXtol := b h3, dxn := hd, resNorm := hr }
          { success := b ns, resNorm := nr }
        s!"{o.success} {showFloatBits o.prec} {o.via} {Solvers.consumerAccepts o dt}"
      | _, _, _, _ => bad
    | _, _, _, _, _ => bad
  -- consumer <success 0/1> <prec> <desiredTol> : the acceptance test of RungeKuttaIntegrator.step on what nonlinear_roots returned
  | ["consumer", su, prec, dtol] =>
    match parseFloatBits? prec, parseFloatBits? dtol with
    | some pr, some dt => s!"{Solvers.consumerAccepts ({ success := su == "1", prec := pr, via := 0 } : Solvers.Out Float) dt}"
    | _, _ => bad
  -- jacops <rhsHasJac 0/1> <ops j<t>,h<tag>,u,o>  : Jacobian dispatch machine, answers in order
  | ["jacops", r, ops] =>
    let parse (t : String) : Option Jac.Op :=
      if t == "u" then some .unhook else if t == "o" then some .setOrder
      else if t.startsWith "j" then (t.drop 1).toString.toNat?.map .jac
      else if t.startsWith "h" then (t.drop 1).toString.toNat?.map .hook
      else none
    match (ops.splitOn ",").mapM parse with
    | some l =>
      let res := Jac.run { rhsHasJac := r == "1" } l
      let sh (a : Jac.Answer) : String := match a with
        | .user g => s!"user{g}" | .rhsAttr => "attr" | .fd t raw => s!"fd{t}{if raw then "raw" else ""}" | .crash => "crash"
      s!"{showList sh res.2} {res.1.njev}"
    | none => bad
  -- lookup idx <n> <i> | near <q> <ts> | slice <start|-> <stop|-> <ts> | iter <n>
  | ["lookup", "idx", n, i] =>
    match n.toNat?, parseInt? i with
    | some n, some i => match Lookup.intIndex n i with
      | some k => toString k
      | none => "index-error"
    | _, _ => bad
  | ["lookup", "iter", n] =>
    match n.toNat? with
    | some n => showList toString (Lookup.iterate n (n + 5))
    | none => bad
  | ["lookup", "near", q, ts] =>
    match parseFloatBits? q, parseList? parseFloatBits? ts with
    | some q, some ts => toString (Lookup.nearest ts q)
    | _, _ => bad
  | ["lookup", "slice", a, b, ts] =>
    match parseList? parseFloatBits? ts with
    | some ts =>
      let pa := if a == "-" then some none else (parseFloatBits? a).map some
      let pb := if b == "-" then some none else (parseFloatBits? b).map some
      match pa, pb with
      | some a, some b => let r := Lookup.sliceRange ts.toArray a b; s!"{r.1} {r.2}"
      | _, _ => bad
    | none => bad
  -- ctrl <adaptiveOrImplicit 0/1> <implicit 0/1> <h> <ts:redo:ok;...> : accept/retry logic, bit exact
  | ["ctrl", ai, im, h, atts] =>
    let parseA (s : String) : Option (Controller.Attempt Float) :=
      match s.splitOn ":" with
      | [ts, r, ok] => (parseFloatBits? ts).map (fun ts => { ts := ts, redo := r == "1", newtonOk := ok == "1" })
      | _ => none
    match parseFloatBits? h, parseList? parseA (atts.replace ";" ",") with
    | some h, some l =>
      let arr := l.toArray
      let att : Controller.Attempts Float := fun k _ => arr.getD k { ts := 0.0 / 0.0, redo := true, newtonOk := false }
      match Controller.call (ai == "1") (im == "1") (0.8 : Float) h att 64 with
      | .ok newDt dT tr => s!"ok {showFloatBits newDt} {showFloatBits dT} {showList showFloatBits tr}"
      | .raise tr => s!"raise {showList showFloatBits tr}"
    | _, _ => bad
  -- counters c1,c0,ju1,jf9:1,r : the counter model
  | ["counters", ops] =>
    let parse (t : String) : Option Counters.Op :=
      if t == "r" then some .reset
      else if t == "c1" then some (.call true) else if t == "c0" then some (.call false)
      else if t == "ju1" then some (.jacUser true) else if t == "ju0" then some (.jacUser false)
      else if t.startsWith "jf" then
        match ((t.drop 2).toString.splitOn ":") with
        | [n, ok] => n.toNat?.map (fun n => .jacFD n (ok == "1"))
        | _ => none
      else none
    match (ops.splitOn ",").mapM parse with
    | some l => let r := Counters.run {} l; s!"{r.nfev} {r.njev}"
    | none => bad
  | "loopf" :: eps :: tolEps :: "|" :: rest =>
    match parseFloatBits? eps, parseFloatBits? tolEps with
    | some eps, some tolEps => runScenario eps tolEps ((" ".intercalate rest).splitOn "|")
    | _, _ => bad
  | "loopev" :: eps :: tolEps :: dupTol :: dense :: "|" :: rest =>
    match parseFloatBits? eps, parseFloatBits? tolEps, parseFloatBits? dupTol with
    | some eps, some tolEps, some dupTol => runScenarioEv eps tolEps dupTol (dense == "1") ((" ".intercalate rest).splitOn "|")
    | _, _, _ => bad
  | [] => ""
  | _ => bad

partial def loop (h : IO.FS.Stream) (out : IO.FS.Stream) : IO Unit := do
  let line ← h.getLine
  if line.isEmpty then return ()
  out.putStrLn (stepLine line)
  loop h out

def main : IO Unit := do
  let out ← IO.getStdout
  loop (← IO.getStdin) out
  out.flush
