import DV.Model.Arith
/-!
# Model of the decision logic of `nonlinear_roots` and of its consumer in `RungeKuttaIntegrator.step`

The numerical iterations (MINPACK `hybr`, the built-in `hybrj` dogleg, `newtontrustregion`) are inputs:
what each back end reports.  Modelled: which back end is asked (`scipy` for numpy dtypes of at most 64
bits, `hybrj` otherwise), each success disjunct, the fall-back to `newtontrustregion` from the initial
guess, which quantity is handed back as "precision" on each path, and the acceptance test of the
consumer (`success and prec < desired_tol`).
-/
namespace DV.Solvers
open DV

variable {α : Type} [Num α] [DecidableLT α] [DecidableLE α]

/-- what `scipy.optimize.root` reported -/
structure Minpack (α : Type) where
  success : Bool
  /-- `"no futher improvement" in res.message` -/
  noImprovement : Bool
  /-- `‖res.fun‖` -/
  resNorm : α

/-- the state of `hybrj` when it stops: the flags its own success expression is built from -/
structure Hybrj (α : Type) where
  /-- `‖F0‖ < tol` at the last accepted iterate -/
  resBelowTol : Bool
  /-- `dxn <= xtol` at the last accepted iterate -/
  stepBelowXtol : Bool
  /-- some iteration shrank the trust region to `<= xtol` -/
  trustBelowXtol : Bool
  /-- `‖dx‖` of the last step: what `hybrj` returns as its second value -/
  dxn : α
  /-- `‖F0‖` at the returned point -/
  resNorm : α

def Hybrj.success (h : Hybrj α) : Bool := h.resBelowTol || h.stepBelowXtol || h.trustBelowXtol

/-- what `newtontrustregion` reported -/
structure Ntr (α : Type) where
  success : Bool
  resNorm : α

inductive Path where
  | minpack
  | hybrj
  deriving DecidableEq, Repr

structure Out (α : Type) where
  success : Bool
  /-- the last element of the returned tuple ("precision") -/
  prec : α
  /-- which back end produced the returned point: 0 MINPACK, 1 hybrj, 2 newtontrustregion -/
  via : Nat

/-- `nonlinear_roots`: first back end, then the fall-back -/
def front (tolEps : α) (path : Path) (m : Minpack α) (h : Hybrj α) (n : Ntr α) : Out α :=
  match path with
  | .minpack =>
    let s := m.success || (m.noImprovement && decide (m.resNorm ≤ tolEps))
    if s then { success := true, prec := m.resNorm, via := 0 }
    else { success := n.success || decide (n.resNorm ≤ tolEps), prec := n.resNorm, via := 2 }
  | .hybrj =>
    let s := h.success || decide (h.resNorm ≤ tolEps)
    -- since fix P32 the residual norm reached is handed back on this path too (it used to be `h.dxn`, the norm of the last update)
    if s then { success := true, prec := h.resNorm, via := 1 }
    else { success := n.success || decide (n.resNorm ≤ tolEps), prec := n.resNorm, via := 2 }

/-- the consumer: `newton_iteration_success = success and prec < desired_tol` -/
def consumerAccepts (o : Out α) (desiredTol : α) : Bool := o.success && decide (o.prec < desiredTol)

end DV.Solvers
