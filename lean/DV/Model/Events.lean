import DV.Model.Arith
/-!
# Model of event selection (`handle_events`) and event bookkeeping (`OdeSystem.integrate`)

Inputs per monitored event (what the root finder and the sampled event function delivered):
the located root and its success flag, and the signs of the event function at the root and at the
eight offsets `∓√ε·Δt`, `∓k·ε^¾·Δt (k = 1, 2, 3)` around it.  Modelled: the `up`/`down`/`either`
classification, the direction mask, the ordering by `sign(Δt)·root`, the truncation after the first
terminal event; then, in `integrate`, the `true_positive` window, the duplicate suppression through
`last_occurrence` (one slot per event) and the terminal roll-back target.
-/
namespace DV.Events
open DV

variable {α : Type} [Num α] [DecidableLT α] [DecidableLE α]

/-- sign sample of the event function: `-1`, `0`, `+1` -/
abbrev Sgn := Int

structure Probe (α : Type) where
  root : α
  success : Bool
  /-- `g(root - √ε Δt)`, `g(root)`, `g(root + √ε Δt)` -/
  gm : Sgn
  gc : Sgn
  gp : Sgn
  /-- `(g(root - k ε^¾ Δt), g(root + k ε^¾ Δt))` for `k = 1, 2, 3` -/
  fields : List (Sgn × Sgn)
  /-- `direction` attribute of the event -/
  direction : Int
  terminal : Bool

def upOf (a c b : Sgn) : Bool := (decide (a ≤ 0) && decide (0 ≤ b)) || (decide (a ≤ 0) && decide (0 ≤ c)) || (decide (c ≤ 0) && decide (0 ≤ b))
def downOf (a c b : Sgn) : Bool := (decide (0 ≤ a) && decide (b ≤ 0)) || (decide (0 ≤ a) && decide (c ≤ 0)) || (decide (0 ≤ c) && decide (b ≤ 0))

def Probe.up (p : Probe α) : Bool :=
  p.success && (upOf p.gm p.gc p.gp || p.fields.any (fun f => upOf f.1 p.gc f.2))
def Probe.down (p : Probe α) : Bool :=
  p.success && (downOf p.gm p.gc p.gp || p.fields.any (fun f => downOf f.1 p.gc f.2))

/-- the direction mask -/
def Probe.active (p : Probe α) : Bool :=
  (p.up && decide (0 < p.direction)) || (p.down && decide (p.direction < 0)) || ((p.up || p.down) && decide (p.direction = 0))

/-- insertion of `(index, probe)` into a list sorted by `key = sgn · root` (stable: after equal keys) -/
def insertSorted (sgn : α) (x : Nat × Probe α) : List (Nat × Probe α) → List (Nat × Probe α)
  | [] => [x]
  | y :: r => if sgn * x.2.root < sgn * y.2.root then x :: y :: r else y :: insertSorted sgn x r

/-- `argsort(sign(t_next - t_prev) * roots)` as a stable insertion sort -/
def sortByRoot (sgn : α) (l : List (Nat × Probe α)) : List (Nat × Probe α) :=
  l.foldl (fun acc x => insertSorted sgn x acc) []

/-- keep everything up to and including the first terminal event -/
def truncateAtTerminal : List (Nat × Probe α) → List (Nat × Probe α)
  | [] => []
  | x :: r => if x.2.terminal then [x] else x :: truncateAtTerminal r

/-- `handle_events`: indices (into the monitored events) and roots, in the order reported; and `terminate` -/
def handle (sgn : α) (probes : List (Probe α)) : List (Nat × Probe α) × Bool :=
  let act := (List.zip (List.range probes.length) probes).filter (fun x => x.2.active)
  let sorted := sortByRoot sgn act
  let out := truncateAtTerminal sorted
  (out, out.any (fun x => x.2.terminal))

/-! ## bookkeeping in `integrate` -/

/-- `last_occurrence` (one optional time per monitored event: the time of its last recorded event) and
the recorded events `(event index, time)`, newest last -/
structure Book (α : Type) where
  last : List (Option α)
  events : List (Nat × α)

/-- record the reported events of one step: inside the step (`true_positive`) and not within
`dupTol` of the previous event of the same function -/
def record (tPrev tNext dupTol : α) (b : Book α) (reported : List (Nat × Probe α)) : Book α :=
  reported.foldl (fun (b : Book α) x =>
    let root := x.2.root
    let inside := if tPrev ≤ tNext then decide (tPrev ≤ root) && decide (root ≤ tNext) else decide (tNext ≤ root) && decide (root ≤ tPrev)
    if !inside then b else
    match b.last.getD x.1 none with
    | none => { last := b.last.set x.1 (some root), events := b.events ++ [(x.1, root)] }
    | some tl => if dupTol < absC (root - tl) then { last := b.last.set x.1 (some root), events := b.events ++ [(x.1, root)] } else b) b

end DV.Events
