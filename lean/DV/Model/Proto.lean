/-! Line-protocol helpers for the model driver: exact rationals (`p/q` or `p`), IEEE doubles as
`x` + 16 hex digits, lists separated by `,`. -/
namespace DV.Proto

def parseInt? (s : String) : Option Int :=
  if s.startsWith "-" then (s.drop 1).toNat?.map (fun n => -(n : Int)) else s.toNat?.map (fun n => (n : Int))

def parseRat? (s : String) : Option Rat :=
  match s.splitOn "/" with
  | [p] => (parseInt? p).map (fun i => (i : Rat))
  | [p, q] => do
      let p ← parseInt? p
      let q ← q.toNat?
      if q = 0 then none else some ((p : Rat) / (q : Rat))
  | _ => none

def showRat (r : Rat) : String :=
  if r.den = 1 then toString r.num else toString r.num ++ "/" ++ toString r.den

def hexVal? (c : Char) : Option Nat :=
  if '0' ≤ c ∧ c ≤ '9' then some (c.toNat - '0'.toNat)
  else if 'a' ≤ c ∧ c ≤ 'f' then some (c.toNat - 'a'.toNat + 10)
  else if 'A' ≤ c ∧ c ≤ 'F' then some (c.toNat - 'A'.toNat + 10)
  else none

/-- `x3ff0000000000000` ↦ `1.0` -/
def parseFloatBits? (s : String) : Option Float :=
  if !s.startsWith "x" then none else
  let cs := (s.drop 1).toString.toList
  if cs.length ≠ 16 then none else
  (cs.foldlM (fun (acc : Nat) c => (hexVal? c).map (fun v => acc * 16 + v)) 0).map
    (fun n => Float.ofBits (UInt64.ofNat n))

def hexDigit (n : Nat) : Char :=
  if n < 10 then Char.ofNat ('0'.toNat + n) else Char.ofNat ('a'.toNat + n - 10)

def showFloatBits (f : Float) : String :=
  let n := f.toBits.toNat
  "x" ++ String.ofList ((List.range 16).map (fun i => hexDigit ((n / 16 ^ (15 - i)) % 16)))

def parseList? {α} (p : String → Option α) (s : String) : Option (List α) :=
  if s = "" ∨ s = "-" then some [] else (s.splitOn ",").mapM p

def showList {α} (f : α → String) (l : List α) : String :=
  if l.isEmpty then "-" else ",".intercalate (l.map f)

end DV.Proto
