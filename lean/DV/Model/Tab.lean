/-! Data structures for the generated coefficient tables (see `DV/Gen/Tableaux.lean`). -/
namespace DV

/-- a Runge–Kutta table as the running class holds it: every entry is `m / 2^K` -/
structure RKTab where
  name : String
  K : Nat
  order : Nat
  listedExplicit : Bool
  symplectic : Bool
  estimateOverride : Bool
  updateOverride : Bool
  /-- first column of `tableau_intermediate` -/
  c : List Int
  /-- remaining columns of `tableau_intermediate` -/
  A : List (List Int)
  /-- rows of `tableau_final[:, 1:]` (row 0 propagates, row 1 — if present — estimates) -/
  bs : List (List Int)
  /-- first column of `tableau_final` (unused by the code) -/
  final0 : List Int
  deriving Repr

/-- a drift/kick splitting table: rows `(col0, drift, kick)`, every entry `m / 2^K` -/
structure SplitTab where
  name : String
  K : Nat
  order : Nat
  symplectic : Bool
  col0 : List Int
  drift : List Int
  kick : List Int
  deriving Repr

end DV
