import DV.Model.Loop
import DV.Model.RK
import DV.Model.Controller
import DV.Model.Facade
/-!
# Whole runs with states: the time-grid machine of `DV.Loop` together with the recorded states

`DV.Loop` leaves the states out ("the recorded state is `y + dState`").  This file puts them back for
the integrators whose returns do not depend on anything but the request: the non-adaptive explicit
Runge–Kutta and splitting methods (`RungeKuttaIntegrator.__call__` / `ExplicitSymplecticIntegrator.
__call__` return `timestep, (timestep, dState)` for them).  `OdeSystem.integrate` does

```python
dt, (dTime, dState) = self.integrator(self.equ_rhs, self.__t[counter], self.__y[counter], self.constants, timestep=...)
self.__t[counter + 1] = self.__t[counter] + dTime
self.__y[counter + 1] = self.__y[counter] + dState
self.counter += 1
```

so the states of a run are the fold of `y ↦ y + inc(t, y, h)` over the accepted requests `(t, h)`,
starting from the newest state of the previous call; `inc` is the increment of one step of the
method (`DV.RK.rkStepExplicit … .dState` or `DV.RK.splitStep … .1`).

The sample lists are kept newest first, like `Sys.ts`.
-/
namespace DV.Run
open DV DV.Loop

variable {α V : Type} [Num α] [DecidableLT α] [DecidableLE α] [HasTrunc α]

/-- a non-adaptive explicit integrator as the loop sees it: the whole requested step is taken and
proposed again -/
def fixedOrc : Oracle α := fun _ _ h => { ret := .ok h h }

/-- a system with its recorded states (`ys` newest first, paired with `sys.ts`) -/
structure SysY (α V : Type) where
  sys : Sys α
  ys : List V

/-- the states after the accepted requests `rs` (newest first, as `LoopOut.reqs`) of one call, on top
of the states `ys` (newest first) recorded before the call -/
def extend (add : V → V → V) (inc : α → V → α → V) (ys : List V) : List (Req α) → List V
  | [] => ys
  | r :: rs =>
    match extend add inc ys rs with
    | y :: rest => add y (inc r.t y r.h) :: y :: rest
    | [] => []

/-- `OdeSystem(…)`: one sample, the initial condition -/
def construct (t0 tf dt : α) (y0 : V) : SysY α V := { sys := Loop.construct t0 tf dt, ys := [y0] }

/-- `integrate(target)` with a fixed-step explicit method whose step increment is `inc` -/
def integrate (cfg : Cfg α) (add : V → V → V) (inc : α → V → α → V) (s : SysY α V) (target : α) (fuel : Nat) : SysY α V :=
  let out := Loop.integrate cfg s.sys target fixedOrc fuel
  { sys := out.sys, ys := extend add inc s.ys out.reqs }

/-- `reset()`: back to the first sample -/
def reset (s : SysY α V) : SysY α V :=
  { sys := Loop.reset s.sys, ys := match s.ys.getLast? with | some y => [y] | none => [] }

/-- a sequence of `integrate(t)` calls -/
def calls (cfg : Cfg α) (add : V → V → V) (inc : α → V → α → V) (fuel : Nat) : SysY α V → List α → SysY α V
  | s, [] => s
  | s, t :: rest => calls cfg add inc fuel (integrate cfg add inc s t fuel) rest

/-- **Any explicit one-step method, any step-size control**: the integrator hands back `dState = inc(t, y, dTime)` for the step
it finally accepted, and the loop records `t + dTime` and `y + dState`; so the recorded states are a function of the recorded
times (newest first) and the first state, whatever was rejected or retried in between -/
def ysOf [Sub α] (add : V → V → V) (inc : α → V → α → V) (y0 : V) : List α → List V
  | [] => []
  | [_] => [y0]
  | t' :: t :: rest =>
    match ysOf add inc y0 (t :: rest) with
    | y :: ys => add y (inc t y (t' - t)) :: y :: ys
    | [] => []

/-- `integrate(target)` with an explicit one-step method under ANY environment (adaptive controller, faults, callbacks):
the time-grid machine with the oracle, the states recomputed from the recorded times -/
def integrateO (cfg : Cfg α) (add : V → V → V) (inc : α → V → α → V) (y0 : V) (s : Sys α) (target : α) (orc : Oracle α) (fuel : Nat) :
    SysY α V :=
  let out := Loop.integrate cfg s target orc fuel
  { sys := out.sys, ys := ysOf add inc y0 out.sys.ts }

/-- a fixed-step integrator whose `j`-th call (counted within one `integrate`) raises: a fault of the user's right-hand side -/
def faultOrc (j : Nat) : Oracle α := fun k _ h => if k == j then { ret := .raise } else { ret := .ok h h }

/-- `integrate(target)` abandoned by a fault in its `j`-th integrator call -/
def integrateFault [Sub α] (cfg : Cfg α) (add : V → V → V) (inc : α → V → α → V) (s : SysY α V) (target : α) (j fuel : Nat) : SysY α V :=
  let out := Loop.integrate cfg s.sys target (faultOrc j) fuel
  { sys := out.sys, ys := match s.ys.getLast? with | some y0 => ysOf add inc y0 out.sys.ts | none => [] }

/-- **The integrator as the loop sees it, built from the accept/retry model of `__call__`** (`DV.Controller.call`): in iteration `k`
at time `t` with request `h` the attempts are `atts k t` (what `update_timestep` and the Newton solve deliver for each attempted step);
the call hands back the accepted step and the next proposal, or raises after `retries` rejections -/
def ctrlOrc (adaptiveOrImplicit implicit : Bool) (c08 : α) (atts : Nat → α → Controller.Attempts α) (retries : Nat) : Oracle α :=
  fun k t h =>
    match Controller.call adaptiveOrImplicit implicit c08 h (atts k t) retries with
    | .ok newDt dT _ => { ret := .ok newDt dT }
    | .raise _ => { ret := .raise }

/-- **The `t_eval` loop of `solve_ivp`**: `for t in t_eval: ode_system.integrate(t=t); t_res.append(ode_system[-1].t);
y_res.append(ode_system[-1].y)` - visit the requested times in order and take the newest sample after each call -/
def tevalLoop (cfg : Cfg α) (add : V → V → V) (inc : α → V → α → V) (fuel : Nat) : SysY α V → List α → SysY α V × List (α × V)
  | s, [] => (s, [])
  | s, t :: rest =>
    let s1 := integrate cfg add inc s t fuel
    let col := match s1.sys.ts, s1.ys with
      | tt :: _, y :: _ => [(tt, y)]
      | _, _ => []
    let r := tevalLoop cfg add inc fuel s1 rest
    (r.1, col ++ r.2)

/-- `solve_ivp(..., t_eval=...)` for a fixed-step method: the requested times sorted, visited along the direction of the span -/
def solveIvpTEval (cfg : Cfg α) (add : V → V → V) (inc : α → V → α → V) (fuel : Nat) (t0 tf dt : α) (y0 : V) (sortedTEval : List α) :
    SysY α V × List (α × V) :=
  tevalLoop cfg add inc fuel (construct t0 tf dt y0) (Facade.visitOrder sortedTEval t0 tf)

/-- the increment of one step of an explicit Runge–Kutta table (zeroed stage storage: for an explicit
table no stage reads storage that this pass has not written, `DVP.RK.computeStep_spec`) -/
def rkInc (ops : RK.VOps α V) (f : α → V → V) (c : List α) (A : List (List α)) (b : List α) (fsal : Bool) : α → V → α → V :=
  fun t y h => (RK.rkStepExplicit ops f t y h c A b fsal (List.replicate c.length ops.zero)).dState

/-- the increment of one drift/kick splitting step -/
def splitInc (ops : RK.VOps α V) (f : α → V → V) (mulMask : α → α → V → V) (drift kick : List α) : α → V → α → V :=
  fun t y h => (RK.splitStep ops f mulMask t y h drift kick).1

end DV.Run
