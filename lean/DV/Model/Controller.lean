import DV.Model.Arith
/-!
# Model of the accept / retry logic of `RungeKuttaIntegrator.__call__`

```python
timestep, (dTime, dState) = self.step(..., current_timestep)
if self.is_adaptive or self.is_implicit:
    timestep, redo_step = self.update_timestep()                    # timestep = corr * dTime, redo = corr < 0.9**2
    if self.is_implicit and not newton_iteration_success: redo_step = True; timestep = timestep * 0.8
    if redo_step:
        for _ in range(num_step_retries):                            # 64
            ... self.step(..., timestep if abs(timestep) < abs(current_timestep) else current_timestep)
            timestep, redo_step = self.update_timestep()
            if self.is_implicit and not newton_iteration_success: redo_step = True; timestep = timestep * 0.8
            if not redo_step: break
        if redo_step: raise FailedToMeetTolerances
return timestep, (dTime, dState)
```
What `step` + `update_timestep` produce for an attempt with step `h_i` is an input of the model:
the proposed step `ts`, the `redo` verdict of the controller and the Newton flag.
-/
namespace DV.Controller
open DV

variable {α : Type} [Num α] [DecidableLT α] [DecidableLE α]

structure Attempt (α : Type) where
  /-- `timestep` returned by `update_timestep()` for this attempt -/
  ts : α
  /-- `redo_step` returned by `update_timestep()` -/
  redo : Bool
  /-- `solver_dict["newton_iteration_success"]` (irrelevant for explicit methods) -/
  newtonOk : Bool := true

/-- the environment: attempt number and attempted step ↦ outcome -/
abbrev Attempts (α : Type) := Nat → α → Attempt α

inductive Result (α : Type) where
  /-- returned `(timestep, dTime)`; `tried` = the steps attempted, oldest first -/
  | ok (newDt dT : α) (tried : List α)
  | raise (tried : List α)

/-- verdict after one attempt: the proposal (scaled by 0.8 after a Newton failure) and whether to redo -/
def verdict (implicit : Bool) (c08 : α) (a : Attempt α) : α × Bool :=
  if implicit && !a.newtonOk then (a.ts * c08, true) else (a.ts, a.redo)

/-- the retry loop: `fuel` retries left, `k` the attempt number, `ts` the current proposal -/
def retry (implicit : Bool) (c08 h : α) (att : Attempts α) : Nat → Nat → α → List α → Result α
  | 0, _, _, tried => .raise tried.reverse
  | fuel + 1, k, ts, tried =>
    let hi := if absC ts < absC h then ts else h
    let v := verdict implicit c08 (att k hi)
    if v.2 then retry implicit c08 h att fuel (k + 1) v.1 (hi :: tried)
    else .ok v.1 hi (hi :: tried).reverse

/-- `integrator(rhs, t, y, constants, h)` as far as the step size is concerned -/
def call (adaptiveOrImplicit implicit : Bool) (c08 h : α) (att : Attempts α) (retries : Nat := 64) : Result α :=
  if !adaptiveOrImplicit then .ok h h [h] else
  let v := verdict implicit c08 (att 0 h)
  if v.2 then retry implicit c08 h att retries 1 v.1 [h] else .ok v.1 h [h]

end DV.Controller
