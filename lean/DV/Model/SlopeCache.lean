import DV.Model.Arith
/-!
# Model of the end-slope cache of `RungeKuttaIntegrator.__call__`

```python
def __call__(self, rhs, initial_time, initial_state, constants, timestep):
    ...
    if self.final_rhs is not None and self.final_time is not None and bool(self.final_time == initial_time) \
            and bool(all(self.final_state == initial_state)):
        self.initial_rhs = self.final_rhs                       # reuse
    else:
        self.initial_rhs = rhs(initial_time, initial_state)     # evaluate
    self.final_time = None                                       # (fix c1d7df9) the tags are invalid while attempts run
    ... every attempt (`step`) overwrites self.final_rhs with the slope at the end of THAT attempt;
        an exception (right-hand side fault, FailedToMeetTolerances) abandons the call here ...
    self.final_time = initial_time + self.dTime                  # only when the call completes
    self.final_state = initial_state + self.dState
```
`initial_rhs` / `final_rhs` are the end slopes of the step's dense-output piece.  The right-hand side
`f` and the end state of an attempt (`adv`, the Runge–Kutta update — C02) are parameters.
-/
namespace DV.SlopeCache
open DV

variable {α S R : Type}

structure Cache (α S R : Type) where
  /-- `(final_time, final_state)`; `none` = `final_time is None` -/
  tags : Option (α × S)
  /-- `final_rhs` -/
  rhs : Option R

def empty : Cache α S R := { tags := none, rhs := none }

/-- how a call ends: after the attempts `hs` (the last one accepted), or abandoned by an exception after
the attempts `hs` have completed (possibly none) -/
inductive Ending (α : Type) where
  | completed (hs : List α)
  | abandoned (hs : List α)

structure CallOut (α S R : Type) where
  cache : Cache α S R
  /-- the start slope of the step's dense piece -/
  initialRhs : R
  /-- the cached slope was reused (no evaluation of the right-hand side at the start point) -/
  reused : Bool

variable [DecidableEq α] [DecidableEq S] [Add α]

/-- the attempts overwrite `final_rhs` one after the other -/
def runAttempts (f : α → S → R) (adv : α → S → α → S) (t : α) (y : S) : List α → Option R → Option R
  | [], r => r
  | h :: hs, _ => runAttempts f adv t y hs (some (f (t + h) (adv t y h)))

/-- one `__call__` -/
def call (f : α → S → R) (adv : α → S → α → S) (c : Cache α S R) (t : α) (y : S) (e : Ending α) : CallOut α S R :=
  let hit : Option R := match c.tags, c.rhs with
    | some (ft, fy), some r => if ft = t ∧ fy = y then some r else none
    | _, _ => none
  let init : R := hit.getD (f t y)
  match e with
  | .abandoned hs => { cache := { tags := none, rhs := runAttempts f adv t y hs c.rhs }, initialRhs := init, reused := hit.isSome }
  | .completed hs =>
    let tags := match hs.getLast? with
      | some h => some (t + h, adv t y h)
      | none => none
    { cache := { tags := tags, rhs := runAttempts f adv t y hs c.rhs }, initialRhs := init, reused := hit.isSome }

/-- the code before fix c1d7df9: the tags survive an abandoned call -/
def callOld (f : α → S → R) (adv : α → S → α → S) (c : Cache α S R) (t : α) (y : S) (e : Ending α) : CallOut α S R :=
  match e with
  | .abandoned hs => { call f adv c t y e with cache := { tags := c.tags, rhs := runAttempts f adv t y hs c.rhs } }
  | .completed _ => call f adv c t y e

end DV.SlopeCache
