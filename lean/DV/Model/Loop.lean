import DV.Model.Arith
/-!
# Model of the `OdeSystem` time-grid state machine (`differential_system.py`)

What is modelled: construction, `integrate(t)` without events (early return, direction fix,
clipping of an over-long step, buffer allocation and growth, loop guard, final-step test, the
integrator call as an *oracle*, the `dt` update with its direction fix, callbacks assigning `dt`
through the property setter, faults raised by the integrator or a callback, `try/except/else/
finally` status bookkeeping, trimming), the `dt`/`tf` setters and `reset()`.

What is an input of the model: what the integrator returns for each call — `(new_dt, dTime)` or an
exception — and what the callbacks do.  States `y` are not part of this model (the recorded state is
`y + dState`; C02 is about `dState`).
-/
namespace DV.Loop
open DV

variable {α : Type} [Num α] [DecidableLT α] [DecidableLE α] [HasTrunc α]

structure Cfg (α : Type) where
  /-- `D.epsilon(dtype)` -/
  eps : α
  /-- `D.tol_epsilon(dtype)` -/
  tolEps : α
  /-- the literal `0.5` -/
  half : α

/-- integration status: 0 not run, 1 success, 2 terminated by event, 3 failed, 4 keyboard interrupt -/
abbrev Status := Nat

structure Sys (α : Type) where
  /-- recorded times, newest first (`ts.reverse` is `OdeSystem.t`) -/
  ts : List α
  /-- `len(self.__t)`: allocated rows -/
  cap : Nat
  dt : α
  dt0 : α
  t0 : α
  tf : α
  status : Status
  /-- an uncaught exception escaped (`int(inf)`, index error): the model stops being meaningful -/
  crashed : Bool := false

def Sys.tcur (s : Sys α) : α := s.ts.headD s.t0
def Sys.counter (s : Sys α) : Nat := s.ts.length - 1

/-- `__fix_dt_dir(t1, t0)` with `span = t1 - t0` -/
def fixDir (dt span : α) : α := if signC dt != signC span then -dt else dt

/-- `__alloc_space_steps`: `max(1, min(5000, int(span / dt)))`, and 10 for an infinite target (`span = ±inf`) -/
def allocSteps (span dt : α) : Option Nat :=
  if HasTrunc.isInf span then some 10 else
  (HasTrunc.truncInt (span / dt)).map (fun k => (max 1 (min 5000 k)).toNat)

/-- `OdeSystem.__init__` -/
def construct (t0 tf dt : α) : Sys α :=
  match allocSteps (tf - t0) dt with
  | some n => { ts := [t0], cap := 1 + n, dt := fixDir dt (tf - t0), dt0 := dt, t0 := t0, tf := tf, status := 0 }
  | none => { ts := [t0], cap := 1, dt := dt, dt0 := dt, t0 := t0, tf := tf, status := 0, crashed := true }

/-- what one integrator call does -/
inductive Ret (α : Type) where
  | ok (newDt dT : α)
  | raise
  | interrupt

/-- everything the environment does during one loop iteration -/
structure Iter (α : Type) where
  ret : Ret α
  /-- a callback assigns `ode.dt = v` (through the property setter) -/
  cbDt : Option α := none
  /-- a callback raises -/
  cbRaise : Bool := false

/-- the request made to the integrator in one iteration -/
structure Req (α : Type) where
  t : α
  h : α
  final : Bool
  cap : Nat

/-- the integrator and the callbacks as the loop sees them: iteration number, current time and
requested step ↦ what happens.  (The harness instantiates this with the recorded returns of the
real integrator; the theorems quantify over every oracle that honours the integrator contract.) -/
abbrev Oracle (α : Type) := Nat → α → α → Iter α

structure LoopOut (α : Type) where
  sys : Sys α
  /-- requests, newest first -/
  reqs : List (Req α)
  /-- the loop ended because its guard became false (not by a fault, not by running out of fuel) -/
  guardExit : Bool
  /-- integrator calls made -/
  iters : Nat

/-- the loop guard `self.dt != 0 and abs(tf - t) >= tol_epsilon` -/
def guard (cfg : Cfg α) (target : α) (s : Sys α) : Bool :=
  !(s.dt == Lit.lit 0) && decide (cfg.tolEps ≤ absC (target - s.tcur))

/-- `is_final_step` -/
def isFinal (target : α) (s : Sys α) : Bool := decide (absC (target - s.tcur) < absC s.dt)

/-- the requested step -/
def request (target : α) (s : Sys α) : α := if isFinal target s then target - s.tcur else s.dt

/-- buffer growth: `if counter + 1 >= len(y): allocate(alloc(tf - dTime) + 1)`; `none` = `int()` raised -/
def growth (target : α) (s : Sys α) (dT : α) : Option Nat :=
  if s.cap ≤ s.counter + 1 then (allocSteps (target - dT - s.tcur) s.dt).map (· + 1) else some 0

/-- the state after an accepted step: record the time, update `dt` (with the direction fix against
the call's target), then the callbacks (assignment through the setter fixes the sign against the
system's own span) -/
def advance (target : α) (s : Sys α) (it : Iter α) (newDt dT : α) (g : Nat) : Sys α :=
  let t' := s.tcur + dT
  let dt1 := if isFinal target s then s.dt else fixDir newDt (target - t')
  let dt2 := match it.cbDt with
    | some v => fixDir v (s.tf - s.t0)
    | none => dt1
  { s with ts := t' :: s.ts, cap := s.cap + g, dt := dt2 }

/-- the `while` loop of `integrate`, at most `fuel` iterations; `k` counts integrator calls -/
def loop (cfg : Cfg α) (target : α) (orc : Oracle α) : Nat → Nat → Sys α → List (Req α) → LoopOut α
  | 0, k, s, reqs => { sys := s, reqs := reqs, guardExit := !(guard cfg target s), iters := k }
  | fuel + 1, k, s, reqs =>
    if !(guard cfg target s) then { sys := s, reqs := reqs, guardExit := true, iters := k } else
    let h := request target s
    let req : Req α := { t := s.tcur, h := h, final := isFinal target s, cap := s.cap }
    let it := orc k s.tcur h
    match it.ret with
    | .raise => { sys := { s with status := 3 }, reqs := req :: reqs, guardExit := false, iters := k + 1 }
    | .interrupt => { sys := { s with status := 4 }, reqs := req :: reqs, guardExit := false, iters := k + 1 }
    | .ok newDt dT =>
      match growth target s dT with
      | none => { sys := { s with status := 3 }, reqs := req :: reqs, guardExit := false, iters := k + 1 }
      | some g =>
        let s' := advance target s it newDt dT g
        if it.cbRaise then { sys := { s' with status := 3 }, reqs := req :: reqs, guardExit := false, iters := k + 1 }
        else loop cfg target orc fuel (k + 1) s' (req :: reqs)

/-- the step `integrate` starts its loop with: direction fixed against the target, and clipped to
half the span if it is longer than the span -/
def initialDt (cfg : Cfg α) (s : Sys α) (target : α) : α :=
  let dt1 := fixDir s.dt (target - s.tcur)
  if absC (target - s.tcur) < absC dt1 then fixDir (absC (target - s.tcur) * cfg.half) (target - s.tcur) else dt1

/-- status after the `try` statement: the `else:` clause sets 1 unless 2 / failure -/
def finalStatus (guardExit : Bool) (st : Status) : Status :=
  if guardExit then (if st == 2 ∨ st == 3 ∨ st == 4 then st else 1) else st

/-- `integrate(t)` without events.  `finally: trim` sets `cap := counter + 1`. -/
def integrate (cfg : Cfg α) (s : Sys α) (target : α) (orc : Oracle α) (fuel : Nat) : LoopOut α :=
  if s.crashed then { sys := s, reqs := [], guardExit := false, iters := 0 } else
  if absC (target - s.tcur) < cfg.tolEps then { sys := s, reqs := [], guardExit := true, iters := 0 } else
  -- a new integration supersedes the outcome of an earlier failed or event-terminated call
  let st0 : Status := if s.status == 2 ∨ s.status == 3 ∨ s.status == 4 then 0 else s.status
  let dt2 := initialDt cfg s target
  match allocSteps (target - s.tcur) dt2 with
  | none => { sys := { s with dt := dt2, status := st0, crashed := true }, reqs := [], guardExit := false, iters := 0 }
  | some n =>
    let out := loop cfg target orc fuel 0 { s with dt := dt2, cap := s.cap + n, status := st0 } []
    { out with sys := { out.sys with status := finalStatus out.guardExit out.sys.status, cap := out.sys.ts.length } }

/-- `ode.dt = v` -/
def setDt (s : Sys α) (v : α) : Sys α := { s with dt := fixDir v (s.tf - s.t0) }

/-- `ode.tf = v`; `none` = `ValueError` -/
def setTf (cfg : Cfg α) (s : Sys α) (v : α) : Option (Sys α) :=
  if absC (s.t0 - v) ≤ cfg.eps then none else some { s with tf := v, dt := fixDir s.dt (v - s.t0) }

/-- `reset()` -/
def reset (s : Sys α) : Sys α :=
  let t_first := s.ts.getLast?.getD s.t0
  { s with ts := [t_first], cap := 1, dt := fixDir s.dt0 (s.tf - s.t0), status := 0 }

end DV.Loop
