import DV.Model.Arith
import DV.Model.Tab
/-!
# Model of one Runge–Kutta step (`compute_step`, `RungeKuttaIntegrator.step`) and of one
drift/kick splitting step (`ExplicitSymplecticIntegrator.step`)

Generic over the scalars `α` and over the state space `V` (given by its operations `VOps`): the
driver instantiates `V` with lists of rationals, the theorems with an arbitrary module.

Mirrored peculiarities of the code:
* the stage sum runs only over the coefficients that are non-zero (`stage_coeffs != 0.0`); a row without
  coefficients gives zero and does not read the stage storage (fix P41);
* input and output stage storage are the same array: a stage sees the stages already computed in
  this pass and, for `j ≥ i`, whatever the previous step left there;
* an explicit FSAL table returns the last stage's partial sum as the increment and the last stage's
  slope as `final_rhs`; every other table returns `h · Σ b_i k_i` and evaluates `final_rhs` anew.
-/
namespace DV.RK
open DV

structure VOps (α V : Type) where
  add : V → V → V
  smul : α → V → V
  zero : V

variable {α V : Type} [Num α]

/-- `Σ_j a_j • k_j` over all positions -/
def wsum (ops : VOps α V) (coeffs : List α) (ks : List V) : V :=
  (List.zip coeffs ks).foldl (fun acc p => ops.add acc (ops.smul p.1 p.2)) ops.zero

/-- the masked sum of `compute_step` -/
def maskedSum (ops : VOps α V) (coeffs : List α) (ks : List V) : V :=
  -- since fix P41 a row without coefficients gives zero without touching the stage storage (it used to sum everything times zero)
  (List.zip coeffs ks).foldl (fun acc p => if !(p.1 == Lit.lit 0) then ops.add acc (ops.smul p.1 p.2) else acc) ops.zero

structure StageState (V : Type) where
  stages : List V
  lastD : V
  lastRhs : V

/-- one stage of `compute_step` -/
def stageStep (ops : VOps α V) (f : α → V → V) (t : α) (y : V) (h : α) (c : List α) (A : List (List α))
    (st : StageState V) (i : Nat) : StageState V :=
  let d := ops.smul h (maskedSum ops (A.getD i []) st.stages)
  let r := f (t + h * c.getD i (Lit.lit 0)) (ops.add y d)
  { stages := st.stages.set i r, lastD := d, lastRhs := r }

/-- `compute_step(rhs, t, y, h, stages, stages, tableau)` -/
def computeStep (ops : VOps α V) (f : α → V → V) (t : α) (y : V) (h : α) (c : List α) (A : List (List α))
    (stages : List V) : StageState V :=
  (List.range stages.length).foldl (stageStep ops f t y h c A) { stages := stages, lastD := ops.zero, lastRhs := ops.zero }

structure StepOut (V : Type) where
  dState : V
  finalRhs : V
  stages : List V

/-- `RungeKuttaIntegrator.step` for an explicit table (`fsal`: last row of `A` equals `b`) -/
def rkStepExplicit (ops : VOps α V) (f : α → V → V) (t : α) (y : V) (h : α) (c : List α) (A : List (List α)) (b : List α)
    (fsal : Bool) (stages : List V) : StepOut V :=
  let st := computeStep ops f t y h c A stages
  if fsal then { dState := st.lastD, finalRhs := st.lastRhs, stages := st.stages }
  else
    let d := ops.smul h (wsum ops b st.stages)
    { dState := d, finalRhs := f (t + h) (ops.add y d), stages := st.stages }

/-- the error estimate `Σ (b₀ − b₁)_i k_i` of an embedded pair (to be multiplied by the step) -/
def errorEstimate (ops : VOps α V) (b0 b1 : List α) (stages : List V) : V :=
  wsum ops (List.zipWith (· - ·) b0 b1) stages

/-- residual of the stage equations `k_i − f(t + c_i h, y + h Σ_j a_ij k_j)` for given stages (used to
judge the stages an implicit solve handed back) -/
def stageResiduals (ops : VOps α V) (sub : V → V → V) (f : α → V → V) (t : α) (y : V) (h : α) (c : List α)
    (A : List (List α)) (ks : List V) : List V :=
  (List.range ks.length).map (fun i =>
    sub (ks.getD i ops.zero) (f (t + h * c.getD i (Lit.lit 0)) (ops.add y (ops.smul h (wsum ops (A.getD i []) ks)))))

/-! ## drift/kick splitting step -/

/-- `ExplicitSymplecticIntegrator.step`: `mulMask drift kick v` is `v * (drift*drift_mask + kick*kick_mask)` -/
def splitStep (ops : VOps α V) (f : α → V → V) (mulMask : α → α → V → V) (t : α) (y : V) (h : α)
    (drift kick : List α) : V × α :=
  ((List.zip drift kick).foldl (fun (acc : V × α) p =>
      let aux := ops.smul h (f acc.2 (ops.add y acc.1))
      (ops.add acc.1 (mulMask p.1 p.2 aux), acc.2 + h * p.1)) (ops.zero, t))

/-! ## list vectors (the instance the driver runs) -/

def listOps [Num α] : VOps α (List α) :=
  { add := fun x y => List.zipWith (· + ·) x y, smul := fun a x => x.map (a * ·), zero := [] }

/-- `zero` of the right dimension -/
def listOpsN (n : Nat) : VOps α (List α) :=
  { add := fun x y => List.zipWith (· + ·) x y, smul := fun a x => x.map (a * ·), zero := List.replicate n (Lit.lit 0) }

end DV.RK
