/-!
# Model of the evaluation counters of `DiffRHS` / `OdeSystem`

`DiffRHS.__call__` increments `nfev` *after* the user's function returned (a call that raises is not
counted); `DiffRHS.jac` increments `njev` after the Jacobian was obtained, and a finite-difference
Jacobian evaluates the right-hand side through `DiffRHS.__call__` (so those evaluations are counted
in `nfev`); `OdeSystem.reset()` zeroes both.
-/
namespace DV.Counters

structure St where
  nfev : Nat := 0
  njev : Nat := 0
  deriving DecidableEq, Repr

inductive Op where
  /-- a call of the right-hand side through the wrapper; `ok = false` when the user function raises -/
  | call (ok : Bool)
  /-- a Jacobian request answered by the user's Jacobian; `ok = false` when it raises -/
  | jacUser (ok : Bool)
  /-- a Jacobian request answered by finite differences: `evals` right-hand-side calls complete, then
  either the request completes (`ok`) or one more evaluation raises -/
  | jacFD (evals : Nat) (ok : Bool)
  | reset
  deriving Repr

def step (s : St) : Op → St
  | .call ok => if ok then { s with nfev := s.nfev + 1 } else s
  | .jacUser ok => if ok then { s with njev := s.njev + 1 } else s
  | .jacFD evals ok => { nfev := s.nfev + evals, njev := if ok then s.njev + 1 else s.njev }
  | .reset => {}

def run (s : St) (ops : List Op) : St := ops.foldl step s

/-- reference semantics: completed right-hand-side calls / Jacobian requests since the last reset -/
def completedCalls : List Op → Nat
  | [] => 0
  | .call ok :: r => (if ok then 1 else 0) + completedCalls r
  | .jacUser _ :: r => completedCalls r
  | .jacFD evals _ :: r => evals + completedCalls r
  | .reset :: r => completedCalls r

def completedJacs : List Op → Nat
  | [] => 0
  | .call _ :: r => completedJacs r
  | .jacUser ok :: r => (if ok then 1 else 0) + completedJacs r
  | .jacFD _ ok :: r => (if ok then 1 else 0) + completedJacs r
  | .reset :: r => completedJacs r

/-- the operations after the last reset -/
def sinceReset (ops : List Op) : List Op :=
  ops.foldl (fun acc op => match op with | .reset => [] | _ => acc ++ [op]) []

end DV.Counters
