import DV.Model.Arith
/-!
# Model of the glue in `solve_ivp`

```python
constants = {key: value for key, value in zip(getfullargspec(fn)[0][2:], args)}
initial_dt = maximum(minimum(first_step, max_step), min_step)
def __step_cb(ode_sys): ode_sys.dt = sign(ode_sys.dt) * clip(abs(ode_sys.dt), min=min_step, max=max_step)
t_eval = sort(t_eval); range check against min/max of t_span; reversed when t_span decreases
for t in t_eval: ode_system.integrate(t=t, ...); t_res.append(ode_system[-1].t); y_res.append(ode_system[-1].y)
```
-/
namespace DV.Facade
open DV

/-- `args` are bound, in order, to the parameters of the right-hand side after `(t, y)` -/
def bindArgs {β : Type} (params : List String) (args : List β) : List (String × β) := List.zip (params.drop 2) args

variable {α : Type} [Num α] [DecidableLT α] [DecidableLE α]

def minC (a b : α) : α := if b < a then b else a
def maxC (a b : α) : α := if a < b then b else a

/-- `numpy.clip(x, lo, hi)` = `minimum(maximum(x, lo), hi)` -/
def clip (x lo hi : α) : α := minC (maxC x lo) hi

def initialDt (firstStep maxStep minStep : α) : α := maxC (minC firstStep maxStep) minStep

/-- the step-clipping callback: clips the magnitude, keeps the sign -/
def clipStep (dt minStep maxStep : α) : α :=
  let m := clip (absC dt) minStep maxStep
  if dt < Lit.lit 0 then -m else if Lit.lit 0 < dt then m else Lit.lit 0 * m

/-- the `t_eval` range check (on the sorted array) -/
def tEvalInRange (sorted : List α) (t0 tf : α) : Bool :=
  match sorted.head?, sorted.getLast? with
  | some a, some b => !(decide (a < minC t0 tf) || decide (maxC t0 tf < b))
  | _, _ => true

/-- the order in which the requested times are visited -/
def visitOrder (sorted : List α) (t0 tf : α) : List α := if tf < t0 then sorted.reverse else sorted

end DV.Facade
