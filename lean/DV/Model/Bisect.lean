/-!
# Model of `desolver.utilities.utilities.search_bisection` and `search_bisection_vec`

Hand-written mirror of the Python control flow.  The array is a total function `Nat → α`
together with its length `n` (the wrappers below read an `Array`).  The Python code raises
`IndexError` for an empty array; the model is only meaningful for `n ≥ 1` and every theorem
states that guard.

```python
jlower = 0; jupper = len(array) - 1
if val <= array[jlower]:   return jlower
elif val >= array[jupper]: return jupper
while (jupper - jlower) > 1:
    jmid = (jupper + jlower) // 2
    if val >= array[jmid]: jlower = jmid
    else:                  jupper = jmid
else:
    if array[jlower] < val: jlower = jupper
return jlower
```
-/
namespace DV.Bisect

variable {α : Type} [LT α] [LE α] [DecidableLT α] [DecidableLE α]

/-- the `while` loop of the scalar search: `val >= array[jmid]` moves the lower end -/
def loopS (a : Nat → α) (val : α) (jl ju : Nat) : Nat × Nat :=
  if ju - jl > 1 then
    let jm := (ju + jl) / 2
    if a jm ≤ val then loopS a val jm ju else loopS a val jl jm
  else (jl, ju)
termination_by ju - jl
decreasing_by all_goals omega

/-- `search_bisection(array, val)` for `len(array) = n ≥ 1` -/
def searchS (a : Nat → α) (n : Nat) (val : α) : Nat :=
  let jl := 0
  let ju := n - 1
  if val ≤ a jl then jl
  else if a ju ≤ val then ju
  else
    let (jl, ju) := loopS a val jl ju
    if a jl < val then ju else jl

/-- the `while` loop of the vectorised search, for one lane: the comparisons are
`val > mid` (lower moves) / `val <= mid` (upper moves) -/
def loopV (a : Nat → α) (val : α) (jl ju : Nat) : Nat × Nat :=
  if ju - jl > 1 then
    let jm := (ju + jl) / 2
    if a jm < val then loopV a val jm ju else loopV a val jl jm
  else (jl, ju)
termination_by ju - jl
decreasing_by all_goals omega

/-- one lane of `search_bisection_vec`.  In the Python code the early masks (`val <= a[0]`,
`val >= a[-1]`) write into `indices`, which is then *not* returned: the returned array is
`where(a[jlower] < val, jupper, jlower)` after the loop has run on every lane.  The lanes are
independent except for the loop condition `any(not_conv)`; a lane that has converged is a fixed
point of the loop body (`ju - jl ≤ 1` ⇒ `jm = jl` ... see `DVP` for the proof obligation that
extra iterations do not change a converged lane). -/
def searchV (a : Nat → α) (n : Nat) (val : α) : Nat :=
  let (jl, ju) := loopV a val 0 (n - 1)
  if a jl < val then ju else jl

/-- array wrappers used by the driver -/
def searchSArr [Inhabited α] (arr : Array α) (val : α) : Nat := searchS (fun i => arr[i]!) arr.size val
def searchVArr [Inhabited α] (arr : Array α) (val : α) : Nat := searchV (fun i => arr[i]!) arr.size val

/-- `DenseOutput.find_interval`: `min(search_bisection(t_eval, t), len(y_interpolants) - 1)` -/
def findInterval [Inhabited α] (tEval : Array α) (nInterp : Nat) (t : α) : Nat :=
  min (searchSArr tEval t) (nInterp - 1)

end DV.Bisect
