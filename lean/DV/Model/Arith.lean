/-!
# Carrier of the numeric models

The control-flow models are generic over a carrier with the field operations, comparisons and
natural-number literals.  Two instances: `Rat` (exact; the instance the theorems are about) and
`Float` (IEEE binary64, used to replay scalar control flow of the implementation bit for bit —
numpy's float64 scalar `+ - * /`, comparisons and `abs` are the same IEEE operations).
-/
namespace DV

/-- natural-number literals of the carrier (`2`, `3`, `4`, `64`, …) -/
class Lit (α : Type) where
  lit : Nat → α

instance : Lit Rat := ⟨fun n => (n : Rat)⟩
instance : Lit Float := ⟨fun n => Float.ofNat n⟩
instance : Lit Int := ⟨fun n => (n : Int)⟩

/-- the operations a scalar control-flow model may use -/
class abbrev Num (α : Type) := Add α, Sub α, Mul α, Div α, Neg α, LT α, LE α, BEq α, Lit α

variable {α : Type} [Num α] [DecidableLT α] [DecidableLE α]

/-- `abs` as the models use it (`-0.0` and `NaN` behave like IEEE `fabs` under every later
comparison) -/
def absC (x : α) : α := if x < Lit.lit 0 then -x else x

/-- `numpy.sign` on a scalar: -1, 0, +1 -/
def signC (x : α) : Int := if x < Lit.lit 0 then -1 else if Lit.lit 0 < x then 1 else 0

instance : Inhabited Rat := ⟨0⟩

end DV

namespace DV
/-- Python's `int(x)` on a float (truncation toward zero); `none` for inf/nan (Python raises) -/
class HasTrunc (α : Type) where
  truncInt : α → Option Int
  /-- `x == inf` or `x == -inf` (an infinite target time) -/
  isInf : α → Bool

instance : HasTrunc Rat := ⟨fun x => some (Int.tdiv x.num x.den), fun _ => false⟩
instance : HasTrunc Float := ⟨fun x => if x.isNaN || x.isInf then none else some x.toInt64.toInt, fun x => x.isInf⟩
end DV
