import DV.Model.Loop
import DV.Model.Events
/-!
# `OdeSystem.integrate(t, events=…)`: the loop with event handling

The loop of `DV.Loop` with what the code does when `events is not None` (`differential_system.py`, the body of
`integrate` after an accepted integrator call):

* the new sample is written but **not counted** (`counter += 1; … counter -= 1`) while `handle_events` runs; if
  `handle_events` raises, the step is gone from `(t, y)` and the call fails;
* the reported events are recorded (`DV.Events.record`: window test and duplicate suppression per function);
* if a terminal event fired (`end_int`): the system, still at the start of the step, is integrated to the root of
  the last reported event by a **nested** `integrate(root)` without events or callbacks (`DV.Loop.integrate`),
  the status becomes 2, and the loop ends after the usual `dt` update and ONE round of callbacks;
* otherwise the step is counted and the iteration ends like an iteration of the plain loop;
* the buffer is grown up to three times per iteration (`counter + 1 ≥ len`, `counter + len(roots) + 1 ≥ len` twice);
* the dense-output container (`DenseOutput`: one knot — the end time of the step — per piece) gets the piece of every
  accepted step, loses it again when the step is dropped or rolled back, gets the pieces of the nested call when dense
  output is on, and is trimmed to its newest pieces when dense output is off.

Inputs of the model (the oracle): what the integrator returns, what the callbacks do, whether `handle_events`
raises, the probes the root finder and the sampled event functions delivered for the step (`DV.Events.Probe`),
and what the integrator does inside the nested call.  The selection (`DV.Events.handle`) and the book-keeping
are computed by the model, not fed to it.
-/
namespace DV.LoopEv
open DV DV.Loop DV.Events

variable {α : Type} [Num α] [DecidableLT α] [DecidableLE α] [HasTrunc α]

/-- everything the environment does during one iteration of the loop with events -/
structure IterEv (α : Type) where
  base : Iter α
  /-- `handle_events` raised (an event function or the root finder failed) -/
  evRaise : Bool := false
  /-- what the root finder and the sampled event functions delivered for this step -/
  probes : List (Probe α) := []
  /-- the integrator inside the nested `integrate(root)` of a terminal event -/
  nested : Oracle α := fun _ _ _ => { ret := .raise }
  /-- iteration bound of the nested loop (the model must leave it by its guard, not by this bound) -/
  nestedFuel : Nat := 0

abbrev OracleEv (α : Type) := Nat → α → α → IterEv α

structure CfgEv (α : Type) where
  loop : Cfg α
  /-- `D.epsilon(dtype) ** 0.7` -/
  dupTol : α
  /-- `dense_output=True` -/
  dense : Bool := true

structure OutEv (α : Type) where
  sys : Sys α
  book : Book α
  /-- `DenseOutput.t_eval`: the knots of the dense-output pieces, in container order -/
  knots : List α
  /-- requests of the outer loop, newest first -/
  reqs : List (Req α)
  /-- requests made inside the nested call of a terminal event, newest first -/
  nestedReqs : List (Req α)
  guardExit : Bool
  /-- a terminal event ended the loop -/
  stopped : Bool
  iters : Nat

/-- the sign `handle_events` sorts with: direction from `t_prev` to `t_next` -/
def stepSign (tPrev tNext : α) : α :=
  if tPrev < tNext then Lit.lit 1 else if tNext < tPrev then -(Lit.lit 1) else Lit.lit 0

/-- `DenseOutput.add_interpolant`: one knot (the end time of the step) per piece; a piece that ends before the last
knot goes to the front -/
def addKnot (knots : List α) (t : α) : List α :=
  match knots.getLast? with
  | none => [t]
  | some l => if t - l < Lit.lit 0 then t :: knots else knots ++ [t]

/-- `remove_interpolant(-1 if dTime >= 0 else 0)`: the newest piece of a step in the direction of `dT` -/
def removeNewest (knots : List α) (dT : α) : List α := if Lit.lit 0 ≤ dT then knots.dropLast else knots.drop 1

/-- `for _ in range(n): remove_interpolant(0 if dTime >= 0 else -1)`: the `n` oldest pieces -/
def trimOldest (knots : List α) (n : Nat) (dT : α) : List α := if Lit.lit 0 ≤ dT then knots.drop n else knots.take (knots.length - n)

/-- what a call without events does to the container: with dense output one piece per new sample, otherwise nothing
(`before`, `after`: the recorded times, newest first) -/
def plainKnots (dense : Bool) (knots before after : List α) : List α :=
  if dense then ((after.take (after.length - before.length)).reverse).foldl addKnot knots else knots

/-- `if counter + nroots + 1 >= len(y): allocate(alloc(tf - dTime) + 1 + nroots)` with `len(y) = cap` -/
def growthEv (target : α) (s : Sys α) (dT : α) (cap nroots : Nat) : Option Nat :=
  if cap ≤ s.counter + nroots + 1 then (allocSteps (target - dT - s.tcur) s.dt).map (· + 1 + nroots) else some 0

/-- the `dt` update and the callbacks at the end of an iteration, on the state `s1` the iteration produced
(`wasFinal`: the request was the final step; `dtOld`: `self.dt` is left alone in that case) -/
def finishIter (target : α) (wasFinal : Bool) (s1 : Sys α) (it : Iter α) (newDt : α) : Sys α :=
  let dt1 := if wasFinal then s1.dt else fixDir newDt (target - s1.tcur)
  let dt2 := match it.cbDt with
    | some v => fixDir v (s1.tf - s1.t0)
    | none => dt1
  { s1 with dt := dt2 }

/-- did the nested call raise? (fault, interrupt, crash — anything but a normal return) -/
def nestedRaised (o : LoopOut α) : Bool := o.sys.crashed || o.sys.status == 3 || o.sys.status == 4

def failEv (s : Sys α) (b : Book α) (kn : List α) (st : Status) (reqs nreqs : List (Req α)) (k : Nat) : OutEv α :=
  { sys := { s with status := st }, book := b, knots := kn, reqs := reqs, nestedReqs := nreqs, guardExit := false, stopped := false, iters := k }

/-- the `while` loop of `integrate(t, events=…)`, at most `fuel` iterations -/
def loopEv (cfg : CfgEv α) (target : α) (orc : OracleEv α) : Nat → Nat → Sys α → Book α → List α → List (Req α) → OutEv α
  | 0, k, s, b, kn, reqs => { sys := s, book := b, knots := kn, reqs := reqs, nestedReqs := [], guardExit := !(guard cfg.loop target s), stopped := false, iters := k }
  | fuel + 1, k, s, b, kn, reqs =>
    if !(guard cfg.loop target s) then { sys := s, book := b, knots := kn, reqs := reqs, nestedReqs := [], guardExit := true, stopped := false, iters := k } else
    let h := request target s
    let wasFinal := isFinal target s
    let req : Req α := { t := s.tcur, h := h, final := wasFinal, cap := s.cap }
    let ie := orc k s.tcur h
    match ie.base.ret with
    | .raise => failEv s b kn 3 (req :: reqs) [] (k + 1)
    | .interrupt => failEv s b kn 4 (req :: reqs) [] (k + 1)
    | .ok newDt dT =>
      match growth target s dT with
      | none => failEv s b kn 3 (req :: reqs) [] (k + 1)
      | some g1 =>
        let cap1 := s.cap + g1
        let tNext := s.tcur + dT
        -- the piece of the step goes into the container (`events is not None`)
        let kn1 := addKnot kn tNext
        -- the sample is written, the counter taken back: `handle_events` sees the system at the start of the step;
        -- if it raises, the piece of the dropped step is taken out again
        if ie.evRaise then failEv { s with cap := cap1 } b (removeNewest kn1 dT) 3 (req :: reqs) [] (k + 1) else
        let sel := handle (stepSign s.tcur tNext) ie.probes
        let nroots := sel.1.length
        match growthEv target s dT cap1 nroots with
        | none => failEv { s with cap := cap1 } b kn1 3 (req :: reqs) [] (k + 1)
        | some g2 =>
          let cap2 := cap1 + g2
          let b' := record s.tcur tNext cfg.dupTol b sel.1
          if sel.2 then
            -- terminal event: the piece of the rolled-back step goes, then the nested integrate(root) from the start of the
            -- step, without events or callbacks (it adds its own pieces when dense output is on)
            let kn2 := removeNewest kn1 dT
            let root := (sel.1.getLast?.map (·.2.root)).getD s.tcur
            let nout := Loop.integrate cfg.loop { s with cap := cap2 } root ie.nested ie.nestedFuel
            let kn3 := plainKnots cfg.dense kn2 s.ts nout.sys.ts
            if nestedRaised nout then
              -- the exception of the nested call passes through the outer handler (interrupt stays an interrupt)
              failEv nout.sys b' kn3 (if nout.sys.status == 4 then 4 else 3) (req :: reqs) nout.reqs (k + 1)
            else
              let kn4 := if cfg.dense then kn3 else trimOldest kn3 (kn.length - 1) dT
              let s2 := finishIter target wasFinal { nout.sys with status := 2 } ie.base newDt
              if ie.base.cbRaise then
                { sys := { s2 with status := 3 }, book := b', knots := kn4, reqs := req :: reqs, nestedReqs := nout.reqs, guardExit := false, stopped := true, iters := k + 1 }
              else
                { sys := s2, book := b', knots := kn4, reqs := req :: reqs, nestedReqs := nout.reqs, guardExit := true, stopped := true, iters := k + 1 }
          else
            match growthEv target s dT cap2 nroots with
            | none => failEv { s with cap := cap2 } b' kn1 3 (req :: reqs) [] (k + 1)
            | some g3 =>
              let kn' := if cfg.dense then kn1 else trimOldest kn1 (kn.length - 1) dT
              let s1 : Sys α := { s with ts := tNext :: s.ts, cap := cap2 + g3 }
              let s2 := finishIter target wasFinal s1 ie.base newDt
              if ie.base.cbRaise then failEv s2 b' kn' 3 (req :: reqs) [] (k + 1)
              else loopEv cfg target orc fuel (k + 1) s2 b' kn' (req :: reqs)

/-- `integrate(t, events=[n functions])`: the recorded events and the dense-output container persist across calls,
`last_occurrence` is per call -/
def integrateEv (cfg : CfgEv α) (s : Sys α) (evs : List (Nat × α)) (kn : List α) (nEvents : Nat) (target : α) (orc : OracleEv α) (fuel : Nat) : OutEv α :=
  let b0 : Book α := { last := List.replicate nEvents none, events := evs }
  if s.crashed then { sys := s, book := b0, knots := kn, reqs := [], nestedReqs := [], guardExit := false, stopped := false, iters := 0 } else
  if absC (target - s.tcur) < cfg.loop.tolEps then { sys := s, book := b0, knots := kn, reqs := [], nestedReqs := [], guardExit := true, stopped := false, iters := 0 } else
  let st0 : Status := if s.status == 2 ∨ s.status == 3 ∨ s.status == 4 then 0 else s.status
  let dt2 := initialDt cfg.loop s target
  match allocSteps (target - s.tcur) dt2 with
  | none => { sys := { s with dt := dt2, status := st0, crashed := true }, book := b0, knots := kn, reqs := [], nestedReqs := [], guardExit := false, stopped := false, iters := 0 }
  | some n =>
    let out := loopEv cfg target orc fuel 0 { s with dt := dt2, cap := s.cap + n, status := st0 } b0 kn []
    { out with sys := { out.sys with status := finalStatus out.guardExit out.sys.status, cap := out.sys.ts.length } }

end DV.LoopEv
