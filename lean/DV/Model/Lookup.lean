import DV.Model.Arith
import DV.Model.Bisect
/-!
# Model of `OdeSystem.__getitem__` (lookup by index, by time, by time slice) and of iteration

```python
if isinstance(index, (int, np.integer)):
    if index > self.counter: raise IndexError
    return StateTuple(t=self.t[index], ...)               # numpy indexing: negative from the end, IndexError beyond
elif isinstance(index, slice):
    t_sign = -1 if (self.counter > 0 and self.t[-1] < self.t[0]) else 1
    start_idx = search_bisection(t_sign * self.t, t_sign * index.start)   (0 if start is None)
    end_idx   = search_bisection(t_sign * self.t, t_sign * index.stop) + 1 (counter + 1 if stop is None)
    return self.t[start_idx:end_idx:step]
else:
    dense output -> sol(index);  otherwise nearest_idx = argmin(abs(self.t - index))
```
Iteration uses Python's sequence protocol: `__getitem__(0), __getitem__(1), …` until `IndexError`.
-/
namespace DV.Lookup
open DV

/-- integer index into `n` recorded samples; `none` = `IndexError` -/
def intIndex (n : Nat) (i : Int) : Option Nat :=
  if (n : Int) - 1 < i then none
  else if 0 ≤ i then some i.toNat
  else if -i ≤ (n : Int) then some ((n : Int) + i).toNat
  else none

/-- the indices Python's iteration protocol visits: `k, k+1, …` until the first `IndexError` (at most `fuel`) -/
def iterFrom (n : Nat) : Nat → Nat → List Nat
  | _, 0 => []
  | k, fuel + 1 =>
    match intIndex n (Int.ofNat k) with
    | some i => i :: iterFrom n (k + 1) fuel
    | none => []

def iterate (n fuel : Nat) : List Nat := iterFrom n 0 fuel

variable {α : Type} [Num α] [DecidableLT α] [DecidableLE α]

/-- `argmin(abs(ts - q))`: the first index at which the distance is minimal -/
def nearest (ts : List α) (q : α) : Nat :=
  match ts with
  | [] => 0
  | t0 :: rest =>
    (rest.foldl (fun (acc : Nat × α × Nat) t =>
        let d := absC (t - q)
        if d < acc.2.1 then (acc.2.2, d, acc.2.2 + 1) else (acc.1, acc.2.1, acc.2.2 + 1)) (0, absC (t0 - q), 1)).1

/-- the index range `[start, end)` of a time slice -/
def sliceRange [Inhabited α] (ts : Array α) (start stop : Option α) : Nat × Nat :=
  let n := ts.size
  let neg := decide (1 < n) && decide (ts[n - 1]! < ts[0]!)
  let sg : α → α := fun x => if neg then -x else x
  let arr := ts.map sg
  let s := match start with
    | some v => Bisect.searchSArr arr (sg v)
    | none => 0
  let e := match stop with
    | some v => Bisect.searchSArr arr (sg v) + 1
    | none => n
  (s, e)

end DV.Lookup
