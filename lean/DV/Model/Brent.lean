import DV.Model.Arith
/-!
# Model of `desolver.utilities.optimizer.brentsroot` (scalar Brent) and of one lane of
`brentsrootvec`

Statement-by-statement mirror of the Python code, including its peculiarities: `c`/`fc` are never
advanced after initialisation (only `d := c`), the bracket test is `fa*fb >= eps` (scalar) /
`fa*fb >= 0` (vector), the iteration counter starts at 3 and stops at 64, and success is
`|f(b)| <= tol` (absolute) OR the final bracket holds a sign change and is narrower than
`xtol = max(tol, 4 eps max(|lo|, |hi|))`, the tolerance all width tests use
(since /repo fix of P14; before it only the first disjunct).  `f` is a parameter.
-/
namespace DV.Brent
open DV

variable {α : Type} [Num α] [DecidableLT α] [DecidableLE α]

structure St (α : Type) where
  a : α
  b : α
  fa : α
  fb : α
  c : α
  d : α
  fc : α
  mflag : Bool
  numiter : Nat
  /-- last evaluated point and value -/
  s : α
  fs : α

structure Result (α : Type) where
  root : α
  success : Bool
  /-- `none` when the bracket test rejected the input (the code returns `inf`) -/
  bracket : Option (α × α)
  iters : Nat
  /-- the points at which `f` was evaluated inside the loop, oldest first -/
  trace : List α

@[inline] def lit (n : Nat) : α := Lit.lit n

/-- the candidate point before the bisection override -/
def candidate (s : St α) : α :=
  if (s.fa != s.fc) && (s.fb != s.fc) then
    let s0 := (s.a * s.fb * s.fc) / ((s.fa - s.fb) * (s.fa - s.fc))
    let s1 := s0 + (s.b * s.fa * s.fc) / ((s.fb - s.fa) * (s.fb - s.fc))
    s1 + (s.c * s.fa * s.fb) / ((s.fc - s.fa) * (s.fc - s.fb))
  else
    s.b - s.fb * (s.b - s.a) / (s.fb - s.fa)

def bisectNow (st : St α) (s tol : α) : Bool :=
  let q := (lit 3 * st.a + st.b) / lit 4
  let cond1 := !((decide (q < s) && decide (s < st.b)) || (decide (st.b < s) && decide (s < q)))
  let cond2 := decide (absC (st.b - st.c) / lit 2 ≤ absC (s - st.b))
  let cond3 := decide (absC (st.c - st.d) / lit 2 ≤ absC (s - st.b))
  let cond4 := decide (absC (st.b - st.c) < tol)
  let cond5 := decide (absC (st.c - st.d) < tol)
  cond1 || (st.mflag && cond2) || (!st.mflag && cond3) || (st.mflag && cond4) || (!st.mflag && cond5)

/-- the point that is evaluated in this pass and the new `mflag` -/
def pickS (tol : α) (st : St α) : α × Bool :=
  let s0 := candidate st
  let m := bisectNow st s0 tol
  (if m then (st.a + st.b) / lit 2 else s0, m)

/-- `if sign(fa)*sign(fs) < 0: b, fb = s, fs  else: a, fa = s, fs` -/
def upd (st : St α) (s fs : α) : α × α × α × α :=
  -- since fix P34 the signs are compared (`sign(fa) * sign(fs) < 0`): a product of tiny values underflows to zero
  if signC st.fa * signC fs < 0 then (st.a, s, st.fa, fs) else (s, st.b, fs, st.fb)

/-- `if |fa| < |fb|: a, b = b, a; fa, fb = fb, fa` -/
def swp (q : α × α × α × α) : α × α × α × α :=
  if absC q.2.2.1 < absC q.2.2.2 then (q.2.1, q.1, q.2.2.2, q.2.2.1) else q

/-- one pass through the loop body; returns the new state and whether `conv` became true -/
def iter (f : α → α) (tol : α) (st : St α) : St α × Bool :=
  let sm := pickS tol st
  let fs := f sm.1
  let q := swp (upd st sm.1 fs)
  let conv := (q.2.2.2 == lit 0) || (fs == lit 0) || decide (absC (q.2.1 - q.1) < tol)
  ({ a := q.1, b := q.2.1, fa := q.2.2.1, fb := q.2.2.2, c := st.c, d := st.c, fc := st.fc, mflag := sm.2,
     numiter := st.numiter + 1, s := sm.1, fs := fs }, conv)

/-- `while not conv: …; if numiter >= 64: break` with `fuel` bounding the number of passes -/
def loop (f : α → α) (tol : α) (maxIter : Nat) : Nat → St α → List α → St α × List α
  | 0, st, tr => (st, tr)
  | fuel + 1, st, tr =>
    let (st', conv) := iter f tol st
    let tr' := st'.s :: tr
    if conv || maxIter ≤ st'.numiter then (st', tr') else loop f tol maxIter fuel st' tr'

/-- `tol = max(tol, eps)`: the tolerance the residual `|f(b)|` is tested against -/
def tolUsed (tol eps : α) : α := if tol < eps then eps else tol

/-- `numpy.maximum` -/
def maxC (x y : α) : α := if x < y then y else x

/-- `xtol = maximum(tol, 4*eps*maximum(|a|, |b|))`: the tolerance the WIDTH of the bracket is tested
against — no bracket can become narrower than the spacing of the numbers at its ends -/
def xtolUsed (tol eps lo hi : α) : α := maxC (tolUsed tol eps) (lit 4 * eps * maxC (absC lo) (absC hi))

/-- the state the loop starts from: ends swapped so that `b` has the smaller residual, `c = a`,
`d = b`, `mflag = True`, `numiter = 3` -/
def start (f : α → α) (lo hi : α) : St α :=
  let q := swp (lo, hi, f lo, f hi)
  { a := q.1, b := q.2.1, fa := q.2.2.1, fb := q.2.2.2, c := q.1, d := q.2.1, fc := f q.1, mflag := true,
    numiter := 3, s := q.1, fs := q.2.2.1 }

/-- the state (and trace) the loop ends in -/
def run (f : α → α) (lo hi tol : α) (maxIter : Nat) : St α × List α :=
  loop f tol maxIter (maxIter + 1) (start f lo hi) []

/-- `brentsroot(f, [lo, hi], tol)`; `eps` is `D.epsilon(dtype)`, `inf` the value returned for a
rejected bracket -/
def brentsroot (f : α → α) (lo hi tol eps inf : α) (maxIter : Nat := 64) : Result α :=
  if eps ≤ f lo * f hi then { root := inf, success := false, bracket := none, iters := 0, trace := [] } else
  let r := run f lo hi (xtolUsed tol eps lo hi) maxIter
  -- success: a zero to within the tolerance, or a sign change located to within the (width) tolerance
  { root := r.1.b,
    success := decide (absC (f r.1.b) ≤ tolUsed tol eps) ||
      (decide (r.1.fa * r.1.fb ≤ lit 0) && decide (absC (r.1.b - r.1.a) < xtolUsed tol eps lo hi)),
    bracket := some (r.1.a, r.1.b), iters := r.1.numiter, trace := r.2.reverse }

/-! ## one lane of `brentsrootvec`

The vector code runs every lane with masks; a lane is *active* (`conv = True` in the code's
inverted naming) while it has not converged.  Differences from the scalar solver that the lane
model keeps: the bracket test is `sign(fa)*sign(fb) >= 0` (a zero at an end point makes the lane inactive from
the start), a lane is only deactivated by `numiter > 64` (one more pass than the scalar code),
`s`/`fs` of inactive lanes keep their last values, and
`true_conv = (|fb| <= tol) | (bracketed & |b - a| < xtol)`. -/
def lane (f : α → α) (lo hi tol eps : α) (maxIter : Nat := 64) : Result α :=
  let st0 := start f lo hi
  if 0 ≤ signC st0.fa * signC st0.fb then
    { root := st0.b, success := decide (absC st0.fb ≤ tolUsed tol eps), bracket := some (st0.a, st0.b), iters := 3, trace := [] }
  else
    -- the vector loop tests `numiter <= 64` after the increment: active while numiter ≤ 64
    let r := run f lo hi (xtolUsed tol eps lo hi) (maxIter + 1)
    -- `true_conv = (|fb| <= tol) | (bracketed & (|b - a| < xtol))`; this branch is the bracketed one
    { root := r.1.b,
      success := decide (absC r.1.fb ≤ tolUsed tol eps) || decide (absC (r.1.b - r.1.a) < xtolUsed tol eps lo hi),
      bracket := some (r.1.a, r.1.b), iters := r.1.numiter, trace := r.2.reverse }

end DV.Brent
