/-!
# Stability-function certificates for the implicit Runge–Kutta tables

All tables hold dyadic rationals `m / 2^K`.  With `w = z / 2^K` every polynomial below has **integer**
coefficients in `w` (and the closed left half-plane of `z` is the closed left half-plane of `w`):

* `Q(w) = det(I − w·A_int)`, `Adj(w) = adj(I − w·A_int)` (computed by the translator with the
  Faddeev–LeVerrier recursion; *checked* here through `Adj(w)·(I − w·A_int) = Q(w)·I`),
* `P(w) = Q(w) + w · b_intᵀ Adj(w) 𝟙`, so that one step on `y' = λy` is `y₁ = (P/Q)(hλ) · y₀`,
* the positivity certificate: with `w = −u + i y`, the bivariate polynomial
  `(1+δ)²|Q(w)|² − |P(w)|²` (`δ = 1/slackDen`) has only non-negative coefficients and only even powers of `y`,
* a Bézout identity `U·P + V·Q = c ≠ 0` (no common zero).

Polynomials are coefficient lists, lowest degree first; bivariate polynomials are polynomials in `y`
whose coefficients are polynomials in `u`.
-/
namespace DV.Stability

abbrev Poly := List Int

def padd : Poly → Poly → Poly
  | [], q => q
  | p, [] => p
  | a :: p, b :: q => (a + b) :: padd p q

def pscale (c : Int) (p : Poly) : Poly := p.map (c * ·)

def pneg (p : Poly) : Poly := p.map (fun x => -x)

def pmul : Poly → Poly → Poly
  | [], _ => []
  | a :: p, q => padd (pscale a q) (0 :: pmul p q)

/-- all coefficients zero (the zero polynomial in any padded form) -/
def pIsZero (p : Poly) : Bool := p.all (· == 0)

def pEq (p q : Poly) : Bool := pIsZero (padd p (pneg q))

/-- polynomials in `y` over polynomials in `u` -/
abbrev BPoly := List Poly

def badd : BPoly → BPoly → BPoly
  | [], q => q
  | p, [] => p
  | a :: p, b :: q => padd a b :: badd p q

def bscaleP (c : Poly) (p : BPoly) : BPoly := p.map (pmul c ·)

def bneg (p : BPoly) : BPoly := p.map pneg

def bmul : BPoly → BPoly → BPoly
  | [], _ => []
  | a :: p, q => badd (bscaleP a q) ([] :: bmul p q)

/-- multiply by `u` -/
def mulU (p : BPoly) : BPoly := p.map (fun c => 0 :: c)
/-- multiply by `y` -/
def mulY (p : BPoly) : BPoly := [] :: p

/-- real and imaginary part of `p(−u + i y)` as bivariate polynomials (Horner) -/
def complexParts : Poly → BPoly × BPoly
  | [] => ([], [])
  | c :: p =>
    let (re, im) := complexParts p
    -- (−u + i y)(re + i im) = (−u·re − y·im) + i(−u·im + y·re)
    (badd [[c]] (badd (bneg (mulU re)) (bneg (mulY im))), badd (bneg (mulU im)) (mulY re))

/-- `|p(−u + i y)|²` -/
def abs2 (p : Poly) : BPoly :=
  let (re, im) := complexParts p
  badd (bmul re re) (bmul im im)

def bscale (c : Int) (p : BPoly) : BPoly := p.map (pscale c)

/-- `(slackDen+1)²·|Q|² − slackDen²·|P|²` -/
def certPoly (P Q : Poly) (slackDen : Nat) : BPoly :=
  badd (bscale (((slackDen + 1) ^ 2 : Nat) : Int) (abs2 Q)) (bneg (bscale ((slackDen ^ 2 : Nat) : Int) (abs2 P)))

/-- from a coefficient of `y^k` on (`even` = parity of `k`): coefficients of even powers of `y` are
polynomials in `u` with non-negative coefficients, coefficients of odd powers vanish identically -/
def nonnegFrom : Bool → BPoly → Bool
  | _, [] => true
  | true, c :: r => c.all (fun x => decide (0 ≤ x)) && nonnegFrom false r
  | false, c :: r => pIsZero c && nonnegFrom true r

/-- only non-negative coefficients, and odd powers of `y` vanish identically -/
def certNonneg (E : BPoly) : Bool := nonnegFrom true E

/-! ## the matrix identities -/

abbrev PMat := List (List Poly)

/-- entry `(k, j)` of `I − w·A` -/
def iMinusWA (A : List (List Int)) (k j : Nat) : Poly := [if k = j then 1 else 0, -((A.getD k []).getD j 0)]

/-- `Adj(w)·(I − w·A) = Q(w)·I`, entry by entry -/
def adjOK (A : List (List Int)) (Adj : PMat) (Q : Poly) : Bool :=
  let s := A.length
  (List.range s).all (fun i => (List.range s).all (fun j =>
    let e := (List.range s).foldl (fun acc k => padd acc (pmul ((Adj.getD i []).getD k []) (iMinusWA A k j))) []
    pEq e (if i = j then Q else [])))

/-- `P = Q + w · bᵀ Adj 𝟙` -/
def pOK (b : List Int) (Adj : PMat) (P Q : Poly) : Bool :=
  let s := b.length
  let v := (List.range s).foldl (fun acc i => (List.range s).foldl (fun acc k => padd acc (pscale (b.getD i 0) ((Adj.getD i []).getD k []))) acc) []
  pEq P (padd Q (0 :: v))

/-- `U·P + V·Q = c` with `c ≠ 0` -/
def bezoutOK (P Q U V : Poly) (c : Int) : Bool := c != 0 && pEq (padd (pmul U P) (pmul V Q)) [c]

structure Cert where
  name : String
  K : Nat
  A : List (List Int)
  b : List Int
  Adj : PMat
  Q : Poly
  P : Poly
  U : Poly
  V : Poly
  c : Int
  slackDen : Nat

def Cert.valid (C : Cert) : Bool :=
  adjOK C.A C.Adj C.Q && pOK C.b C.Adj C.P C.Q && bezoutOK C.P C.Q C.U C.V C.c && certNonneg (certPoly C.P C.Q C.slackDen)

/-- exact evaluation of the stability function at a rational point of the `z`-axis: `R(z) = P(z/2^K)/Q(z/2^K)` -/
def pevalRat (p : Poly) (w : Rat) : Rat := List.foldr (fun (c : Int) (acc : Rat) => (c : Rat) + w * acc) 0 p

def stabilityAt (C : Cert) (z : Rat) : Rat × Rat :=
  let w := z / ((2 ^ C.K : Nat) : Rat)
  (pevalRat C.P w, pevalRat C.Q w)

end DV.Stability
