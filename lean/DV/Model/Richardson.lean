/-!
# Model of the Aitken–Neville table in `generate_richardson_integrator.adaptive_richardson`

```python
self.stage_values[0, 0] = dy_z                                  # 1 sub-step
for m in range(1, R):
    self.stage_values[m, 0] = subdiv_step(..., 1 << m)          # 2^m sub-steps
    for n in range(1, m + 1):
        T[m, n] = T[m, n-1] + (T[m, n-1] - T[m-1, n-1]) / ((1 << n) - 1)
    if m >= 3: (prev_error, t_conv) = check_converged(...); if t_conv: break
return timestep, (timestep, T[m-1, n-1]), T[m-1, m-1] - T[m, m]  # n = m after the inner loop
```
`vals[m]` is the basis result with `2^m` sub-steps.  Whatever the order of the basis method, the
denominators are `2^n − 1`, and the entry handed back is `T[m−1][m−1]` for the last `m` reached.
-/
namespace DV.Richardson

/-- row `m` of the table from row `m-1` and the new basis value -/
def nextRow (prev : List Rat) (v : Rat) (m : Nat) : List Rat :=
  (List.range m).foldl (fun row nm1 =>
      let n := nm1 + 1
      let tmn1 := row.getD (n - 1) 0
      row ++ [tmn1 + (tmn1 - prev.getD (n - 1) 0) / ((2 ^ n : Nat) - 1 : Int)]) [v]

/-- the whole table for the rows `0..mLast` -/
def table (vals : List Rat) (mLast : Nat) : List (List Rat) :=
  (List.range mLast).foldl (fun tb mm1 =>
      let m := mm1 + 1
      tb ++ [nextRow (tb.getD (m - 1) []) (vals.getD m 0) m]) [[vals.getD 0 0]]

def entry (tb : List (List Rat)) (m n : Nat) : Rat := (tb.getD m []).getD n 0

/-- the increment handed back when the outer loop stopped at `mLast ≥ 1` -/
def returned (vals : List Rat) (mLast : Nat) : Rat := entry (table vals mLast) (mLast - 1) (mLast - 1)

/-- the error estimate handed back -/
def diff (vals : List Rat) (mLast : Nat) : Rat :=
  entry (table vals mLast) (mLast - 1) (mLast - 1) - entry (table vals mLast) mLast mLast

def unitVec (R i : Nat) : List Rat := (List.range R).map (fun j => if j = i then 1 else 0)

/-- weights of the returned entry over the basis results (`R` levels, no early stop) -/
def weights (R : Nat) : List Rat := (List.range R).map (fun i => returned (unitVec R i) (R - 1))

/-- `Σ_i w_i 2^(-i k)`: what the returned combination does to the `h^k` term of the basis
method's error expansion (a basis result with `2^i` sub-steps carries `e_k h^(k+1) 2^(-i k)`) -/
def momentum (R k : Nat) : Rat :=
  ((weights R).zip (List.range R)).foldl (fun acc (w, i) => acc + w / ((2 ^ (i * k) : Nat) : Int)) 0

/-- the local order of the extrapolated step for a basis of order `p` (cited: Gragg's expansion of
the error in powers of the step): the first power `k ≥ p` that is not annihilated -/
def effectiveOrder (p R : Nat) : Nat :=
  ((List.range (R + 2)).map (· + p)).find? (fun k => momentum R k != 0) |>.getD p

end DV.Richardson
