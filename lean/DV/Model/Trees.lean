import DV.Model.Tab
/-!
# Order-condition checker over rooted trees in Butcher-product form

Trees are represented as `BTree = leaf c | graft u v` (`graft u v`: the root of `v` becomes a new
child of the root of `u`); every (coloured) rooted tree has such a representative.  With
`g τ = γ τ / |τ|` one has

  Φ(leaf) = 𝟙,  Φ(u ∘ v) = Φ(u) ⊙ (A_{colour v} Φ(v)),   g(leaf) = 1,  g(u ∘ v) = g(u)·|v|·g(v),
  γ τ = |τ| · g τ,

and the order condition of τ is `b_{colour τ} · Φ(τ) = 1 / γ(τ)`.  One colour = a Runge–Kutta
method; two colours = a partitioned method (the drift/kick splitting schemes), optionally
restricted to trees whose adjacent vertices have different colours (separable systems).

All arithmetic is exact integer arithmetic on the generated tables (`entry = m / 2^K`): `Φ` of a
tree with `n` vertices is scaled by `2^(K(n-1))`, `b·Φ` by `2^(Kn)`.
-/
namespace DV.Trees

abbrev Vec := List Int

def dot (x y : Vec) : Int := (List.zipWith (· * ·) x y).foldl (· + ·) 0
def matVec (A : List Vec) (y : Vec) : Vec := A.map (fun r => dot r y)
def had (x y : Vec) : Vec := List.zipWith (· * ·) x y

/-- a (partitioned) method: one coefficient matrix and one weight vector per colour -/
structure PTab where
  K : Nat
  As : List (List Vec)
  bs : List Vec
  /-- only trees whose adjacent vertices have different colours (separable vector fields) -/
  alternating : Bool

def PTab.colours (T : PTab) : Nat := T.bs.length
def PTab.stages (T : PTab) : Nat := (T.bs.headD []).length
def PTab.A (T : PTab) (c : Nat) : List Vec := T.As.getD c []
def PTab.b (T : PTab) (c : Nat) : Vec := T.bs.getD c []
def PTab.allowed (T : PTab) (parent child : Nat) : Bool := !T.alternating || parent != child

/-- coloured trees in Butcher-product form -/
inductive BTree where
  | leaf (colour : Nat)
  | graft (u v : BTree)
  deriving Repr, DecidableEq

namespace BTree
def size : BTree → Nat
  | leaf _ => 1
  | graft u v => u.size + v.size
def colour : BTree → Nat
  | leaf c => c
  | graft u _ => u.colour
/-- `γ τ / |τ|` -/
def g : BTree → Nat
  | leaf _ => 1
  | graft u v => u.g * (v.size * v.g)
def gamma (τ : BTree) : Nat := τ.size * τ.g
/-- colours in range, and (if required) adjacent colours differ -/
def wf (T : PTab) : BTree → Bool
  | leaf c => c < T.colours
  | graft u v => u.wf T && v.wf T && T.allowed u.colour v.colour
/-- the elementary weight vector, scaled by `2^(K(|τ|-1))` -/
def phi (T : PTab) : BTree → Vec
  | leaf _ => List.replicate T.stages 1
  | graft u v => had (u.phi T) (matVec (T.A v.colour) (v.phi T))
end BTree

/-- the order condition of one tree, with tolerance `1 / tolDen`:
`tolDen · |γ·(b·Φ) − 2^(Kn)| ≤ γ · 2^(Kn)`  ⇔  `|b·Φ/2^(Kn) − 1/γ| ≤ 1/tolDen` -/
def condHolds (T : PTab) (tolDen : Nat) (colour n g : Nat) (phi : Vec) : Bool :=
  let gam : Int := ((n * g : Nat) : Int)
  let S := dot (T.b colour) phi
  let one : Int := ((2 ^ (T.K * n) : Nat) : Int)
  decide ((tolDen : Int) * (gam * S - one).natAbs ≤ gam * one)

def treeCond (T : PTab) (tolDen : Nat) (τ : BTree) : Bool :=
  condHolds T tolDen τ.colour τ.size τ.g (τ.phi T)

/-! ## enumeration with de-duplication -/

structure Key where
  colour : Nat
  phi : Vec
  g : Nat
  deriving DecidableEq, Repr

def cmpVec : Vec → Vec → Ordering
  | [], [] => .eq
  | [], _ :: _ => .lt
  | _ :: _, [] => .gt
  | a :: as, b :: bs => if a < b then .lt else if b < a then .gt else cmpVec as bs

def cmpKey (x y : Key) : Ordering :=
  if x.colour < y.colour then .lt else if y.colour < x.colour then .gt else
  if x.g < y.g then .lt else if y.g < x.g then .gt else cmpVec x.phi y.phi

inductive BST where
  | nil
  | node (l : BST) (k : Key) (r : BST)

def BST.insert (t : BST) (k : Key) : BST :=
  match t with
  | .nil => .node .nil k .nil
  | .node l k' r =>
    match cmpKey k k' with
    | .lt => .node (l.insert k) k' r
    | .gt => .node l k' (r.insert k)
    | .eq => t

def BST.toListAux : BST → List Key → List Key
  | .nil, acc => acc
  | .node l k r, acc => l.toListAux (k :: r.toListAux acc)

def BST.toList (t : BST) : List Key := t.toListAux []

structure Ent where
  colour : Nat
  phi : Vec
  aphi : Vec
  g : Nat

def mkEnt (T : PTab) (k : Key) : Ent :=
  { colour := k.colour, phi := k.phi, aphi := matVec (T.A k.colour) k.phi, g := k.g }

/-- all products `u ∘ v` with `|u| = n - k`, `|v| = k` -/
def pairsInto (T : PTab) (Lu Lv : List Ent) (k : Nat) (acc : BST) : BST :=
  Lu.foldl (fun acc u =>
    Lv.foldl (fun acc v =>
      if T.allowed u.colour v.colour then
        acc.insert { colour := u.colour, phi := had u.phi v.aphi, g := u.g * (k * v.g) }
      else acc) acc) acc

/-- `levels[i]` = entries of the trees with `i + 1` vertices; build level `n` from the smaller ones -/
def nextLevel (T : PTab) (levels : List (List Ent)) (n : Nat) : List Ent :=
  let bst := (List.range (n - 1)).foldl (fun acc km1 =>
      let k := km1 + 1
      pairsInto T (levels.getD (n - k - 1) []) (levels.getD (k - 1) []) k acc) BST.nil
  bst.toList.map (mkEnt T)

def level1 (T : PTab) : List Ent :=
  (List.range T.colours).map (fun c => mkEnt T { colour := c, phi := List.replicate T.stages 1, g := 1 })

def buildLevels (T : PTab) (p : Nat) : List (List Ent) :=
  (List.range (p - 1)).foldl (fun lv i => lv ++ [nextLevel T lv (i + 2)]) [level1 T]

def entOk (T : PTab) (tolDen n : Nat) (e : Ent) : Bool := condHolds T tolDen e.colour n e.g e.phi

/-- all order conditions up to order `p` hold with tolerance `1/tolDen` -/
def checkOrder (T : PTab) (p tolDen : Nat) : Bool :=
  let lv := buildLevels T p
  (List.range p).all (fun i => (lv.getD i []).all (entOk T tolDen (i + 1)))

/-- number of distinct (Φ, g) classes per level (for the evidence) -/
def levelSizes (T : PTab) (p : Nat) : List Nat := (buildLevels T p).map List.length

/-- largest `q ≤ p` such that all conditions up to `q` hold -/
def attainedOrder (T : PTab) (p tolDen : Nat) : Nat :=
  let lv := buildLevels T p
  let oks := (List.range p).map (fun i => (lv.getD i []).all (entOk T tolDen (i + 1)))
  (oks.takeWhile id).length

/-! ## from the generated tables -/

def ofRK (T : RKTab) (row : Nat := 0) : PTab :=
  { K := T.K, As := [T.A], bs := [T.bs.getD row []], alternating := false }

/-- the drift/kick scheme as a partitioned RK method: colour 0 = drift (q) variables with
`A⁰_{ij} = drift_j (j < i)`, colour 1 = kick (p) variables with `A¹_{ij} = kick_j (j < i)` -/
def strictLower (w : Vec) : List Vec :=
  (List.range w.length).map (fun i => (List.range w.length).map (fun j => if j < i then w.getD j 0 else 0))

def ofSplit (T : SplitTab) (alternating : Bool := true) : PTab :=
  { K := T.K, As := [strictLower T.drift, strictLower T.kick], bs := [T.drift, T.kick], alternating := alternating }

/-- `|Σ_j a_ij − c_i| ≤ 2^K / tolDen` for every stage -/
def rowSumsOk (T : RKTab) (tolDen : Nat) : Bool :=
  (List.zip T.A T.c).all (fun (r, c) => decide ((tolDen : Int) * (r.foldl (· + ·) 0 - c).natAbs ≤ ((2 ^ T.K : Nat) : Int)))

/-- the weights used only for the error estimate form a consistent method: for a two-row table the
estimate is `Σ (b₀ − b₁)_i k_i` (so `Σ b₁ = 1`), or `Σ (row 1)_i k_i` when the class overrides
`get_error_estimate` (so `Σ row 1 = 0`) -/
def estimatorConsistent (T : RKTab) (tolDen : Nat) : Bool :=
  match T.bs with
  | [_] => true
  | [b0, b1] =>
    let s0 := b0.foldl (· + ·) 0
    let s1 := b1.foldl (· + ·) 0
    let d : Int := if T.estimateOverride then s1 else s0 - s1
    decide ((tolDen : Int) * d.natAbs ≤ ((2 ^ T.K : Nat) : Int))
  | _ => false

def vecSum (v : Vec) : Int := v.foldl (· + ·) 0

end DV.Trees

/-! ## Butcher's simplifying assumptions B(p), C(η), D(ζ) (used for RadauIIA19 only) -/
namespace DV.Trees

def powVec (c : Vec) (k : Nat) : Vec := c.map (· ^ k)

def closeTo (tolDen : Nat) (k : Nat) (lhs rhs : Int) (scale : Nat) : Bool :=
  decide ((tolDen : Int) * ((k : Int) * lhs - rhs).natAbs ≤ (k : Int) * ((2 ^ scale : Nat) : Int))

/-- `B(p)`: `Σ b_i c_i^(k-1) = 1/k` for `k = 1..p` -/
def assumptionB (T : RKTab) (p tolDen : Nat) : Bool :=
  let b := T.bs.headD []
  (List.range p).all (fun km1 =>
    let k := km1 + 1
    closeTo tolDen k (dot b (powVec T.c km1)) ((2 ^ (T.K * k) : Nat) : Int) (T.K * k))

/-- `C(η)`: `Σ_j a_ij c_j^(k-1) = c_i^k / k` for all stages `i`, `k = 1..η` -/
def assumptionC (T : RKTab) (η tolDen : Nat) : Bool :=
  (List.range η).all (fun km1 =>
    let k := km1 + 1
    (List.zip T.A T.c).all (fun (r, ci) => closeTo tolDen k (dot r (powVec T.c km1)) (ci ^ k) (T.K * k)))

/-- `D(ζ)`: `Σ_i b_i c_i^(k-1) a_ij = b_j (1 − c_j^k) / k` for all `j`, `k = 1..ζ` -/
def assumptionD (T : RKTab) (ζ tolDen : Nat) : Bool :=
  let b := T.bs.headD []
  let s := b.length
  (List.range ζ).all (fun km1 =>
    let k := km1 + 1
    let w := had b (powVec T.c km1)
    (List.range s).all (fun j =>
      let col := T.A.map (fun r => r.getD j 0)
      closeTo tolDen k (dot w col) (b.getD j 0 * (((2 ^ (T.K * k) : Nat) : Int) - (T.c.getD j 0) ^ k)) (T.K * (k + 1))))

end DV.Trees

/-! ## algebraic conditions for symplectic / symmetric Runge–Kutta tables and splitting tables -/
namespace DV.Trees

def absI (x : Int) : Int := if x < 0 then -x else x

/-- `|b_i a_ij + b_j a_ji − b_i b_j| ≤ 1/tolDen` for all `i, j` (Lasagni / Sanz-Serna / Suris) -/
def symplecticM (T : RKTab) (tolDen : Nat) : Bool :=
  let b := T.bs.headD []
  let s := b.length
  (List.range s).all (fun i => (List.range s).all (fun j =>
    let bi := b.getD i 0
    let bj := b.getD j 0
    let aij := (T.A.getD i []).getD j 0
    let aji := (T.A.getD j []).getD i 0
    decide ((tolDen : Int) * absI (bi * aij + bj * aji - bi * bj) ≤ ((2 ^ (2 * T.K) : Nat) : Int))))

/-- the table equals its adjoint: `a_{s+1-i,s+1-j} + a_ij = b_j` and `b_{s+1-j} = b_j` (symmetric, hence
time-reversible, method) to within `1/tolDen` -/
def symmetricTab (T : RKTab) (tolDen : Nat) : Bool :=
  let b := T.bs.headD []
  let s := b.length
  (List.range s).all (fun i => (List.range s).all (fun j =>
    let aij := (T.A.getD i []).getD j 0
    let arr := (T.A.getD (s - 1 - i) []).getD (s - 1 - j) 0
    decide ((tolDen : Int) * absI (arr + aij - b.getD j 0) ≤ ((2 ^ T.K : Nat) : Int)) &&
    decide ((tolDen : Int) * absI (b.getD (s - 1 - j) 0 - b.getD j 0) ≤ ((2 ^ T.K : Nat) : Int))))

/-- every stage of a splitting table moves only the drift or only the kick variables -/
def stagesAreShears (T : SplitTab) : Bool :=
  (List.zip T.drift T.kick).all (fun p => p.1 == 0 || p.2 == 0)

def palindromic (T : SplitTab) : Bool := T.drift.reverse == T.drift && T.kick.reverse == T.kick

/-- drift and kick coefficients each sum to one (consistency), to within `1/tolDen` -/
def coeffsSumOne (T : SplitTab) (tolDen : Nat) : Bool :=
  decide ((tolDen : Int) * absI (vecSum T.drift - ((2 ^ T.K : Nat) : Int)) ≤ ((2 ^ T.K : Nat) : Int)) &&
  decide ((tolDen : Int) * absI (vecSum T.kick - ((2 ^ T.K : Nat) : Int)) ≤ ((2 ^ T.K : Nat) : Int))

end DV.Trees
