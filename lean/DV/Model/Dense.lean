import DV.Model.Bisect
/-!
# Model of the `DenseOutput` container: `add_interpolant`, `remove_interpolant`, `find_interval`

`t_eval[i]` is the end time of piece `i`.  Pieces of a forward run are appended (piece `i` spans
`[t_eval[i-1], t_eval[i]]`); pieces of a backward run are inserted at the front, which keeps `t_eval`
increasing, and piece `i` then spans `[t_eval[i], t_eval[i+1]]` (the last one reaches back to the start
time).  `find_interval` = bisection for the first `t_eval[idx] ≥ t`, clipped, and — for containers
holding a backward run — one step down when `t < t_eval[idx]`.
-/
namespace DV.Dense
open DV

variable {α : Type} [LT α] [LE α] [DecidableLT α] [DecidableLE α]

/-- `find_interval(t)` on `n` pieces with end times `tEval 0 < … < tEval (n-1)`; `backward` = the pieces
were stored by a backward integration (`piece.t1 < piece.t0`) -/
def findInterval (tEval : Nat → α) (n : Nat) (backward : Bool) (q : α) : Nat :=
  let idx := min (Bisect.searchS tEval n q) (n - 1)
  if backward && decide (0 < idx) && decide (q < tEval idx) then idx - 1 else idx

/-- the vectorised lookup, one lane -/
def findIntervalVec (tEval : Nat → α) (n : Nat) (backward : Bool) (q : α) : Nat :=
  let idx := min (Bisect.searchV tEval n q) (n - 1)
  if backward && decide (0 < idx) && decide (q < tEval idx) then idx - 1 else idx

/-- `add_interpolant(t, piece)`: returns the new `t_eval` (pieces move alike) -/
def add [Sub α] [OfNat α 0] (tEval : List α) (t : α) : List α :=
  match tEval.getLast? with
  | none => [t]
  | some last => if t - last < 0 then t :: tEval else tEval ++ [t]

def findArr [Inhabited α] (tEval : Array α) (backward : Bool) (q : α) : Nat × Nat :=
  (findInterval (fun i => tEval[i]!) tEval.size backward q, findIntervalVec (fun i => tEval[i]!) tEval.size backward q)

end DV.Dense
