import DV.Model.RK
/-!
# Model of the Jacobian dispatch of `DiffRHS` (`jac`, `hook_jacobian_call`, `unhook_jacobian_call`,
attribute assignment `rhs.jac = f`, `set_jac_base_order`)

State: the private fields `__jac_initialised`, `__jac` (abstracted to *which* function it is),
`__jac_time`, `__jac_is_wrapped_rhs`.  User functions are identified by a tag.  Times are natural
numbers standing for distinct float values (`0` is the literal `0.0` the code initialises with).
-/
namespace DV.Jac

/-- what `__jac` currently is -/
inductive Fn where
  | none
  /-- a function attached by `hook_jacobian_call` / `wrapper.jac = f` -/
  | hooked (tag : Nat)
  /-- the `jac` attribute of the user's right-hand side -/
  | rhsAttr
  /-- a finite-difference wrapper around `lambda y: self(t, y)` frozen at time `t`; `viaRaw` when it was
  built by `set_jac_base_order` (around `self.rhs`, flat layout, evaluations not counted) -/
  | fd (t : Nat) (viaRaw : Bool)
  deriving DecidableEq, Repr

structure St where
  initialised : Bool := false
  jac : Fn := .none
  /-- `none` = Python `None` -/
  time : Option Nat := none
  wrapped : Bool := false
  /-- does the user's right-hand side carry a `jac` attribute -/
  rhsHasJac : Bool
  njev : Nat := 0
  deriving Repr

inductive Op where
  | jac (t : Nat)
  | hook (tag : Nat)
  | unhook
  | setOrder
  deriving Repr

/-- who answered a `jac(t, y)` request -/
inductive Answer where
  | user (tag : Nat)
  | rhsAttr
  /-- finite differences of the right-hand side evaluated at time `t` -/
  | fd (t : Nat) (viaRaw : Bool)
  /-- `TypeError: 'NoneType' object is not callable` -/
  | crash
  deriving DecidableEq, Repr

def initIfNeeded (s : St) : St :=
  if s.initialised then s else
  let s1 := if s.jac = .none then
      (if s.rhsHasJac then { s with jac := .rhsAttr, time := none, wrapped := false }
       else { s with jac := .fd 0 false, time := some 0, wrapped := true })
    else s
  { s1 with initialised := true }

/-- `if self.__jac_is_wrapped_rhs and t != self.__jac_time:` rebuild the finite-difference wrapper at `t` -/
def refresh (s : St) (t : Nat) : St :=
  if s.wrapped = true ∧ s.time ≠ some t then { s with time := some t, jac := .fd t false } else s

def answerOf : Fn → Answer
  | .fd τ raw => .fd τ raw
  | .hooked g => .user g
  | .rhsAttr => .rhsAttr
  | .none => .crash

def step (s : St) : Op → St × Option Answer
  | .jac t =>
    let s2 := refresh (initIfNeeded s) t
    ({ s2 with njev := if s2.jac = .none then s2.njev else s2.njev + 1 }, some (answerOf s2.jac))
  | .hook g => ({ s with jac := .hooked g, time := none, wrapped := false }, none)
  | .unhook => ({ s with jac := .none, initialised := false }, none)
  | .setOrder => if s.wrapped then ({ s with jac := .fd 0 true, time := some 0 }, none) else (s, none)

def run (s : St) (ops : List Op) : St × List Answer :=
  ops.foldl (fun (acc : St × List Answer) op =>
    let r := step acc.1 op
    (r.1, match r.2 with | some a => acc.2 ++ [a] | none => acc.2)) (s, [])

/-- the specification: the user's function when one is attached (the last `hook` since the last
`unhook`), else the right-hand side's own `jac` attribute, else finite differences of the right-hand
side at the *requested* time -/
def Spec (rhsHasJac : Bool) (attached : Option Nat) (t : Nat) (a : Answer) : Prop :=
  match attached with
  | some g => a = .user g
  | none => if rhsHasJac then a = .rhsAttr else ∃ raw, a = .fd t raw

def attachedAfter (attached : Option Nat) : Op → Option Nat
  | .hook g => some g
  | .unhook => Option.none
  | _ => attached


end DV.Jac

namespace DV.Jac
/-- a first-derivative stencil `Σ_k w_k p(x_k)` is exact on the monomials `x^j`, `j < degBound`, to within
`1/tolDen`: it returns `0` except for `j = 1`, where it returns `1` (entries are `m / 2^K`) -/
def stencilExact (K : Nat) (nodes weights : List Int) (degBound tolDen : Nat) : Bool :=
  (List.range degBound).all (fun j =>
    let s : Int := (List.zip nodes weights).foldl (fun acc p => acc + p.2 * p.1 ^ j) 0
    let one : Int := ((2 ^ (K * (j + 1)) : Nat) : Int)
    let target : Int := if j = 1 then one else 0
    let d := s - target
    decide ((tolDen : Int) * (if d < 0 then -d else d) ≤ one))

/-- one column of `JacobianWrapper.estimate`: `(Σ_k w_k · f(y + x_k·dy·e)) / dy`, `e` the unit vector of the input component the
column belongs to (`y_msk`), `stencil` the list of `(x_k, w_k)`; the rows of the result are the components of `f` -/
def fdColumn {α W V : Type} [Num α] (opsW : RK.VOps α W) (opsV : RK.VOps α V) (f : W → V) (y e : W) (dy : α) (stencil : List (α × α)) : V :=
  opsV.smul (Lit.lit 1 / dy)
    (stencil.foldl (fun acc p => opsV.add acc (opsV.smul p.2 (f (opsW.add y (opsW.smul (p.1 * dy) e))))) opsV.zero)

end DV.Jac
