import DVP.Lemmas.Bisect
import DVP.Lemmas.Hermite
