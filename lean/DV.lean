import DV.Model.Bisect
import DV.Model.Tab
import DV.Gen.Tableaux
import DV.Gen.Hermite
import DV.Model.Proto
import DV.Model.Trees
import DV.Model.Richardson
