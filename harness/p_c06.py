"""C06 - dense output is a consistent continuous extension of the computed trajectory."""
import math
import impl, loopsim
from impl import np, de, I, DS, fbits, flist

ID = "C06"
LEAN_TARGETS = ["DVP.Properties.C06"]
PROPERTY_FILES = ["DVP/Properties/C06.lean"]
RULE = ("dense outputs of real runs of every method family (explicit, FSAL, adaptive, implicit, splitting, Richardson wrappers), both time "
        "directions, single and continued calls, event-terminated and resumed (also against the configured span), after faults; seeded queries inside the range, at recorded "
        "times, midway, scalar and array: the piece chosen by find_interval / find_interval_vec vs the Lean lookup model (bit-exact) and vs "
        "the piece whose interval contains the query; sol(t_k) vs y_k; end slopes of every piece vs the right-hand side at the recorded "
        "states; interpolation error vs the closed-form solution against an O(h^4) bound; the integrators' end-slope cache replayed against "
        "the Lean model DV.SlopeCache on call sequences with jumps, repeated starts and calls abandoned by a fault (also inside retries). non-trivial = run with >= 4 pieces; distinct by (run, query)")
ASSUMPTIONS = ["O(h^4): error at midpoints <= h^4 max|y''''| / 384 x 8 + 20 x the largest error at the grid points (Peano kernel bound cited)"]


def rhs(t, y):
    return np.array([y[1], -y[0]])


class Injected(Exception):
    """an injected fault (not a ValueError: the integrators catch those inside a step and retry the step)"""


def exact(t0):
    return lambda t: np.array([math.cos(t - t0), -math.sin(t - t0)])


def rhs_forced(t, y):
    """non-autonomous (separable: q' = p, p' = -q + forcing(t)), closed-form solution below"""
    return np.array([y[1], -y[0] + 0.3 * math.cos(3.0 * float(t))])


def exact_forced(t0):
    yp = lambda t: -0.0375 * math.cos(3.0 * t)          # particular solution of y'' + y = 0.3 cos 3t
    dyp = lambda t: 0.1125 * math.sin(3.0 * t)
    A, B = 1.0 - yp(t0), -dyp(t0)                        # y(t0) = 1, y'(t0) = 0
    return lambda t: np.array([A * math.cos(t - t0) + B * math.sin(t - t0) + yp(t), -A * math.sin(t - t0) + B * math.cos(t - t0) + dyp(t)])


def methods(ctx):
    base = ["RK4Solver", "RK45CKSolver", "DOPRI45", "RK8713MSolver", "MidpointSolver", "HeunEulerSolver", "SymplecticEulerSolver", "ABAs5o6HSolver", "BABs9o7HSolver",
            "BackwardEuler", "GaussLegendre4", "RadauIIA5", "CrankNicolson"]
    if not ctx.quick():
        base += ["RK108Solver", "RK5Solver", "EulerSolver", "LobattoIIIC4", "ImplicitMidpoint", "GaussLegendre6"]
    ms = [(n, getattr(I, n)) for n in base]
    ms.append(("Richardson(RK4,3)", de.integrators.generate_richardson_integrator(I.RK4Solver, 3)))
    ms.append(("Richardson(Midpoint,4)", de.integrators.generate_richardson_integrator(I.MidpointSolver, 4)))
    # deep tables: the level loop may leave early (convergence test from the fifth level on), the step must still bring its pieces
    ms.append(("Richardson(RK5,7)", de.integrators.generate_richardson_integrator(I.RK5Solver, 7)))
    if not ctx.quick():
        ms.append(("Richardson(RK4,6)", de.integrators.generate_richardson_integrator(I.RK4Solver, 6)))
    return ms


def ev_term(t, y, **kw):
    return y[0] - 0.35
ev_term.is_terminal = True


def pulse_rhs(t, y):
    return np.array([y[1], -y[0] + 50.0 * math.exp(-((float(t) - 1.0) / 0.05) ** 2)])


def fault_in_retry(ctx, rng):
    """a right-hand side fault INSIDE A RETRY ATTEMPT (after the controller rejected an attempt of the same step), then resume:
    the slope cache of the integrator has been overwritten by the rejected attempt while its time/state tags still name the
    start of the step; every dense piece of the resumed run must still have the right-hand side as its end slopes"""
    for name in (["RK45CKSolver", "DOPRI45"] if ctx.quick() else ["RK45CKSolver", "DOPRI45", "RK8713MSolver", "HeunEulerSolver"]):
        cls = getattr(I, name)
        for direction in (1, -1):
            log = []
            state = dict(n=0, at=None)

            class L(cls):
                def step(self, *a, **k):
                    log.append(("step", state["n"]))
                    return super().step(*a, **k)

                def __call__(self, *a, **k):
                    log.append(("call", state["n"]))
                    return super().__call__(*a, **k)
            L.__name__ = "L_" + name
            sgn = float(direction)

            def f(t, y):
                state["n"] += 1
                if state["at"] is not None and state["n"] == state["at"]:
                    raise Injected("injected")
                return sgn * pulse_rhs(sgn * t, y)        # the time-reversed problem for the backward run
            span = (0.0, 2.0 * sgn)

            def fresh():
                o = de.OdeSystem(f, y0=np.array([1.0, 0.0]), t=span, dt=0.1, dense_output=True, rtol=1e-6, atol=1e-6)
                o.set_method(L)
                state["n"] = 0
                return o
            o = fresh()
            log.clear()
            o.integrate()
            retries = [log[i][1] for i in range(1, len(log)) if log[i][0] == "step" and log[i - 1][0] == "step"]
            ctx.count("fault-in-retry:%s:retry-attempts=%d" % (name, min(len(retries), 9)))
            for r in retries[:(2 if ctx.quick() else 6)]:
                at = r + rng.randint(1, 3)
                state["at"] = at
                o = fresh()
                inp = dict(kind="dense", method=name, history="fault-in-retry", t0=0.0, tf=span[1], dt=0.1, fault_at_rhs_call=at)
                try:
                    o.integrate()
                    faulted = False
                except de.exception_types.FailedIntegration:
                    faulted = True
                state["at"] = None
                try:
                    o.integrate()
                except Exception as e:
                    ctx.oracle("run", False, inp, what="resumed run raised %r" % (e,))
                    continue
                worst = 0.0
                for pc in o.sol.y_interpolants:
                    worst = max(worst, float(np.max(np.abs(pc.m0 - f(float(pc.t0), pc.p0)))), float(np.max(np.abs(pc.m1 - f(float(pc.t1), pc.p1)))))
                ctx.oracle("end-slopes-are-rhs", worst <= 1e-9, dict(inp, worst=worst, faulted=faulted), key="dense-stale-slope-after-fault-in-retry",
                           what="after a fault inside a retry attempt and a resume, a piece's end slope differs from the right-hand side at its end state by %.2e" % worst)
                t = np.array(o.t)
                bad = [k for k in range(len(t)) if float(np.max(np.abs(o.sol(t[k]) - np.array(o.y)[k]))) > 0.0]
                ctx.oracle("recorded-states-reproduced", not bad, dict(inp, n_bad=len(bad)), what="sol(t_k) differs from y_k at %d recorded times" % len(bad))
                ctx.nontrivial((name, "fault-in-retry", direction, at))


def slope_cache_block(ctx, rng):
    """the end-slope cache of the Runge-Kutta integrators (reuse of final_rhs as the next step's start slope) against the Lean model
    DV.SlopeCache: one integrator object driven through chained calls, jumps, repeated starts and calls abandoned by a right-hand-side
    fault at a random evaluation (also inside retry attempts); observable: whether the right-hand side was evaluated at the start
    point before the first attempt; property: the dense piece of every completed call has the right-hand side as its end slopes"""
    lines, cases = [], []
    names = ["RK45CKSolver", "DOPRI45", "RK4Solver", "HeunEulerSolver"] + ([] if ctx.quick() else ["RK8713MSolver", "MidpointSolver", "RK5Solver"])
    for name in names:
        cls = getattr(I, name)
        for rep in range(3 if ctx.quick() else 20):
            ev = []                      # ordered log: ("rhs", t, ybytes) / ("step",) / ("done", h, dT, dY)
            st = dict(n=0, at=None)

            def f(t, y):
                st["n"] += 1
                ev.append(("rhs", float(t), np.asarray(y, dtype=np.float64).tobytes()))
                if st["at"] is not None and st["n"] == st["at"]:
                    raise Injected("injected")
                return pulse_rhs(t, y)

            class L(cls):
                def step(self, rhs_, t_, y_, c_, h_):
                    ev.append(("step",))
                    r = super().step(rhs_, t_, y_, c_, h_)
                    ev.append(("done", float(h_), float(r[1][0]), np.array(r[1][1], dtype=np.float64).copy()))
                    return r
            L.__name__ = "L_" + name
            integ = L((2,), dtype=np.float64, rtol=1e-6, atol=1e-6)
            t = np.float64(rng.choice([0.0, 0.6, 0.85]))
            y = np.array([1.0, 0.0]) + np.array([rng.uniform(-0.2, 0.2), rng.uniform(-0.2, 0.2)])
            plan = [rng.choice(["chain", "chain", "jump", "same-start", "fault"]) for _ in range(rng.randint(4, 9))]
            calls, flags = [], []
            resume = None
            for kind in ["chain"] + plan:
                h = np.float64(rng.choice([0.05, 0.1, 0.3]))
                if kind == "jump":
                    y = y + np.array([rng.uniform(-0.1, 0.1), 0.0])
                st["n"], st["at"] = 0, (rng.randint(1, 14) if kind == "fault" else None)
                ev.clear()
                done = True
                try:
                    new_dt, (dT, dY) = integ(f, t, y.copy(), {}, h)
                except Injected:
                    done = False
                except Exception as e:
                    ctx.oracle("run", False, dict(kind="slope-cache", method=name, call=kind), what="__call__ raised %r" % (e,))
                    break
                first_step = next((k for k, e_ in enumerate(ev) if e_[0] == "step"), len(ev))
                evaluated_at_start = any(e_[0] == "rhs" and e_[1] == float(t) and e_[2] == y.tobytes() for e_ in ev[:first_step])
                atts = [e_ for e_ in ev if e_[0] == "done"]
                hs = ",".join(fbits(a[2]) for a in atts) or "-"
                es = ",".join((y + a[3]).tobytes().hex() for a in atts) or "-"
                calls.append("%s:%s:%s:%s:%s" % (fbits(float(t)), y.tobytes().hex(), "c" if done else "a", hs, es))
                flags.append("0" if evaluated_at_start else "1")
                ctx.count("slope-cache:%s:%s" % (kind, "completed" if done else "abandoned:%d-attempts" % min(len(atts), 3)))
                if done:
                    # the dense piece of the completed step
                    pc = integ.dense_output()[1]
                    d0 = float(np.max(np.abs(pc.m0 - pulse_rhs(float(pc.t0), pc.p0))))
                    d1 = float(np.max(np.abs(pc.m1 - pulse_rhs(float(pc.t1), pc.p1))))
                    ctx.oracle("end-slopes-are-rhs", max(d0, d1) <= 1e-12 * (1 + float(np.max(np.abs(pc.m1)))),
                               dict(kind="slope-cache", method=name, plan=["chain"] + plan, call=kind, t=float(t), start_defect=d0, end_defect=d1),
                               key="end-slopes-are-rhs", what="the dense piece of a completed call has end slopes off the right-hand side by %.2e / %.2e" % (d0, d1))
                    if kind in ("chain", "jump", "fault"):
                        t_keep, y_keep = t, y.copy()
                        t, y = np.float64(t + dT), y + dY
                    # "same-start": stay where we are, next call repeats the start
                    if kind == "same-start":
                        pass
                # an abandoned call leaves (t, y) as they are: the next call is the resume
            if calls:
                lines.append("slopecache " + ";".join(calls))
                cases.append((name, ["chain"] + plan, ",".join(flags)))
                ctx.nontrivial(("slope-cache", name, tuple(plan)))
    outs = ctx.driver(lines)
    for (name, plan, flags), o in zip(cases, outs):
        ctx.corr("slope-cache-reuse", o == flags, dict(kind="slope-cache", method=name, plan=plan, impl_reused=flags, model_reused=o))
    if lines:
        ctx.sample(dict(kind="slope-cache", op=lines[0][:300], model=outs[0]))


def run(ctx):
    rng = ctx.rng
    slope_cache_block(ctx, rng)
    lines, pend = [], []
    for (name, cls) in methods(ctx):
        for history in ("single", "continued", "event-resumed", "fault-resumed", "against-span-event"):
            for direction in (1, -1):
                if ctx.quick() and rng.random() < 0.45:
                    continue
                t0 = rng.choice([0.0, -1.0, 2.5])
                span = rng.uniform(1.0, 2.5)
                tf = t0 + direction * span
                dt = rng.choice([0.05, 0.1, 0.2])
                rich = name.startswith("Richardson")
                forced = rng.random() < 0.4
                prhs, pexact = (rhs_forced, exact_forced) if forced else (rhs, exact)
                inp = dict(kind="dense", method=name, history=history, t0=t0, tf=tf, dt=dt, problem="forced" if forced else "autonomous")
                fault = dict(n=0, at=None)

                def f(t, y, fault=fault):
                    fault["n"] += 1
                    if fault["at"] is not None and fault["n"] >= fault["at"]:
                        raise Injected("injected")
                    return prhs(t, y)
                # (in the history "against-span-event" the system is configured for the opposite span and the calls name the target)
                span_cfg = (t0, tf) if history != "against-span-event" else (t0, 2 * t0 - tf)
                o = de.OdeSystem(f, y0=np.array([1.0, 0.0]), t=span_cfg, dt=dt, dense_output=True, rtol=1e-8, atol=1e-10)
                o.set_method(cls)
                try:
                    if history == "single":
                        o.integrate()
                    elif history == "continued":
                        o.integrate(t0 + (tf - t0) * 0.35)
                        _ = o.sol(np.array(o.t))            # an array query while steps are still being added
                        # scalar queries while steps are still being added: the answer to a query inside the recorded range must not
                        # change when the run is continued
                        early = [float(0.5 * (o.t[0] + o.t[1])), float(0.5 * (o.t[-2] + o.t[-1])), float(o.t[len(o.t) // 2])]
                        before = [np.array(o.sol(q_)) for q_ in early]
                        o.integrate(t0 + (tf - t0) * 0.8)
                        after = [np.array(o.sol(q_)) for q_ in reversed(early)][::-1]
                        _ = o.sol(np.array(o.t)[-3:])
                        o.integrate()
                        after2 = [np.array(o.sol(q_)) for q_ in early]
                        same = all(np.array_equal(a_, b_) and np.array_equal(a_, c_) for a_, b_, c_ in zip(before, after, after2))
                        ctx.oracle("answer-unchanged-by-continuation", bool(same), dict(inp, queries=early, before=[v.tolist() for v in before], after=[v.tolist() for v in after2]),
                                   what="a scalar query inside the recorded range was answered differently after the run had been continued")
                    elif history == "event-resumed":
                        o.integrate(events=[ev_term])
                        early = [float(0.5 * (o.t[0] + o.t[1])), float(0.5 * (o.t[-2] + o.t[-1]))] if len(o.t) > 2 else []
                        before = [np.array(o.sol(q_)) for q_ in early]
                        o.integrate()
                        after = [np.array(o.sol(q_)) for q_ in early]
                        ctx.oracle("answer-unchanged-by-continuation", all(np.array_equal(a_, b_) for a_, b_ in zip(before, after)), dict(inp, queries=early),
                                   what="a scalar query inside the recorded range was answered differently after resuming from the terminal event")
                    elif history == "against-span-event":
                        o.integrate(tf, events=[ev_term])
                        o.integrate(tf)
                    else:
                        fault["at"] = fault["n"] + rng.randint(8, 40)
                        try:
                            o.integrate()
                        except de.exception_types.FailedIntegration:
                            pass
                        fault["at"] = None
                        o.integrate()
                except Exception as e:
                    ctx.oracle("run", False, inp, what="run raised %r" % (e,))
                    continue
                sol = o.sol
                t = np.array(o.t)
                y = np.array(o.y)
                ex = pexact(t0)
                te = getattr(sol, "t_eval", None) if sol is not None else None
                st = [float(x) for x in te] if te is not None else []
                # a Richardson wrapper's sub-pieces end at t + k h / 2^m, which may differ from the recorded t + dTime in the last bits
                ka = np.array(st) if st else np.zeros(0)
                ulp8 = 8 * float(np.spacing(max(1.0, float(np.max(np.abs(t))))))
                missing = [float(x) for x in t[1:] if ka.size == 0 or float(np.min(np.abs(ka - float(x)))) > ulp8]
                ctx.oracle("every-recorded-step-has-a-piece", len(t) <= 1 or not missing, dict(inp, steps=len(t) - 1, pieces=len(st), first_missing_end_time=missing[:1]),
                           what="%d of %d recorded steps end at a time that is no knot of the dense output (%d pieces)" % (len(missing), len(t) - 1, len(st)))
                if te is None or not st:
                    continue
                pieces = sol.y_interpolants
                sorted_ok = all(b > a for a, b in zip(st, st[1:]))
                key_hist = dict(single=None, continued=None, **{"event-resumed": "terminal-event-dense-unsorted", "fault-resumed": None, "against-span-event": None})[history]
                ctx.oracle("dense-times-increasing", sorted_ok, dict(inp, t_eval_head=st[:4]), key=key_hist or "dense-times-increasing", what="sol.t_eval is not strictly increasing")
                if not sorted_ok:
                    continue
                backward = direction < 0
                # grid reproduction
                tolg = 1e-6 if rich else 0.0
                bad = [k for k in range(len(t)) if float(np.max(np.abs(sol(t[k]) - y[k]))) > tolg]
                ctx.oracle("recorded-states-reproduced", not bad, dict(inp, first_bad=[int(bad[0]), float(t[bad[0]])] if bad else None), what="sol(t_k) differs from y_k at %d recorded times" % len(bad))
                arr = sol(t)
                ctx.oracle("array-query-equals-scalar", float(np.max(np.abs(arr - np.array([sol(x) for x in t])))) == 0.0, inp, what="array query differs from scalar queries")
                # containing piece + model
                qs = [float(x) for x in t[:2]] + [float(0.5 * (a + b)) for a, b in zip(t[:-1], t[1:])][:12] + [rng.uniform(min(t0, tf), max(t0, tf)) for _ in range(8)]
                vec_idx = [int(i) for i in sol.find_interval_vec(np.array(qs))]
                for qv, vi in zip(qs, vec_idx):
                    idx = int(sol.find_interval(qv))
                    pc = pieces[idx]
                    lo, hi = float(min(pc.t0, pc.t1)), float(max(pc.t0, pc.t1))
                    inside = lo - 1e-14 <= qv <= hi + 1e-14
                    ctx.oracle("query-answered-by-containing-piece", bool(inside) and vi == idx or (bool(pieces[vi].t0 <= qv <= pieces[vi].t1 or pieces[vi].t1 <= qv <= pieces[vi].t0) and inside), dict(inp, query=qv, piece=[float(pc.t0), float(pc.t1)], scalar_idx=idx, vector_idx=vi),
                               what="query %r answered by the piece [%r, %r]" % (qv, float(pc.t0), float(pc.t1)))
                    lines.append("dense %d %s %s" % (int(backward), fbits(qv), flist(st)))
                    pend.append((inp, qv, idx, vi))
                # end slopes
                worst = 0.0
                for pc in pieces:
                    worst = max(worst, float(np.max(np.abs(pc.m0 - prhs(float(pc.t0), pc.p0)))), float(np.max(np.abs(pc.m1 - prhs(float(pc.t1), pc.p1)))))
                ctx.oracle("end-slopes-are-rhs", worst <= 1e-11, dict(inp, worst=worst), key="dense-stale-slope-after-fault" if history == "fault-resumed" else "end-slopes-are-rhs",
                           what="a piece's end slope differs from the right-hand side at its end state by %.2e" % worst)
                # accuracy between grid points
                grid_err = float(np.max(np.abs(y - np.array([ex(x) for x in t]))))
                hmax = float(np.max(np.abs(np.diff(t))))
                tm = 0.5 * (t[:-1] + t[1:])
                mid_err = float(np.max(np.abs(np.array([sol(x) for x in tm]) - np.array([ex(x) for x in tm]))))
                m4 = 4.1 if forced else 1.1      # max of the fourth derivative of the test problem's solution (forced: homogeneous part + 81 * 0.0375)
                bound = 8 * m4 * hmax ** 4 / 384 + 20 * grid_err + 1e-12
                ctx.oracle("interpolation-error-O(h^4)", mid_err <= bound, dict(inp, mid_err=mid_err, bound=bound, hmax=hmax, grid_err=grid_err),
                           what="error between grid points %.2e exceeds the cubic-Hermite bound %.2e (h=%.3g, grid error %.1e)" % (mid_err, bound, hmax, grid_err))
                if len(pieces) >= 4:
                    ctx.nontrivial((name, history, direction, t0, dt))
                ctx.count("method:" + name)
                ctx.count("history:%s:%s" % (history, "bwd" if backward else "fwd"))
                ctx.count("problem:" + ("forced" if forced else "autonomous"))
                ctx.sample(dict(inp, pieces=len(pieces)), limit=4)
    fault_in_retry(ctx, rng)
    outs = ctx.driver(lines)
    for (inp, qv, idx, vi), o in zip(pend, outs):
        ctx.corr("dense-lookup", o == "%d %d" % (idx, vi), dict(inp, query=qv, impl=[idx, vi], model=o))


def replay(rep):
    return False
