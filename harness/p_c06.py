"""C06 - dense output is a consistent continuous extension of the computed trajectory."""
import math
import impl, loopsim
from impl import np, de, I, DS, fbits, flist

ID = "C06"
LEAN_TARGETS = ["DVP.Properties.C06"]
PROPERTY_FILES = ["DVP/Properties/C06.lean"]
RULE = ("dense outputs of real runs of every method family (explicit, FSAL, adaptive, implicit, splitting, Richardson wrappers), both time "
        "directions, single and continued calls, event-terminated and resumed, after faults; seeded queries inside the range, at recorded "
        "times, midway, scalar and array: the piece chosen by find_interval / find_interval_vec vs the Lean lookup model (bit-exact) and vs "
        "the piece whose interval contains the query; sol(t_k) vs y_k; end slopes of every piece vs the right-hand side at the recorded "
        "states; interpolation error vs the closed-form solution against an O(h^4) bound. non-trivial = run with >= 4 pieces; distinct by (run, query)")
ASSUMPTIONS = ["O(h^4): error at midpoints <= h^4 max|y''''| / 384 x 8 + 20 x the largest error at the grid points (Peano kernel bound cited)"]


def rhs(t, y):
    return np.array([y[1], -y[0]])


def exact(t0):
    return lambda t: np.array([math.cos(t - t0), -math.sin(t - t0)])


def methods(ctx):
    base = ["RK4Solver", "RK45CKSolver", "DOPRI45", "RK8713MSolver", "MidpointSolver", "HeunEulerSolver", "SymplecticEulerSolver", "ABAs5o6HSolver", "BABs9o7HSolver",
            "BackwardEuler", "GaussLegendre4", "RadauIIA5", "CrankNicolson"]
    if not ctx.quick():
        base += ["RK108Solver", "RK5Solver", "EulerSolver", "LobattoIIIC4", "ImplicitMidpoint", "GaussLegendre6"]
    ms = [(n, getattr(I, n)) for n in base]
    ms.append(("Richardson(RK4,3)", de.integrators.generate_richardson_integrator(I.RK4Solver, 3)))
    ms.append(("Richardson(Midpoint,4)", de.integrators.generate_richardson_integrator(I.MidpointSolver, 4)))
    return ms


def ev_term(t, y, **kw):
    return y[0] - 0.35
ev_term.is_terminal = True


def run(ctx):
    rng = ctx.rng
    lines, pend = [], []
    for (name, cls) in methods(ctx):
        for history in ("single", "continued", "event-resumed", "fault-resumed"):
            for direction in (1, -1):
                if ctx.quick() and rng.random() < 0.45:
                    continue
                t0 = rng.choice([0.0, -1.0, 2.5])
                span = rng.uniform(1.0, 2.5)
                tf = t0 + direction * span
                dt = rng.choice([0.05, 0.1, 0.2])
                rich = name.startswith("Richardson")
                inp = dict(kind="dense", method=name, history=history, t0=t0, tf=tf, dt=dt)
                fault = dict(n=0, at=None)

                def f(t, y, fault=fault):
                    fault["n"] += 1
                    if fault["at"] is not None and fault["n"] >= fault["at"]:
                        raise ValueError("injected")
                    return rhs(t, y)
                o = de.OdeSystem(f, y0=np.array([1.0, 0.0]), t=(t0, tf), dt=dt, dense_output=True, rtol=1e-8, atol=1e-10)
                o.set_method(cls)
                try:
                    if history == "single":
                        o.integrate()
                    elif history == "continued":
                        o.integrate(t0 + (tf - t0) * 0.35)
                        _ = o.sol(np.array(o.t))            # an array query while steps are still being added
                        o.integrate(t0 + (tf - t0) * 0.8)
                        _ = o.sol(np.array(o.t)[-3:])
                        o.integrate()
                    elif history == "event-resumed":
                        o.integrate(events=[ev_term])
                        o.integrate()
                    else:
                        fault["at"] = fault["n"] + rng.randint(8, 40)
                        try:
                            o.integrate()
                        except de.exception_types.FailedIntegration:
                            pass
                        fault["at"] = None
                        o.integrate()
                except Exception as e:
                    ctx.oracle("run", False, inp, what="run raised %r" % (e,))
                    continue
                sol = o.sol
                t = np.array(o.t)
                y = np.array(o.y)
                ex = exact(t0)
                st = [float(x) for x in sol.t_eval]
                pieces = sol.y_interpolants
                sorted_ok = all(b > a for a, b in zip(st, st[1:]))
                key_hist = dict(single=None, continued=None, **{"event-resumed": "terminal-event-dense-unsorted", "fault-resumed": None})[history]
                ctx.oracle("dense-times-increasing", sorted_ok, dict(inp, t_eval_head=st[:4]), key=key_hist or "dense-times-increasing", what="sol.t_eval is not strictly increasing")
                if not sorted_ok:
                    continue
                backward = direction < 0
                # grid reproduction
                tolg = 1e-6 if rich else 0.0
                bad = [k for k in range(len(t)) if float(np.max(np.abs(sol(t[k]) - y[k]))) > tolg]
                ctx.oracle("recorded-states-reproduced", not bad, dict(inp, first_bad=[int(bad[0]), float(t[bad[0]])] if bad else None), what="sol(t_k) differs from y_k at %d recorded times" % len(bad))
                arr = sol(t)
                ctx.oracle("array-query-equals-scalar", float(np.max(np.abs(arr - np.array([sol(x) for x in t])))) == 0.0, inp, what="array query differs from scalar queries")
                # containing piece + model
                qs = [float(x) for x in t[:2]] + [float(0.5 * (a + b)) for a, b in zip(t[:-1], t[1:])][:12] + [rng.uniform(min(t0, tf), max(t0, tf)) for _ in range(8)]
                vec_idx = [int(i) for i in sol.find_interval_vec(np.array(qs))]
                for qv, vi in zip(qs, vec_idx):
                    idx = int(sol.find_interval(qv))
                    pc = pieces[idx]
                    lo, hi = float(min(pc.t0, pc.t1)), float(max(pc.t0, pc.t1))
                    inside = lo - 1e-14 <= qv <= hi + 1e-14
                    ctx.oracle("query-answered-by-containing-piece", bool(inside) and vi == idx or (bool(pieces[vi].t0 <= qv <= pieces[vi].t1 or pieces[vi].t1 <= qv <= pieces[vi].t0) and inside), dict(inp, query=qv, piece=[float(pc.t0), float(pc.t1)], scalar_idx=idx, vector_idx=vi),
                               what="query %r answered by the piece [%r, %r]" % (qv, float(pc.t0), float(pc.t1)))
                    lines.append("dense %d %s %s" % (int(backward), fbits(qv), flist(st)))
                    pend.append((inp, qv, idx, vi))
                # end slopes
                worst = 0.0
                for pc in pieces:
                    worst = max(worst, float(np.max(np.abs(pc.m0 - rhs(float(pc.t0), pc.p0)))), float(np.max(np.abs(pc.m1 - rhs(float(pc.t1), pc.p1)))))
                ctx.oracle("end-slopes-are-rhs", worst <= 1e-11, dict(inp, worst=worst), key="dense-stale-slope-after-fault" if history == "fault-resumed" else "end-slopes-are-rhs",
                           what="a piece's end slope differs from the right-hand side at its end state by %.2e" % worst)
                # accuracy between grid points
                grid_err = float(np.max(np.abs(y - np.array([ex(x) for x in t]))))
                hmax = float(np.max(np.abs(np.diff(t))))
                tm = 0.5 * (t[:-1] + t[1:])
                mid_err = float(np.max(np.abs(np.array([sol(x) for x in tm]) - np.array([ex(x) for x in tm]))))
                bound = 8 * hmax ** 4 / 384 + 20 * grid_err + 1e-12
                ctx.oracle("interpolation-error-O(h^4)", mid_err <= bound, dict(inp, mid_err=mid_err, bound=bound, hmax=hmax, grid_err=grid_err),
                           what="error between grid points %.2e exceeds the cubic-Hermite bound %.2e (h=%.3g, grid error %.1e)" % (mid_err, bound, hmax, grid_err))
                if len(pieces) >= 4:
                    ctx.nontrivial((name, history, direction, t0, dt))
                ctx.count("method:" + name)
                ctx.count("history:%s:%s" % (history, "bwd" if backward else "fwd"))
                ctx.sample(dict(inp, pieces=len(pieces)), limit=4)
    outs = ctx.driver(lines)
    for (inp, qv, idx, vi), o in zip(pend, outs):
        ctx.corr("dense-lookup", o == "%d %d" % (idx, vi), dict(inp, query=qv, impl=[idx, vi], model=o))


def replay(rep):
    return False
