"""`integrate(t, events=...)` as a whole: drives real OdeSystems through operation sequences with events (terminal stops,
continuation calls, faults in the integrator / in an event function / in a callback, resets) while recording every integrator
call (with the nesting depth of `integrate`) and every `handle_events` call, and replays the same sequence through the Lean model
`DV.LoopEv` (bit-exact on float64 scalars): recorded times, `dt`, status, buffer length, requests of the outer loop and of the
nested `integrate(root)` call, and the list of recorded events."""
import impl, eventsim, loopsim
from impl import np, de, I, DS, D, fbits, flist
from loopsim import Fault, BudgetExceeded, EPS, TOLEPS, status_code

DUPTOL = float(D.epsilon(np.dtype(np.float64))) ** 0.7


class DepthOde(de.OdeSystem):
    """OdeSystem that knows how deep it is inside its own `integrate` (1 = the user's call, 2 = the nested call of a terminal event)"""
    depth = 0

    def integrate(self, *a, **k):
        self.depth += 1
        try:
            return super().integrate(*a, **k)
        finally:
            self.depth -= 1


def make_recorder(base, log):
    class Rec(base):
        owner = None
        fault_at = None
        fault_kind = "raise"
        ncalls = 0

        def __call__(self, rhs, initial_time, initial_state, constants, timestep):
            cls = type(self)
            k = cls.ncalls
            cls.ncalls += 1
            if k > 4000:
                raise BudgetExceeded()
            ent = dict(kind="call", depth=cls.owner.depth, t=float(initial_time), h=float(timestep), cap=len(cls.owner._OdeSystem__t))
            if cls.fault_at is not None and k == cls.fault_at:
                ent["exc"] = cls.fault_kind
                log.append(ent)
                if cls.fault_kind == "interrupt":
                    raise KeyboardInterrupt()
                raise Fault("injected fault at integrator call %d" % k)
            try:
                res = super().__call__(rhs, initial_time, initial_state, constants, timestep)
            except BaseException as e:
                ent["exc"] = "raise"
                ent["exc_repr"] = repr(e)[:200]
                log.append(ent)
                raise
            ent["new_dt"] = float(res[0])
            ent["dT"] = float(res[1][0])
            log.append(ent)
            return res
    Rec.__name__ = "EvRec_" + base.__name__
    return Rec


class EvSpy(eventsim.Spy):
    """the eventsim spy, writing into the shared log and noting a `handle_events` call that raised"""
    def __init__(self, log):
        super().__init__()
        self.log = log
        self.arm = None          # callable invoked at the start of every handle_events call (fault injection)

    def __enter__(self):
        super().__enter__()
        inner = DS.handle_events
        spy = self

        def outer(sol_tuple, events, consts, direction, is_terminal, attributes):
            n0 = len(spy.steps)
            if spy.arm is not None:
                spy.arm()
            try:
                out = inner(sol_tuple, events, consts, direction, is_terminal, attributes)
            except BaseException:
                spy.log.append(dict(kind="events", raised=True))
                raise
            st = spy.steps[n0] if len(spy.steps) > n0 else dict(error="not recorded")
            spy.log.append(dict(kind="events", step=st))
            return out
        DS.handle_events = outer
        return self


class EvScenario:
    """ops: ('new', t0, tf, dt) | ('evint', target|None, dict(events=[(kind, c, s, direction, terminal)], cb_dt, cb_raise, fault, fault_kind, ev_fault))
            | ('int', target|None, dict(...)) | ('setdt', v) | ('reset',)"""

    def __init__(self, method, ops, dense=False, tol=1e-9):
        self.method, self.ops, self.dense, self.tol = method, ops, dense, tol
        self.records = []

    def run_impl(self):
        ode = None
        T = np.float64
        self._log = []
        for op in self.ops:
            rec = dict(op=op, log=[], exc=None)
            if op[0] == "new":
                _, t0, tf, dt = op
                self._log = []
                self.Rec = make_recorder(self.method, self._log)
                ode = DepthOde(eventsim.harmonic, y0=np.array([1.0, 0.0]), t=(T(t0), T(tf)), dt=T(dt), dense_output=self.dense, rtol=self.tol, atol=self.tol * 1e-2)
                ode.set_method(self.Rec)
                self.Rec.owner = ode
                self.ode = ode
            elif op[0] in ("int", "evint"):
                _, target, opts = op
                start = len(self._log)
                base_calls = self.Rec.ncalls
                it_no = [0]
                cbs = []
                if opts.get("cb_dt") or opts.get("cb_raise") is not None:
                    def cb(o, opts=opts, it_no=it_no):
                        i = it_no[0]
                        it_no[0] += 1
                        if opts.get("cb_dt") and i in opts["cb_dt"]:
                            o.dt = T(opts["cb_dt"][i])
                        if opts.get("cb_raise") is not None and i == opts["cb_raise"]:
                            raise Fault("callback fault at iteration %d" % i)
                    cbs.append(cb)
                self.Rec.fault_at = None if opts.get("fault") is None else base_calls + opts["fault"]
                self.Rec.fault_kind = opts.get("fault_kind", "raise")
                kw = dict(callback=cbs)
                evs = None
                spy = EvSpy(self._log)
                if op[0] == "evint":
                    armed = [False]
                    evs = []
                    for (kind, c, s, direction, terminal) in opts["events"]:
                        g0 = eventsim.make_event(kind, c, s, direction, terminal)

                        def g(t, y, *a, g0=g0, armed=armed, **k):
                            if armed[0]:
                                raise Fault("event function fault")
                            return g0(t, y, *a, **k)
                        for attr in ("direction", "is_terminal", "desc"):
                            setattr(g, attr, getattr(g0, attr))
                        if getattr(g0, "requires_dstate", False):
                            g.requires_dstate = True
                        evs.append(g)
                    kw["events"] = evs
                    hcount = [0]

                    def arm(hcount=hcount, armed=armed, opts=opts):
                        if opts.get("ev_fault") is not None and hcount[0] == opts["ev_fault"]:
                            armed[0] = True
                        hcount[0] += 1
                    spy.arm = arm
                rec["n_events_before"] = len(ode.events)
                try:
                    with spy:
                        if target is None:
                            ode.integrate(**kw)
                        else:
                            ode.integrate(T(target), **kw)
                except de.exception_types.FailedIntegration as e:
                    rec["exc"] = "FailedIntegration"
                    rec["cause"] = type(e.__cause__).__name__ if e.__cause__ is not None else None
                except KeyboardInterrupt:
                    rec["exc"] = "KeyboardInterrupt"
                except Exception as e:
                    rec["exc"] = "other:" + type(e).__name__
                    rec["exc_repr"] = repr(e)[:200]
                self.Rec.fault_at = None
                rec["log"] = self._log[start:]
                rec["evs"] = evs
            elif op[0] == "setdt":
                ode.dt = T(op[1])
            elif op[0] == "reset":
                ode.reset()
            rec["t"] = [float(x) for x in ode.t]
            rec["dt"] = float(ode.dt)
            rec["status"] = status_code(ode)
            rec["cap"] = len(ode._OdeSystem__t)
            rec["success"] = bool(ode.success)
            rec["sol_len"] = len(ode._OdeSystem__sol)
            rec["events"] = [(e.event, float(e.t)) for e in ode.events]
            rec["y_last"] = np.array(ode.y[-1])
            rec["knots"] = [float(x) for x in (ode._OdeSystem__sol.t_eval or [])]
            self.records.append(rec)
        return self.records

    # ---- the same scenario as a driver line
    @staticmethod
    def _base(ent, i, opts):
        if ent.get("exc") == "interrupt":
            return "k"
        if ent.get("exc"):
            return "x"
        s = "o:%s:%s" % (fbits(ent["new_dt"]), fbits(ent["dT"]))
        if opts.get("cb_dt") and i in opts["cb_dt"]:
            s += ":c" + fbits(opts["cb_dt"][i])
        if opts.get("cb_raise") is not None and i == opts["cb_raise"]:
            s += ":r"
        return s

    @staticmethod
    def _probes(step):
        ps = []
        for p in step["probes"]:
            ps.append("%s:%d:%d:%d:%d:%s:%d:%d" % (fbits(p["root"]), int(p["success"]), p["gm"], p["gc"], p["gp"], ".".join(str(v) for v in p["fields"]), p["direction"], int(p["terminal"])))
        return "~".join(ps)

    def iterations(self, rec, opts):
        """group the log of one call: [(outer call entry, events entry | None, [nested call entries])]"""
        its = []
        for ent in rec["log"]:
            if ent["kind"] == "call" and ent["depth"] == 1:
                its.append([ent, None, []])
            elif ent["kind"] == "events":
                if its:
                    its[-1][1] = ent
            elif ent["kind"] == "call" and ent["depth"] >= 2:
                if its:
                    its[-1][2].append(ent)
        return its

    def model_line(self):
        parts = ["loopev %s %s %s %d" % (fbits(EPS), fbits(TOLEPS), fbits(DUPTOL), int(self.dense))]
        self.recording_ok = True
        for op, rec in zip(self.ops, self.records):
            if op[0] == "new":
                parts.append("new %s %s %s" % (fbits(op[1]), fbits(op[2]), fbits(op[3])))
            elif op[0] == "int":
                _, target, opts = op
                tgt = target if target is not None else self._tf()
                its = [self._base(ent, i, opts) for i, ent in enumerate(rec["log"]) if ent["kind"] == "call"]
                parts.append("int %s %s" % (fbits(tgt), ";".join(its)))
            elif op[0] == "evint":
                _, target, opts = op
                tgt = target if target is not None else self._tf()
                its = []
                for i, (ent, ev, nested) in enumerate(self.iterations(rec, opts)):
                    b = self._base(ent, i, opts)
                    if ev is None:
                        p = ""
                    elif ev.get("raised"):
                        p = "E"
                    elif "error" in ev["step"]:
                        self.recording_ok = False
                        p = ""
                    else:
                        p = self._probes(ev["step"])
                    n = "!".join(self._base(e, -1, {}) for e in nested)
                    its.append("%s/%s/%s" % (b, p, n))
                parts.append("evint %s %d %s" % (fbits(tgt), len(opts["events"]), ";".join(its)))
            elif op[0] == "setdt":
                parts.append("setdt %s" % fbits(op[1]))
            elif op[0] == "reset":
                parts.append("reset")
        return " | ".join(parts)

    def _tf(self):
        for op in self.ops:
            if op[0] == "new":
                return op[2]

    def compare(self, ctx, model_out, tag):
        outs = model_out.split(" | ")
        if len(outs) != len(self.ops):
            ctx.corr(tag + ":shape", False, dict(model=model_out[:300], ops=str(self.ops)[:300]))
            return
        for op, rec, o in zip(self.ops, self.records, outs):
            toks = o.split()
            d = {toks[i]: toks[i + 1] for i in range(0, len(toks) - 1, 2)}
            det = dict(method=self.method.__name__, dense=self.dense, op=str(op)[:300], ops=str(self.ops)[:600],
                       impl=dict(t=rec["t"][:4] + rec["t"][-3:], n=len(rec["t"]), dt=rec["dt"], status=rec["status"], cap=rec["cap"], exc=rec.get("exc")),
                       model=o[:500])
            ctx.corr(tag + ":times", d.get("T") == flist(rec["t"]), det)
            ctx.corr(tag + ":dt", d.get("D") == fbits(rec["dt"]), det)
            ctx.corr(tag + ":status", d.get("S") == str(rec["status"]), det)
            ctx.corr(tag + ":capacity", d.get("C") == str(rec["cap"]), det)
            ctx.corr(tag + ":dense-output-knots", d.get("K", "-") == (flist(rec["knots"]) if rec["knots"] else flist([])), dict(det, impl_knots=rec["knots"][-5:], n_impl=len(rec["knots"]), model_knots=str(d.get("K"))[-200:]))
            if op[0] in ("int", "evint"):
                calls = [e for e in rec["log"] if e["kind"] == "call"]
                outer = [e for e in calls if e["depth"] == 1]
                nested = [e for e in calls if e["depth"] >= 2]
                rq = [] if d.get("R", "-") == "-" else d["R"].split(",")
                got = [":".join([r.split(":")[0], r.split(":")[2]]) for r in rq]
                ctx.corr(tag + ":requests", got == ["%s:%s" % (fbits(e["h"]), e["cap"]) for e in outer], dict(det, impl_requests=[(e["h"], e["cap"]) for e in outer][:8], model_requests=rq[:8]))
                ctx.corr(tag + ":consumed", d.get("U") == "0", det)
            if op[0] == "evint":
                nq = [] if d.get("N", "-") == "-" else d["N"].split(",")
                gotn = [":".join([r.split(":")[0], r.split(":")[2]]) for r in nq]
                ctx.corr(tag + ":nested-requests", gotn == ["%s:%s" % (fbits(e["h"]), e["cap"]) for e in nested], dict(det, impl_requests=[(e["h"], e["cap"]) for e in nested][:8], model_requests=nq[:8]))
                evs = rec["evs"]
                want = ",".join("%d@%s" % (next(i for i, g in enumerate(evs) if g is f), fbits(te)) for (f, te) in rec["events"] if any(g is f for g in evs))
                # events recorded by earlier calls belong to other function objects: compare this call's tail, and the count of the prefix
                model_evs = [] if d.get("E", "-") == "-" else d["E"].split(",")
                n_before = rec["n_events_before"]
                ctx.corr(tag + ":recorded-events", ",".join(model_evs[n_before:]) == want and len(model_evs) == len(rec["events"]),
                         dict(det, impl_events=want[:300], model_events=",".join(model_evs)[:300]))
                stopped = d.get("P") == "true"
                ctx.corr(tag + ":stopped-flag", (rec["status"] != 2 or stopped) and (not stopped or rec["status"] in (2, 3)), det)


METHODS = ["RK4Solver", "RK45CKSolver", "RK8713MSolver", "DOPRI45"]


def gen_events(rng, t0, tf, p_terminal):
    evs = []
    for _ in range(rng.choice([1, 1, 2, 3])):
        kind = rng.choice(["y0", "y0", "y1", "time", "energy"])
        if kind == "time":
            c = t0 + (tf - t0) * rng.choice([0.25, 0.5, 0.3, 0.77])
        elif kind == "energy":
            c = rng.choice([0.0, 0.2, -0.3])
        else:
            c = rng.choice([0.0, 0.3, -0.5, 0.25, 0.8])
        s = 10.0 ** rng.choice([-3, 0, 0, 0, 1, 3]) * rng.choice([1, -1])
        evs.append((kind, c, s, rng.choice([0, 0, 1, -1]), rng.random() < p_terminal))
    return evs


def gen_ops(rng, focus):
    backward = rng.random() < 0.4
    t0 = rng.choice([0.0, -1.5, 2.0])
    span = rng.uniform(2.0, 6.0)
    tf = t0 - span if backward else t0 + span
    dt = rng.choice([0.1, 0.25, 0.05])
    p_fault = 0.7 if focus == "C12" else 0.25
    p_term = 0.3 if focus == "C12" else 0.6

    def opts(with_events):
        o = {}
        if with_events:
            o["events"] = gen_events(rng, t0, tf, p_term)
        if rng.random() < p_fault:
            which = rng.choice(["fault", "fault", "ev_fault", "cb_raise", "interrupt"] if with_events else ["fault", "cb_raise", "interrupt"])
            if which == "fault":
                o["fault"] = rng.choice([0, 1, 2, 3, 5, 8, 13])
            elif which == "interrupt":
                o["fault"] = rng.choice([0, 2, 4, 7])
                o["fault_kind"] = "interrupt"
            elif which == "ev_fault":
                o["ev_fault"] = rng.choice([0, 1, 2, 3, 5, 8])
            else:
                o["cb_raise"] = rng.choice([0, 1, 2, 4, 7])
        if rng.random() < 0.2:
            o["cb_dt"] = {rng.choice([0, 1, 3]): rng.choice([0.05, 0.2, -0.1, 0.4])}
        if "cb_raise" in o and "cb_dt" not in o:
            o["cb_dt"] = {}
        return o

    if rng.random() < 0.12:
        # an infinite target time (either direction): only a terminal event ends such a call
        sign = -1.0 if backward else 1.0

        def topts():
            o = opts(True)
            o["events"] = [("y0", rng.choice([0.3, -0.5, 0.25]), rng.choice([1.0, -10.0]), 0, True)] + o["events"][:1]
            o.pop("cb_raise", None)
            return o
        ops = [("new", t0, sign * float("inf"), dt), ("evint", None, topts())]
        for _ in range(rng.choice([0, 1, 2])):
            k = rng.choice(["int", "evint", "reset-evint"])
            if k == "int":
                ops.append(("int", t0 + sign * rng.uniform(2.0, 6.0), opts(False)))
            elif k == "evint":
                ops.append(("evint", None, topts()))
            else:
                ops += [("reset",), ("evint", None, topts())]
        return rng.choice(METHODS), ops, rng.random() < 0.5
    ops = [("new", t0, tf, dt), ("evint", None, opts(True))]
    for _ in range(rng.choice([1, 2, 3, 4])):
        k = rng.choice(["evint", "evint", "evint-mid", "int", "setdt", "reset", "evint-back"])
        if k == "evint":
            ops.append(("evint", None, opts(True)))
        elif k == "evint-mid":
            ops.append(("evint", t0 + (tf - t0) * rng.choice([0.4, 0.6, 0.9]), opts(True)))
        elif k == "evint-back":
            ops.append(("evint", t0 + (tf - t0) * rng.choice([0.1, -0.2]), opts(True)))
        elif k == "int":
            ops.append(("int", None, opts(False)))
        elif k == "setdt":
            ops.append(("setdt", rng.choice([0.05, 0.2, -0.1])))
        else:
            ops.append(("reset",))
    return rng.choice(METHODS), ops, rng.random() < 0.5


def run_block(ctx, focus, n_quick, n_thorough, tag="evloop"):
    """seeded operation sequences with events; returns the scenarios (for property oracles of the caller)"""
    rng = ctx.rng
    scs, lines = [], []
    for _ in range(n_quick if ctx.quick() else n_thorough):
        mname, ops, dense = gen_ops(rng, focus)
        sc = EvScenario(getattr(I, mname), ops, dense=dense)
        try:
            sc.run_impl()
        except BudgetExceeded:
            ctx.count(tag + ":budget-exceeded")
            continue
        line = sc.model_line()
        if not sc.recording_ok:
            ctx.count(tag + ":probe-recording-failed")
            continue
        scs.append(sc)
        lines.append(line)
        for op, rec in zip(sc.ops, sc.records):
            if op[0] == "evint":
                its = sc.iterations(rec, op[2])
                ctx.count(tag + ":evint:" + ("stopped" if rec["status"] == 2 else ("failed" if rec["status"] in (3, 4) else "ran-to-target")))
                if any(n for (_, _, n) in its):
                    ctx.count(tag + ":nested-call-with-steps")
                if any(ev is not None and ev.get("raised") for (_, ev, _) in its):
                    ctx.count(tag + ":handle-events-raised")
                if any(e.get("exc") for (_, _, n) in its for e in n):
                    ctx.count(tag + ":fault-inside-nested-call")
    outs = ctx.driver(lines)
    for sc, o in zip(scs, outs):
        sc.compare(ctx, o, tag)
        ctx.nontrivial(str(sc.ops)[:200])
    return scs
