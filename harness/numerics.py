"""Measurements on the implementation used by the failing-input searches (never as a proof)."""
import math
import impl
from impl import np, de, I, DS


def sys_rhs(t, y):
    return np.array([y[1] + 0.3 * y[0] * y[1] + np.sin(t),
                     -y[0] + 0.2 * y[0] ** 2 - 0.1 * y[1] ** 3 + np.cos(2 * t)])


def pendulum(t, y):
    return np.array([y[1], -np.sin(y[0])])


def reference(rhs, t0, y0, t1):
    from scipy.integrate import solve_ivp
    r = solve_ivp(rhs, (t0, t1), np.asarray(y0, dtype=np.float64), method="DOP853", rtol=1e-14, atol=1e-15)
    return r.y[:, -1]


def one_step(cls, rhs, t0, y0, h, **kw):
    """one step of size h through the integrator's own __call__ (tolerances loose enough that the
    controller accepts the requested step for explicit methods; tight for the Newton solve of implicit ones)"""
    y0 = np.asarray(y0, dtype=np.float64)
    integ = cls(y0.shape, dtype=y0.dtype, **kw)
    f = DS.DiffRHS(rhs)
    dt, (dT, dY) = integ(f, np.float64(t0), y0.copy(), {}, np.float64(h))
    return float(dT), y0 + dY


def observed_local_order(cls, h0, rhs=sys_rhs, t0=0.3, y0=(0.7, -0.4), **kw):
    """q with local error ~ h^(q+1), from steps h0 and h0/2 started on exact data"""
    errs = []
    for h in (h0, h0 / 2):
        dT, y1 = one_step(cls, rhs, t0, y0, h, **kw)
        ref = reference(rhs, t0, y0, t0 + dT)
        errs.append((dT, float(np.max(np.abs(y1 - ref)))))
    (h1, e1), (h2, e2) = errs
    if e2 <= 0 or e1 <= 0 or h1 == h2:
        return None, errs
    return math.log(e1 / e2) / math.log(h1 / h2) - 1.0, errs


def h0_for(order):
    return 0.05 if order <= 2 else 0.2 if order <= 5 else 0.4 if order <= 8 else None
