"""C04 - fixed-step methods take the requested step wherever the time axis sits; shift / reflection invariance."""
import math
import impl, loopsim, p_c03
from impl import np, de, I, fbits

ID = "C04"
LEAN_TARGETS = ["DVP.Properties.C04"]
PROPERTY_FILES = ["DVP/Properties/C04.lean"]
RULE = ("seeded spans of every sign pattern and direction with dt <= span for every fixed-step method (explicit RK, splitting; "
        "implicit ones separately): recorded integrator requests vs dt (exact) and vs the Lean loop model (bit-exact replay); pairs of "
        "runs of an autonomous system on (t0,tf) / (t0+c,tf+c) and on the time-reflected problem, states compared at rounding level "
        "(fixed step) or tolerance level (adaptive). non-trivial = run with >= 3 steps; distinct by (method, span, dt, shift)")
ASSUMPTIONS = ["shift/reflection invariance of the computed states is measured on the implementation (states are not part of the loop model)"]

FIXED_EXPLICIT = ["RK4Solver", "RK5Solver", "MidpointSolver", "HeunsSolver", "RalstonsSolver", "EulerSolver", "EulerTrapSolver",
                  "SymplecticEulerSolver", "BABs9o7HSolver", "ABAs5o6HSolver"]
FIXED_IMPLICIT = ["BackwardEuler", "ImplicitMidpoint", "GaussLegendre4", "CrankNicolson", "LobattoIIIA4", "RadauIIA3"]
ADAPTIVE = ["RK45CKSolver", "DOPRI45", "HeunEulerSolver", "RK8713MSolver"]


def auto_rhs(t, y):
    return np.array([y[1], -np.sin(y[0]) - 0.1 * y[0] * y[1]])


def span(rng):
    pat = rng.choice(["pos", "neg", "mixed", "backward", "backward-mixed", "backward-neg"])
    a = rng.uniform(0.2, 4)
    L = rng.uniform(0.5, 3)
    t0, tf = dict(pos=(a, a + L), neg=(-a - L, -a), mixed=(-L / 3, 2 * L / 3), backward=(a + L, a),
                  **{"backward-mixed": (L / 2, -L / 2), "backward-neg": (-a, -a - L)})[pat]
    n = rng.choice([3, 4, 7, 10, 16])
    frac = rng.choice([0.0, 0.0, 0.3, 0.77])
    dt = L / (n + frac) * rng.choice([1, 1, -1])
    return pat, t0, tf, dt


def event_continuation_block(ctx, rng):
    """fixed-step methods across a terminal event: the sub-steps that land on the event are shorter, but the step size in force is the
    requested one again afterwards - every step of the continuation call except its last has magnitude dt, with or without dense output,
    forward and backward, on any part of the time axis"""
    for name in FIXED_EXPLICIT[:4] if ctx.quick() else FIXED_EXPLICIT:
        cls = getattr(I, name)
        for rep in range(2 if ctx.quick() else 8):
            pat, t0, tf, dt = span(rng)
            d = 1.0 if tf > t0 else -1.0
            # a terminal event in a regular (non-final) step: the time t0 + 0.37 .. 0.6 of the span
            te = t0 + (tf - t0) * rng.uniform(0.37, 0.6)

            def ev(t, y, te=te, **kw):
                return t - te
            ev.is_terminal = True
            ev.direction = 0
            inp = dict(kind="fixed-step-across-terminal-event", method=name, t0=t0, tf=tf, dt=dt, event_time=te)
            try:
                o = de.OdeSystem(auto_rhs, y0=np.array([1.0, 0.3]), t=(t0, tf), dt=dt, dense_output=rng.random() < 0.5)
                o.set_method(cls)
                o.integrate(events=[ev])
                n1 = len(o.t)
                stopped = o.integration_status.startswith("Integration terminated")
                o.integrate()
            except Exception as e:
                ctx.oracle("event-continuation-runs", False, dict(inp, error=repr(e)[:200]), what="run raised %r" % (e,))
                continue
            if not stopped:
                ctx.count("event-continuation:event-not-hit")
                continue
            steps = np.diff(np.array(o.t))[n1 - 1:]
            ulp = 8 * float(np.spacing(max(abs(t0), abs(tf), 1.0)))
            ok = len(steps) >= 1 and bool(np.all(np.abs(np.abs(steps[:-1]) - abs(dt)) <= ulp)) and abs(steps[-1]) <= abs(dt) + ulp and bool(np.all(steps * d > 0))
            ctx.oracle("recorded-steps-after-terminal-event", ok, dict(inp, steps_after_event=[float(x) for x in steps[:4]], n=len(steps), dt_in_force=float(o.dt)),
                       what="after the stop at the event the continuation took steps %s instead of %r" % ([float(x) for x in steps[:3]], abs(dt) * d))
            ctx.count("event-continuation:" + name)


def exact_fit_block(ctx, rng):
    """the boundary of 'all dt <= span': a step that fits the remaining distance EXACTLY (a call of exactly one dt; a continuation of
    exactly one dt on a dyadic grid) is taken as one step of dt, not clipped"""
    for name in FIXED_EXPLICIT[:3] if ctx.quick() else FIXED_EXPLICIT:
        cls = getattr(I, name)
        for (t0, tf, dt, first) in [(0.0, 1.0, 1.0, None), (0.0, -2.0, 2.0, None), (1.0, 3.0, 0.5, 2.5), (0.0, -1.0, 0.25, -0.75), (-3.0, -1.0, 0.125, -1.125), (2.0, 2.5, -0.5, None)]:
            inp = dict(kind="fixed-step-exact-fit", method=name, t0=t0, tf=tf, dt=dt, first_call_target=first)
            try:
                o = de.OdeSystem(auto_rhs, y0=np.array([1.0, 0.3]), t=(t0, tf), dt=dt)
                o.set_method(cls)
                if first is not None:
                    o.integrate(first)
                n1 = len(o.t)
                o.integrate()
            except Exception as e:
                ctx.oracle("exact-fit-runs", False, dict(inp, error=repr(e)[:200]), what="run raised %r" % (e,))
                continue
            steps = np.diff(np.array(o.t))
            d = 1.0 if tf > t0 else -1.0
            ok = bool(np.all(steps == abs(dt) * d)) and len(o.t) - n1 == 1
            ctx.oracle("step-that-fits-exactly-is-one-step", ok, dict(inp, steps=[float(x) for x in steps[-4:]], last_call_steps=len(o.t) - n1),
                       what="a remaining distance of exactly dt was covered in %d steps %s" % (len(o.t) - n1, [float(x) for x in steps[-3:]]))
            ctx.count("exact-fit:" + name)


def run(ctx):
    rng = ctx.rng
    event_continuation_block(ctx, rng)
    exact_fit_block(ctx, rng)
    nrun = 4 if ctx.quick() else 40
    scs, lines = [], []
    for name in FIXED_EXPLICIT:
        cls = getattr(I, name)
        for _ in range(nrun):
            pat, t0, tf, dt = span(rng)
            sc = loopsim.Scenario(cls, [("new", t0, tf, dt), ("int", None, {})], rhs=auto_rhs, y0=np.array([1.0, 0.3]))
            try:
                sc.run_impl()
            except loopsim.BudgetExceeded:
                continue
            rec = sc.records[-1]
            inp = dict(kind="fixed-step", method=name, t0=t0, tf=tf, dt=dt)
            want = abs(dt) * (1 if tf > t0 else -1)
            hs = [e["h"] for e in rec["log"]]
            ok_all_but_last = all(h == want for h in hs[:-1])
            ok_last = len(hs) > 0 and abs(hs[-1]) <= abs(want)
            ctx.oracle("requests-equal-dt", ok_all_but_last and ok_last, inp,
                       what="requested steps %s (dt=%r)" % (hs[:4] + hs[-2:], want))
            d = np.diff(np.array(rec["t"]))
            ulp = 4 * np.spacing(max(abs(t0), abs(tf)))
            ctx.oracle("recorded-steps", bool(np.all(np.abs(np.abs(d[:-1]) - abs(dt)) <= ulp)) and bool(np.all(np.abs(d) <= abs(dt) + ulp)), inp,
                       what="recorded steps %s differ from dt=%r" % (d[:4], dt))
            ctx.oracle("status", rec["status"] == 1 and rec.get("exc") is None, inp, what="run did not succeed: %r" % (rec.get("exc"),))
            scs.append(sc)
            lines.append(sc.model_line())
            if len(hs) >= 3:
                ctx.nontrivial((name, t0, tf, dt))
            ctx.count("fixed:" + pat)
    # several calls on one system: there and back again, continuation past a first target, after a reset
    for name in FIXED_EXPLICIT:
        cls = getattr(I, name)
        for _ in range(2 if ctx.quick() else 12):
            pat, t0, tf, dt = span(rng)
            mid = t0 + (tf - t0) * rng.choice([0.25, 0.5, 0.6])
            plan = rng.choice(["there-and-back", "continue", "back-beyond-start", "reset-between", "exact-grid"])
            if plan == "exact-grid":
                # legs that the step divides exactly in floating point: a full (unclipped) step lands on the target of the call
                t0 = rng.choice([0.0, -3.0, 16.0, -0.5])
                dirn = rng.choice([1.0, -1.0])
                dt = 0.25
                tf = t0 + 3.0 * dirn
                mid = t0 + 1.0 * dirn
            ops = {"there-and-back": [("int", None, {}), ("int", t0, {})],
                   "continue": [("int", mid, {}), ("int", None, {})],
                   "back-beyond-start": [("int", mid, {}), ("int", t0 - (tf - t0) * 0.5, {})],
                   "reset-between": [("int", None, {}), ("reset",), ("int", mid, {})],
                   "exact-grid": [("int", mid, {}), ("int", mid + (mid - t0), {}), ("int", None, {})]}[plan]
            sc = loopsim.Scenario(cls, [("new", t0, tf, dt)] + ops, rhs=auto_rhs, y0=np.array([1.0, 0.3]))
            try:
                sc.run_impl()
            except loopsim.BudgetExceeded:
                continue
            inp = dict(kind="fixed-step-calls", method=name, t0=t0, tf=tf, dt=dt, plan=plan, ops=[list(map(str, o)) for o in sc.ops])
            cur = abs(dt)
            t_now = t0
            for op, rec in zip(sc.ops, sc.records):
                if op[0] == "reset":
                    t_now = t0
                    cur = abs(dt)         # reset() restores the step given to the constructor
                if op[0] != "int":
                    continue
                target = tf if op[1] is None else op[1]
                dist = abs(target - t_now)
                if not rec["log"]:
                    # a call to a target that is a whole step or more away must take steps
                    ctx.oracle("requests-equal-dt-across-calls", dist < 1e-9, dict(inp, call_target=target, start=t_now, step_in_force=cur), key="call-takes-no-step",
                               what="integrate(%r) from %r made no request to the integrator although the target is %.3g away" % (target, t_now, dist))
                    continue
                hs = [e["h"] for e in rec["log"]]
                # the step in force is the requested one; only a call whose whole span is shorter than it halves it to half that span
                expected = cur if cur <= dist else 0.5 * dist
                first = abs(hs[0])
                ok = abs(first - expected) <= 4e-16 * max(1.0, expected) and all(abs(h) == first for h in hs[:-1]) and abs(hs[-1]) <= first * (1 + 1e-15)
                ctx.oracle("requests-equal-dt-across-calls", ok, dict(inp, requests=hs[:5] + hs[-2:], step_in_force=cur, expected_first_request=expected),
                           what="call to %s requested steps %s although the step in force was %r (expected first request %r)" % (target, [round(h, 6) for h in hs[:4]], cur, expected))
                cur = expected
                t_now = rec["t"][-1]
            scs.append(sc)
            lines.append(sc.model_line())
            ctx.count("calls:" + plan)
            ctx.nontrivial((name, t0, tf, dt, plan))
    outs = ctx.driver(lines)
    for sc, o in zip(scs, outs):
        sc.compare(ctx, o, "loop")
    ctx.sample(dict(method=scs[0].method.__name__, ops=str(scs[0].ops), requests=[e["h"] for e in scs[0].records[-1]["log"]][:5]))
    # implicit methods without an embedded estimator: may only shorten a step (Newton failure)
    for name in FIXED_IMPLICIT:
        cls = getattr(I, name)
        for _ in range(1 if ctx.quick() else 4):
            pat, t0, tf, dt = span(rng)
            dt = dt / 4
            sc = loopsim.Scenario(cls, [("new", t0, tf, dt), ("int", None, {})], rhs=auto_rhs, y0=np.array([1.0, 0.3]))
            try:
                sc.run_impl()
            except loopsim.BudgetExceeded:
                continue
            rec = sc.records[-1]
            hs = [e["h"] for e in rec["log"]]
            grew = any(abs(h) > abs(dt) * (1 + 1e-12) for h in hs)
            ctx.oracle("implicit-never-longer", not grew, dict(kind="fixed-step-implicit", method=name, t0=t0, tf=tf, dt=dt, requests=hs[:6]),
                       key="implicit-fixed-step-grows",
                       what="%s requested steps %s although dt=%r" % (name, [round(h, 6) for h in hs[:5]], dt))
            ctx.count("implicit:" + name)
    # shift and reflection invariance of the states
    for name in FIXED_EXPLICIT + ADAPTIVE:
        cls = getattr(I, name)
        adaptive = name in ADAPTIVE
        for _ in range(2 if ctx.quick() else 12):
            pat, t0, tf, dt = span(rng)
            c = rng.choice([-7.5, 3.25, 100.0, -0.37, 1e3])
            kw = dict(rtol=1e-9, atol=1e-11) if adaptive else {}

            def solve(a, b, f, dt=dt):
                o = de.OdeSystem(f, y0=np.array([1.0, 0.3]), t=(a, b), dt=dt, **kw)
                o.method = cls
                o.integrate()
                return np.array(o.t), np.array(o.y)
            try:
                T0, Y0 = solve(t0, tf, auto_rhs)
                T1, Y1 = solve(t0 + c, tf + c, auto_rhs)
                T2, Y2 = solve(-t0, -tf, lambda t, y: -auto_rhs(-t, y))
            except Exception as e:
                ctx.oracle("shift-run", False, dict(kind="shift", method=name, t0=t0, tf=tf, dt=dt, c=c), what="run raised %r" % (e,))
                continue
            scale = max(1.0, float(np.max(np.abs(Y0))))
            tol = (1e-6 if adaptive else 1e-10) * scale
            inp = dict(kind="shift", method=name, t0=t0, tf=tf, dt=dt, c=c)
            if adaptive:
                ok_s = abs(len(T1) - len(T0)) <= max(2, len(T0) // 10) and float(np.max(np.abs(Y1[-1] - Y0[-1]))) <= tol
                ok_r = float(np.max(np.abs(Y2[-1] - Y0[-1]))) <= tol
            else:
                # rounding may split the last step into a step and a sliver (or merge them): compare the common part and the end state
                def same(Ta, Ya, Tb, Yb, tmap):
                    n = min(len(Ta), len(Tb)) - 1
                    if abs(len(Ta) - len(Tb)) > 1:
                        return False
                    if len(Ta) != len(Tb):
                        longer = Ta if len(Ta) > len(Tb) else Tb
                        if abs(longer[-1] - longer[-2]) > 1e-9 * abs(dt):
                            return False
                    return (float(np.max(np.abs(Ya[:n] - Yb[:n]))) <= tol and float(np.max(np.abs(Ya[-1] - Yb[-1]))) <= tol
                            and float(np.max(np.abs(tmap(Tb[:n]) - Ta[:n]))) <= 64 * np.spacing(abs(c) + abs(t0) + abs(tf)))
                ok_s = same(T0, Y0, T1, Y1, lambda t: t - c)
                ok_r = same(T0, Y0, T2, Y2, lambda t: -t)
            ctx.oracle("shift-invariance", ok_s, inp, what="states on the shifted span differ (steps %d vs %d)" % (len(T0), len(T1)))
            ctx.oracle("reflection-invariance", ok_r, inp, what="states of the time-reflected problem differ (steps %d vs %d)" % (len(T0), len(T2)))
            ctx.count("shift:" + ("adaptive" if adaptive else "fixed"))
            ctx.nontrivial(("s", name, t0, tf, dt, c))

    # whole fixed-step runs with states against the Lean whole-run model DV.Run (own random stream: the scenarios above keep theirs)
    import random as _random, runsim
    runsim.whole_run_block(ctx, _random.Random(ctx.seed * 7919 + 4), 3 if ctx.quick() else 24)


def replay(rep):
    return False
