"""C02 - one step equals the Runge-Kutta update defined by the method's coefficients."""
import math
from fractions import Fraction as Fr
import impl, polyrhs
from impl import np, de, I, DS, q, qlist

ID = "C02"
LEAN_TARGETS = ["DVP.Properties.C02"]
PROPERTY_FILES = ["DVP/Properties/C02.lean"]
RULE = ("every shipped method x seeded polynomial right-hand sides (time dependent, dimension 1..4, shapes (n,) and (2,2)), random (t, y, h) "
        "with h of either sign, float32/float64/longdouble: the real integrator.step (stages, increment, final slope, error estimate) vs the "
        "exact rational value of the Lean model and vs the Runge-Kutta definition evaluated independently in exact arithmetic, under a "
        "forward error bound; for implicit methods the returned stages are substituted into the stage equations exactly; splitting methods "
        "with random kick masks. non-trivial = method with >= 2 stages and a right-hand side that depends on y; distinct by (method, dtype, rhs, t, y, h)")
ASSUMPTIONS = ["floating-point forward error of the vector kernels is bounded by 2000 eps(dtype) x the magnitude of the terms (not formalised)",
               "polynomial right-hand sides (exactly evaluable) stand for arbitrary right-hand sides; the theorems quantify over every f"]


def ff(x):
    """float of a (possibly astronomically large) rational"""
    try:
        return float(x)
    except OverflowError:
        return math.inf if x > 0 else -math.inf


def frs(a):
    return [Fr(float(x)) if np.asarray(x).dtype != np.longdouble else Fr(*[int(v) for v in np.longdouble(x).as_integer_ratio()]) for x in np.reshape(a, (-1,))]


def tab_exact(cls):
    ti = np.asarray(cls.tableau_intermediate, dtype=np.float64)
    c = [Fr(float(x)) for x in ti[:, 0]]
    A = [[Fr(float(x)) for x in r[1:]] for r in ti]
    bs = [[Fr(float(x)) for x in r[1:]] for r in np.asarray(cls.tableau_final, dtype=np.float64)]
    return c, A, bs


def spec_explicit(cls, rhs, t, y, h):
    """the Runge-Kutta definition, evaluated exactly and independently of the Lean model"""
    c, A, bs = tab_exact(cls)
    s = len(c)
    ks = []
    for i in range(s):
        yi = [y[d] + h * sum(A[i][j] * ks[j][d] for j in range(i)) for d in range(len(y))]
        ks.append(rhs.exact(t + c[i] * h, yi))
    inc = [h * sum(bs[0][i] * ks[i][d] for i in range(s)) for d in range(len(y))]
    return ks, inc


def close(a, b, scale, T):
    eps = float(np.finfo(T).eps)
    return all(abs(ff(x) - ff(y)) <= 2000 * eps * scale for x, y in zip(a, b))


def gen_case(rng, s, T):
    n = rng.choice([1, 2, 2, 3, 4])
    shape = (2, 2) if (n == 4 and rng.random() < 0.5) else (n,)
    maxdeg = 2 if s <= 7 else 1
    rhs = polyrhs.random_poly(rng, n, max_deg=maxdeg, shape=shape)
    t = Fr(rng.randint(-16, 16), 8)
    y = [Fr(rng.randint(-16, 16), 16) for _ in range(n)]
    h = Fr(rng.choice([1, 2, 3, 5]), rng.choice([8, 16, 32])) * rng.choice([1, -1])
    return n, shape, rhs, t, y, h


def explicit_block(ctx, rng):
    lines, cases = [], []
    methods = [c for c in I.explicit_methods() if hasattr(c, "tableau_final") and c.tableau_final is not None]
    reps = 6 if ctx.quick() else 40
    for cls in methods:
        s = np.asarray(cls.tableau_intermediate).shape[0]
        for T in (np.float64, np.float32, np.longdouble):
            for _ in range(reps if T is np.float64 else max(1, reps // 2)):
                n, shape, rhs, t, y, h = gen_case(rng, s, T)
                if s > 20 and T is not np.float64:
                    continue
                integ = cls(shape, dtype=T)
                y_np = np.reshape(np.array([float(v) for v in y], dtype=T), shape)
                # leave something in the stage storage: an earlier step from elsewhere
                integ.step(rhs, T(0.25), y_np * T(0.5) + T(0.125), {}, T(0.0625))
                st0 = np.array(integ.stage_values)
                res = integ.step(rhs, T(float(t)), y_np, {}, T(float(h)))
                dS = np.array(integ.dState)
                est = np.array(integ.get_error_estimate()) if np.asarray(cls.tableau_final).shape[0] == 2 else None
                st0_flat = []
                for i in range(s):
                    st0_flat += frs(st0[..., i])
                lines.append("rkstep %s %d %s %s %s %s %s" % (cls.__name__, n, rhs.proto(), q(t), qlist(y), q(h), qlist(st0_flat)))
                cases.append((cls, T, n, shape, rhs, t, y, h, dS, np.array(integ.final_rhs), np.array(integ.stage_values), est, float(res[1][0])))
    outs = ctx.driver(lines)
    for (cls, T, n, shape, rhs, t, y, h, dS, frhs, stg, est, dT), o in zip(cases, outs):
        name = cls.__name__
        inp = dict(kind="explicit-step", method=name, dtype=np.dtype(T).name, rhs=rhs.proto(), t=str(t), y=[str(v) for v in y], h=str(h), shape=list(shape))
        toks = o.split()
        if len(toks) != 5:
            ctx.corr("rk-step", False, dict(inp, model=o[:200]))
            continue
        m_d = [Fr(x) for x in toks[0].split(",")]
        m_f = [Fr(x) for x in toks[1].split(",")]
        m_s = [Fr(x) for x in toks[2].split(",")]
        m_e = [Fr(x) for x in toks[3].split(",")]
        s = stg.shape[-1]
        impl_stages = []
        for i in range(s):
            impl_stages += [float(v) for v in np.reshape(stg[..., i], (-1,))]
        scale = max([1.0] + [abs(float(v)) for v in m_s] + [abs(float(v)) for v in y])
        okc = close(np.reshape(dS, (-1,)), m_d, scale * abs(float(h)) * s, T) and close(np.reshape(frhs, (-1,)), m_f, max([scale] + [abs(ff(v)) for v in m_f]) * s, T) and close(impl_stages, m_s, scale * s, T)
        if est is not None:
            okc = okc and close(np.reshape(est, (-1,)), m_e, scale * s, T)
        ctx.corr("rk-step", okc and dT == float(T(float(h))), dict(inp, impl_dState=[float(v) for v in np.reshape(dS, (-1,))], model_dState=[float(v) for v in m_d]))
        ks, inc = spec_explicit(cls, rhs, t, y, h)
        flat_ks = [v for k in ks for v in k]
        ctx.oracle("increment-is-rk-update", close(np.reshape(dS, (-1,)), inc, scale * abs(float(h)) * s, T), inp,
                   what="increment %s differs from h*sum(b_i k_i) = %s" % ([float(v) for v in np.reshape(dS, (-1,))], [float(v) for v in inc]))
        ctx.oracle("stages-satisfy-recursion", close(impl_stages, flat_ks, scale * s, T), inp, what="stage slopes differ from k_i = f(t + c_i h, y + h sum a_ij k_j)")
        if s >= 2 and any(any(e) for (_, _, _, e) in rhs.terms):
            ctx.nontrivial((name, np.dtype(T).name, rhs.proto(), str(t), str(h)))
        ctx.count("explicit:" + np.dtype(T).name)
    ctx.sample(dict(kind="explicit-step", op=lines[0][:240], model=outs[0][:200]))


def call_sequence_block(ctx, rng):
    """the same integrator object driven through __call__ from chained and from unrelated states (as the
    system does after an event roll-back, a rejected step or a user-driven restart)"""
    lines, cases = [], []
    methods = [c for c in I.explicit_methods() if hasattr(c, "tableau_final") and c.tableau_final is not None]
    for cls in methods:
        s = np.asarray(cls.tableau_intermediate).shape[0]
        if s > 20 and ctx.quick():
            continue
        for rep in range(2 if ctx.quick() else 10):
            n = rng.choice([1, 2, 3])
            # two right-hand sides selected by a constant: a change of `constants` between two chained calls changes the slopes
            rhs_by_mode = [polyrhs.random_poly(rng, n, max_deg=2 if s <= 7 else 1), polyrhs.random_poly(rng, n, max_deg=2 if s <= 7 else 1)]
            rhs = rhs_by_mode[0]
            mode = 0
            T = np.float64
            integ = cls((n,), dtype=T, rtol=1e-1, atol=1e-1)
            f = DS.DiffRHS(lambda t, y, m=0: rhs_by_mode[int(m)](t, y))
            t = Fr(rng.randint(-8, 8), 8)
            y = [Fr(rng.randint(-16, 16), 16) for _ in range(n)]
            # (a second chained call really continues from the first one's end: whatever the integrator carries over is in use
            # when the following call starts somewhere else)
            plan = ["chain", "chain", "jump", "same-start-other-step", "chain", "chain-new-constants", "chain", "jump", "chain-new-constants", "chain"]
            y_np = np.array([float(v) for v in y], dtype=T)
            t_np = T(float(t))
            for kind in plan:
                h = Fr(rng.choice([1, 2, 3]), rng.choice([16, 32])) * rng.choice([1, -1])
                if kind == "jump":
                    t_np = T(rng.randint(-8, 8) / 8.0)
                    y_np = np.array([rng.randint(-16, 16) / 16.0 for _ in range(n)], dtype=T)
                if kind == "chain-new-constants":
                    mode = 1 - mode
                    rhs = rhs_by_mode[mode]
                try:
                    new_dt, (dT, dY) = integ(f, t_np, y_np.copy(), dict(m=mode), T(float(h)))
                except Exception as e:
                    break
                lines.append("rkstep %s %d %s %s %s %s -" % (cls.__name__, n, rhs.proto(), q(Fr(float(t_np))), qlist(frs(y_np)), q(Fr(float(dT)))))
                cases.append((cls, kind, rhs, float(t_np), [float(v) for v in y_np], float(dT), np.array(dY), s))
                if kind != "same-start-other-step":
                    pass
                if kind in ("chain", "jump", "chain-new-constants"):
                    keep_t, keep_y = t_np, y_np.copy()
                    t_np = T(t_np + dT)
                    y_np = y_np + dY
                if kind == "jump":
                    # next: restart from the state before this step with another step size
                    t_np, y_np = keep_t, keep_y
    outs = ctx.driver(lines)
    for (cls, kind, rhs, t, y, dT, dY, s), o in zip(cases, outs):
        toks = o.split()
        inp = dict(kind="call-sequence", method=cls.__name__, call=kind, rhs=rhs.proto(), t=t, y=y, accepted_step=dT)
        if len(toks) != 5:
            ctx.corr("call-sequence", False, dict(inp, model=o[:200]))
            continue
        m_d = [Fr(x) for x in toks[0].split(",")]
        m_s = [Fr(x) for x in toks[2].split(",")]
        scale = max([1.0] + [abs(float(v)) for v in m_s] + [abs(v) for v in y]) * s
        ok = close(dY, m_d, scale * abs(dT), np.float64)
        ctx.corr("call-sequence", ok, dict(inp, impl=[float(v) for v in dY], model=[float(v) for v in m_d]))
        ctx.oracle("increment-is-rk-update-through-call", ok, inp,
                   what="__call__ (%s) returned increment %s, the Runge-Kutta update for the accepted step is %s" % (kind, [float(v) for v in dY], [float(v) for v in m_d]))
        ctx.count("call:" + kind)


def implicit_block(ctx, rng):
    lines, cases = [], []
    reps = 3 if ctx.quick() else 20
    for cls in I.implicit_methods():
        s = np.asarray(cls.tableau_intermediate).shape[0]
        for T in (np.float64, np.longdouble):
            if T is np.longdouble and (ctx.quick() and rng.random() < 0.6):
                continue
            for rep_i in range(reps + 2):
                n = rng.choice([1, 2, 3])
                # (the last two cases of each method are steep: L|h| ~ 1e2..1e4, where a nonlinear solver may stop on a tiny update
                # while the stage equations are still far from solved)
                steep = rep_i >= reps
                rhs = polyrhs.random_poly(rng, n, max_deg=2, scale=0.5) if not steep else polyrhs.random_poly(rng, n, max_deg=2, scale=rng.choice([1024, 8192, 65536]))
                t = Fr(rng.randint(-8, 8), 8)
                y = [Fr(rng.randint(-8, 8), 16) for _ in range(n)]
                h = Fr(rng.choice([1, 2, 3]), rng.choice([16, 32])) * rng.choice([1, -1])
                tol = 1e-9 if T is np.float64 else 1e-12
                integ = cls((n,), dtype=T, rtol=tol, atol=tol)
                f = DS.DiffRHS(rhs)
                f.jac = rhs.jac
                y_np = np.array([float(v) for v in y], dtype=T)
                try:
                    integ.initial_rhs = f(T(float(t)), y_np)
                    integ.step(f, T(float(t)), y_np, {}, T(float(h)))
                except Exception as e:
                    if steep:
                        # (singular stage matrix / overflow on a steep problem: __call__ retries such a step in higher precision or shorter)
                        ctx.count("implicit:steep:step-raised:" + type(e).__name__)
                        continue
                    ctx.oracle("implicit-step-runs", False, dict(kind="implicit-step", method=cls.__name__, rhs=rhs.proto()), what="step raised %r" % (e,))
                    continue
                flag = bool(integ.solver_dict["newton_iteration_success"])
                stg = np.array(integ.stage_values)
                if not np.all(np.isfinite(stg.astype(np.float64))):
                    # non-finite stages: must not be flagged as converged; nothing to substitute into the stage equations
                    ctx.oracle("accepted-stages-solve-equations", not flag, dict(kind="implicit-step", method=cls.__name__, rhs=rhs.proto()), what="step with non-finite stages flagged as converged")
                    ctx.count("implicit:non-finite-stages")
                    continue
                flat = []
                for i in range(s):
                    flat += frs(stg[..., i])
                lines.append("stageres %s %d %s %s %s %s %s" % (cls.__name__, n, rhs.proto(), q(t), qlist(y), q(h), qlist(flat)))
                cases.append((cls, T, rhs, t, y, h, flag, np.array(integ.dState), tol, n))
    outs = ctx.driver(lines)
    for (cls, T, rhs, t, y, h, flag, dS, tol, n), o in zip(cases, outs):
        inp = dict(kind="implicit-step", method=cls.__name__, dtype=np.dtype(T).name, rhs=rhs.proto(), t=str(t), y=[str(v) for v in y], h=str(h), tol=tol)
        toks = o.split()
        if len(toks) != 2:
            ctx.corr("implicit-step", False, dict(inp, model=o[:200]))
            continue
        res = ff(Fr(toks[0]))
        m_d = [Fr(x) for x in toks[1].split(",")]
        desired = 0.5 * (tol + tol * max(abs(float(v)) for v in y))
        # (the increment of an UNCONVERGED step on a steep problem is a difference of huge stage values: cancellation, not comparable)
        steep_case = max(abs(k) for (_, k, _, _) in rhs.terms) > 100
        if steep_case and not flag:
            ctx.count("implicit:steep:unconverged-increment-not-compared")
        else:
            ctx.corr("implicit-increment", close(dS, m_d, max(1.0, max(abs(ff(v)) for v in m_d)) * 10, T), dict(inp, impl=[float(v) for v in dS], model=[ff(v) for v in m_d]))
        if flag:
            ctx.oracle("accepted-stages-solve-equations", res <= 50 * desired * math.sqrt(n * len(m_d)) + 1e-13, dict(inp, residual=res, desired_tol=desired),
                       what="step flagged converged but the stage equations have residual %.3e (solver tolerance %.3e)" % (res, desired))
        ctx.count("implicit:%s:%s:%s" % (np.dtype(T).name, "steep" if max(abs(k) for (_, k, _, _) in rhs.terms) > 100 else "mild", "converged" if flag else "not-converged"))
        ctx.nontrivial((cls.__name__, np.dtype(T).name, rhs.proto(), str(h)))
    if lines:
        ctx.sample(dict(kind="implicit-step", op=lines[0][:240], model=outs[0][:120]))


def shape_block(ctx, rng):
    """the state may have any shape: a step on a matrix-valued state equals the step on the flattened state"""
    for cls in I.implicit_methods() + [I.RK4Solver, I.RK45CKSolver, I.DOPRI45]:
        if cls.__name__ == "RadauIIA19" and ctx.quick():
            continue
        for shape in ([(2, 2), (2, 3)] if ctx.quick() else [(2, 2), (2, 3), (3, 1), (1, 2, 2)]):
            n = int(np.prod(shape))
            rhs = polyrhs.random_poly(rng, n, max_deg=2, scale=0.3)
            t0 = np.float64(rng.randint(-8, 8) / 8.0)
            yv = np.array([rng.randint(-8, 8) / 16.0 for _ in range(n)])
            h = np.float64(rng.choice([1, 2, 3]) / rng.choice([16.0, 32.0]) * rng.choice([1, -1]))
            inp = dict(kind="state-shape", method=cls.__name__, shape=list(shape), rhs=rhs.proto(), t=float(t0), y=yv.tolist(), h=float(h))
            res = []
            try:
                for shp in ((n,), shape):
                    f = DS.DiffRHS(lambda t, y, shp=shp: np.asarray(rhs(t, np.reshape(y, (-1,))), dtype=np.float64).reshape(shp))
                    integ = cls(shp, dtype=np.float64, rtol=1e-10, atol=1e-10)
                    y0 = yv.reshape(shp).copy()
                    integ.initial_rhs = f(t0, y0)
                    integ.step(f, t0, y0, {}, h)
                    ok = bool(integ.solver_dict.get("newton_iteration_success", True)) if integ.is_implicit else True
                    res.append((np.array(integ.dState).reshape(-1), ok))
            except Exception as e:
                ctx.oracle("step-on-any-state-shape", False, inp, what="step on a state of shape %s raised %r" % (shape, e))
                continue
            (dv, okv), (dm, okm) = res
            if not (okv and okm):
                ctx.count("shape:not-converged")
                continue
            err = float(np.max(np.abs(dv - dm)))
            ctx.oracle("step-on-any-state-shape", err <= 1e-8 * max(1.0, float(np.max(np.abs(dv)))), dict(inp, difference=err),
                       what="the increment of a step on a state of shape %s differs from the step on the flattened state by %.2e" % (shape, err))
            ctx.count("shape:%s" % (shape,))
            ctx.nontrivial((cls.__name__, "shape", shape, float(h)))


class Recorder:
    pass


def acceptance_block(ctx, rng):
    """through __call__: a step whose Newton flag is false is never handed back"""
    for cls in [I.BackwardEuler, I.GaussLegendre4, I.RadauIIA5, I.CrankNicolson, I.LobattoIIIC4]:
        for rep in range(4 if ctx.quick() else 30):
            log = []

            class Rec(cls):
                def step(self, rhs, t, y, c, h, log=log):
                    r = super().step(rhs, t, y, c, h)
                    log.append((float(h), bool(self.solver_dict["newton_iteration_success"])))
                    return r
            stiff = 10.0 ** rng.uniform(0, 4)

            def f(t, y, stiff=stiff):
                return np.array([-stiff * (y[0] ** 3 - np.cos(t)), y[0] - y[1]])
            integ = Rec((2,), dtype=np.float64, rtol=1e-8, atol=1e-10)
            integ.solver_dict["newton_iterations"] = rng.choice([1, 2, 32])
            integ.solver_dict_keep_keys.add("newton_iterations")
            fr = DS.DiffRHS(f)
            inp = dict(kind="acceptance", method=cls.__name__, stiffness=stiff, newton_iterations=integ.solver_dict["newton_iterations"])
            try:
                dt, (dT, dY) = integ(fr, np.float64(0.0), np.array([2.0, 0.5]), {}, np.float64(rng.choice([0.5, 0.1, 2.0])))
                ok = len(log) > 0 and log[-1][1] is True and float(dT) == log[-1][0]
                ctx.oracle("only-converged-steps-accepted", ok, dict(inp, attempts=log[-4:]), what="__call__ returned a step whose stage solve had not converged: %s" % (log[-3:],))
                ctx.count("acceptance:returned-after-%d-attempts" % min(len(log), 5))
            except de.exception_types.FailedToMeetTolerances:
                ctx.oracle("raise-only-after-all-retries", len(log) == 65 and not log[-1][1] or len(log) == 65, dict(inp, attempts=len(log)), what="FailedToMeetTolerances after %d attempts" % len(log))
                ctx.count("acceptance:raised")
            except Exception as e:
                ctx.count("acceptance:other-exception")


def unsolvable_block(ctx, rng):
    """through __call__ on stage equations that have NO solution however often the step is shortened (y' = 1 + y^2 at |y| ~ 1e8:
    solvable only for |h| < 1/(4|y|), out of reach of 64 shortenings by 0.8): the step must be refused, never handed back"""
    for cls in I.implicit_methods():
        for rep in range(1 if ctx.quick() else 4):
            log = []

            class Rec(cls):
                def step(self, rhs, t, y, c, h, log=log):
                    r = super().step(rhs, t, y, c, h)
                    log.append((float(h), bool(self.solver_dict["newton_iteration_success"])))
                    return r
            y0 = np.array([rng.choice([1.0, -1.0]) * 10.0 ** rng.uniform(7.5, 9)])
            h = np.float64(rng.choice([1.0, 0.5]) * np.sign(y0[0]))        # toward the blow-up
            integ = Rec((1,), dtype=np.float64)
            inp = dict(kind="unsolvable-stage-equations", method=cls.__name__, y=y0.tolist(), h=float(h))
            if rep % 2 == 0 and cls.__name__ != "RadauIIA19":
                # a user's own step-size controller through the public `adaptation_fn` property (it holds the step): whoever proposes
                # the step sizes, an unsolved stage system is never handed back
                try:
                    ig2 = Rec((1,), dtype=np.float64)
                    n_before = len(log)
                    ig2.adaptation_fn = (lambda self_: (self_.solver_dict.get("timestep", 1.0) if self_.solver_dict and "timestep" in self_.solver_dict else 1.0, False))
                    inp2 = dict(inp, controller="user adaptation_fn holding the step")
                    try:
                        dt2, (dT2, dY2) = ig2(DS.DiffRHS(lambda t, y: 1.0 + y ** 2), np.float64(0.0), y0.copy(), {}, h)
                        mine = log[n_before:]
                        ok2 = len(mine) > 0 and mine[-1][1] is True and bool(np.all(np.isfinite(dY2)))
                        ctx.oracle("only-converged-steps-accepted", ok2, dict(inp2, attempts=len(mine), last=mine[-2:], dT=float(dT2)), key="unconverged-step-accepted-with-user-controller",
                                   what="with a user step controller __call__ handed back a step (dTime %r) whose stage solve had not converged" % (float(dT2),))
                        ctx.count("unsolvable-user-controller:returned")
                    except de.exception_types.FailedToMeetTolerances:
                        ctx.count("unsolvable-user-controller:refused")
                except Exception as e:
                    ctx.count("unsolvable-user-controller:setup-exception:" + type(e).__name__)
            try:
                dt, (dT, dY) = integ(DS.DiffRHS(lambda t, y: 1.0 + y ** 2), np.float64(0.0), y0.copy(), {}, h)
                ok = len(log) > 0 and log[-1][1] is True and bool(np.all(np.isfinite(dY)))
                ctx.oracle("only-converged-steps-accepted", ok, dict(inp, attempts=len(log), last=log[-2:], dT=float(dT)),
                           what="__call__ handed back a step (dTime %r) whose stage solve had not converged, after %d attempts" % (float(dT), len(log)))
                ctx.count("unsolvable:returned")
            except de.exception_types.FailedToMeetTolerances:
                ctx.count("unsolvable:refused")
            except Exception as e:
                ctx.count("unsolvable:other-exception:" + type(e).__name__)


def split_block(ctx, rng):
    lines, cases = [], []
    for cls in [I.SymplecticEulerSolver, I.BABs9o7HSolver, I.ABAs5o6HSolver]:
        for T in (np.float64, np.float32, np.longdouble):
            for _ in range(8 if ctx.quick() else 60):
                n = rng.choice([2, 4])
                rhs = polyrhs.random_poly(rng, n, max_deg=1)
                mask = [0] * (n // 2) + [1] * (n // 2) if rng.random() < 0.5 else [rng.randint(0, 1) for _ in range(n)]
                t = Fr(rng.randint(-8, 8), 8)
                y = [Fr(rng.randint(-16, 16), 16) for _ in range(n)]
                h = Fr(rng.choice([1, 3, 5]), rng.choice([8, 16])) * rng.choice([1, -1])
                integ = cls((n,), dtype=T, staggered_mask=np.array(mask, dtype=bool))
                y_np = np.array([float(v) for v in y], dtype=T)
                integ.step(rhs, T(float(t)), y_np, {}, T(float(h)))
                lines.append("splitstep %s %d %s %s %s %s %s" % (cls.__name__, n, ",".join(map(str, mask)), rhs.proto(), q(t), qlist(y), q(h)))
                cases.append((cls, T, np.array(integ.dState), float(integ.dTime), rhs, t, y, h, mask))
    outs = ctx.driver(lines)
    for (cls, T, dS, dT, rhs, t, y, h, mask), o in zip(cases, outs):
        inp = dict(kind="split-step", method=cls.__name__, dtype=np.dtype(T).name, rhs=rhs.proto(), t=str(t), y=[str(v) for v in y], h=str(h), kick_mask=mask)
        toks = o.split()
        m_d = [Fr(x) for x in toks[0].split(",")] if len(toks) == 2 else None
        scale = max([1.0] + [abs(float(v)) for v in (m_d or [])] + [abs(float(v)) for v in y]) * 20
        ok = m_d is not None and close(dS, m_d, scale, T) and dT == float(T(float(h)))
        ctx.corr("split-step", ok, dict(inp, impl=[float(v) for v in dS], model=o[:200]))
        # the stated composition, evaluated independently
        ti = np.asarray(cls.tableau_intermediate, dtype=np.float64)
        d = [Fr(0)] * len(y)
        tc = t
        for row in ti:
            a, b = Fr(float(row[1])), Fr(float(row[2]))
            fv = rhs.exact(tc, [yy + dd for yy, dd in zip(y, d)])
            tc = tc + h * a
            d = [dd + h * fvv * (b if m else a) for dd, fvv, m in zip(d, fv, mask)]
        ctx.oracle("split-is-composition", close(dS, d, scale, T), inp, what="splitting step differs from the composition of drift and kick sub-steps")
        ctx.count("split:" + np.dtype(T).name)
        ctx.nontrivial((cls.__name__, np.dtype(T).name, rhs.proto(), str(h), str(mask)))


def split_call_sequence_block(ctx, rng):
    """the splitting integrators through __call__, one object, chained and unrelated starts, the right-hand side changed between two
    chained calls (other `constants`): every returned increment is the model's composition step for the right-hand side OF THAT CALL"""
    lines, cases = [], []
    for cls in [I.SymplecticEulerSolver, I.BABs9o7HSolver, I.ABAs5o6HSolver]:
        for rep in range(2 if ctx.quick() else 12):
            n = rng.choice([2, 4])
            rhs_by_mode = [polyrhs.random_poly(rng, n, max_deg=1), polyrhs.random_poly(rng, n, max_deg=1)]
            mask = [0] * (n // 2) + [1] * (n // 2) if rng.random() < 0.5 else [rng.randint(0, 1) for _ in range(n)]
            T = np.float64
            integ = cls((n,), dtype=T, staggered_mask=np.array(mask, dtype=bool))
            f = lambda t, y, m=0: rhs_by_mode[int(m)](t, y)
            mode = 0
            t_np = T(rng.randint(-8, 8) / 8.0)
            y_np = np.array([rng.randint(-16, 16) / 16.0 for _ in range(n)], dtype=T)
            for kind in ["chain", "chain", "chain-new-constants", "chain", "jump", "chain-new-constants", "same-start-other-step", "chain"]:
                h = Fr(rng.choice([1, 3, 5]), rng.choice([8, 16])) * rng.choice([1, -1])
                if kind == "jump":
                    t_np = T(rng.randint(-8, 8) / 8.0)
                    y_np = np.array([rng.randint(-16, 16) / 16.0 for _ in range(n)], dtype=T)
                if kind == "chain-new-constants":
                    mode = 1 - mode
                rhs = rhs_by_mode[mode]
                try:
                    _, (dT, dY) = integ(f, t_np, y_np.copy(), dict(m=mode), T(float(h)))
                except Exception as e:
                    ctx.oracle("split-call-runs", False, dict(kind="split-call-sequence", method=cls.__name__, call=kind, error=repr(e)[:200]), what="__call__ raised %r" % (e,))
                    break
                lines.append("splitstep %s %d %s %s %s %s %s" % (cls.__name__, n, ",".join(map(str, mask)), rhs.proto(), q(Fr(float(t_np))), qlist(frs(y_np)), q(Fr(float(dT)))))
                cases.append((cls, kind, rhs, float(t_np), [float(v) for v in y_np], float(dT), np.array(dY), mask))
                if kind != "same-start-other-step":
                    t_np = T(t_np + dT)
                    y_np = y_np + dY
    outs = ctx.driver(lines)
    for (cls, kind, rhs, t, y, dT, dY, mask), o in zip(cases, outs):
        inp = dict(kind="split-call-sequence", method=cls.__name__, call=kind, rhs=rhs.proto(), t=t, y=y, accepted_step=dT, kick_mask=mask)
        toks = o.split()
        m_d = [Fr(x) for x in toks[0].split(",")] if len(toks) == 2 else None
        scale = max([1.0] + [abs(float(v)) for v in (m_d or [])] + [abs(v) for v in y]) * 20
        ok = m_d is not None and close(dY, m_d, scale, np.float64)
        ctx.corr("split-call-sequence", ok, dict(inp, impl=[float(v) for v in dY], model=o[:200]))
        ctx.oracle("increment-is-composition-step-through-call", ok, inp,
                   what="the increment returned by __call__ (%s call) is not the composition step of the right-hand side it was given" % kind)
        ctx.count("split-call:" + kind)


def run(ctx):
    explicit_block(ctx, ctx.rng)
    call_sequence_block(ctx, ctx.rng)
    implicit_block(ctx, ctx.rng)
    shape_block(ctx, ctx.rng)
    acceptance_block(ctx, ctx.rng)
    unsolvable_block(ctx, ctx.rng)
    split_call_sequence_block(ctx, ctx.rng)
    split_block(ctx, ctx.rng)

    # the increment through whole runs (own random stream): adaptive explicit methods, every recorded step is one step of the scheme
    import random as _random, runsim
    runsim.adaptive_steps_block(ctx, _random.Random(ctx.seed * 7919 + 2), 2 if ctx.quick() else 10)



def replay(rep):
    return False
