"""C16 - Jacobians are the true derivative, from the user's function when one is given."""
import math
import impl
from impl import np, de, I, DS, U

ID = "C16"
LEAN_TARGETS = ["DVP.Properties.C16"]
PROPERTY_FILES = ["DVP/Properties/C16.lean"]
RULE = ("(a) seeded op sequences on a real DiffRHS (jac(t, y) at varying t, hook, attribute assignment, unhook, set_jac_base_order; right-hand "
        "sides with and without their own jac attribute): who answered (tagged user functions) and at which times the right-hand side was "
        "evaluated, vs the Lean dispatch machine; (b) JacobianWrapper on smooth maps R^n -> R^m with arbitrary array shapes (non-square, "
        "multi-dimensional), points with components near 0 and large, all base orders: value vs the analytic Jacobian, layout [i..., j...], "
        "linear maps to rounding. non-trivial = sequence with >= 2 kinds of ops / non-linear map; distinct by ops / (map, shape, point, order)")
ASSUMPTIONS = ["accuracy on non-polynomial maps is a measurement: relative error 1e-6 with the default tolerances"]


class RHS:
    """time-dependent right-hand side recording the times it is evaluated at"""
    def __init__(self, with_attr):
        self.times = []
        if with_attr:
            self.jac = self._jac

    def __call__(self, t, y, **kw):
        self.times.append(float(t))
        return np.array([math.cos(t) * y[1] + y[0] ** 2, -(1.0 + t) * y[0] + 0.5 * y[1] * y[0], t * y[0] - y[1]])[:len(y)]

    def exact_jac(self, t, y):
        J = np.array([[2 * y[0], math.cos(t)], [-(1.0 + t) + 0.5 * y[1], 0.5 * y[0]]])
        return J

    def _jac(self, t, y, **kw):
        return np.full((2, 2), -777.0)       # tag value: "the attribute answered"


def dispatch_block(ctx, rng):
    lines, cases = [], []
    for i in range(300 if ctx.quick() else 3000):
        with_attr = rng.random() < 0.35
        u = RHS(with_attr)
        w = DS.DiffRHS(u)
        ops, answers = [], []
        # (two pairs of closely spaced times: a cache must compare times exactly)
        times = [0.0, 0.5, 1.25, 2.0, -1.0, 2.0 + 1.5e-5, 1000.0, 1000.004]
        for _ in range(rng.randint(1, 10)):
            r = rng.random()
            if r < 0.55:
                ti = rng.randrange(len(times))
                t = times[ti]
                y = np.array([rng.uniform(-1, 1), rng.uniform(-1, 1)])
                u.times = []
                try:
                    J = np.asarray(w.jac(t, y))
                    if np.all(J == -777.0):
                        ans = "attr"
                    elif J.shape == (2, 2) and np.all(J == np.floor(J)) and np.all(J >= 1000):
                        ans = "user%d" % int(J[0, 0] - 1000)
                    else:
                        ts = sorted(set(u.times))
                        ans = "fd" + (str(times.index(ts[0])) if len(ts) == 1 and ts[0] in times else "?%s" % ts)
                        # the derivative itself, at the requested time
                        ex = u.exact_jac(t, y)
                        ok = J.shape == (2, 2) and float(np.max(np.abs(J - ex))) <= 1e-6 * (1 + float(np.max(np.abs(ex))))
                        ctx.oracle("fd-jacobian-at-requested-time", ok, dict(kind="jac-ops", ops=list(ops) + ["j%d" % ti], t=t, y=[float(v) for v in y], got=J.tolist(), want=ex.tolist()),
                                   what="finite-difference Jacobian at t=%r differs from the derivative at that time (evaluated the rhs at times %s)" % (t, sorted(set(u.times))))
                except TypeError as e:
                    ans = "crash"
                except Exception as e:
                    ans = "exc:" + type(e).__name__
                ops.append("j%d" % ti)
                answers.append(ans)
            elif r < 0.75:
                tag = rng.randint(1, 50)
                fn = (lambda tag: (lambda t, y, **kw: np.full((2, 2), 1000.0 + tag)))(tag)
                if rng.random() < 0.5:
                    w.hook_jacobian_call(fn)
                else:
                    w.jac = fn
                ops.append("h%d" % tag)
            elif r < 0.9:
                w.unhook_jacobian_call()
                ops.append("u")
            else:
                # the model marks a wrapper built by set_jac_base_order as "raw"; it is only visible at t == 0.0
                w.set_jac_base_order(rng.choice([3, 5]))
                ops.append("o")
        lines.append("jacops %d %s" % (int(with_attr), ",".join(ops)))
        cases.append((with_attr, ops, answers, w.njev))
        kinds = set(o[0] for o in ops)
        if len(kinds) >= 2:
            ctx.nontrivial(("ops", with_attr, tuple(ops)))
        for k in kinds:
            ctx.count("op:" + k)
    outs = ctx.driver(lines)
    for (with_attr, ops, answers, njev), o in zip(cases, outs):
        toks = o.split()
        model = [] if toks[0] == "-" else [a.replace("raw", "") for a in toks[0].split(",")]
        ctx.corr("jac-dispatch", model == answers and int(toks[1]) == njev, dict(rhs_has_jac=with_attr, ops=ops, impl=answers, impl_njev=njev, model=o))
        # the property: attached user function wins, else attribute, else finite differences at the requested time
        attached = None
        k = 0
        for op in ops:
            if op[0] == "h":
                attached = int(op[1:])
            elif op == "u":
                attached = None
            elif op[0] == "j":
                want = ("user%d" % attached) if attached is not None else ("attr" if with_attr else "fd" + op[1:])
                ctx.oracle("jacobian-source", answers[k] == want, dict(kind="jac-ops", rhs_has_jac=with_attr, ops=ops, request=k), what="request %d answered by %s, expected %s" % (k, answers[k], want))
                k += 1
    ctx.sample(dict(kind="jac-ops", op=lines[0], model=outs[0]))


def maps():
    """(name, f, jac, in_shape, out_shape)"""
    A = np.array([[1.0, -2.0, 0.5], [0.25, 3.0, -1.0]])
    B = np.arange(24.0).reshape(4, 2, 3) / 7.0 - 1.0
    return [
        ("linear-2x3", lambda y: A @ y + 1.0, lambda y: A, (3,), (2,)),
        ("linear-tensor", lambda y: np.tensordot(B, y, axes=([1, 2], [0, 1])), lambda y: B, (2, 3), (4,)),
        ("quadratic", lambda y: np.array([y[0] * y[1], y[1] ** 2 - y[2], y[0] + y[2] * y[0], y[2] ** 2]),
         lambda y: np.array([[y[1], y[0], 0], [0, 2 * y[1], -1], [1 + y[2], 0, y[0]], [0, 0, 2 * y[2]]]), (3,), (4,)),
        ("smooth", lambda y: np.array([np.sin(y[0]) * y[1], np.exp(0.3 * y[1]) + y[0] ** 3]),
         lambda y: np.array([[np.cos(y[0]) * y[1], np.sin(y[0])], [3 * y[0] ** 2, 0.3 * np.exp(0.3 * y[1])]]), (2,), (2,)),
        ("matrix-to-matrix", lambda y: y @ y.T, None, (2, 2), (2, 2)),
    ]


def accuracy_block(ctx, rng):
    for (name, f, jac, ishape, oshape) in maps():
        for order in ([2, 5] if ctx.quick() else [2, 3, 4, 5, 6, 8]):
            for rep in range(2 if ctx.quick() else 8):
                scale = rng.choice([1e-3, 1.0, 1.0, 30.0])
                y = np.array([rng.uniform(-1, 1) for _ in range(int(np.prod(ishape)))]).reshape(ishape) * scale
                if rng.random() < 0.3:
                    y.reshape(-1)[0] = 0.0
                inp = dict(kind="jacobian-wrapper", map=name, base_order=order, y=y.tolist())
                try:
                    J = np.asarray(U.JacobianWrapper(f, base_order=order, flat=False)(y))
                except Exception as e:
                    ctx.oracle("wrapper-runs", False, inp, what="JacobianWrapper raised %r" % (e,))
                    continue
                ctx.oracle("layout", J.shape == (*oshape, *ishape), dict(inp, shape=list(J.shape)), what="Jacobian has shape %s, expected %s" % (J.shape, (*oshape, *ishape)))
                if jac is not None:
                    ex = np.asarray(jac(y)).reshape((*oshape, *ishape))
                else:
                    ex = np.zeros((*oshape, *ishape))
                    for a in range(2):
                        for b in range(2):
                            for c in range(2):
                                for d in range(2):
                                    ex[a, b, c, d] = (y[b, d] if a == c else 0.0) + (y[a, d] if b == c else 0.0)
                if J.shape == ex.shape:
                    tol = (1e-9 if name.startswith("linear") else 1e-6) * (1 + float(np.max(np.abs(ex))))
                    err = float(np.max(np.abs(J - ex)))
                    ctx.oracle("derivative-accurate", err <= tol, dict(inp, err=err), what="entry [i..., j...] differs from d f_i / d y_j by %.2e" % err)
                # the fixed-depth path (adaptive=False: all Richardson levels, or a given number of them; richardson_iter=0 = the bare stencil)
                for ri in (4, 8, 0):
                    poly = name.startswith("linear") or name in ("quadratic", "matrix-to-matrix")
                    if ri == 0 and not poly:
                        continue        # the bare stencil (step sqrt(eps)) is only exact, up to rounding eps/step, for polynomials of degree <= base order
                    try:
                        Jn = np.asarray(U.JacobianWrapper(f, base_order=order, richardson_iter=ri, adaptive=False, flat=False)(y))
                    except Exception as e:
                        ctx.oracle("wrapper-runs", False, dict(inp, adaptive=False, richardson_iter=ri), what="JacobianWrapper(adaptive=False) raised %r" % (e,))
                        continue
                    if Jn.shape == ex.shape:
                        # truncation: exact for linear maps; rounding of a difference quotient with step h: ~ eps |f| / h, where the smallest
                        # step of the scheme is h = 0.5 * 4^-(ri-1) (sqrt(eps) for the bare stencil), which the code multiplies by |y_j| for
                        # components that are large or smaller than the step
                        hmin = {4: 0.5 * 4.0 ** -3, 8: 0.5 * 4.0 ** -7, 0: 2.0 ** -26}[ri]
                        ya = np.abs(y.reshape(-1))
                        steps = [hmin * v if (v > 1.0 or 0.0 < v < 0.5) else hmin for v in ya]
                        fmax = float(np.max(np.abs(np.asarray(f(y))))) + 1.0
                        rounding = 2000 * 2.0 ** -52 * fmax / min(steps)
                        rel = 1e-11 if name.startswith("linear") else {4: 1e-3, 8: 1e-5, 0: 1e-5}[ri]
                        tol = rel * (1 + float(np.max(np.abs(ex))) + float(np.max(ya))) + rounding
                        err = float(np.max(np.abs(Jn - ex)))
                        ctx.oracle("derivative-accurate", err <= tol, dict(inp, adaptive=False, richardson_iter=ri, err=err),
                                   what="adaptive=False, richardson_iter=%r: entry [i..., j...] differs from d f_i / d y_j by %.2e" % (ri, err))
                    ctx.count("fixed-depth:richardson_iter=%r" % (ri,))
                if not name.startswith("linear"):
                    ctx.nontrivial((name, order, tuple(float(v) for v in y.reshape(-1))))
                ctx.count("map:" + name)


def memory_layout_block(ctx, rng):
    """the same state handed over in different memory layouts (C order, Fortran order, a transposed view, a strided view): the Jacobian is
    a function of the values, not of how the caller's array is laid out in memory; through JacobianWrapper and through DiffRHS.jac"""
    import random as _random
    r = _random.Random(ctx.seed * 15485863 + 16)
    B = np.arange(24.0).reshape(4, 2, 3) / 7.0 - 1.0
    cases = [("linear-tensor", lambda y: np.tensordot(B, y, axes=([1, 2], [0, 1])), (2, 3)),
             ("matrix-to-matrix", lambda y: y @ y.T, (2, 2)),
             ("cubic-3x2", lambda y: np.array([np.sum(y ** 3), y[0, 1] * y[2, 0], np.sin(y[1, 1])]), (3, 2))]
    for (name, f, ishape) in cases:
        for rep in range(2 if ctx.quick() else 6):
            y = np.array([r.uniform(-1, 1) for _ in range(int(np.prod(ishape)))]).reshape(ishape)
            big = np.zeros((2 * ishape[0], 2 * ishape[1])); big[::2, ::2] = y
            layouts = [("fortran", np.asfortranarray(y)), ("transposed-view", np.ascontiguousarray(y.T).T), ("strided-view", big[::2, ::2])]
            for order in (2, 5):
                ref = np.asarray(U.JacobianWrapper(f, base_order=order, flat=False)(np.ascontiguousarray(y)))
                for (lname, yl) in layouts:
                    inp = dict(kind="jacobian-wrapper-layout", map=name, base_order=order, layout=lname, y=y.tolist())
                    try:
                        J = np.asarray(U.JacobianWrapper(f, base_order=order, flat=False)(yl))
                    except Exception as e:
                        ctx.oracle("wrapper-runs", False, inp, what="JacobianWrapper raised %r on a %s state" % (e, lname))
                        continue
                    err = float(np.max(np.abs(J - ref))) if J.shape == ref.shape else float("inf")
                    ctx.oracle("derivative-accurate", err <= 1e-7 * (1 + float(np.max(np.abs(ref)))), dict(inp, err=err), key="jacobian-depends-on-memory-layout",
                               what="the Jacobian at a %s copy of the state differs from the one at the C-ordered state by %.2e" % (lname, err))
                    ctx.count("memory-layout:" + lname)
            # through the right-hand-side wrapper
            w = DS.DiffRHS(lambda t, y, f=f: (1.0 + t) * f(y))
            ref = np.asarray(w.jac(0.5, np.ascontiguousarray(y)))
            for (lname, yl) in layouts:
                inp = dict(kind="diffrhs-jac-layout", map=name, layout=lname, y=y.tolist())
                try:
                    J = np.asarray(DS.DiffRHS(lambda t, y, f=f: (1.0 + t) * f(y)).jac(0.5, yl))
                except Exception as e:
                    ctx.oracle("wrapper-runs", False, inp, what="DiffRHS.jac raised %r on a %s state" % (e, lname))
                    continue
                err = float(np.max(np.abs(J - ref))) if J.shape == ref.shape else float("inf")
                ctx.oracle("derivative-accurate", err <= 1e-7 * (1 + float(np.max(np.abs(ref)))), dict(inp, err=err), key="jacobian-depends-on-memory-layout",
                           what="DiffRHS.jac at a %s copy of the state differs from the one at the C-ordered state by %.2e" % (lname, err))


def column_model_block(ctx, rng):
    """JacobianWrapper.estimate against the Lean model of its column loop (DV.Jac.fdColumn on the regenerated stencils, driver command
    fdcol): polynomial maps R^n -> R^n with dyadic coefficients, dyadic points and steps, every base order; the model is exact, the
    implementation may differ by the rounding of a difference quotient"""
    import random as _random
    import polyrhs
    from impl import q, qlist
    from fractions import Fraction as Fr
    r = _random.Random(ctx.seed * 32452843 + 16)
    cases, lines = [], []
    for order in (2, 3, 4, 5, 6, 7, 8):
        for rep in range(2 if ctx.quick() else 10):
            n = r.choice([1, 2, 3])
            f = polyrhs.random_poly(r, n, max_deg=r.choice([1, 2, 3]), time_dep=False)
            y = [Fr(r.randint(-12, 12), 8) for _ in range(n)]
            dy = Fr(1, r.choice([4, 16, 64]))
            try:
                w = U.JacobianWrapper(lambda yy, f=f: f(0.0, yy), base_order=order, flat=True)
                J = np.atleast_2d(np.asarray(w.estimate(np.array([float(v) for v in y]), dy=float(dy)), dtype=np.float64))
            except Exception as e:
                ctx.oracle("wrapper-runs", False, dict(kind="fd-column", base_order=order, rhs=f.proto()), what="estimate raised %r" % (e,))
                continue
            for idx in range(n):
                cases.append((order, f, y, dy, idx, J[:, idx].copy()))
                lines.append("fdcol %d %d %s %s %d %s" % (order, n, f.proto(), qlist(y), idx, q(dy)))
    outs = ctx.driver(lines)
    for (order, f, y, dy, idx, col), o in zip(cases, outs):
        inp = dict(kind="fd-column", base_order=order, rhs=f.proto(), y=[str(v) for v in y], dy=str(dy), column=idx)
        try:
            m = [Fr(x) for x in o.split(",")]
        except Exception:
            ctx.corr("fd-column", False, dict(inp, model=o[:100])); continue
        fmax = max([1.0] + [abs(float(v)) for v in f.exact(0, y)])
        tol = 1e-13 * (fmax / float(dy)) * 50 + 1e-12 * max([1.0] + [abs(float(v)) for v in m])
        err = max(abs(float(Fr(float(a)) - b)) for a, b in zip(col, m)) if len(m) == len(col) else float("inf")
        ctx.corr("fd-column", err <= tol, dict(inp, impl=[float(v) for v in col], model=[float(v) for v in m], err=err, tol=tol))
        ctx.count("fd-column:order%d" % order)


def reuse_block(ctx, rng):
    """ONE JacobianWrapper object (and one DiffRHS) evaluated at a sequence of points of very different difficulty: the result at a
    point must not depend on what the same object evaluated before"""
    def f(x):
        return np.tanh(3.0 * x) + 0.1 * np.roll(x, -1)

    def jac(x):
        n = len(x)
        J = np.diag(3.0 / np.cosh(3.0 * x) ** 2)
        for i in range(n):
            J[i, (i + 1) % n] += 0.1
        return J
    for order in ([2, 3, 5] if ctx.quick() else [2, 3, 4, 5, 6, 8]):
        for rep in range(2 if ctx.quick() else 10):
            easy = np.array([rng.choice([-1, 1]) * rng.uniform(20, 40) for _ in range(3)])      # tanh saturated: trivially converged
            hard = [np.array([rng.uniform(-0.6, 0.6) for _ in range(3)]) for _ in range(3)]
            seq = [hard[0], easy, hard[1], easy, hard[2]]
            w = U.JacobianWrapper(f, base_order=order, flat=False, rtol=1e-8, atol=1e-8)
            for k, x in enumerate(seq):
                inp = dict(kind="jacobian-wrapper-reuse", base_order=order, position=k, x=x.tolist(), sequence=[v.tolist() for v in seq[:k]])
                try:
                    J = np.asarray(w(x))
                    Jf = np.asarray(U.JacobianWrapper(f, base_order=order, flat=False, rtol=1e-8, atol=1e-8)(x))
                except Exception as e:
                    ctx.oracle("wrapper-runs", False, inp, what="JacobianWrapper raised %r" % (e,))
                    break
                ex = jac(x)
                err, errf = float(np.max(np.abs(J - ex))), float(np.max(np.abs(Jf - ex)))
                ctx.oracle("derivative-accurate", err <= max(1e-6, 50 * errf), dict(inp, err=err, err_of_fresh_wrapper=errf),
                           what="reused wrapper: error %.2e at a point where a fresh wrapper has error %.2e" % (err, errf))
                ctx.count("reuse:position=%d" % k)
            ctx.nontrivial(("reuse", order, tuple(float(v) for v in easy)))
    # the same through DiffRHS.jac (autonomous right-hand side, same time): after a large state, a moderate one
    g = DS.DiffRHS(lambda t, y: f(y))
    for rep in range(3 if ctx.quick() else 20):
        easy = np.array([rng.choice([-1, 1]) * rng.uniform(20, 40) for _ in range(3)])
        x = np.array([rng.uniform(-0.6, 0.6) for _ in range(3)])
        g.jac(0.0, easy)
        J = np.asarray(g.jac(0.0, x))
        Jf = np.asarray(DS.DiffRHS(lambda t, y: f(y)).jac(0.0, x))
        ex = jac(x)
        err, errf = float(np.max(np.abs(J - ex))), float(np.max(np.abs(Jf - ex)))
        ctx.oracle("derivative-accurate", err <= max(1e-6, 50 * errf), dict(kind="diffrhs-jac-reuse", x=x.tolist(), before=easy.tolist(), err=err, err_of_fresh=errf),
                   what="DiffRHS.jac after a large state: error %.2e where a fresh object has %.2e" % (err, errf))


def implicit_block(ctx, rng):
    """through an OdeSystem with an implicit method: user Jacobian used when given, and the finite-difference one follows the time"""
    for with_jac in (True, False):
        calls = []

        def f(t, y):
            return np.array([-(2.0 + math.sin(3 * t)) * y[0] + y[1], -y[1] + math.cos(t)])

        def jf(t, y):
            calls.append(float(t))
            return np.array([[-(2.0 + math.sin(3 * t)), 1.0], [0.0, -1.0]])
        rhs = DS.DiffRHS(f)
        if with_jac:
            rhs.jac = jf
        o = de.OdeSystem(rhs, y0=np.array([1.0, 0.0]), t=(0.0, 1.0), dt=0.05, rtol=1e-7, atol=1e-9)
        o.set_method(I.RadauIIA5)
        o.integrate()
        from scipy.integrate import solve_ivp
        ref = solve_ivp(f, (0.0, 1.0), [1.0, 0.0], method="DOP853", rtol=1e-12, atol=1e-13).y[:, -1]
        err = float(np.max(np.abs(o.y[-1] - ref)))
        ctx.oracle("implicit-run-accurate", err <= 1e-4, dict(kind="implicit-jacobian", user_jacobian=with_jac, err=err), what="RadauIIA5 end state off by %.2e" % err)
        if with_jac:
            ctx.oracle("user-jacobian-used", len(calls) > 0 and o.njev == len(calls), dict(kind="implicit-jacobian", njev=o.njev, user_calls=len(calls)), what="user Jacobian called %d times, njev=%d" % (len(calls), o.njev))


def run(ctx):
    memory_layout_block(ctx, ctx.rng)
    column_model_block(ctx, ctx.rng)
    dispatch_block(ctx, ctx.rng)
    accuracy_block(ctx, ctx.rng)
    reuse_block(ctx, ctx.rng)
    implicit_block(ctx, ctx.rng)


def replay(rep):
    return False
