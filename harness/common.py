"""Shared machinery of the checks (DESIGN.md section 3.6): translator, lake build, axiom audit,
model driver, bookkeeping of correspondence / oracle results, evidence, decision rule."""
import fcntl, hashlib, json, os, random, re, subprocess, sys, time

VERIF = os.path.dirname(os.path.dirname(os.path.abspath(__file__)))
LEAN = os.path.join(VERIF, "lean")
REPO = os.environ.get("VERIF_REPO", "/repo")
PY = "/venv/bin/python"
ALLOWED_AXIOMS = {"propext", "Classical.choice", "Quot.sound"}
ENV = dict(os.environ)
ENV["PATH"] = "/usr/local/bin:" + ENV.get("PATH", "")

TRUSTED_BASE = [
    "Lean 4.33.0 kernel (lake build; leanchecker in the thorough tier)",
    "axioms propext, Classical.choice, Quot.sound (Mathlib); native_decide axioms only where listed per theorem",
    "tools/translate.py (regenerates the Lean data/definitions from /repo) and the Python harness that compares model and implementation",
    "IEEE-754 rounding, numpy/scipy internals and Python semantics of hand-modelled functions are modelled, not verified (DESIGN.md section 4)",
]


def sh(cmd, timeout=None, cwd=None, inp=None):
    p = subprocess.run(cmd, cwd=cwd, env=ENV, input=inp, capture_output=True, text=True, timeout=timeout)
    return p.returncode, p.stdout, p.stderr


class Lock:
    def __init__(self, path):
        self.path = path

    def __enter__(self):
        self.f = open(self.path, "w")
        fcntl.flock(self.f, fcntl.LOCK_EX)

    def __exit__(self, *a):
        fcntl.flock(self.f, fcntl.LOCK_UN)
        self.f.close()


def strip_lean_comments(src):
    out, i, depth, n = [], 0, 0, len(src)
    while i < n:
        if src.startswith("/-", i):
            depth += 1
            i += 2
        elif depth and src.startswith("-/", i):
            depth -= 1
            i += 2
        elif depth:
            i += 1
        elif src.startswith("--", i):
            j = src.find("\n", i)
            i = n if j < 0 else j
        else:
            out.append(src[i])
            i += 1
    return "".join(out)


FORBIDDEN = re.compile(r"\bsorry\b|\badmit\b|^\s*axiom\s|implemented_by|\bunsafe\s|maxHeartbeats\s+0\b", re.M)


def grep_forbidden(files):
    hits = []
    for f in files:
        try:
            src = strip_lean_comments(open(f).read())
        except FileNotFoundError:
            continue
        for m in FORBIDDEN.finditer(src):
            hits.append("%s: %s" % (os.path.relpath(f, LEAN), m.group(0).strip()))
    return hits


def lean_sources():
    res = []
    for root in ("DV", "DVP"):
        for d, _, fs in os.walk(os.path.join(LEAN, root)):
            for f in fs:
                if f.endswith(".lean"):
                    res.append(os.path.join(d, f))
    res.append(os.path.join(LEAN, "Driver.lean"))
    return res


# property theorems (private helper lemmas inside a property file are not obligations and cannot be named from outside)
THM_RE = re.compile(r"^\s*(?:@\[[^\]]*\]\s*)?(?:protected\s+)?theorem\s+([A-Za-z_][A-Za-z0-9_'.]*)", re.M)
NS_RE = re.compile(r"^\s*namespace\s+([A-Za-z0-9_.]+)", re.M)


def theorems_of(path):
    src = strip_lean_comments(open(path).read())
    ns = NS_RE.findall(src)
    prefix = ns[0] + "." if ns else ""
    return [prefix + t for t in THM_RE.findall(src)]


class Ctx:
    def __init__(self, pid, tier, seed):
        self.pid, self.tier, self.seed = pid, tier, seed
        self.rng = random.Random(seed * 1000003 + int(hashlib.sha256(pid.encode()).hexdigest()[:6], 16))
        self.t0 = time.time()
        self.corr_total = 0
        self.corr_fail = []          # model vs implementation disagreements
        self.oracle_total = 0
        self.violations = []         # property fails on the implementation: dict(key, what, input)
        self.known_hits = {}         # finding id -> what
        self.samples = []
        self.branches = {}
        self.distinct = set()
        self.notes = []
        self.lean = dict(translate=None, build=None, audit=None, theorems=[], axioms={}, forbidden=[])
        self.model_witness = []      # counterexamples exhibited by the model

    # ---- bookkeeping used by the property modules
    def count(self, branch, n=1):
        self.branches[branch] = self.branches.get(branch, 0) + n

    def sample(self, obj, limit=6):
        if len(self.samples) < limit:
            self.samples.append(obj)

    def nontrivial(self, key):
        self.distinct.add(key if isinstance(key, (str, int, tuple)) else json.dumps(key, sort_keys=True, default=str))

    def corr(self, name, ok, detail=None):
        """one comparison of the Lean model with the implementation"""
        self.corr_total += 1
        if not ok:
            self.corr_fail.append(dict(check=name, detail=detail))

    def oracle(self, name, ok, inp=None, key=None, what=None):
        """one evaluation of the executable statement of the property on the implementation"""
        self.oracle_total += 1
        self.last_oracle = (name, inp)
        if not ok:
            self.violations.append(dict(check=name, key=key or name, what=what or name, input=inp))

    def quick(self):
        return self.tier == "quick"

    # ---- Lean side
    def driver(self, lines):
        if not lines:
            return []
        exe = os.path.join(LEAN, ".lake/build/bin/dvdriver")
        rc, out, err = sh([exe], inp="\n".join(lines) + "\n", timeout=3600)
        if rc != 0:
            raise RuntimeError("driver failed: " + err[-400:])
        res = out.split("\n")
        if res and res[-1] == "":
            res.pop()
        if len(res) != len(lines):
            raise RuntimeError("driver returned %d lines for %d operations" % (len(res), len(lines)))
        return res


def translate():
    rc, out, err = sh([PY, "-W", "ignore", os.path.join(VERIF, "tools/translate.py")], timeout=600)
    last = [l for l in out.strip().split("\n") if l.startswith("{")]
    info = json.loads(last[-1]) if last else {"status": "translate-crash", "error": (err or out)[-600:]}
    info["rc"] = rc
    return info


def lake_build(targets, timeout=3000):
    t = time.time()
    rc, out, err = sh(["lake", "build"] + targets, cwd=LEAN, timeout=timeout)
    log = (out + err)
    errs = [l for l in log.split("\n") if l.startswith("error:") or " error: " in l][:20]
    return dict(ok=(rc == 0), seconds=round(time.time() - t, 1), errors=errs, log_tail=log[-3000:] if rc else "")


def audit(property_files, module_names, allow_native=()):
    """#print axioms for every theorem of the property files"""
    thms = []
    for f in property_files:
        thms += theorems_of(os.path.join(LEAN, f))
    os.makedirs(os.path.join(LEAN, "Audit"), exist_ok=True)
    name = "Audit_" + "_".join(m.split(".")[-1] for m in module_names) + ".lean"
    path = os.path.join(LEAN, "Audit", name)
    with open(path, "w") as fh:
        for m in module_names:
            fh.write("import %s\n" % m)
        for t in thms:
            fh.write("#print axioms %s\n" % t)
    rc, out, err = sh(["lake", "env", "lean", path], cwd=LEAN, timeout=1200)
    text = out + err
    axioms = {}
    for m in re.finditer(r"'([^']+)' depends on axioms: \[([^\]]*)\]", text):
        axioms[m.group(1)] = [a.strip() for a in m.group(2).replace("\n", " ").split(",") if a.strip()]
    for m in re.finditer(r"'([^']+)' does not depend on any axioms", text):
        axioms[m.group(1)] = []
    bad = {}
    for t in thms:
        if t not in axioms:
            bad[t] = "not found by #print axioms"
            continue
        extra = [a for a in axioms[t] if a not in ALLOWED_AXIOMS]
        extra = [a for a in extra if not any(a.startswith(p) for p in allow_native)]
        if extra:
            bad[t] = "unexpected axioms: " + ", ".join(extra)
    return dict(ok=(rc == 0 and not bad), theorems=thms, axioms=axioms, bad=bad,
                log_tail=text[-1500:] if (rc != 0 or bad) else "")


def project_imports(property_files):
    """the project's own modules (DV.*, DVP.*) that the given property files import, transitively"""
    seen, todo = [], [f[:-5].replace("/", ".") for f in property_files]
    while todo:
        m = todo.pop()
        if m in seen:
            continue
        path = os.path.join(LEAN, m.replace(".", "/") + ".lean")
        if not os.path.exists(path):
            continue
        seen.append(m)
        for line in open(path):
            line = line.strip()
            if line.startswith("import "):
                dep = line.split()[1]
                if dep == "DV" or dep.startswith(("DV.", "DVP.")):
                    todo.append(dep)
            elif line and not line.startswith(("--", "/-", "set_option")):
                break
    return seen


def leanchecker(property_files, timeout=3000):
    """independent re-check of the compiled .olean files of the property modules and of every project module they import"""
    mods = project_imports(property_files)
    t = time.time()
    rc, out, err = sh(["lake", "env", "leanchecker"] + mods, cwd=LEAN, timeout=timeout)
    return dict(ok=(rc == 0), modules=len(mods), seconds=round(time.time() - t, 1), log_tail=(out + err)[-600:] if rc else "")


def load_known():
    p = os.path.join(VERIF, "known_findings.json")
    if not os.path.exists(p):
        return dict(findings=[], fixed=[])
    return json.load(open(p))


def write_json(path, obj):
    os.makedirs(os.path.dirname(path), exist_ok=True)
    tmp = path + ".tmp"
    with open(tmp, "w") as f:
        json.dump(obj, f, indent=1, default=str)
    os.replace(tmp, path)
