"""Event scenarios shared by C06-C09: runs real OdeSystems with events, records what handle_events saw and
returned in every step (by wrapping the module's own function), replays the selection and the bookkeeping
through the Lean model, and evaluates the event properties on the results."""
import math
import impl
from impl import np, de, I, DS, D, OPT, fbits

EPS = float(D.epsilon(np.dtype(np.float64)))


def sgn(x):
    x = float(x)
    return -1 if x < 0 else (1 if x > 0 else 0)


class Spy:
    """wraps DS.handle_events: records the probes (recomputed exactly as the code samples them) and the outcome"""
    def __init__(self):
        self.steps = []

    def __enter__(self):
        self.orig = DS.handle_events
        spy = self

        def wrapped(sol_tuple, events, consts, direction, is_terminal, attributes):
            sol, t_prev, t_next = sol_tuple
            requires_dstate, = attributes
            out = spy.orig(sol_tuple, events, consts, direction, is_terminal, attributes)
            try:
                ev_f = []
                for ev, rds in zip(events, requires_dstate):
                    ev_f.append((lambda e, r: (lambda t: e(t, sol(t), sol.grad(t), **consts)) if r else (lambda t: e(t, sol(t), **consts)))(ev, rds))
                roots, success = DS.root_finder(ev_f, [t_prev, t_next], tol=None, verbose=False)
                dtt = t_next - t_prev
                e5, e75 = EPS ** 0.5, EPS ** 0.75
                probes = []
                def off(r, width):
                    # as handle_events since fix P33: a fraction of the step, never below the spacing of the floats at the root
                    return np.sign(dtt) * np.maximum(np.abs(dtt) * width, EPS * np.abs(r))
                for i, r in enumerate(roots):
                    f = ev_f[i]
                    fields = []
                    for k in (1.0, 2.0, 3.0):
                        fields += [sgn(f(r - k * off(r, e75))), sgn(f(r + k * off(r, e75)))]
                    probes.append(dict(root=float(r), success=bool(success[i]), gm=sgn(f(r - off(r, e5))), gc=sgn(f(r)), gp=sgn(f(r + off(r, e5))),
                                       fields=fields, direction=int(direction[i]), terminal=bool(is_terminal[i])))
                active, roots_out, terminate, evs = out
                spy.steps.append(dict(t_prev=float(t_prev), t_next=float(t_next), probes=probes, active=[int(a) for a in active],
                                      roots=[float(r) for r in roots_out], terminate=bool(terminate)))
            except Exception as e:      # pragma: no cover - recording must never disturb the run
                spy.steps.append(dict(error=repr(e)))
            return out
        DS.handle_events = wrapped
        return self

    def __exit__(self, *a):
        DS.handle_events = self.orig


def probe_line(step):
    ps = []
    for p in step["probes"]:
        ps.append("%s:%d:%d:%d:%d:%s:%d:%d" % (fbits(p["root"]), int(p["success"]), p["gm"], p["gc"], p["gp"], ".".join(str(v) for v in p["fields"]), p["direction"], int(p["terminal"])))
    s = 1.0 if step["t_next"] > step["t_prev"] else (-1.0 if step["t_next"] < step["t_prev"] else 0.0)
    return "events %s %s" % (fbits(s), ";".join(ps))


def make_event(kind, c, s=1.0, direction=0, terminal=False):
    """g = s * (h(t, y) - c)"""
    if kind == "y0":
        def g(t, y, **kw):
            return s * (y[0] - c)
    elif kind == "y1":
        def g(t, y, **kw):
            return s * (y[1] - c)
    elif kind == "time":
        def g(t, y, **kw):
            return s * (t - c)
    elif kind == "energy":
        def g(t, y, **kw):
            return s * (y[0] * y[1] - c)
    elif kind == "deriv":
        def g(t, y, dy, **kw):
            return s * (dy[0] - c)
        g.requires_dstate = True
    g.direction = direction
    g.is_terminal = terminal
    g.desc = dict(kind=kind, c=c, s=s, direction=direction, terminal=terminal)
    return g


def exact_h(kind, t, y_exact):
    y = y_exact(t)
    return dict(y0=y[0], y1=y[1], time=t, energy=y[0] * y[1], deriv=getattr(y_exact, "omega", 1.0) * y[1])[kind]


def harmonic(t, y):
    return np.array([y[1], -y[0]])


def harmonic_w(omega):
    """the same circle run at angular frequency omega (omega = 1: `harmonic` itself, bit for bit)"""
    if omega == 1.0:
        return harmonic
    return lambda t, y: np.array([omega * y[1], -omega * y[0]])


def harmonic_exact(t0, omega=1.0):
    f = lambda t: np.array([math.cos(omega * (t - t0)), -math.sin(omega * (t - t0))])
    if omega != 1.0:
        f2 = lambda t: f(t)
        f2.omega = omega
        return f2
    return f


def run_case(method, t0, tf, dt, events, dense, tol=1e-9, omega=1.0):
    spy = Spy()
    ode = de.OdeSystem(harmonic_w(omega), y0=np.array([1.0, 0.0]), t=(t0, tf), dt=dt, dense_output=dense, rtol=tol, atol=tol * 1e-2)
    ode.set_method(method)
    steps = [0]

    def budget(o):
        # a run that needs more than 50 000 recorded steps for a span of a few periods is not terminating
        steps[0] += 1
        if steps[0] > 50000:
            raise RuntimeError("step budget exceeded: the integration does not terminate")
    with spy:
        try:
            ode.integrate(events=events, callback=[budget])
            exc = None
        except Exception as e:
            exc = e
    return ode, spy, exc
