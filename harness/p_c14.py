"""C14 - bracketing root finders return certified roots."""
import math
import impl
from impl import np, OPT, D, fbits

ID = "C14"
LEAN_TARGETS = ["DVP.Properties.C14"]
PROPERTY_FILES = ["DVP/Properties/C14.lean"]
RULE = ("seeded families of test functions (polynomial, transcendental, steep linear over 15 decades of scale, jumps, end-point and "
        "multiple roots, no sign change), brackets in either order, tolerances None/eps..1e-3; every float64 case is replayed bit for "
        "bit through the Lean model of the scalar solver and of one vector lane (iterate sequence, root, success flag); float32 and "
        "longdouble cases only through the property oracles. non-trivial = the solver entered its loop; distinct by (family, parameters, bracket, tol)")
ASSUMPTIONS = ["the test function is a pure function of its argument (the model looks logged values up by bit pattern)",
               "float64 numpy scalar arithmetic = IEEE binary64 = Lean Float"]
EPS64 = 4 * 2.0 ** -52


class Logged:
    def __init__(self, f):
        self.f, self.log = f, []

    def __call__(self, x):
        y = self.f(x)
        self.log.append((x, y))
        return y


def families(rng, dtype):
    """(name, params, f, lo, hi, true_sign_change:bool|None, continuous:bool)"""
    T = dtype
    out = []
    for _ in range(1):
        s = T(10.0 ** rng.uniform(-6, 9)) * T(rng.choice([-1, 1]))
        r = T(rng.uniform(-3, 3))
        w = T(10.0 ** rng.uniform(-2, 1))
        out.append(("steep-linear", dict(s=float(s), r=float(r)), (lambda x, s=s, r=r: s * (x - r)), r - w * T(rng.uniform(0.1, 1)), r + w * T(rng.uniform(0.1, 1)), True, True))
        c = T(10.0 ** rng.uniform(-6, 6))
        out.append(("cos-x", dict(c=float(c)), (lambda x, c=c: c * (np.cos(x) - x)), T(0.0), T(1.0), True, True))
        a3, a1, a0 = T(rng.uniform(0.2, 2)), T(rng.uniform(-2, 2)), T(rng.uniform(-1, 1))
        out.append(("cubic", dict(a3=float(a3), a1=float(a1), a0=float(a0)), (lambda x, a3=a3, a1=a1, a0=a0: a3 * x * x * x + a1 * x + a0), T(-3.0), T(3.0), True, True))
        r = T(rng.uniform(-1, 1))
        out.append(("jump", dict(r=float(r)), (lambda x, r=r: T(1.5) if x > r else T(-0.5)), T(-2.0), T(2.0), True, False))
        r = T(rng.randint(-8, 8)) / T(4)
        out.append(("root-at-lo", dict(r=float(r)), (lambda x, r=r: (x - r) * (x - r - T(10))), r, r + T(2.0), None, True))
        out.append(("root-at-hi", dict(r=float(r)), (lambda x, r=r: (x - r) * (x - r + T(10))), r - T(2.0), r, None, True))
        k = T(rng.uniform(0.5, 3))
        out.append(("no-sign-change", dict(k=float(k)), (lambda x, k=k: x * x + k), T(-1.0), T(2.0), False, True))
        out.append(("triple-root", dict(), (lambda x: (x - T(0.5)) * (x + T(0.25)) * (x - T(1.75))), T(-1.0), T(3.0), True, True))
        sc = T(10.0 ** rng.uniform(-6, 9))
        out.append(("exp-shift", dict(sc=float(sc)), (lambda x, sc=sc: sc * (np.exp(x) - T(2.0))), T(0.0), T(2.0), True, True))
        r1, r2, r3 = T(rng.uniform(-2.5, -1.0)), T(rng.uniform(-0.5, 0.5)), T(rng.uniform(1.0, 2.5))
        d1, d2 = T(rng.uniform(0.02, 0.6)), T(rng.uniform(0.02, 0.6))
        out.append(("cubic-roots-just-outside", dict(r=[float(r1), float(r2), float(r3)]), (lambda x, r1=r1, r2=r2, r3=r3: (x - r1) * (x - r2) * (x - r3)), r1 + d1, r3 - d2, True, True))
        # far from the origin the spacing of the floats exceeds small absolute tolerances: the bracket-width floor 4 eps max(|a|, |b|) decides
        rf = T(rng.uniform(20, 500)) * T(rng.choice([-1, 1]))
        sf = T(10.0 ** rng.uniform(0, 6)) * T(rng.choice([-1, 1]))
        wf = T(rng.uniform(0.5, 4.0))
        out.append(("steep-linear-far", dict(s=float(sf), r=float(rf)), (lambda x, s=sf, r=rf: s * (x - r)), rf - wf * T(rng.uniform(0.1, 1)), rf + wf * T(rng.uniform(0.1, 1)), True, True))
        out.append(("jump-far", dict(r=float(rf)), (lambda x, r=rf: T(1.5) if x > r else T(-0.5)), rf - wf, rf + wf * T(0.7), True, False))
        tiny = T(10.0 ** rng.uniform(-12, -9))
        out.append(("tiny-positive", dict(t=float(tiny)), (lambda x, tiny=tiny: tiny * (T(1.0) + x * x)), T(-1.0), T(1.0), False, True))
        # values that are finite while their pairwise products overflow ("whatever the scale"): own random stream, derived from the last draw
        import random as _random
        r2 = _random.Random(repr((float(tiny), np.dtype(T).name)))
        lg = float(np.log10(float(np.finfo(T).max)))
        for _k in range(2):
            sh = T(10.0) ** T(r2.uniform(0.5 * lg - 3, 0.93 * lg)) * T(r2.choice([-1, 1]))
            rr = T(r2.uniform(-0.8, 0.8))
            lo_h, hi_h = rr - T(r2.uniform(0.3, 1.5)), rr + T(r2.uniform(0.3, 1.5))
            if r2.random() < 0.3:
                lo_h, hi_h = hi_h, lo_h
            out.append(("huge-values", dict(s=float(sh), r=float(rr)), (lambda x, s=sh, r=rr: s * ((x - r) * (T(1.0) + (x - r) * (x - r)))), lo_h, hi_h, True, True))
        # ... and values whose pairwise products UNDERFLOW to zero (a sign test by product sees no bracket)
        tiny_lg = float(np.log10(float(np.finfo(T).tiny)))
        for _k in range(2):
            st_ = T(10.0) ** T(r2.uniform(0.93 * tiny_lg, 0.55 * tiny_lg)) * T(r2.choice([-1, 1]))
            rr = T(r2.uniform(-0.8, 0.8))
            lo_t, hi_t = rr - T(r2.uniform(0.3, 1.5)), rr + T(r2.uniform(0.3, 1.5))
            if r2.random() < 0.3:
                lo_t, hi_t = hi_t, lo_t
            out.append(("tiny-values", dict(s=float(st_), r=float(rr)), (lambda x, s=st_, r=rr: s * (np.exp(x - r) - T(1.0))), lo_t, hi_t, True, True))
    return out


def sign_change_near(f, x, tol, T):
    """does f change sign (or vanish) within max(tol, 4 ulp) of x ?"""
    x = T(x)
    h = max(T(tol), T(4) * abs(np.spacing(x)))
    fx = f(x)
    if fx == 0:
        return True
    for y in (x - h, x + h, np.nextafter(x, T(np.inf)), np.nextafter(x, T(-np.inf)),
              np.nextafter(np.nextafter(x, T(np.inf)), T(np.inf)), np.nextafter(np.nextafter(x, T(-np.inf)), T(-np.inf))):
        fy = f(T(y))
        if fy == 0 or (fy < 0) != (fx < 0):
            return True
    return False


def check_props(ctx, name, params, f, lo, hi, tol, sc, cont, root, success, T, which):
    eps = D.epsilon(np.dtype(T))
    tolv = T(eps) if tol is None or tol < eps else T(tol)
    # width tests use xtol = max(tol, 4 eps max(|lo|, |hi|)) (no bracket can be narrower than the spacing of its ends)
    xtolv = max(tolv, T(4) * T(eps) * max(abs(T(lo)), abs(T(hi))))
    inp = dict(kind="brent", solver=which, family=name, params=params, lo=float(lo), hi=float(hi), tol=None if tol is None else float(tol), dtype=np.dtype(T).name)
    fa, fb = f(T(lo)), f(T(hi))
    rejected = not np.isfinite(root)
    if not rejected:
        ctx.oracle("root-in-bracket", min(lo, hi) <= root <= max(lo, hi), inp, what="returned point %r outside the bracket" % (float(root),))
    elif fa * fb <= 0:
        ctx.oracle("root-in-bracket", False, inp, key="bracket-with-root-rejected",
                   what="bracket with f(lo)*f(hi) = %r <= 0 (sign change or root at an end point) rejected: returned %r, success=%r" % (float(fa * fb), float(root), bool(success)))
    if success:
        fr = abs(f(T(root)))
        ctx.oracle("success-sound", bool(fr <= tolv) or sign_change_near(f, root, xtolv, T), inp,
                   what="success reported but |f(root)| = %r > tol and no sign change within tol" % (float(fr),))
    if sc is True and fa * fb < 0:
        near = (not rejected) and sign_change_near(f, root, xtolv, T)
        try:
            if which == "brentsroot":
                _, _, (ia, ib) = OPT.brentsroot(f, [T(lo), T(hi)], tol=tol, return_interval=True)
            else:
                _, _, (ia, ib) = OPT.brentsrootvec([f], [T(lo), T(hi)], tol=tol, return_interval=True)
                ia, ib = ia[0], ib[0]
            fia, fib = f(T(ia)), f(T(ib))
            inp["final_interval"] = [float(ia), float(ib)]
        except Exception as e:  # pragma: no cover
            ia = ib = fia = fib = None
        if ia is not None and fia * fib > 0:
            ctx.oracle("bracket-kept", False, inp, key="brent-bracket-lost", what="final interval [%r, %r] no longer brackets a sign change" % (float(ia), float(ib)))
        elif not near and ia is not None and abs(ib - ia) >= xtolv:
            ctx.oracle("sign-change-located", False, inp, key="brent-iteration-cap",
                       what="iteration cap reached: final bracket width %r >= tol %r, returned point not within tol of the sign change" % (float(abs(ib - ia)), float(xtolv)))
        elif not near:
            ctx.oracle("sign-change-located", False, inp, key="brent-sign-change-not-located",
                       what="sign change over the bracket but returned point %r is not within tol of a sign change" % (float(root),))
        else:
            # (a final bracket still wider than the width tolerance means the iteration cap stopped the solver: finding P14b)
            capped = ia is not None and abs(ib - ia) >= xtolv
            ctx.oracle("sign-change-success", bool(success), inp, key="brent-iteration-cap" if capped else "brent-steep-no-success",
                       what="sign change located to within tol at %r but success=False (|f(root)|=%r, final bracket width %r, width tolerance %r)" % (float(root), float(abs(f(T(root)))), None if ia is None else float(abs(ib - ia)), float(xtolv)))
    if sc is False:
        ctx.oracle("no-bracket-no-success", (not success) or bool(abs(f(T(root))) <= tolv), inp, what="success claimed without sign change and with |f(root)| > tol")


def run(ctx):
    rng = ctx.rng
    n = 60 if ctx.quick() else 600
    lines, pending = [], []
    T = np.float64
    for rep in range(n):
        for (name, params, f, lo, hi, sc, cont) in families(rng, T):
            tol = rng.choice([None, None, 1e-15, 1e-12, 1e-9, 1e-6, 1e-3])
            if rng.random() < 0.4:
                lo, hi = hi, lo
            # scalar
            L = Logged(f)
            root, success = OPT.brentsroot(L, [T(lo), T(hi)], tol=tol)
            success = bool(success)
            tb = ",".join("%s:%s" % (fbits(x), fbits(y)) for x, y in L.log)
            tolb = fbits(EPS64 if tol is None else tol)
            lines.append("brent s %s %s %s %s" % (fbits(lo), fbits(hi), tolb, tb))
            loop_evals = [x for x, _ in L.log[3:-1]] if np.isfinite(root) else []
            pending.append(("scalar", name, params, lo, hi, tol, float(root), success, loop_evals))
            check_props(ctx, name, params, f, lo, hi, tol, sc, cont, root, success, T, "brentsroot")
            if len(L.log) > 4:
                ctx.nontrivial(("s", name, str(params), float(lo), float(hi), tol))
            ctx.count("scalar:" + name)
            ctx.count("scalar:success" if success else "scalar:no-success")
    # vector solver: lists of callables sharing one bracket (as handle_events uses it) and array brackets
    vn = 60 if ctx.quick() else 600
    for rep in range(vn):
        fams = families(rng, T)
        k = rng.choice([1, 2, 3, 5, 8, 16])
        chosen = [fams[rng.randrange(len(fams))] for _ in range(k)]
        tol = rng.choice([None, None, 1e-12, 1e-8, 1e-4])
        shared = rng.random() < 0.5
        Ls = [Logged(c[2]) for c in chosen]
        if shared:
            lo, hi = T(rng.uniform(-2.5, -0.5)), T(rng.uniform(0.6, 2.5))
            if rng.random() < 0.3:
                lo, hi = hi, lo
            los, his = [lo] * k, [hi] * k
            roots, succ = OPT.brentsrootvec(Ls, [lo, hi], tol=tol)
        else:
            los = np.array([c[3] for c in chosen], dtype=T)
            his = np.array([c[4] for c in chosen], dtype=T)
            roots, succ = OPT.brentsrootvec(Ls, [los.copy(), his.copy()], tol=tol)
        for i in range(k):
            name, params, f, _, _, sc, cont = chosen[i]
            lo_i, hi_i = T(los[i]), T(his[i])
            tb = ",".join("%s:%s" % (fbits(x), fbits(y)) for x, y in Ls[i].log)
            lines.append("brent v %s %s %s %s" % (fbits(lo_i), fbits(hi_i), fbits(EPS64 if tol is None else tol), tb))
            pending.append(("lane", name, params, lo_i, hi_i, tol, float(roots[i]), bool(succ[i]), [x for x, _ in Ls[i].log[3:]]))
            fa, fb = f(lo_i), f(hi_i)
            sc_i = (sc if not shared else (True if fa * fb < 0 and cont else None))
            check_props(ctx, name, params, f, lo_i, hi_i, tol, sc_i, cont, roots[i], bool(succ[i]), T, "brentsrootvec")
            # component-wise agreement with the scalar solver
            f_s = Logged(f)
            r_s, s_s = OPT.brentsroot(f_s, [lo_i, hi_i], tol=tol)
            # (a scalar run stopped by the 64-iteration cap - finding P14b - ends wherever the cap catches it: the lane, which is
            # evaluated once more, may close the bracket; such a disagreement is that finding, not a new one)
            capped_s = len(f_s.log) >= 64 and not bool(s_s)
            if np.isfinite(r_s):
                tolv = EPS64 if tol is None or tol < EPS64 else tol
                close = abs(float(r_s) - float(roots[i])) <= 2 * tolv + 4 * abs(np.spacing(r_s))
                agree = (bool(s_s) == bool(succ[i])) and (close or not bool(s_s) or not (fa * fb < 0))
                ctx.oracle("vector-agrees-with-scalar", agree, dict(kind="brent-vec-vs-scalar", family=name, params=params, lo=float(lo_i), hi=float(hi_i), tol=tol,
                           scalar=[float(r_s), bool(s_s)], vector=[float(roots[i]), bool(succ[i])]),
                           key="brent-iteration-cap" if (capped_s and close) else "brent-vec-vs-scalar:" + ("flag" if close else "root"),
                           what="vector lane %r differs from scalar solver %r" % ([float(roots[i]), bool(succ[i])], [float(r_s), bool(s_s)]))
            if len(Ls[i].log) > 3:
                ctx.nontrivial(("v", name, str(params), float(lo_i), float(hi_i), tol))
            ctx.count("lane:" + name)
        ctx.count("vec:len%d" % k)
    outs = ctx.driver(lines)
    for (kind, name, params, lo, hi, tol, root, success, evals), o in zip(pending, outs):
        toks = o.split()
        ok = len(toks) == 4
        if ok:
            mroot = impl.bits_to_float(toks[0])
            msucc = toks[1] == "true"
            mtrace = [] if toks[3] == "-" else toks[3].split(",")
            same_root = (fbits(root) == toks[0]) or (math.isinf(root) and math.isinf(mroot))
            ok = same_root and (msucc == success) and mtrace == [fbits(x) for x in evals]
        ctx.corr("brent-" + kind, ok, dict(family=name, params=params, lo=float(lo), hi=float(hi), tol=tol, impl=[root, success, len(evals)], model=o[:160]))
    ctx.sample(dict(kind="brent-replay", op=lines[0][:200], model=outs[0][:200]), limit=8)
    # other precisions: oracles only
    for T2 in (np.float32, np.longdouble):
        for rep in range(10 if ctx.quick() else 100):
            for (name, params, f, lo, hi, sc, cont) in families(rng, T2):
                tol = rng.choice([None, 1e-6, 1e-3, 1e-8, 1e-10])
                try:
                    root, success = OPT.brentsroot(f, [T2(lo), T2(hi)], tol=tol)
                except Exception as e:
                    ctx.oracle("no-exception", False, dict(kind="brent", family=name, params=params, dtype=np.dtype(T2).name), what=repr(e))
                    continue
                check_props(ctx, name, params, f, T2(lo), T2(hi), tol, sc, cont, root, bool(success), T2, "brentsroot")
                ctx.count("dtype:" + np.dtype(T2).name)


def search(ctx, broken):
    """a proof obligation or the correspondence broke: look harder for an input on which the property fails"""
    saved = ctx.tier
    ctx.tier = "thorough"
    try:
        run(ctx)
    finally:
        ctx.tier = saved


def replay(rep):
    v = rep["violation"]["input"]
    print("replay input:", v)
    return False
