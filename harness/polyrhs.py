"""Random polynomial right-hand sides that can be evaluated by the implementation (floats, any dtype),
exactly (Fractions) and by the Lean driver (protocol terms)."""
from fractions import Fraction as Fr
import numpy as np


class PolyRHS:
    def __init__(self, n, terms, shape=None):
        self.n, self.terms = n, terms          # terms: (comp, coef Fraction, tpow, exps tuple)
        self.shape = shape if shape is not None else (n,)
        self.calls = 0

    def __call__(self, t, y, **kw):
        self.calls += 1
        yf = np.reshape(y, (-1,))
        out = np.zeros_like(yf)
        for (c, k, tp, es) in self.terms:
            v = yf.dtype.type(float(k)) if k.denominator & (k.denominator - 1) == 0 else yf.dtype.type(k.numerator) / yf.dtype.type(k.denominator)
            v = v * t ** tp if tp else v
            for j, e in enumerate(es):
                if e:
                    v = v * yf[j] ** e
            out[c] = out[c] + v
        return np.reshape(out, np.shape(y))

    def exact(self, t, y):
        out = [Fr(0)] * self.n
        for (c, k, tp, es) in self.terms:
            v = k * Fr(t) ** tp
            for j, e in enumerate(es):
                if e:
                    v *= Fr(y[j]) ** e
            out[c] += v
        return out

    def jac(self, t, y, **kw):
        yf = np.reshape(y, (-1,))
        J = np.zeros((self.n, self.n), dtype=yf.dtype)
        for (c, k, tp, es) in self.terms:
            for j, e in enumerate(es):
                if e:
                    v = float(k) * e * (t ** tp if tp else 1.0)
                    for j2, e2 in enumerate(es):
                        if e2:
                            v = v * yf[j2] ** (e2 - (1 if j2 == j else 0))
                    J[c, j] += v
        return J.reshape(np.shape(y) + np.shape(y))

    def proto(self):
        return ";".join("%d:%s:%d:%s" % (c, (str(k.numerator) if k.denominator == 1 else "%d/%d" % (k.numerator, k.denominator)), tp, ".".join(str(e) for e in es))
                        for (c, k, tp, es) in self.terms)


def random_poly(rng, n, max_deg=2, time_dep=True, shape=None, scale=1.0):
    """dyadic coefficients (exact in every float type); degree in y at most max_deg"""
    terms = []
    for c in range(n):
        for _ in range(rng.randint(1, 3)):
            k = Fr(rng.randint(-8, 8), 8) * Fr(scale)
            if k == 0:
                k = Fr(1, 2)
            deg = rng.randint(0, max_deg)
            es = [0] * n
            for _ in range(deg):
                es[rng.randrange(n)] += 1
            tp = rng.choice([0, 0, 1, 2]) if time_dep else 0
            terms.append((c, k, tp, tuple(es)))
    return PolyRHS(n, terms, shape)
