"""Whole fixed-step runs with states: the real OdeSystem against the Lean whole-run model DV.Run (driver command `fixedrun`).

The times of the generated plans are dyadic with few bits, so the float run and the exact run of the model take the same
branches and record the same times exactly; the recorded states are compared with the exact rational states of the model
under a rounding allowance.  The theorems about DV.Run (C03 fixed_step_samples_paired, C04 shifted/reflected runs, C13 split
runs) therefore speak about what the implementation records."""
from fractions import Fraction as Fr
from impl import np, de, I, D, q, qlist
import polyrhs

RK_FIXED = ["RK4Solver", "RK5Solver", "MidpointSolver", "HeunsSolver", "RalstonsSolver", "EulerSolver"]
SPLIT = ["SymplecticEulerSolver", "BABs9o7HSolver", "ABAs5o6HSolver"]

EPS = Fr(float(D.epsilon(np.float64)))
TOLEPS = Fr(float(D.tol_epsilon(np.float64)))


def linear_rhs(rng, n, time_dep=True):
    """degree <= 1 in y, polynomial in t: the exact states keep denominators of moderate size over tens of steps"""
    return polyrhs.random_poly(rng, n, max_deg=1, time_dep=time_dep)


def separable_rhs(rng, dof):
    """q' = a p + (t-term), p' = -b q + (t-term): block ordering (q..., p...), kick mask = second half"""
    n = 2 * dof
    terms = []
    for i in range(dof):
        eq = [0] * n; eq[dof + i] = 1
        terms.append((i, Fr(rng.randint(1, 8), 8), 0, tuple(eq)))
        ep = [0] * n; ep[i] = 1
        terms.append((dof + i, -Fr(rng.randint(1, 8), 8), 0, tuple(ep)))
        if rng.random() < 0.5:
            terms.append((dof + i, Fr(rng.randint(-4, 4), 8), 1, tuple([0] * n)))
    return polyrhs.PolyRHS(n, terms), [0] * dof + [1] * dof


def dyadic_plan(rng):
    """(t0, tf, dt, ops): dyadic times, steps that may or may not divide the legs, calls along and against the span"""
    t0 = Fr(rng.randint(-24, 24), 8)
    dirn = rng.choice([1, -1])
    dt = Fr(rng.choice([1, 2, 3, 5, 6]), 16)
    span = Fr(rng.randint(6, 28), 8)
    tf = t0 + dirn * span
    kind = rng.choice(["single", "split-on-grid", "split-off-grid", "continue-beyond", "back", "reset", "user-sign"])
    if kind == "single":
        ops = [("i", tf)]
    elif kind == "split-on-grid":
        k = rng.randint(1, max(1, int(span / dt) - 1))
        ops = [("i", t0 + dirn * k * dt), ("i", tf)]
    elif kind == "split-off-grid":
        ops = [("i", t0 + dirn * span * Fr(rng.choice([1, 3, 5]), 8)), ("i", tf)]
    elif kind == "continue-beyond":
        ops = [("i", tf), ("i", tf + dirn * Fr(rng.randint(1, 9), 8))]
    elif kind == "back":
        ops = [("i", tf), ("i", t0 + dirn * span * Fr(rng.choice([1, 2, 3]), 4))]
    elif kind == "reset":
        ops = [("i", t0 + dirn * span * Fr(1, 2)), ("r",), ("i", tf)]
    else:
        ops = [("i", tf)]
        dt = -dt if dirn > 0 else dt          # the user's sign of dt is irrelevant
    return kind, t0, tf, dt if kind == "user-sign" else dirn * dt, ops


def run_impl(cls_name, rhs, mask, t0, tf, dt, y0, ops, dense=False):
    ode = de.OdeSystem(rhs, y0=np.array([float(v) for v in y0]), t=(float(t0), float(tf)), dt=float(dt), dense_output=dense)
    cls = getattr(I, cls_name)
    if mask is not None:
        ode.set_method(cls, staggered_mask=np.array(mask, dtype=bool))
    else:
        ode.set_method(cls)
    for op in ops:
        if op[0] == "i":
            ode.integrate(float(op[1]))
        else:
            ode.reset()
    return ode


def model_line(kind, cls_name, rhs, mask, t0, tf, dt, y0, ops):
    return "fixedrun %s %s %d %s %s %s %s %s %s %s %s %s" % (
        kind, cls_name, rhs.n, ",".join(map(str, mask)) if mask is not None else "-", rhs.proto(), q(EPS), q(TOLEPS),
        q(t0), q(tf), q(dt), qlist(y0), ",".join(("i" + q(o[1])) if o[0] == "i" else ("f%d@%s" % (o[1], q(o[2]))) if o[0] == "f" else "r" for o in ops))


def parse_model(out, n):
    parts = [p.strip() for p in out.split(";")]
    if len(parts) != 4:
        return None
    ts = [Fr(x) for x in parts[0].split(",")] if parts[0] != "-" else []
    flat = [Fr(x) for x in parts[1].split(",")] if parts[1] != "-" else []
    ys = [flat[i * n:(i + 1) * n] for i in range(len(flat) // n)] if n else []
    return ts, ys, Fr(parts[2]), int(parts[3])


def compare(ctx, name, inp, ode, model, n):
    """times exactly, states within a rounding allowance, dt and status exactly"""
    if model is None:
        ctx.corr(name, False, dict(inp, model="unparsable"))
        return False
    ts, ys, dt, status = model
    it = [Fr(float(v)) for v in ode.t]
    iy = np.array(ode.y, dtype=np.float64).reshape(len(it), -1)
    ok_t = it == ts
    ok_pair = len(ys) == len(ts) == len(iy)
    ok_y = False
    worst = None
    if ok_t and ok_pair:
        scale = max(1.0, max(abs(float(v)) for row in ys for v in row))
        err = max(abs(float(Fr(float(a)) - b)) for ra, rb in zip(iy, ys) for a, b in zip(ra, rb))
        worst = err / scale
        ok_y = worst <= 1e-11 * max(1, len(ts))
    st = ode.integration_status if isinstance(getattr(ode, "integration_status", None), int) else None
    ok_dt = Fr(float(ode.dt)) == dt
    ok = ok_t and ok_pair and ok_y and ok_dt
    ctx.corr(name, ok, dict(inp, times_equal=ok_t, paired=ok_pair, worst_state_diff=worst, dt_equal=ok_dt,
                            impl_t=[float(v) for v in ode.t][:8], model_t=[float(v) for v in ts][:8],
                            impl_dt=float(ode.dt), model_dt=float(dt)))
    return ok


def exact_increment(cls_name, rhs, mask, t, y, h):
    """one step of the scheme in exact arithmetic from the coefficients the class holds (independent of the Lean model)"""
    cls = getattr(I, cls_name)
    ti = np.asarray(cls.tableau_intermediate, dtype=np.float64)
    if mask is not None:
        d = [Fr(0)] * len(y)
        tc = t
        for row in ti:
            a, b = Fr(float(row[1])), Fr(float(row[2]))
            fv = rhs.exact(tc, [yy + dd for yy, dd in zip(y, d)])
            tc = tc + h * a
            d = [dd + h * fvv * (b if m else a) for dd, fvv, m in zip(d, fv, mask)]
        return d
    tf_ = np.asarray(cls.tableau_final, dtype=np.float64)
    ks = []
    for row in ti:
        c, a = Fr(float(row[0])), [Fr(float(v)) for v in row[1:]]
        yi = [yy + h * sum((a[j] * ks[j][i] for j in range(len(ks))), Fr(0)) for i, yy in enumerate(y)]
        ks.append(rhs.exact(t + c * h, yi))
    b = [Fr(float(v)) for v in tf_[0][1:]]
    return [h * sum((b[j] * ks[j][i] for j in range(len(ks))), Fr(0)) for i in range(len(y))]


def steps_oracle(ctx, inp, ode, rhs, mask, max_steps=None):
    """every recorded state is its predecessor advanced by one step of the scheme over the recorded interval"""
    ts = [Fr(float(v)) for v in ode.t]
    ys = np.array(ode.y, dtype=np.float64).reshape(len(ts), -1)
    worst, where = 0.0, None
    ks = list(range(len(ts) - 1))
    if max_steps is not None and len(ks) > max_steps:      # the first, the last and evenly spread steps in between
        ks = sorted(set([0, len(ks) - 1] + [int(i * (len(ks) - 1) / (max_steps - 1)) for i in range(max_steps)]))
    for k in ks:
        y = [Fr(float(v)) for v in ys[k]]
        d = exact_increment(inp["method"], rhs, mask, ts[k], y, ts[k + 1] - ts[k])
        scale = max([1.0] + [abs(float(v)) for v in y])
        err = max(abs(float(Fr(float(a)) - (b + c))) for a, b, c in zip(ys[k + 1], y, d)) / scale
        if err > worst:
            worst, where = err, k
    ctx.oracle("recorded-state-is-predecessor-plus-one-step", worst <= 1e-12, dict(inp, step=where, relative_defect=worst),
               what="recorded state %s is not the previous state advanced by one step of %s (relative defect %.2e)" % (where, inp["method"], worst))


def whole_run_block(ctx, rng, nplans, kinds=None):
    """seeded plans for every fixed-step explicit RK and splitting method; returns the number of compared runs"""
    cases, lines = [], []
    for name in RK_FIXED + SPLIT:
        for _ in range(nplans):
            kind, t0, tf, dt, ops = dyadic_plan(rng)
            if kinds and kind not in kinds:
                continue
            if name in SPLIT:
                rhs, mask = separable_rhs(rng, rng.choice([1, 2]))
                mkind = "split"
            else:
                rhs, mask = linear_rhs(rng, rng.choice([1, 2, 3])), None
                mkind = "rk"
            y0 = [Fr(rng.randint(-16, 16), 16) for _ in range(rhs.n)]
            inp = dict(kind="whole-run", plan=kind, method=name, rhs=rhs.proto(), t0=str(t0), tf=str(tf), dt=str(dt), y0=[str(v) for v in y0],
                       ops=[(o[0], str(o[1])) if o[0] == "i" else ("r",) for o in ops], kick_mask=mask)
            try:
                ode = run_impl(name, rhs, mask, t0, tf, dt, y0, ops, dense=rng.random() < 0.3)
            except Exception as e:  # a fixed-step explicit run of a polynomial right-hand side must not fail
                ctx.oracle("fixed-step-run-completes", False, inp, what="run raised %r" % (e,))
                continue
            cases.append((inp, ode, rhs.n, rhs, mask))
            lines.append(model_line(mkind, name, rhs, mask, t0, tf, dt, y0, ops))
            ctx.count("whole-run:" + kind)
            ctx.count("whole-run-method:" + name)
    outs = ctx.driver(lines)
    for (inp, ode, n, rhs, mask), o in zip(cases, outs):
        compare(ctx, "whole-run-with-states", inp, ode, parse_model(o, n), n)
        # the property's own statements on the implementation: paired, first state, every state = predecessor + one step
        ctx.oracle("times-and-states-paired", len(ode.t) == len(ode.y) and len(ode.t) >= 1, inp, what="len(t) = %d, len(y) = %d" % (len(ode.t), len(ode.y)))
        ctx.oracle("first-state-is-initial-condition", [Fr(float(v)) for v in np.reshape(ode.y[0], (-1,))] == [Fr(v) for v in inp["y0"]] and Fr(float(ode.t[0])) == Fr(inp["t0"]), inp,
                   what="first sample %r, %r" % (ode.t[0], ode.y[0]))
        steps_oracle(ctx, inp, ode, rhs, mask)
        if len(ode.t) >= 3:
            ctx.nontrivial((inp["method"], inp["plan"], inp["t0"], inp["dt"], inp["rhs"]))
    return len(cases)


# ---------------------------------------------------------------------------------------------------------------------------
# faults inside whole fixed-step runs (C12: fault_leaves_prefix_of_samples) and adaptive explicit runs judged step by step

class RunFault(Exception):
    pass


class FaultyRHS:
    """the polynomial right-hand side, raising once at the k-th call"""
    def __init__(self, rhs):
        self.rhs, self.calls, self.fault_at = rhs, 0, None

    def __call__(self, t, y, **kw):
        self.calls += 1
        if self.fault_at is not None and self.calls == self.fault_at:
            raise RunFault("fault at call %d" % self.calls)
        return self.rhs(t, y)


def fault_run_block(ctx, rng, nplans):
    """a fault at a random right-hand-side evaluation of a fixed-step run: the samples left are exactly a prefix of the samples of
    the fault-free run of the Lean whole-run model, and the resumed call records what the model records for the same history
    (DV.Run.integrateFault: the call abandoned in the same integrator call, then integrate(T))"""
    jobs, lines = [], []
    for name in RK_FIXED + SPLIT:
        for _ in range(nplans):
            kind, t0, tf, dt, ops = dyadic_plan(rng)
            T = ops[-1][1] if ops[-1][0] == "i" else tf
            if name in SPLIT:
                rhs, mask = separable_rhs(rng, rng.choice([1, 2])); mkind = "split"
            else:
                rhs, mask = linear_rhs(rng, rng.choice([1, 2])), None; mkind = "rk"
            y0 = [Fr(rng.randint(-16, 16), 16) for _ in range(rhs.n)]
            inp = dict(kind="whole-run-fault", method=name, rhs=rhs.proto(), t0=str(t0), tf=str(tf), T=str(T), dt=str(dt), y0=[str(v) for v in y0], kick_mask=mask)
            try:
                probe = FaultyRHS(rhs)
                run_impl(name, probe, mask, t0, tf, dt, y0, [("i", T)])
                total = probe.calls
                if total < 4:
                    continue
                f = FaultyRHS(rhs)
                ode = de.OdeSystem(f, y0=np.array([float(v) for v in y0]), t=(float(t0), float(tf)), dt=float(dt), dense_output=rng.random() < 0.5)
                if mask is not None:
                    ode.set_method(getattr(I, name), staggered_mask=np.array(mask, dtype=bool))
                else:
                    ode.set_method(getattr(I, name))
                f.fault_at = f.calls + rng.randint(1, max(1, total - f.calls))
                inp["fault_at_call"] = f.fault_at
                raised = None
                try:
                    ode.integrate(float(T))
                except de.exception_types.FailedIntegration as e:
                    raised = type(e.__cause__).__name__ if e.__cause__ is not None else "no-cause"
                except BaseException as e:
                    raised = "other:" + type(e).__name__
                if raised is None:
                    ctx.count("whole-run-fault:not-reached")
                    continue
                ctx.oracle("failure-is-integration-failure-with-cause", raised == "RunFault", dict(inp, raised=raised), what="a raising right-hand side surfaced as %r" % (raised,))
                pt = [Fr(float(v)) for v in ode.t]
                py = np.array(ode.y, dtype=np.float64).reshape(len(pt), -1).copy()
                ctx.oracle("times-and-states-paired", len(ode.t) == len(ode.y), inp, what="after the fault len(t) = %d, len(y) = %d" % (len(ode.t), len(ode.y)))
                steps_oracle(ctx, inp, ode, rhs, mask)
                f.fault_at = None
                ode.integrate(float(T))
            except Exception as e:
                ctx.oracle("fault-scenario-runs", False, inp, what="scenario raised %r" % (e,))
                continue
            jobs.append((inp, ode, rhs, mask, pt, py))
            lines.append(model_line(mkind, name, rhs, mask, t0, tf, dt, y0, [("i", T)]))
            # the history as it happened: a call abandoned in its (len(prefix) - 1)-th integrator call, then the resumed call
            lines.append(model_line(mkind, name, rhs, mask, t0, tf, dt, y0, [("f", len(pt) - 1, T), ("i", T)]))
            ctx.count("whole-run-fault:" + name)
    outs = ctx.driver(lines)
    for k, (inp, ode, rhs, mask, pt, py) in enumerate(jobs):
        full = parse_model(outs[2 * k], rhs.n)
        ok = full is not None and len(pt) <= len(full[0]) and full[0][:len(pt)] == pt
        worst = None
        if ok:
            scale = max(1.0, max(abs(float(v)) for row in full[1] for v in row))
            worst = max(abs(float(Fr(float(a)) - b)) for ra, rb in zip(py, full[1][:len(pt)]) for a, b in zip(ra, rb)) / scale
            ok = worst <= 1e-11 * max(1, len(pt))
        ctx.corr("samples-after-fault-are-prefix-of-fault-free-run", ok, dict(inp, kept=len(pt), model_len=None if full is None else len(full[0]), worst_state_diff=worst,
                                                                              impl_t=[float(v) for v in pt][-4:], model_t=None if full is None else [float(v) for v in full[0]][:len(pt)][-4:]))
        ctx.oracle("recorded-prefix-is-prefix-of-fault-free-run", ok, dict(inp, kept=len(pt), worst_state_diff=worst), key="fault-prefix-differs",
                   what="the samples left by the failed call are not the first %d samples of the fault-free run" % len(pt))
        compare(ctx, "resumed-run-with-states", dict(inp, resumed_from=str(pt[-1])), ode, parse_model(outs[2 * k + 1], rhs.n), rhs.n)
        if len(pt) >= 2:
            ctx.nontrivial((inp["method"], inp["t0"], inp["dt"], inp["fault_at_call"]))


ADAPTIVE_EXPLICIT = ["RK45CKSolver", "DOPRI45", "HeunEulerSolver", "RK8713MSolver"]


def adaptive_steps_block(ctx, rng, nplans, faults=False):
    """adaptive explicit methods: the accepted steps are not predictable in exact arithmetic, but every recorded state must still be its
    predecessor advanced by ONE step of the scheme over the recorded interval (DV.Run.ysOf), whatever was rejected in between, also for
    the samples left by a fault"""
    for name in ADAPTIVE_EXPLICIT:
        for _ in range(nplans):
            kind, t0, tf, dt, ops = dyadic_plan(rng)
            rhs = linear_rhs(rng, rng.choice([1, 2]))
            y0 = [Fr(rng.randint(-16, 16), 16) for _ in range(rhs.n)]
            tol = rng.choice([1e-4, 1e-7, 1e-10])
            if name == "HeunEulerSolver":      # second order: tight tolerances mean tens of thousands of steps
                tol = max(tol, 1e-5)
            inp = dict(kind="adaptive-run", plan=kind, method=name, rhs=rhs.proto(), t0=str(t0), tf=str(tf), dt=str(dt), y0=[str(v) for v in y0], tol=tol,
                       ops=[(o[0], str(o[1])) if o[0] == "i" else ("r",) for o in ops])
            f = FaultyRHS(rhs)
            try:
                ode = de.OdeSystem(f, y0=np.array([float(v) for v in y0]), t=(float(t0), float(tf)), dt=float(dt), rtol=tol, atol=tol, dense_output=rng.random() < 0.3)
                ode.set_method(getattr(I, name))
                if faults:
                    f.fault_at = f.calls + rng.randint(2, 60)
                    inp["fault_at_call"] = f.fault_at
                for op in ops:
                    try:
                        ode.integrate(float(op[1])) if op[0] == "i" else ode.reset()
                    except de.exception_types.FailedIntegration as e:
                        if not isinstance(e.__cause__, RunFault):
                            raise
                        ctx.count("adaptive-run:fault-hit")
                        break
            except Exception as e:
                ctx.oracle("adaptive-run-completes", False, inp, what="run raised %r" % (e,))
                continue
            ctx.oracle("times-and-states-paired", len(ode.t) == len(ode.y), inp, what="len(t) = %d, len(y) = %d" % (len(ode.t), len(ode.y)))
            steps_oracle(ctx, inp, ode, rhs, None, max_steps=24 if ctx.quick() else 200)
            ctx.count("adaptive-run:" + name)
            if len(ode.t) >= 3:
                ctx.nontrivial((name, kind, inp["t0"], inp["dt"], tol))
