"""C15 - nonlinear system solvers only claim success at an actual solution."""
import math
import impl
from impl import np, de, I, DS, OPT, D, fbits

ID = "C15"
LEAN_TARGETS = ["DVP.Properties.C15"]
PROPERTY_FILES = ["DVP/Properties/C15.lean"]
RULE = ("a bank of smooth systems F: R^n -> R^n (n = 1..12, shapes (n,), (2,3)->(2,3), scalar), with and without a user Jacobian, good and bad "
        "starting points, singular Jacobians, systems without a root (incl. x^2+1 and an inconsistent singular linear system, where a trial step has no defined gain); both dispatch paths of nonlinear_roots (float64 via MINPACK, longdouble "
        "via the built-in dogleg) and the three solvers directly (hybrj in float64 and longdouble). What each back end returned is recorded (wrappers around the module's own "
        "functions) and fed to the Lean decision model, whose verdict and 'precision' must equal the front end's; every claimed success is "
        "checked against ||F(x)|| <= 100 tol sqrt(n) and the shape of the guess. non-trivial = nonlinear system with n >= 2; distinct by (system, start, dtype, jac)")
ASSUMPTIONS = ["the iterations themselves (convergence) are outside the model; MINPACK's own success flag is an input"]


def bank(rng):
    """(name, F, J or None, x0, has_root)"""
    out = []
    n = rng.choice([2, 3, 5, 8, 12])
    A = np.array([[rng.uniform(-1, 1) for _ in range(n)] for _ in range(n)]) + n * np.eye(n)
    bvec = np.array([rng.uniform(-1, 1) for _ in range(n)])
    out.append(("linear-%d" % n, lambda x, A=A, b=bvec: A @ x - b, lambda x, A=A: A, np.zeros(n), True))
    out.append(("cubic-diag-%d" % n, lambda x, b=bvec: x ** 3 + x - b, lambda x: np.diag(3 * x ** 2 + 1), np.ones(n) * rng.choice([0.1, 3.0]), True))
    out.append(("rosenbrock-grad", lambda x: np.array([-2 * (1 - x[0]) - 400 * x[0] * (x[1] - x[0] ** 2), 200 * (x[1] - x[0] ** 2)]),
                lambda x: np.array([[2 - 400 * (x[1] - 3 * x[0] ** 2), -400 * x[0]], [-400 * x[0], 200.0]]), np.array([rng.uniform(-1.5, 1.5), rng.uniform(-0.5, 2.0)]), True))
    out.append(("trig", lambda x: np.array([np.cos(x[0]) - x[1], np.sin(x[1]) + x[0] - 0.5]),
                lambda x: np.array([[-np.sin(x[0]), -1.0], [1.0, np.cos(x[1])]]), np.array([rng.uniform(-2, 2), rng.uniform(-2, 2)]), True))
    out.append(("arctan-no-root", lambda x: np.arctan(x) - 2.0, lambda x: np.diag(1.0 / (1.0 + x ** 2)), np.array([rng.choice([0.0, 0.5, 3.0])]), False))
    out.append(("exp-no-root", lambda x: np.exp(x) + 0.1, lambda x: np.diag(np.exp(x)), np.array([0.5]), False))
    # systems on which a trial step has no defined gain (0/0 at a stationary point of a singular Jacobian, inf/inf on runaway iterates)
    out.append(("square-plus-one", lambda x: x ** 2 + 1.0, lambda x: np.diag(2.0 * x), np.array([rng.choice([0.3, 0.5, 0.7, 2.0])] * 3), False))
    out.append(("inconsistent-singular-linear", lambda x: np.array([x[0] + x[1] - 1.0, x[0] + x[1] + 1.0]),
                lambda x: np.array([[1.0, 1.0], [1.0, 1.0]]), np.array([rng.uniform(-1, 1), rng.uniform(-1, 1)]), False))
    # solvable systems started so far away that the very first trial step makes no progress
    far = rng.choice([5.0, 8.0, -6.0])
    out.append(("tanh-far-start", lambda x: np.tanh(x), lambda x: np.diag(1.0 / np.cosh(x) ** 2), np.array([far, -far]), True))
    out.append(("arctan-far-start", lambda x: np.arctan(x), lambda x: np.diag(1.0 / (1.0 + x ** 2)), np.array([rng.choice([1e3, 1e4])]), True))
    out.append(("rosenbrock-classic-start", lambda x: np.array([-2 * (1 - x[0]) - 400 * x[0] * (x[1] - x[0] ** 2), 200 * (x[1] - x[0] ** 2)]),
                lambda x: np.array([[2 - 400 * (x[1] - 3 * x[0] ** 2), -400 * x[0]], [-400 * x[0], 200.0]]), np.array([-1.2, 1.0]), True))
    out.append(("singular-jac", lambda x: np.array([x[0] ** 2, x[1] ** 2 + x[0]]), lambda x: np.array([[2 * x[0], 0.0], [1.0, 2 * x[1]]]), np.array([0.5, 0.5]), True))
    out.append(("matrix-shape", lambda x: x ** 3 - np.array([[1.0, 8.0, 0.125], [27.0, -1.0, 0.001]]), None, np.ones((2, 3)), True))
    out.append(("scalar", lambda x: x ** 3 - 2.0, None, np.array(1.0), True))
    return out


class Spy:
    """records what the back ends of nonlinear_roots return (wrapping the optimizer module's own functions)"""
    def __enter__(self):
        import scipy.optimize
        self.rec = dict(minpack=None, hybrj=None, ntr=None)
        self.o_hybrj, self.o_ntr, self.o_root = OPT.hybrj, OPT.newtontrustregion, scipy.optimize.root
        spy = self

        def hybrj(f, x0, jac, tol=None, **kw):
            # recompute hybrj's own success disjuncts from what it returns and from a re-evaluation at the returned point
            r = spy.o_hybrj(f, x0, jac, tol=tol, **kw)
            root, (succ, dxn, it, F) = r
            xd = 1
            for d in np.shape(x0):
                xd *= d
            xtol = tol * (xd + float(np.linalg.norm(root)))
            rn = float(np.linalg.norm(F))
            spy.rec["hybrj"] = dict(success=bool(succ), res_below=bool(rn < tol), step_below=bool(float(dxn) <= xtol), dxn=float(dxn), res=rn)
            return r

        def ntr(f, x0, jac=None, tol=None, **kw):
            r = spy.o_ntr(f, x0, jac=jac, tol=tol, **kw)
            spy.rec["ntr"] = dict(success=bool(r[1][0]), res=float(r[1][-1]))
            return r

        def root(fun, x0, **kw):
            r = spy.o_root(fun, x0, **kw)
            spy.rec["minpack"] = dict(success=bool(r.success), noimp="no futher improvement" in r.message, res=float(np.linalg.norm(r.fun)))
            return r
        OPT.hybrj, OPT.newtontrustregion = hybrj, ntr
        scipy.optimize.root = root
        return self

    def __exit__(self, *a):
        import scipy.optimize
        OPT.hybrj, OPT.newtontrustregion = self.o_hybrj, self.o_ntr
        scipy.optimize.root = self.o_root


def run(ctx):
    rng = ctx.rng
    lines, cases = [], []
    reps = 4 if ctx.quick() else 40
    for rep in range(reps):
        for (name, F, J, x0, has_root) in bank(rng):
            for T in (np.float64, np.longdouble):
                for use_jac in ((True, False) if J is not None else (False,)):
                    tol = rng.choice([1e-8, 1e-10, 1e-12])
                    x0T = np.asarray(x0, dtype=T)
                    inp = dict(kind="nonlinear_roots", system=name, dtype=np.dtype(T).name, user_jacobian=use_jac, tol=tol, x0=np.asarray(x0, dtype=float).tolist())
                    with Spy() as spy:
                        try:
                            x, (succ, it, nfev, njev, prec) = OPT.nonlinear_roots(F, x0T, jac=J if use_jac else None, tol=tol)
                        except Exception as e:
                            ctx.count("exception:" + type(e).__name__)
                            continue
                        rec = spy.rec
                    succ = bool(succ)
                    res = float(np.linalg.norm(np.asarray(F(x), dtype=float)))
                    nn = max(1, int(np.size(x0)))
                    if succ:
                        path = "hybrj" if T is np.longdouble else "minpack"
                        ctx.oracle("success-means-small-residual", res <= 100 * tol * math.sqrt(nn), dict(inp, residual=res, x=np.asarray(x, dtype=float).reshape(-1)[:4].tolist(), reported_precision=float(prec)),
                                   key=("hybrj-success-without-residual:%s:%s" % (name.split("-%d" % nn)[0] if name.startswith(("linear-", "cubic-diag-")) else name, np.dtype(T).name)) if path == "hybrj" else "minpack-success-without-residual",
                                   what="success reported with ||F(x)|| = %.3e (tol %.1e, n=%d); reported precision %.3e" % (res, tol, nn, float(prec)))
                        ctx.oracle("shape-preserved", np.shape(x) == np.shape(x0), inp, what="result shape %s, guess shape %s" % (np.shape(x), np.shape(x0)))
                    if not has_root:
                        ctx.oracle("no-root-no-success", not succ, dict(inp, x=np.asarray(x, dtype=float).reshape(-1)[:3].tolist(), residual=res),
                                   key=("hybrj-success-without-residual:%s:%s" % (name, np.dtype(T).name)) if T is np.longdouble else "no-root-success",
                                   what="system without a root: success claimed at x=%s with ||F|| = %.3e" % (np.asarray(x, dtype=float).reshape(-1)[:3], res))
                    # decision model
                    if np.ndim(x0) > 0:      # (scalars recurse through the vector path: the spy sees the inner call)
                        pass
                    m = rec["minpack"] or dict(success=False, noimp=False, res=float("nan"))
                    h = rec["hybrj"] or dict(success=False, res_below=False, step_below=False, dxn=float("nan"), res=float("nan"))
                    nt = rec["ntr"] or dict(success=False, res=float("nan"))
                    trust = bool(h["success"] and not (h["res_below"] or h["step_below"])) if rec["hybrj"] else False
                    step_below = bool(h["step_below"] and h["success"]) if rec["hybrj"] else False
                    res_below = bool(h["res_below"] and h["success"]) if rec["hybrj"] else False
                    te = float(D.tol_epsilon(np.dtype(T)))
                    lines.append("nlfront %s %s %d:%d:%s %d:%d:%d:%s:%s %d:%s %s" % (
                        "m" if rec["minpack"] is not None else "h", fbits(te), int(m["success"]), int(m["noimp"]), fbits(m["res"]),
                        int(res_below), int(step_below), int(trust), fbits(h["dxn"]), fbits(h["res"]), int(nt["success"]), fbits(nt["res"]), fbits(1.0)))
                    cases.append((inp, succ, float(prec), rec))
                    if nn >= 2 and not name.startswith("linear"):
                        ctx.nontrivial((name, np.dtype(T).name, use_jac, tol, tuple(np.asarray(x0, dtype=float).reshape(-1))))
                    ctx.count("path:%s:%s" % ("minpack" if rec["minpack"] is not None else "hybrj", "success" if succ else "failure"))
    outs = ctx.driver(lines)
    for (inp, succ, prec, rec), o in zip(cases, outs):
        toks = o.split()
        ok = len(toks) == 4 and (toks[0] == "true") == succ and (abs(impl.bits_to_float(toks[1]) - prec) <= 1e-12 * max(1.0, abs(prec)) or (math.isnan(prec) and math.isnan(impl.bits_to_float(toks[1]))))
        ctx.corr("front-end-decision", ok, dict(inp, impl=[succ, prec], backends=rec, model=o))
    if lines:
        ctx.sample(dict(kind="nlfront", op=lines[0][:200], model=outs[0]))
    # the three solvers directly
    for rep in range(2 if ctx.quick() else 10):
        for (name, F, J, x0, has_root) in bank(rng):
            if np.ndim(x0) == 0 or J is None:
                continue
            tol = 1e-10
            for solver in ("hybrj", "hybrj64", "ntr", "ntr-maxiter3"):
                inp = dict(kind="solver", solver=solver, system=name, x0=np.asarray(x0, dtype=float).tolist())
                try:
                    if solver.startswith("hybrj"):
                        x, (succ, dxn, it, Fv) = OPT.hybrj(F, np.asarray(x0, dtype=np.longdouble if solver == "hybrj" else np.float64), J, tol=tol)
                    elif solver == "ntr-maxiter3":
                        # an iteration budget that runs out while progress is still being made is a failure to converge, not a success
                        x, (succ, it, nf, nj, pr) = OPT.newtontrustregion(F, np.asarray(x0, dtype=np.float64), jac=J, tol=tol, maxiter=3)
                    else:
                        x, (succ, it, nf, nj, pr) = OPT.newtontrustregion(F, np.asarray(x0, dtype=np.float64), jac=J, tol=tol)
                except Exception as e:
                    ctx.count("solver-exception:" + solver + ":" + name + ":" + type(e).__name__)
                    continue
                if bool(succ):
                    res = float(np.linalg.norm(np.asarray(F(np.asarray(x)), dtype=float)))
                    ctx.oracle("solver-success-means-small-residual", res <= 100 * tol * math.sqrt(np.size(x0)), dict(inp, residual=res),
                               key=("hybrj-success-without-residual:%s:%s" % (name.rsplit("-", 1)[0] if name.startswith(("linear-", "cubic-diag-")) else name, "float128" if solver == "hybrj" else "float64")) if solver.startswith("hybrj") else "ntr-success-without-residual:" + name,
                               what="%s reported success with ||F|| = %.3e" % (solver, res))
                if not has_root:
                    ctx.oracle("no-root-no-success", not bool(succ), dict(inp, x=np.asarray(x, dtype=float).reshape(-1)[:3].tolist()),
                               key=("hybrj-success-without-residual:%s:%s" % (name, "float128" if solver == "hybrj" else "float64")) if solver.startswith("hybrj") else "ntr-success-without-residual:" + name,
                               what="%s: system without a root, success claimed at x=%s" % (solver, np.asarray(x, dtype=float).reshape(-1)[:3]))
                ctx.count("solver:%s:%s:%s" % (solver, name if not has_root else "has-root", "success" if bool(succ) else "failure"))
    ntr_poor_model_block(ctx, rng)
    bounded_block(ctx, rng)
    consumer_block(ctx, rng)


def consumer_block(ctx, rng):
    """the consumer of the front-end in RungeKuttaIntegrator.step: `newton_iteration_success` is what the Lean model `consumerAccepts`
    says about the (success, precision) pair nonlinear_roots returned and the tolerance it was given; and a stage solve the integrator
    accepts has a small residual (stiff Van der Pol, coarse steps: MINPACK may claim success on its relative step criterion long before)"""
    lines, cases = [], []
    orig = OPT.nonlinear_roots
    for cls in I.implicit_methods() if not ctx.quick() else [I.BackwardEuler, I.CrankNicolson, I.GaussLegendre4, I.RadauIIA5, I.LobattoIIIC4]:
        for rep in range(3 if ctx.quick() else 10):
            mu = rng.choice([1.0, 100.0, 1000.0])
            h = rng.choice([1e-3, 1e-2, 0.1, 0.5]) * rng.choice([1, -1])
            y0 = np.array([rng.uniform(-2, 2), rng.uniform(-2, 2)])
            calls = []

            def spy(fn, x0, jac=None, tol=None, **kw):
                r = orig(fn, x0, jac=jac, tol=tol, **kw)
                calls.append(dict(success=bool(r[1][0]), prec=float(r[1][-1]), tol=float(tol), x=np.array(r[0], dtype=np.float64), fn=fn, args=kw.get("additional_args", ())))
                return r
            f = DS.DiffRHS(lambda t, y, mu=mu: np.array([y[1], mu * (1 - y[0] ** 2) * y[1] - y[0]]))
            integ = cls((2,), dtype=np.float64, rtol=1e-8, atol=1e-8)
            inp = dict(kind="consumer", method=cls.__name__, mu=mu, h=h, y0=y0.tolist())
            OPT.nonlinear_roots = spy
            try:
                integ.initial_rhs = f(np.float64(0.0), y0)
                integ.step(f, np.float64(0.0), y0.copy(), {}, np.float64(h))
            except Exception as e:
                ctx.count("consumer:step-exception:" + type(e).__name__)
                continue
            finally:
                OPT.nonlinear_roots = orig
            if not calls:
                ctx.count("consumer:no-front-end-call")
                continue
            c = calls[-1]
            flag = bool(integ.solver_dict["newton_iteration_success"])
            lines.append("consumer %d %s %s" % (int(c["success"]), fbits(c["prec"]), fbits(c["tol"])))
            cases.append((inp, flag, c))
            if flag:
                try:
                    G = np.asarray(c["fn"](c["x"], *c["args"]), dtype=np.float64)
                    res = float(np.linalg.norm(G))
                    ctx.oracle("accepted-stage-solve-has-small-residual", res <= 100 * c["tol"] * math.sqrt(G.size), dict(inp, residual=res, tol=c["tol"], reported_precision=c["prec"], backend_success=c["success"]),
                               what="the integrator accepted a stage solve with ||G|| = %.3e (tolerance %.1e)" % (res, c["tol"]))
                except Exception as e:
                    ctx.count("consumer:residual-exception:" + type(e).__name__)
            ctx.count("consumer:%s" % ("accepted" if flag else "rejected"))
    outs = ctx.driver(lines)
    for (inp, flag, c), o in zip(cases, outs):
        ctx.corr("consumer-acceptance", (o == "true") == flag, dict(inp, backend_success=c["success"], precision=c["prec"], tol=c["tol"], impl=flag, model=o))


def ntr_poor_model_block(ctx, rng):
    """newtontrustregion called directly, with its DEFAULT damping (the front-end passes initial_trust_region=0), on systems whose linear
    model predicts the residual badly: a root with a singular Jacobian (componentwise cube of a linear map), an exponential nonlinearity,
    starts moderately to very far from the root, with the user Jacobian and with the finite-difference one"""
    for n in ((5, 8) if ctx.quick() else (3, 5, 8, 12)):
        A = np.eye(n) * 2 + 0.3 * np.cos(np.arange(n * n).reshape(n, n) + rng.choice([0.0, 0.5, 1.0]))
        xs = np.sin(1.0 + np.arange(n))
        for gs in ((0.5, 10.0) if ctx.quick() else (0.5, 3.0, 10.0, 100.0)):
            x0 = xs + gs * np.cos(2.0 + np.arange(n))
            systems = [("cube-singular-root", lambda x, A=A, xs=xs: (A @ (x - xs)) ** 3, lambda x, A=A, xs=xs: np.diag(3 * (A @ (x - xs)) ** 2) @ A),
                       ("expm1-plus-linear", lambda x, A=A, xs=xs, n=n: np.exp(A @ (x - xs) / n) - 1 + 0.1 * (x - xs),
                        lambda x, A=A, xs=xs, n=n: np.diag(np.exp(A @ (x - xs) / n)) @ A / n + 0.1 * np.eye(n))]
            for (name, F, J) in systems:
                for tol in (1e-6, 1e-10):
                    for use_jac in (True, False):
                        inp = dict(kind="solver", solver="ntr-default-damping", system=name, n=n, start_offset=gs, tol=tol, user_jacobian=use_jac)
                        try:
                            with np.errstate(all="ignore"):
                                x, (succ, it, nf, nj, pr) = OPT.newtontrustregion(F, x0.copy(), jac=J if use_jac else None, tol=tol)
                        except Exception as e:
                            ctx.count("ntr-poor-model:exception:" + type(e).__name__)
                            continue
                        res = float(np.linalg.norm(np.asarray(F(np.asarray(x, dtype=np.float64).reshape(-1)), dtype=float)))
                        if bool(succ):
                            ctx.oracle("solver-success-means-small-residual", res <= 100 * n * tol, dict(inp, residual=res, iterations=int(it)),
                                       key="ntr-success-without-residual:" + name, what="newtontrustregion (default damping) reported success with ||F|| = %.3e (100 n tol = %.1e)" % (res, 100 * n * tol))
                        ctx.oracle("shape-preserved", np.shape(x) == np.shape(x0), inp, what="result shape %s, guess shape %s" % (np.shape(x), np.shape(x0)))
                        ctx.count("ntr-poor-model:%s:%s" % (name, "success" if bool(succ) else "failure"))


def bounded_block(ctx, rng):
    """newtontrustregion and hybrj called directly WITH var_bounds (the arcsin change of variables; one box [lb, ub] for all components, the form the code's broadcasting supports): cold starts inside the box and warm
    starts (solve, then solve again from the returned point, as a continuation or polishing call does); scalar (0-d), vector and matrix guesses"""
    def kepler(M, e):
        return (lambda E: E - e * np.sin(E) - M), (lambda E: np.diag(1.0 - e * np.cos(E)))
    M = np.array([0.4, 1.1, 2.3])
    fK, jK = kepler(M, 0.6)
    cases = [
        ("square-minus-four", lambda x: x ** 2 - 4.0, lambda x: np.atleast_2d(2.0 * x) if np.ndim(x) == 0 else np.diag(2.0 * np.reshape(x, (-1,))), 0.0, 5.0, [np.array(1.0), np.array([3.5]), np.array(2.0)]),
        ("kepler-3", fK, jK, 0.0, float(np.pi), [np.array([0.5, 1.0, 2.0]), np.array([2.5, 0.2, 3.0])]),
        ("cubic-offset-2", lambda x: np.array([x[0] ** 3 - 0.5, x[1] + 0.2 * x[0] - 1.3]), lambda x: np.array([[3 * x[0] ** 2, 0.0], [0.2, 1.0]]),
         -1.0, 4.0, [np.array([1.5, 0.5]), np.array([0.3, 3.0])]),
    ]
    solvers = [("ntr", lambda F, x0, J, tol, vb: OPT.newtontrustregion(F, x0, jac=J, tol=tol, var_bounds=vb)),
               ("ntr-fd", lambda F, x0, J, tol, vb: OPT.newtontrustregion(F, x0, jac=None, tol=tol, var_bounds=vb)),
               ("hybrj", lambda F, x0, J, tol, vb: OPT.hybrj(F, x0, J, tol=tol, var_bounds=vb))]
    for (name, F, J, lb, ub, starts) in cases:
        for (sname, solve) in solvers:
            for x0 in starts:
                for tol in (1e-8, 1e-11):
                    x = np.array(x0, dtype=np.float64)
                    for leg in range(3):        # leg 0: cold start; legs 1, 2: warm starts from the returned point
                        inp = dict(kind="solver", solver=sname + "-bounded", system=name, tol=tol, x0=np.reshape(x, (-1,)).tolist(), leg=leg,
                                   lower=lb, upper=ub)
                        try:
                            with np.errstate(all="ignore"):
                                xr, info = solve(F, x.copy(), J, tol, (lb, ub))
                        except Exception as e:
                            ctx.count("bounded:exception:" + type(e).__name__)
                            break
                        succ = bool(info[0])
                        xv = np.asarray(xr, dtype=np.float64)
                        res = float(np.linalg.norm(np.asarray(F(xv if np.ndim(x0) else xv.reshape(())), dtype=float)))
                        n = max(1, xv.size)
                        ctx.oracle("shape-preserved", np.shape(xr) == np.shape(x0), inp, what="result shape %s, guess shape %s" % (np.shape(xr), np.shape(x0)))
                        if succ:
                            ctx.oracle("solver-success-means-small-residual", res <= 100 * n * tol, dict(inp, residual=res, x=xv.reshape(-1).tolist()),
                                       key="bounded-success-without-residual:" + sname, what="%s with var_bounds reported success at a point with ||F|| = %.3e (100 n tol = %.1e)" % (sname, res, 100 * n * tol))
                        ctx.count("bounded:%s:%s:leg%d" % (sname, "success" if succ else "failure", leg))
                        if not succ or not np.all(np.isfinite(xv)):
                            break
                        x = np.reshape(xv, np.shape(x0))
                    ctx.nontrivial((name, sname, tol, tuple(np.reshape(x0, (-1,)).tolist())))


def replay(rep):
    return False
