"""C11 - implicit methods are unconditionally stable on stiff decay."""
import math
from fractions import Fraction as Fr
import impl
from impl import np, de, I, DS, q

ID = "C11"
LEAN_TARGETS = ["DVP.Properties.C11"]
PROPERTY_FILES = ["DVP/Properties/C11.lean"]
RULE = ("all 16 implicit methods x z = h*lambda in the closed left half-plane with |z| from 1e-3 to 1e8 (real decay and oscillatory-damped "
        "2x2 blocks, on and near the imaginary axis, either sign of h consistent with decay): one step of the real integrator on "
        "y' = lambda y (user Jacobian supplied) vs the stability function R(z) = P/Q of the generated certificate evaluated exactly, and "
        "|y1| <= |y0|; the same through the public __call__ (retries after Newton failures) on stiff 2x2 blocks. non-trivial = |z| >= 1 or complex z; distinct by (method, z)")
ASSUMPTIONS = ["the computed step agrees with R(z) to the nonlinear-solver tolerance (stage solve at 1e-7, comparison at 2e-5)"]


def one_step(cls, lam, h):
    """y' = [[a, -b], [b, a]] y with lam = a + ib ; returns y1 as complex for y0 = 1, and whether the Newton solve converged"""
    a, b = lam.real, lam.imag
    L = np.array([[a, -b], [b, a]])
    f = DS.DiffRHS(lambda t, y: L @ y)
    f.jac = lambda t, y: L
    integ = cls((2,), dtype=np.float64, rtol=1e-7, atol=1e-7)
    y0 = np.array([1.0, 0.0])
    integ.initial_rhs = f(np.float64(0.0), y0)
    integ.step(f, np.float64(0.0), y0, {}, np.float64(h))
    ok = bool(integ.solver_dict.get("newton_iteration_success", False))
    y1 = y0 + np.array(integ.dState)
    return complex(y1[0], y1[1]), ok


def call_block(ctx, rng, lines, cases):
    """through the public __call__ (first attempt, Newton failures, retries): whatever the integrator ACCEPTS on a stiff 2x2 block must
    not grow and must be the stability function at the step actually taken; refusing the step (FailedToMeetTolerances) is allowed"""
    lams = [complex(-1e4, 1e4), complex(-100.0, 0.0), complex(-1.0, 1e6), complex(-1e6, 0.0), complex(-30.0, 400.0), complex(-1e3, -3e3)]
    for cls in I.implicit_methods():
        for lam in (lams if not ctx.quick() else [lams[i] for i in sorted(rng.sample(range(len(lams)), 3))]):
            a, b = lam.real, lam.imag
            L = np.array([[a, -b], [b, a]])
            f = DS.DiffRHS(lambda t, y: L @ y)
            f.jac = lambda t, y: L
            integ = cls((2,), dtype=np.float64, rtol=1e-7, atol=1e-7)
            y0 = np.array([1.0, 0.0])
            try:
                new_dt, (dT, dY) = integ(f, np.float64(0.0), y0.copy(), {}, np.float64(1.0))
            except de.exception_types.FailedToMeetTolerances:
                ctx.count("call:refused")
                continue
            except Exception as e:
                ctx.count("call:exception:" + type(e).__name__)
                continue
            y1 = complex(*(y0 + np.array(dY)))
            zr, zi = Fr(lam.real) * Fr(float(dT)), Fr(lam.imag) * Fr(float(dT))
            lines.append("stab %s %s %s" % (cls.__name__, q(zr), q(zi)))
            cases.append((cls.__name__, "through-call", complex(float(zr), float(zi)), float(dT), y1))
            ctx.count("call:accepted")
    # two chained calls on ONE integrator object with the decay constant changed in between (OdeSystem.constants): the second step is
    # the stability function of the equation it was GIVEN - nothing of the first call's right-hand side may enter it
    for cls in I.implicit_methods():
        for (k1, k2) in ([(2048.0, 1.0)] if ctx.quick() else [(2048.0, 1.0), (1.0, 2048.0), (65536.0, 0.5)]):
            lam0 = complex(-1.0, rng.choice([0.0, 0.5, 2.0]))
            a, b = lam0.real, lam0.imag
            L = np.array([[a, -b], [b, a]])
            f = DS.DiffRHS(lambda t, y, k=1.0: k * (L @ y))
            f.jac = lambda t, y, k=1.0: k * L
            integ = cls((2,), dtype=np.float64, rtol=1e-7, atol=1e-200)
            y0 = np.array([1.0, 0.0])
            h = np.float64(rng.choice([0.125, 0.5]))
            try:
                _, (dT1, dY1) = integ(f, np.float64(0.0), y0.copy(), dict(k=k1), h)
                ya = y0 + np.array(dY1)
                _, (dT2, dY2) = integ(f, np.float64(0.0) + dT1, ya.copy(), dict(k=k2), h)
            except de.exception_types.FailedToMeetTolerances:
                ctx.count("chained-call:refused")
                continue
            except Exception as e:
                ctx.count("chained-call:exception:" + type(e).__name__)
                continue
            yb = ya + np.array(dY2)
            ratio = complex(yb[0], yb[1]) / complex(ya[0], ya[1]) if abs(complex(ya[0], ya[1])) > 0 else complex("nan")
            zr, zi = Fr(lam0.real) * Fr(k2) * Fr(float(dT2)), Fr(lam0.imag) * Fr(k2) * Fr(float(dT2))
            lines.append("stab %s %s %s" % (cls.__name__, q(zr), q(zi)))
            cases.append((cls.__name__, "chained-call-new-constants", complex(float(zr), float(zi)), float(dT2), ratio))
            ctx.count("chained-call:accepted")


def longdouble_block(ctx, lines, cases):
    """the same through __call__ with an extended-precision state (numpy.longdouble: the stage equations go to the library's own dogleg
    solver instead of MINPACK): whatever is accepted must not grow and must be the stability function at the step taken"""
    import random as _random
    r = _random.Random(ctx.seed * 86028121 + 11)
    LD = np.longdouble
    lams = [complex(-0.5, 0.0), complex(-3.0, 1.0), complex(-10.0, 0.0), complex(-40.0, 25.0), complex(-0.25, 6.0), complex(-300.0, 0.0)]
    methods = list(I.implicit_methods())
    if ctx.quick():
        methods = [m for m in methods if m.__name__ != "RadauIIA19"]
    for cls in methods:
        for lam in (lams if not ctx.quick() else [lams[i] for i in sorted(r.sample(range(len(lams)), 3))]):
            a, b = lam.real, lam.imag
            L = np.array([[a, -b], [b, a]], dtype=LD)
            f = DS.DiffRHS(lambda t, y: L @ y)
            f.jac = lambda t, y: L
            integ = cls((2,), dtype=LD, rtol=1e-7, atol=1e-7)
            y0 = np.array([1.0, 0.0], dtype=LD)
            try:
                new_dt, (dT, dY) = integ(f, LD(0.0), y0.copy(), {}, LD(1.0))
            except de.exception_types.FailedToMeetTolerances:
                ctx.count("longdouble-call:refused")
                continue
            except Exception as e:
                ctx.count("longdouble-call:exception:" + type(e).__name__)
                continue
            y1v = y0 + np.array(dY)
            y1 = complex(float(y1v[0]), float(y1v[1]))
            zr, zi = Fr(lam.real) * Fr(float(dT)), Fr(lam.imag) * Fr(float(dT))
            lines.append("stab %s %s %s" % (cls.__name__, q(zr), q(zi)))
            cases.append((cls.__name__, "through-call-longdouble", complex(float(zr), float(zi)), float(dT), y1))
            ctx.count("longdouble-call:accepted")


def run(ctx):
    rng = ctx.rng
    lines, cases = [], []
    call_block(ctx, rng, lines, cases)
    longdouble_block(ctx, lines, cases)
    reps = 10 if ctx.quick() else 60
    for cls in I.implicit_methods():
        for rep in range(reps + 3):
            # half of the samples where the shape of the stability function matters (|z| ~ 0.1..100), the rest over 11 decades
            mag = 10.0 ** (rng.uniform(-1, 2) if rep % 2 == 0 else rng.uniform(-3, 8))
            kind = rng.choice(["real", "complex", "imag-axis", "near-axis"])
            stiff_backward = rep >= reps          # three more per method: backward steps (h < 0, Re lambda > 0) on stiff oscillatory blocks
            if stiff_backward:
                mag = 10.0 ** rng.uniform(4, 7)
                kind = rng.choice(["complex", "imag-axis", "near-axis"])
            if kind == "real":
                zr, zi = -mag, 0.0
            elif kind == "complex":
                th = rng.uniform(math.pi / 2, math.pi)
                zr, zi = mag * math.cos(th), mag * math.sin(th) * rng.choice([1, -1])
            elif kind == "imag-axis":
                zr, zi = 0.0, mag * rng.choice([1, -1])
            else:
                th = math.pi / 2 + rng.choice([1e-6, 0.02, 0.09, 0.17])        # within 10 degrees of the imaginary axis
                zr, zi = mag * math.cos(th), mag * math.sin(th) * rng.choice([1, -1])
            # z as dyadic rationals so that the exact evaluation and the float run see the same z
            zr, zi = float(np.float32(zr)), float(np.float32(zi))
            h = rng.choice([1.0, 0.125, 2.0 ** -10, -0.5]) if not stiff_backward else rng.choice([-0.5, -1.0, -2.0 ** -6])
            lam = complex(zr, zi) / h
            try:
                y1, ok = one_step(cls, lam, h)
            except Exception as e:
                ctx.count("step-exception:" + type(e).__name__)
                continue
            if not ok:
                ctx.count("newton-not-converged:" + cls.__name__)
                continue
            zr2, zi2 = Fr(lam.real) * Fr(h), Fr(lam.imag) * Fr(h)      # the z the integrator really saw
            lines.append("stab %s %s %s" % (cls.__name__, q(zr2), q(zi2)))
            cases.append((cls.__name__, kind, complex(float(zr2), float(zi2)), h, y1))
    outs = ctx.driver(lines)
    for (name, kind, z, h, y1), o in zip(cases, outs):
        inp = dict(kind="stability", method=name, z=[z.real, z.imag], h=h, y1=[y1.real, y1.imag])
        if o == "pole":
            ctx.corr("stability-function", False, dict(inp, model="pole in the closed left half-plane"))
            continue
        rr, ri = o.split()
        R = complex(float(Fr(rr)), float(Fr(ri)))
        err = abs(y1 - R)
        ctx.corr("stability-function", err <= 2e-5 * max(1.0, abs(R)), dict(inp, R=[R.real, R.imag], err=err))
        ctx.oracle("accepted-step-does-not-grow", abs(y1) <= 1.0 + 2e-5, inp, what="|y1| = %.12g > |y0| = 1 for Re(z) <= 0 (z = %r)" % (abs(y1), z))
        ctx.oracle("model-stability-function-bounded", abs(R) <= 1.0 + 1e-9, inp, what="|R(z)| = %.12g" % abs(R))
        if abs(z) >= 1 or z.imag != 0:
            ctx.nontrivial((name, z.real, z.imag))
        ctx.count("kind:" + kind)
        ctx.count("method:" + name)
    if lines:
        ctx.sample(dict(kind="stability", op=lines[0][:160], model=outs[0][:120]))


def search(ctx, broken):
    """a certificate or the correspondence broke: scan the model's stability function over the left half-plane (sector grid, dense
    near the imaginary axis) for |R(z)| > 1 or a pole, and run the real integrator at the worst points found"""
    grid = []
    for cls in I.implicit_methods():
        for k in range(31):
            mag = 10.0 ** (-1 + 0.1 * k)
            for th in (0.0, 0.02, 0.05, 0.09, 0.14, 0.2, 0.35, 0.6, 1.0, math.pi / 2):
                a = math.pi / 2 + th
                zr, zi = float(np.float32(mag * math.cos(a))), float(np.float32(mag * math.sin(a)))
                if th == 0.0:
                    zr = 0.0
                grid.append((cls, zr, zi))
    outs = ctx.driver(["stab %s %s %s" % (c.__name__, q(Fr(zr)), q(Fr(zi))) for c, zr, zi in grid])
    bad = []
    for (cls, zr, zi), o in zip(grid, outs):
        if o == "pole":
            bad.append((float("inf"), cls, zr, zi))
            continue
        rr, ri = o.split()
        m = abs(complex(float(Fr(rr)), float(Fr(ri))))
        if m > 1.0 + 1e-9:
            bad.append((m, cls, zr, zi))
    ctx.count("search:grid-points=%d" % len(grid))
    ctx.count("search:model-points-with-growth=%d" % len(bad))
    bad.sort(key=lambda b: -b[0])
    for m, cls, zr, zi in bad[:40]:
        for h in (1.0, 0.125, -0.5):
            lam = complex(zr, zi) / h
            try:
                y1, ok = one_step(cls, lam, h)
            except Exception:
                continue
            if not ok:
                continue
            inp = dict(kind="stability", method=cls.__name__, z=[zr, zi], h=h, y1=[y1.real, y1.imag], model_abs_R=m)
            ctx.oracle("accepted-step-does-not-grow", abs(y1) <= 1.0 + 2e-5, inp,
                       what="|y1| = %.12g > |y0| = 1 for Re(z) <= 0 (z = %r); the model's |R(z)| = %.6g" % (abs(y1), complex(zr, zi), m))


def replay(rep):
    return False
