"""C08 - no event crossing is missed (scenario runner shared with C07)."""
import p_c07

ID = "C08"
LEAN_TARGETS = ["DVP.Properties.C08"]
PROPERTY_FILES = ["DVP/Properties/C08.lean"]
RULE = p_c07.RULE + " Focus: scales s of the event functions over 12 decades; every sign change of an event function between consecutive recorded samples must be matched by a reported event in that step."
ASSUMPTIONS = p_c07.ASSUMPTIONS


def run(ctx):
    p_c07.run_focus(ctx, "C08", 66, 560)


def search(ctx, broken):
    p_c07.search(ctx, broken)


def replay(rep):
    return False
