"""C07 - reported events are genuine, correctly located, ordered and unique.
   (the scenario runner below is shared with C08 and C09: run(ctx, focus))"""
import math
import impl, eventsim
from impl import np, de, I, DS, OPT, fbits

ID = "C07"
LEAN_TARGETS = ["DVP.Properties.C07"]
PROPERTY_FILES = ["DVP/Properties/C07.lean"]
RULE = ("seeded event scenarios on the harmonic oscillator (closed form): 1..6 simultaneous events of the families s*(y0-c), s*(y1-c), s*(t-c), "
        "s*(y0*y1-c), derivative-dependent s*(dy0-c), scales s over 12 decades, directions -1/0/+1, terminal or not, fixed-step and adaptive "
        "methods, both time directions, dense output on/off, crossings exactly on step boundaries. What handle_events saw (probes) and "
        "returned is recorded for every step and replayed through the Lean selection model; the recorded events list through the "
        "bookkeeping model; the property clauses are evaluated on the reported events. non-trivial = scenario with >= 2 events or a "
        "boundary crossing; distinct by scenario")
ASSUMPTIONS = ["closeness to a root of the exact trajectory is judged at 50 x tolerance of the integration (1e-6 for fixed-step runs)",
               "events whose located roots are exactly equal floats are ordered by numpy.argsort in an unspecified way: the model's stable order is one "
               "admissible outcome, and an implementation outcome that differs only in the order of such ties (and in which tie-mates of a terminal "
               "event precede it) is accepted as corresponding"]

METHODS = ["RK4Solver", "RK45CKSolver", "DOPRI45", "RK8713MSolver", "ABAs5o6HSolver", "Richardson(RK4Solver,3)"]
_RICH = {}


def method_class(name):
    """a registry name, or a Richardson wrapper (which adds several dense pieces per step)"""
    if name.startswith("Richardson("):
        if name not in _RICH:
            base, lev = name[len("Richardson("):-1].split(",")
            _RICH[name] = de.integrators.generate_richardson_integrator(getattr(I, base), int(lev))
        return _RICH[name]
    return getattr(I, name)
EPS = eventsim.EPS


def gen_scenario(rng, focus):
    method = rng.choice(METHODS)
    backward = rng.random() < 0.4
    t0 = rng.choice([0.0, -1.5, 2.0])
    span = rng.uniform(2.0, 6.0)
    tf = t0 - span if backward else t0 + span
    dt = rng.choice([0.1, 0.25, 0.05])
    nev = rng.choice([1, 1, 2, 3, 6])
    evs = []
    for _ in range(nev):
        kind = rng.choice(["y0", "y0", "y1", "time", "energy", "deriv"])
        if kind == "time":
            c = t0 + (tf - t0) * rng.choice([0.25, 0.5, 0.3, 0.77])
        else:
            c = rng.choice([0.0, 0.3, -0.5, 0.25, 0.8])
            if kind == "energy":
                c = rng.choice([0.0, 0.2, -0.3])
        if focus == "C08":
            s = 10.0 ** rng.choice([-6, -3, -1, 0, 0, 1, 2, 3, 6])
        else:
            s = 10.0 ** rng.choice([-3, -1, 0, 0, 0, 1])
        s *= rng.choice([1, -1])
        direction = rng.choice([0, 0, 1, -1])
        terminal = (rng.random() < (0.5 if focus == "C09" else 0.12))
        evs.append(eventsim.make_event(kind, c, s, direction, terminal))
    dense = rng.random() < 0.6
    if rng.random() < 0.3:
        # two or three crossings inside ONE step (coarse step, close surfaces), one of them possibly terminal, anywhere on the time axis
        method = rng.choice(["RK4Solver", "RK8713MSolver", "DOPRI45"])
        t0 = rng.choice([0.0, -5.0, 5.0, -0.3, 2.0])
        span = rng.uniform(1.5, 3.0)
        tf = t0 - span if backward else t0 + span
        dt = rng.choice([0.5, 0.4])
        c0 = rng.choice([0.3, 0.5, 0.62, -0.2])
        gap = rng.choice([0.001, 0.01, 0.05])
        which_terminal = rng.choice([None, 0, 1, 1, 2]) if focus != "C07" else rng.choice([None, None, 1])
        evs = []
        for j in range(rng.choice([2, 3])):
            evs.append(eventsim.make_event("y0", c0 + j * gap, rng.choice([1.0, -1.0]), 0, which_terminal == j))
        rng.shuffle(evs)
    elif rng.random() < 0.15:
        # crossings exactly on step boundaries: y' handled by the time event on a dyadic grid
        method, dt = "RK4Solver", 0.25
        t0, tf = (0.0, 2.0) if not backward else (2.0, 0.0)
        # (for C09: the later of the two may be terminal - a stop exactly on a step end, in either direction)
        term_on_grid = focus in ("C09", "all") and rng.random() < 0.6
        first, second = (0.5, 0.75) if not backward else (1.25, 0.5)
        evs = [eventsim.make_event("time", first, 1.0, 0, False), eventsim.make_event("time", second, 1.0, 0, term_on_grid)]
    elif rng.random() < 0.2:
        # several functions with the SAME zeros (one level, different scales / orientations), crossed repeatedly: every one of them has
        # to be reported at every crossing, however many share the instant
        kind = rng.choice(["y0", "y0", "y1"])
        c = rng.choice([0.3, -0.5, 0.25, 0.5])
        span = rng.uniform(7.0, 11.0)
        tf = t0 - span if backward else t0 + span
        scales = [1.0, -1.0, 1e3, 1e-3, 10.0, -1e2] if focus == "C08" else [1.0, -1.0, 10.0, 1e-1]
        evs = [eventsim.make_event(kind, c, s_, 0, False) for s_ in rng.sample(scales, rng.choice([2, 3]))]
    omega = 1.0
    if focus in ("C08", "all") and rng.random() < 0.2:
        # a slow circle: steps that are long in absolute time, next to (or across) t = 0, with steep event functions
        omega = 0.05
        method = rng.choice(["RK4Solver", "RK45CKSolver", "RK8713MSolver", "DOPRI45"])
        t0 = rng.choice([0.0, 0.0, -40.0, 40.0])
        tf = (t0 + 80.0 if t0 < 0 else (t0 - 80.0 if t0 > 0 else (-40.0 if backward else 40.0)))
        dt = 10.0
        # the level is met inside a step that has t = 0 as one end (or inside it), at |t| >= 1.5
        tc = rng.uniform(1.5, 8.0) * (rng.choice([1.0, -1.0]) if t0 != 0.0 else (-1.0 if backward else 1.0))
        c = math.cos(omega * (tc - t0))
        evs = [eventsim.make_event("y0", c, s_ * rng.choice([1, -1]), 0, False) for s_ in rng.sample([1e-6, 1e-3, 1.0, 1e3, 1e6, 1e2], rng.choice([1, 2, 3]))]
    sc = dict(method=method, t0=t0, tf=tf, dt=dt, dense=dense)
    if omega != 1.0:
        sc["omega"] = omega
    return sc, evs


def slow_scenarios(rng):
    """every run: steps long in absolute time with t = 0 as an end point, the crossing at 1.5 <= |t| <= 8 inside such a step, all scales
    at once.  The level is chosen where the event function moves by MORE than its own floating-point spacing per ulp of time (a zero of the
    unscaled function far from t = 0), so that no representable time makes it vanish exactly and only a root finder that accepts the
    narrowest possible bracket reports the steep crossings."""
    out = []
    omega = 0.05
    scales = [1e-6, 1e-3, 1.0, 1e3, 1e6]
    for (t0, tf) in [(-30.0, 30.0), (30.0, -30.0)]:
        for side in (1.0, -1.0):
            tc = rng.uniform(1.5, 8.0) * side
            c = math.cos(omega * (tc - t0))
            evs = [eventsim.make_event("y0", c, s_ * rng.choice([1, -1]), 0, False) for s_ in scales]
            out.append((dict(method="RK4Solver", t0=t0, tf=tf, dt=10.0, dense=rng.random() < 0.5, omega=omega), evs))
    for method in ["RK4Solver", "RK8713MSolver"]:
        for (t0, tf) in [(0.0, 40.0), (0.0, -40.0)]:
            tc = rng.uniform(1.5, 6.0) * (1.0 if tf > 0 else -1.0)
            c = -math.sin(omega * (tc - t0))
            evs = [eventsim.make_event("y1", c, s_ * rng.choice([1, -1]), 0, False) for s_ in scales]
            out.append((dict(method=method, t0=t0, tf=tf, dt=10.0, dense=rng.random() < 0.5, omega=omega), evs))
    return out


def far_scenarios(seed):
    """runs far from the origin with steps that are tiny relative to |t| (|t| ~ 1e5 .. 1e6, dt ~ 1e-3): a fixed fraction of the step is
    then below the spacing of the floats at the root; a crossing inside a step must still be reported, forward and backward, several scales"""
    import random as _random
    r = _random.Random(seed * 13 + 8)
    out = []
    omega = 40.0
    for t0 in (1.0e6, -1.0e6, 3.0e5, -2.0e6):
        for d in (1.0, -1.0):
            ph = r.uniform(0.4, 1.7)
            c = math.cos(ph)
            evs = [eventsim.make_event("y0", c, s_ * r.choice([1, -1]), 0, False) for s_ in (1.0, 1e3, 1e-3)]
            out.append((dict(method=r.choice(["RK4Solver", "RK45CKSolver"]), t0=t0, tf=t0 + d * 0.05, dt=1e-3, dense=r.random() < 0.5, omega=omega), evs))
    # event functions of very different magnitude monitored together (down to 1e-18 next to O(1) and 1e6): each one's crossings are its own
    for (t0, tf) in [(0.0, 6.0), (0.0, -6.0), (-2.0, 4.0)]:
        c = r.uniform(-0.7, 0.7)
        scales = [1e-18, 1.0, 1e-12, 1e6, 1e-15, 1e-200]      # 1e-200: products of two values underflow (defect P34, repaired)
        evs = [eventsim.make_event("y0", c + 0.01 * k, s_ * r.choice([1, -1]), 0, False) for k, s_ in enumerate(scales)]
        out.append((dict(method=r.choice(["RK4Solver", "RK45CKSolver"]), t0=t0, tf=tf, dt=0.1, dense=r.random() < 0.5), evs))
    return out


def boundary_stop_scenarios(rng):
    """every C09 run: a terminal event whose root lies exactly on a step end (fixed step on a dyadic grid), forward and backward,
    alone and after a non-terminal event on an earlier grid point, with and without dense output"""
    out = []
    for (t0, tf) in [(0.0, 2.0), (2.0, 0.0), (-1.0, 1.0), (1.0, -1.0)]:
        d = 1.0 if tf > t0 else -1.0
        for with_other in (False, True):
            stop = t0 + d * 0.75
            evs = ([eventsim.make_event("time", t0 + d * 0.5, 1.0, 0, False)] if with_other else []) + [eventsim.make_event("time", stop, rng.choice([1.0, -1.0]), 0, True)]
            out.append((dict(method=rng.choice(["RK4Solver", "SymplecticEulerSolver"]), t0=t0, tf=tf, dt=0.25, dense=rng.random() < 0.5), evs))
    return out


def analyse(ctx, sc, evs, ode, spy, exc, focus, lines, pending):
    desc = dict(sc, events=[e.desc for e in evs])
    inp = dict(kind="events", **desc)
    backward = sc["tf"] < sc["t0"]
    d = -1.0 if backward else 1.0
    omega = sc.get("omega", 1.0)
    exact = eventsim.harmonic_exact(sc["t0"], omega)
    if exc is not None:
        ctx.oracle("event-run-succeeds", False, dict(inp, error=repr(exc)[:200]), what="integration with events raised %r" % (exc,))
        return
    reported = [(evs.index(e.event), float(e.t), np.array(e.y)) for e in ode.events]
    tol_loc = 1e-6 if sc["method"] in ("RK4Solver", "ABAs5o6HSolver") else 1e-6
    t = np.array(ode.t)
    terminal_hit = ode.integration_status.startswith("Integration terminated")
    # ---- selection + bookkeeping correspondence
    for st in spy.steps:
        if "error" in st:
            ctx.corr("probe-recording", False, dict(inp, error=st["error"]))
            continue
        lines.append(eventsim.probe_line(st))
        pending.append(("select", inp, st))
    steps_enc = ";".join("%s:%s:%s" % (fbits(st["t_prev"]), fbits(st["t_next"]), ".".join("%d@%s" % (a, fbits(r)) for a, r in zip(st["active"], st["roots"]))) for st in spy.steps if "error" not in st)
    lines.append("evrecord %s %d %s" % (fbits(EPS ** 0.7), len(evs), steps_enc if steps_enc else "-"))
    pending.append(("record", inp, reported))
    # ---- C07: genuine, located, ordered, unique
    if focus in ("C07", "all"):
        for (i, te, ye) in reported:
            g = evs[i]
            kind, c, s = g.desc["kind"], g.desc["c"], g.desc["s"]
            # inside some accepted step
            inside = any(min(a, b) - 1e-12 <= te <= max(a, b) + 1e-12 for a, b in zip(t[:-1], t[1:])) or len(t) == 1
            ctx.oracle("event-inside-a-step", bool(inside), dict(inp, event=[i, te]), what="event at t=%r lies in no recorded step" % te)
            if ode.sol is not None and len(ode.sol) > 0:
                ctx.oracle("event-state-is-dense-value", bool(np.array_equal(ye, ode.sol(te))), dict(inp, event=[i, te]), key="event-state-vs-dense:" + ("terminal" if terminal_hit else "plain"),
                           what="event state differs from the dense solution at the event time")
            # near a root of g along the exact trajectory: |h_exact(te) - c| small relative to the slope scale
            hv = eventsim.exact_h(kind, te, exact)
            hmax = float(np.max(np.abs(np.diff(t)))) if len(t) > 1 else 0.0
            # the root is located on the cubic Hermite dense output, whose error is O(h^4) (O(h^3) for its derivative)
            cubic = 0.5 * (omega * hmax) ** (3 if kind == "deriv" else 4)
            if abs(hv - c) <= 50 * tol_loc:
                ctx.oracle("event-near-true-root", True)
            else:
                ctx.oracle("event-near-true-root", False, dict(inp, event=[i, te], h_minus_c=hv - c, largest_step=hmax),
                           key="event-location-limited-by-cubic-dense-output" if abs(hv - c) <= cubic else "event-not-at-a-root",
                           what="event of %s at t=%r: the exact trajectory has h - c = %.3e there (largest step %.3g)" % (kind, te, hv - c, hmax))
            # direction
            if g.direction != 0:
                h2 = 1e-4
                slope = (eventsim.exact_h(kind, te + d * h2, exact) - eventsim.exact_h(kind, te - d * h2, exact)) * s
                if abs(slope) > 1e-7 * abs(s):
                    ctx.oracle("event-direction-compatible", (slope > 0) == (g.direction > 0), dict(inp, event=[i, te], slope_along_integration=slope),
                               what="event with direction %d reported at a crossing whose slope along the integration is %.3e" % (g.direction, slope))
        ts = [te for (_, te, _) in reported]
        ctx.oracle("events-in-order", all((b - a) * d >= -1e-12 for a, b in zip(ts, ts[1:])), dict(inp, times=ts), what="events not listed in the order they are met: %s" % ts)
        for i in range(len(evs)):
            ti = sorted(te for (j, te, _) in reported if j == i)
            ctx.oracle("no-duplicate-events", all(b - a > 1e-9 for a, b in zip(ti, ti[1:])), dict(inp, event=i, times=ti), what="event %d reported twice at %s" % (i, ti))
    # ---- C08: completeness against the recorded samples
    if focus in ("C08", "C09", "all"):
        last_step_only_partial = terminal_hit
        for i, g in enumerate(evs):
            if g.desc["kind"] == "deriv":
                continue
            if focus == "C09" and abs(g.desc["s"]) > 1.0:
                continue        # steep event functions are C08's known finding
            vals = [g(float(tt), yy) for tt, yy in zip(ode.t, ode.y)]
            for k in range(len(vals) - 1):
                a, b = vals[k], vals[k + 1]
                if (a < 0 < b) or (b < 0 < a):       # by sign, not by product: products of tiny values underflow
                    comp = g.direction == 0 or ((b > a) == (g.direction > 0))
                    if not comp:
                        continue
                    lo, hi = min(t[k], t[k + 1]), max(t[k], t[k + 1])
                    found = any(j == i and lo - 1e-12 <= te <= hi + 1e-12 for (j, te, _) in reported)
                    # a crossing located AT the stop of an event-terminated run (a tie with the terminal event, to within the
                    # root finder's resolution) is not "before the stop": whether it is listed depends on numpy's tie order
                    if not found and terminal_hit and k == len(vals) - 2:
                        tstar = t[k] + (t[k + 1] - t[k]) * a / (a - b)
                        if abs(t[k + 1] - tstar) <= 1e-5 * abs(t[k + 1] - t[k]) + 1e-9:
                            ctx.count("completeness:crossing-coincides-with-the-stop")
                            continue
                    near_stop = False
                    if not found and terminal_hit and k == len(vals) - 2:
                        # the stop itself is located on the cubic dense output (finding P23): a crossing closer to the located stop than
                        # that location error may fall on either side of it
                        hmax_ = float(np.max(np.abs(np.diff(t))))
                        near_stop = abs(b) <= 2.0 * abs(g.desc["s"]) * 0.5 * (omega * hmax_) ** 4
                    if not found:
                        # classify: did the bracketing root finder refuse the (steep) crossing?
                        # (the recorded samples include the event points themselves, so the integrator step is the one that CONTAINS [lo, hi])
                        st = [s_ for s_ in spy.steps if "error" not in s_ and min(s_["t_prev"], s_["t_next"]) - 1e-12 <= lo and hi <= max(s_["t_prev"], s_["t_next"]) + 1e-12]
                        steep = bool(st) and not st[0]["probes"][i]["success"]
                        ctx.oracle("sign-change-reported", False, dict(inp, event=i, step=[float(t[k]), float(t[k + 1])], g=[a, b], root_finder_success=(st[0]["probes"][i]["success"] if st else None)),
                                   key="steep-event-missed" if steep else ("event-location-limited-by-cubic-dense-output" if near_stop else "event-missed"),
                                   what="event %d changes sign (%.3e -> %.3e) in the step [%r, %r] but no event is reported there" % (i, a, b, float(t[k]), float(t[k + 1])))
                    else:
                        ctx.oracle("sign-change-reported", True)
    # ---- C09: terminal stop
    if focus in ("C09", "all"):
        term_reported = [(i, te) for (i, te, _) in reported if evs[i].is_terminal]
        if terminal_hit:
            ctx.oracle("terminal-status-success", ode.success and loop_status(ode) == 2, inp, what="terminated by event but success=%r status=%r" % (ode.success, ode.integration_status))
            ctx.oracle("exactly-one-terminal-event-last", len(term_reported) >= 1 and reported[-1][0] == term_reported[-1][0] and len([1 for (i, te) in term_reported if abs(te - term_reported[-1][1]) > 1e-9]) == 0, dict(inp, reported=[(i, te) for i, te, _ in reported]),
                       what="terminal events reported: %s; all events: %s" % (term_reported, [(i, te) for i, te, _ in reported]))
            te = term_reported[-1][1] if term_reported else None
            if te is not None:
                ctx.oracle("stops-at-event-time", abs(float(t[-1]) - te) <= 1e-12, dict(inp, last_time=float(t[-1]), event_time=te), what="last recorded time %r, terminal event at %r" % (float(t[-1]), te))
                g = evs[term_reported[-1][0]]
                if g.desc["kind"] != "deriv":
                    gv = abs(g(float(t[-1]), ode.y[-1])) / abs(g.desc["s"])
                    hmax = float(np.max(np.abs(np.diff(t)))) if len(t) > 1 else 0.0
                    if gv <= 1e-6:
                        ctx.oracle("last-state-on-event-surface", True)
                    else:
                        ctx.oracle("last-state-on-event-surface", False, dict(inp, residual=gv, largest_step=hmax),
                                   key="event-location-limited-by-cubic-dense-output" if gv <= 0.5 * (omega * hmax) ** 4 else "last-state-off-event-surface",
                                   what="|h - c| = %.3e at the last recorded state (largest step %.3g)" % (gv, hmax))
                ctx.oracle("nothing-beyond-the-event", all((te - x) * d >= -1e-12 for x in t), inp, what="samples recorded beyond the terminal event")
                ctx.oracle("no-event-beyond-the-stop", all((te - x) * d >= -1e-9 for (_, x, _) in reported), dict(inp, events=[(i, x) for i, x, _ in reported], stop=te),
                           what="an event is reported beyond the terminal event at %r: %s" % (te, [(i, x) for i, x, _ in reported]))
                ctx.oracle("trajectory-monotone", bool(np.all(np.diff(t) * d > 0)), dict(inp, tail=[float(x) for x in t[-4:]]), what="recorded times not monotone after the terminal stop")
                if ode.sol is not None and len(ode.sol) > 0:
                    st = [float(x) for x in ode.sol.t_eval]
                    ordered = all(b > a for a, b in zip(st, st[1:]))
                    ctx.oracle("dense-output-ordered-after-stop", ordered and abs((st[-1] if not backward else st[0]) - float(t[-1])) <= 1e-12, dict(inp, t_eval_tail=st[-4:], last_time=float(t[-1])),
                               key="terminal-event-dense-unsorted", what="dense output after the terminal stop: piece end times %s, last recorded time %r" % (st[-4:], float(t[-1])))
                # continuation WITH the same events (the way a bouncing-ball loop is written): the crossing the run stopped at must not fire
                # again at the very point where the call starts, and must not be listed a second time
                if focus in ("C09", "all"):
                    try:
                        ode2, _, exc2 = eventsim.run_case(method_class(sc["method"]), sc["t0"], sc["tf"], sc["dt"], evs, sc["dense"], omega=omega)
                        if exc2 is None and ode2.integration_status.startswith("Integration terminated"):
                            te2 = float(ode2.t[-1])
                            nev2 = len(ode2.events)
                            ode2.integrate(events=evs)
                            moved = abs(float(ode2.t[-1]) - te2) > 1e-9
                            ctx.oracle("continuation-with-the-same-events-leaves-the-stop", moved, dict(inp, stop=te2, end_after_second_call=float(ode2.t[-1]), status=ode2.integration_status[:40]),
                                       key="same-terminal-event-fires-again-at-the-stop",
                                       what="called again with the same events after the terminal stop at t=%r, the system is still at t=%r (%s)" % (te2, float(ode2.t[-1]), ode2.integration_status[:40]))
                            again = [e for e in ode2.events[nev2:] if any(e.event is f.event and abs(float(e.t) - float(f.t)) <= 1e-9 for f in ode2.events[:nev2])]
                            ctx.oracle("no-crossing-listed-again-by-the-next-call", not again, dict(inp, stop=te2, listed_again=[float(e.t) for e in again][:4]),
                                       key="same-terminal-event-fires-again-at-the-stop",
                                       what="the crossing at t=%r, already in the event list, was listed again by the next call" % (float(again[0].t) if again else None,))
                    except Exception as e:
                        ctx.oracle("continuation-with-the-same-events-leaves-the-stop", False, dict(inp, error=repr(e)[:200]), what="continuation with the same events raised %r" % (e,))
                # continuation
                try:
                    n_before = len(ode.t)
                    ode.integrate()
                    ok = abs(float(ode.t[-1]) - sc["tf"]) <= 1e-9 and bool(np.all(np.diff(np.array(ode.t)) * d > 0)) and loop_status(ode) == 1
                    err = float(np.max(np.abs(ode.y[-1] - exact(float(ode.t[-1])))))
                    plain = de.OdeSystem(eventsim.harmonic_w(omega), y0=np.array([1.0, 0.0]), t=(sc["t0"], sc["tf"]), dt=sc["dt"], rtol=1e-9, atol=1e-11)
                    plain.set_method(method_class(sc["method"]))
                    plain.integrate()
                    err_plain = float(np.max(np.abs(plain.y[-1] - exact(float(plain.t[-1])))))
                    ctx.oracle("continues-after-stop", ok and err <= 5 * err_plain + 1e-7, dict(inp, end=float(ode.t[-1]), err=err, status=ode.integration_status),
                               what="continuation after the terminal event ended at t=%r (target %r), status %r, error %.2e" % (float(ode.t[-1]), sc["tf"], ode.integration_status, err))
                except Exception as e:
                    ctx.oracle("continues-after-stop", False, inp, what="continuation raised %r" % (e,))
        else:
            ctx.oracle("no-terminal-no-stop", abs(float(t[-1]) - sc["tf"]) <= 1e-9 and len(term_reported) == 0, dict(inp, last=float(t[-1])), what="run without terminal stop ended at %r (target %r) with terminal events %s" % (float(t[-1]), sc["tf"], term_reported))
    if len(evs) >= 2:
        ctx.nontrivial(str(desc))
    ctx.count("dir:" + ("bwd" if backward else "fwd"))
    ctx.count("dense:" + str(sc["dense"]))
    ctx.count("nev:%d" % len(evs))
    if omega != 1.0:
        ctx.count("slow-circle-long-steps")
    if len(evs) >= 2 and len(set((e.desc["kind"], e.desc["c"]) for e in evs)) == 1:
        ctx.count("coincident-zeros:%s" % ("repeated" if abs(sc["tf"] - sc["t0"]) * omega > 6.5 else "single-pass"))
    ctx.count("terminal-hit" if terminal_hit else "ran-to-end")
    ctx.sample(desc, limit=3)


def loop_status(ode):
    st = ode._OdeSystem__int_status
    return st if isinstance(st, int) else 3


def tie_equivalent(impl, model, probes):
    """numpy.argsort does not define the order of exactly equal roots (and which tie-mates of a terminal event fall before it):
    the model's stable order is one admissible outcome; another outcome is accepted when it differs only there"""
    try:
        (ia, it), (ma, mt) = impl.split(), model.split()
        if it != mt:
            return False
        I = [int(v) for v in ia.split(",")] if ia != "-" else []
        M = [int(v) for v in ma.split(",")] if ma != "-" else []
        r = lambda i: probes[i]["root"]
        if it == "true":
            if not I or not M or not probes[I[-1]]["terminal"] or r(I[-1]) != r(M[-1]):
                return False
            rt = r(M[-1])
            A, B = [i for i in I if r(i) != rt], [i for i in M if r(i) != rt]
        else:
            A, B = I, M
        return sorted(A) == sorted(B) and [r(i) for i in A] == [r(i) for i in B]
    except Exception:
        return False


def run_focus(ctx, focus, n_quick, n_thorough):
    rng = ctx.rng
    lines, pending = [], []
    fixed = [x for _ in range(3 if ctx.quick() else 8) for x in slow_scenarios(rng)] if focus in ("C08", "all") else []
    if focus in ("C09", "all"):
        fixed = fixed + boundary_stop_scenarios(rng)
    for i in range(n_quick if ctx.quick() else n_thorough):
        sc, evs = fixed[i] if i < len(fixed) else gen_scenario(rng, focus)
        ode, spy, exc = eventsim.run_case(method_class(sc["method"]), sc["t0"], sc["tf"], sc["dt"], evs, sc["dense"], omega=sc.get("omega", 1.0))
        analyse(ctx, sc, evs, ode, spy, exc, focus, lines, pending)
    if focus in ("C08", "all"):
        for sc, evs in far_scenarios(ctx.seed):       # own random stream
            ode, spy, exc = eventsim.run_case(method_class(sc["method"]), sc["t0"], sc["tf"], sc["dt"], evs, sc["dense"], omega=sc.get("omega", 1.0))
            analyse(ctx, sc, evs, ode, spy, exc, focus, lines, pending)
            ctx.count("family:far-from-origin")
    outs = ctx.driver(lines)
    for (kind, inp, data), o in zip(pending, outs):
        if kind == "select":
            want = "%s %s" % (",".join(str(a) for a in data["active"]) if data["active"] else "-", "true" if data["terminate"] else "false")
            same = o == want
            if not same and tie_equivalent(want, o, data["probes"]):
                same = True
                ctx.count("selection:exact-root-tie-ordered-differently-by-numpy")
            ctx.corr("event-selection", same, dict(inp, step=[data["t_prev"], data["t_next"]], probes=data["probes"], impl=want, model=o))
        else:
            want = ",".join("%d@%s" % (i, fbits(te)) for (i, te, _) in data) if data else "-"
            ctx.corr("event-bookkeeping", o == want, dict(inp, impl=want[:300], model=o[:300]))


def run(ctx):
    run_focus(ctx, "C07", 40, 400)


def search(ctx, broken):
    saved = ctx.tier
    ctx.tier = "thorough"
    try:
        run_focus(ctx, ctx.pid if ctx.pid in ("C07", "C08", "C09") else "all", 400, 400)
    finally:
        ctx.tier = saved


def replay(rep):
    return False
