"""C03 - integration covers exactly the requested time span, in order."""
import math
import impl, loopsim
from impl import np, de, I, fbits

ID = "C03"
LEAN_TARGETS = ["DVP.Properties.C03"]
PROPERTY_FILES = ["DVP/Properties/C03.lean"]
RULE = ("seeded operation sequences on a real OdeSystem (new / integrate() / integrate(t) incl. reversal and targets beyond tf / set dt / "
        "set tf / reset) over all sign patterns of (t0, tf), dt of either sign and larger/smaller than the span, fixed-step, adaptive, "
        "implicit and splitting methods; every integrator call is recorded and the whole sequence is replayed bit-exactly through the Lean "
        "loop model (times, dt, status, buffer capacity, every requested step). The property itself is evaluated on every recorded grid. "
        "non-trivial = an integrate call that took >= 2 steps; distinct by (method, ops)")
ASSUMPTIONS = ["the integrator honours the contract K1 (dTime has the sign of the request and |dTime| <= |request|, new_dt != 0); the "
               "recorded returns are checked against it on every run",
               "rounding: theorems over Q; float runs are replayed bit-exactly on the generated inputs"]

METHODS_QUICK = ["RK4Solver", "RK45CKSolver", "EulerSolver", "DOPRI45", "SymplecticEulerSolver", "BackwardEuler"]


def gen_ops(rng, long_run=False):
    pat = rng.choice(["pos", "neg", "mixed", "zero-start", "backward", "backward-mixed", "backward-neg"])
    a, b = sorted([rng.uniform(0.1, 6), rng.uniform(0.1, 6)])
    if b - a < 0.3:
        b = a + 0.3 + rng.uniform(0, 2)
    if rng.random() < 0.3:
        a, b = round(a * 4) / 4, round(b * 4) / 4 + 0.25
    t0, tf = dict(pos=(a, b), neg=(-b, -a), mixed=(-a, b), **{"zero-start": (0.0, b), "backward": (b, a),
                  "backward-mixed": (a, -b), "backward-neg": (-a, -b)})[pat]
    span = abs(tf - t0)
    dtk = rng.choice(["small", "dyadic", "large", "huge", "negative", "awkward"])
    dt = dict(small=span / rng.uniform(8, 40), dyadic=2.0 ** -rng.randint(2, 5), large=span * rng.uniform(0.4, 0.99),
              huge=span * rng.uniform(1.1, 30), negative=-span / rng.uniform(3, 20), awkward=span / rng.choice([3, 7, 10]))[dtk]
    if long_run:
        dt = span / rng.uniform(5200, 5600)
    ops = [("new", t0, tf, dt)]
    n = rng.choice([1, 1, 2, 3, 4])
    cur_tf = tf
    for _ in range(n):
        r = rng.random()
        if r < 0.35:
            ops.append(("int", None, {}))
        elif r < 0.75:
            kind = rng.choice(["inside", "beyond", "reverse", "same", "tiny"])
            tgt = dict(inside=t0 + (tf - t0) * rng.uniform(0.1, 0.9), beyond=tf + (tf - t0) * rng.uniform(0.1, 1.0),
                       reverse=t0 - (tf - t0) * rng.uniform(0.1, 1.0), same=cur_tf, tiny=t0 + (tf - t0) * 1e-9)[kind]
            ops.append(("int", tgt, {}))
            if kind == "tiny":      # the clipped step stays tiny: give the system a usable step again
                ops.append(("setdt", dt))
        elif r < 0.85:
            ops.append(("setdt", dt * rng.choice([0.5, 2.0, -1.0, 0.3])))
        elif r < 0.93:
            cur_tf = tf + (tf - t0) * rng.uniform(0.2, 1.0)
            ops.append(("settf", cur_tf))
        else:
            ops.append(("reset",))
    if ops[-1][0] != "int":
        ops.append(("int", None, {}))
    return pat, dtk, ops


def grid_oracles(ctx, sc, tag):
    """the property, evaluated on the implementation's recorded grids"""
    prev_t = None
    tf_sys = None
    for op, rec in zip(sc.ops, sc.records):
        inp = dict(kind="ops", method=sc.method.__name__, dtype=np.dtype(sc.dtype).name, ops=[list(map(str, o)) for o in sc.ops])
        t = rec["t"]
        if op[0] == "new":
            tf_sys = op[2]
        if op[0] == "settf" and rec.get("exc") is None:
            tf_sys = op[1]
        ctx.oracle("paired", rec["ylen"] == len(t), inp, what="len(t)=%d, len(y)=%d" % (len(t), rec["ylen"]))
        ctx.oracle("finite-and-dtype", rec["finite"] and rec["dtype_ok"], inp, what="non-finite stored value or wrong dtype")
        if op[0] == "int" and rec.get("exc") is None:
            target = float(sc.dtype(op[1] if op[1] is not None else tf_sys))
            start = prev_t[-1]
            fin = np.finfo(sc.dtype)
            new = t[len(prev_t) - 1:] if (prev_t is not None and t[:len(prev_t)] == prev_t) else None
            ctx.oracle("prefix-kept", new is not None, inp, what="earlier samples changed by a later integrate call")
            if new is None:
                prev_t = t
                continue
            d = 1.0 if target >= start else -1.0
            # order and distance in the precision of the run (two longdouble times may round to the same float)
            nat = rec.get("t_native", t)[len(prev_t) - 1:]
            mono = all((y - x) * d > 0 for x, y in zip(nat, nat[1:]))
            ctx.oracle("strictly-monotone", mono, inp, what="recorded times not strictly monotone toward the target: %s" % (new[:8],))
            # in the precision of the run: the target as the system was given it (a longdouble target need not be a float)
            target_n = sc.dtype(op[1] if op[1] is not None else tf_sys)
            ulp = 8 * max(np.spacing(abs(target_n)), np.spacing(abs(nat[0])))
            ctx.oracle("no-overshoot", all((target_n - x) * sc.dtype(d) >= -ulp for x in nat), inp, what="a recorded time overshoots the target %r: %s" % (target, new[-3:]))
            if abs(target - start) >= 4 * float(fin.eps):
                ctx.oracle("ends-at-target", abs(nat[-1] - target_n) <= max(ulp, 32 * fin.eps), dict(inp, end_minus_target=float(nat[-1] - target_n)),
                           what="last recorded time %r is not the target %r (difference %.3e)" % (new[-1], target, float(nat[-1] - target_n)))
            if len(new) > 2:
                ctx.nontrivial((sc.method.__name__, str(sc.ops)))
        if op[0] == "reset":
            ctx.oracle("reset-grid", len(t) == 1, inp, what="reset left %d samples" % len(t))
        prev_t = t


def contract_oracle(ctx, sc):
    for op, rec in zip(sc.ops, sc.records):
        for e in rec["log"]:
            if "dT" in e:
                ok = e["dT"] != 0 and (e["dT"] > 0) == (e["h"] > 0) and abs(e["dT"]) <= abs(e["h"]) and e["new_dt"] != 0 and math.isfinite(e["new_dt"])
                ctx.count("contract:" + ("ok" if ok else "violated"))


def run(ctx):
    rng = ctx.rng
    names = METHODS_QUICK if ctx.quick() else [c.__name__ for c in I.explicit_methods() + I.implicit_methods() if c.__name__ not in ("RadauIIA19", "RK1412Solver")]
    nsc = 400 if ctx.quick() else 1500
    scs, lines = [], []
    for i in range(nsc):
        name = names[i % len(names)]
        cls = getattr(I, name)
        long_run = (not ctx.quick()) and i % 40 == 0 and name in ("RK4Solver", "EulerSolver")
        pat, dtk, ops = gen_ops(rng, long_run)
        kw = {}
        if cls in I.implicit_methods():
            ops = [o if o[0] != "new" else ("new", o[1], o[1] + (o[2] - o[1]) * 0.2, o[3]) for o in ops][:3]
            if ops[-1][0] != "int":
                ops.append(("int", None, {}))
        sc = loopsim.Scenario(cls, ops, rtol=1e-6 if name in ("RK45CKSolver", "DOPRI45") else None, atol=1e-8 if name in ("RK45CKSolver", "DOPRI45") else None)
        try:
            sc.run_impl()
        except loopsim.BudgetExceeded:
            ctx.count("budget-exceeded")
            continue
        except Exception as e:
            ctx.oracle("no-unexpected-exception", False, dict(kind="ops", method=name, ops=[list(map(str, o)) for o in ops]), what="scenario raised %r" % (e,))
            continue
        scs.append(sc)
        lines.append(sc.model_line())
        ctx.count("span:" + pat)
        ctx.count("dt:" + dtk)
        ctx.count("method:" + name)
        ctx.sample(dict(method=name, ops=[list(map(str, o)) for o in ops], grid_head=sc.records[-1]["t"][:4], n=len(sc.records[-1]["t"])), limit=4)
    outs = ctx.driver(lines)
    for sc, o in zip(scs, outs):
        sc.compare(ctx, o, "loop")
        grid_oracles(ctx, sc, "loop")
        contract_oracle(ctx, sc)
    # other dtypes: property oracles only
    for T in (np.float32, np.longdouble):
        for i in range(6 if ctx.quick() else 60):
            pat, dtk, ops = gen_ops(rng)
            if T is np.longdouble and i % 2 == 0:
                # times that are NOT representable in float64: the targets keep their extra bits all the way through
                wide = lambda v: None if v is None else np.longdouble(v) * (np.longdouble(1) + np.longdouble(2) ** -58) + np.longdouble(2) ** -62
                ops = [("new", wide(o[1]), wide(o[2]), o[3]) if o[0] == "new" else (("int", wide(o[1]), o[2]) if o[0] == "int" else (("settf", wide(o[1])) if o[0] == "settf" else o)) for o in ops]
                ctx.count("dtype:float128:targets-beyond-float64")
            sc = loopsim.Scenario(I.RK4Solver, ops, dtype=T)
            try:
                sc.run_impl()
            except loopsim.BudgetExceeded:
                continue
            except Exception as e:
                ctx.oracle("no-unexpected-exception", False, dict(kind="ops", method="RK4Solver", dtype=np.dtype(T).name, ops=[list(map(str, o)) for o in ops]), what="scenario raised %r" % (e,))
                continue
            grid_oracles(ctx, sc, "dtype")
            ctx.count("dtype:" + np.dtype(T).name)

    # whole fixed-step runs with states against the Lean whole-run model DV.Run (own random stream: the scenarios above keep theirs)
    import random as _random, runsim
    runsim.whole_run_block(ctx, _random.Random(ctx.seed * 7919 + 3), 3 if ctx.quick() else 24)

    # Richardson-extrapolated SPLITTING integrators (their own step-doubling / halving logic), forward and backward: the run must end on
    # the target; a call that does not return within the alarm is reported as such
    import signal as _signal

    class _Timeout(Exception):
        pass

    def _alarm(signum, frame):
        raise _Timeout()
    for (bname, R) in [("ABAs5o6HSolver", 4), ("SymplecticEulerSolver", 3), ("BABs9o7HSolver", 3)]:
        cls = de.integrators.generate_richardson_integrator(getattr(I, bname), R)
        for (t0, tf) in [(0.0, 1.0), (0.0, -1.0), (2.0, 0.5), (-1.0, 1.0)]:
            inp = dict(kind="richardson-splitting-run", basis=bname, richardson_iter=R, t0=t0, tf=tf, dt=0.1)
            ode = de.OdeSystem(lambda t, y: np.array([y[1], -y[0]]), y0=np.array([1.0, 0.0]), t=(t0, tf), dt=0.1, rtol=1e-6, atol=1e-6)
            ode.set_method(cls)
            old = _signal.signal(_signal.SIGALRM, _alarm)
            _signal.alarm(30)
            try:
                ode.integrate()
                ts = np.array(ode.t)
                d = np.diff(ts) * (1.0 if tf > t0 else -1.0)
                exact = np.array([np.cos(ts[-1] - t0), -np.sin(ts[-1] - t0)])
                ok = abs(float(ts[-1]) - tf) <= 1e-12 and bool(np.all(d > 0)) and float(np.max(np.abs(np.array(ode.y[-1]) - exact))) <= 1e-3
                ctx.oracle("ends-at-target", ok, dict(inp, t_end=float(ts[-1]), steps=len(ts) - 1), key="richardson-splitting-run", what="run ended at %r after %d steps (target %r)" % (float(ts[-1]), len(ts) - 1, tf))
            except _Timeout:
                ctx.oracle("call-returns", False, inp, key="richardson-splitting-run-does-not-return", what="integrate() did not return within 30 s (span %r -> %r)" % (t0, tf))
            except Exception as e:
                if isinstance(getattr(e, "__cause__", None), _Timeout):      # the library wraps what is raised inside integrate()
                    ctx.oracle("call-returns", False, inp, key="richardson-splitting-run-does-not-return", what="integrate() did not return within 30 s (span %r -> %r)" % (t0, tf))
                else:
                    ctx.oracle("ends-at-target", False, inp, key="richardson-splitting-run", what="raised %r" % (e,))
            finally:
                _signal.alarm(0)
                _signal.signal(_signal.SIGALRM, old)
            ctx.count("richardson-splitting:" + ("forward" if tf > t0 else "backward"))


def replay(rep):
    return False
