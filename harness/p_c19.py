"""C19 - trajectory lookup by index and by time returns the right sample."""
import impl, loopsim
from impl import np, de, I, fbits, flist

ID = "C19"
LEAN_TARGETS = ["DVP.Properties.C19"]
PROPERTY_FILES = ["DVP/Properties/C19.lean"]
RULE = ("recorded grids of real runs (uniform, adaptive, forward, backward, continued by a second call, run against the constructor's span): every integer index in "
        "[-len-2, len+2] as int and as numpy integer, iteration, seeded query times inside / outside / on samples / midway, time slices "
        "(whole run, interior, open ended), with and without dense output - implementation vs the Lean lookup model (bit-exact floats) and "
        "vs the property (nearest sample by brute force, dense value). non-trivial = grid with >= 4 samples; distinct by (grid, query)")
ASSUMPTIONS = ["ties between two equally near samples may be resolved either way by the property; the model follows numpy.argmin (first)"]


def grids(ctx, rng):
    out = []
    for name in ["RK4Solver", "RK45CKSolver", "EulerSolver"]:
        for (t0, tf) in [(0.0, 1.0), (1.0, 0.0), (-2.0, -0.5), (0.5, -1.5), (3.0, 4.0)]:
            for dense in (False, True):
                for cont in (False, True, "against-span"):
                    if ctx.quick() and rng.random() < 0.5:
                        continue
                    dt = abs(tf - t0) / rng.choice([4, 7, 12])
                    o = de.OdeSystem(lambda t, y: np.array([y[1], -y[0]]), y0=np.array([1.0, 0.0]), t=(t0, tf), dt=dt, dense_output=dense, rtol=1e-6, atol=1e-8)
                    o.set_method(getattr(I, name))
                    # a non-dense run that monitors an event keeps step interpolants of its own: lookups must still use the samples
                    evs = [lambda t, y, **kw: y[0] - 0.3] if (not dense and rng.random() < 0.5) else None
                    if evs is not None:
                        ctx.count("grid:plain-run-with-events")
                    if cont == "against-span":
                        # the run goes the other way than the span given to the constructor (in two calls)
                        o.integrate(t0 - (tf - t0) * 0.3, events=evs)
                        o.integrate(t0 - (tf - t0) * 0.8, events=evs)
                    else:
                        if cont:
                            o.integrate(t0 + (tf - t0) * 0.4, events=evs)
                            if dense:
                                _ = o[np.array(o.t)]        # a lookup with an ARRAY of times while the run is still being continued
                        o.integrate(events=evs)
                    out.append((name, t0, tf, dense, cont, o))
    return out


def run(ctx):
    rng = ctx.rng
    lines, checks = [], []
    for (name, t0, tf, dense, cont, o) in grids(ctx, rng):
        t = np.array(o.t)
        n = len(t)
        base = dict(kind="lookup", method=name, t0=t0, tf=tf, dense=dense, continued=cont, n=n)
        # integer indices
        for i in range(-n - 2, n + 3):
            for conv, label in ((int, "int"), (np.int64, "np.int64")):
                try:
                    r = o[conv(i)]
                    hit0 = np.where(t == r.t)[0] if np.ndim(r.t) == 0 else []
                    got = int(hit0[0]) if len(hit0) else None
                    impl_res = str(got)
                except IndexError:
                    impl_res = "index-error"
                except Exception as e:
                    impl_res = "other:" + type(e).__name__
                lines.append("lookup idx %d %d" % (n, i))
                want = str(i % n) if -n <= i < n else "index-error"
                checks.append(("int-index", impl_res, dict(base, index=i, index_type=label), want))
        # iteration
        try:
            it = [float(s.t) for s in o]
            ctx.oracle("iteration-in-order", it == [float(x) for x in t], base, what="iteration yields %d items for %d samples / wrong order" % (len(it), n))
        except Exception as e:
            ctx.oracle("iteration-in-order", False, base, what="iteration raised %r" % (e,))
        lines.append("lookup iter %d" % n)
        checks.append(("iteration", ",".join(str(k) for k in range(n)), dict(base), None))
        # query times
        qs = [float(x) for x in t[:3]] + [float(0.5 * (a + b)) for a, b in zip(t[:3], t[1:4])] + [float(t[0] - (t[-1] - t[0]) * 0.3), float(t[-1] + (t[-1] - t[0]) * 0.3)]
        qs += [rng.uniform(float(min(t)), float(max(t))) for _ in range(6)]
        for qv in qs:
            qv = float(qv)
            r = o[qv]
            inp = dict(base, query=qv)
            if dense:
                ok = float(r.t) == qv and np.allclose(r.y, o.sol(qv), rtol=0, atol=0)
                ctx.oracle("dense-lookup", bool(ok), inp, what="lookup at a time with dense output does not return the dense solution")
                # ... and the dense solution there is the piece of the step that contains the query (the end step for a query past
                # an end of the run), found here independently of the library's interval search
                if cont != "against-span":
                    d_ = 1.0 if t[-1] >= t[0] else -1.0
                    ks = [k for k in range(n - 1) if (qv - t[k]) * d_ >= 0 and (t[k + 1] - qv) * d_ >= 0]
                    if not ks:
                        ks = [0] if (qv - t[0]) * d_ < 0 else [n - 2]
                    knots = [float(x) for x in o.sol.t_eval]
                    cands = []
                    for k in ks:
                        j = [i for i, kn in enumerate(knots) if kn == float(t[k + 1])]
                        if len(j) == 1:
                            cands.append(np.asarray(o.sol.y_interpolants[j[0]](qv)))
                    if cands:
                        okp = any(np.array_equal(np.asarray(r.y), c) for c in cands)
                        ctx.oracle("dense-lookup-answered-by-the-containing-step", bool(okp), dict(inp, steps=ks, got=np.asarray(r.y).tolist(), expected=cands[0].tolist()),
                                   what="a[%r]: the value is not the one of the piece of step %s (got %s, that piece gives %s)" % (qv, ks, np.asarray(r.y).tolist(), cands[0].tolist()))
            else:
                d = np.abs(t - qv)
                best = float(np.min(d))
                got = float(abs(float(r.t) - qv))
                ctx.oracle("nearest-sample", got <= best + 4 * np.spacing(max(1.0, abs(qv))), inp,
                           what="a[%r] returned the sample at %r (distance %.3g); the nearest recorded sample is at distance %.3g" % (qv, float(r.t), got, best))
                lines.append("lookup near %s %s" % (fbits(qv), flist(t)))
                hit = np.where(t == r.t)[0]
                if len(hit) == 0:
                    ctx.oracle("nearest-sample", False, dict(inp, returned_time=float(r.t)), key="lookup-returns-no-recorded-sample",
                               what="a[%r] on a run without dense output returned t=%r, which is not a recorded sample" % (qv, float(r.t)))
                    lines.pop()
                    continue
                checks.append(("nearest", str(int(hit[0])), inp, None))
            ctx.nontrivial((name, t0, tf, dense, cont, qv))
        # an array of times is looked up like the scalars it contains
        if dense:
            qa = np.array([float(x) for x in t[::2]] + [float(0.5 * (a + b)) for a, b in zip(t[:-1], t[1:])][:10])
            try:
                ra = o[qa]
                sc = np.array([o[float(x)].y for x in qa])
                ok = np.array_equal(np.asarray(ra.t), qa) and float(np.max(np.abs(np.asarray(ra.y).reshape(sc.shape) - sc))) == 0.0
                ctx.oracle("array-lookup-equals-scalar-lookups", bool(ok), dict(base, queries=qa[:6].tolist()),
                           what="a[array of times] differs from the scalar lookups by %.2e" % float(np.max(np.abs(np.asarray(ra.y).reshape(sc.shape) - sc))))
            except Exception as e:
                ctx.oracle("array-lookup-equals-scalar-lookups", False, dict(base, queries=qa[:6].tolist()), what="a[array of times] raised %r" % (e,))
        # slices
        whole = o[float(t[0]):float(t[-1])]
        ctx.oracle("whole-run-slice", len(whole.t) == n and np.array_equal(whole.t, t), base, what="a time slice spanning the whole run returned %d of %d samples" % (len(whole.t), n))
        for (a, b) in [(float(t[0]), float(t[-1])), (float(t[1]), float(t[-2])), (None, float(t[n // 2])), (float(t[n // 2]), None),
                       (float(0.5 * (t[0] + t[1])), float(0.5 * (t[-1] + t[-2])))]:
            s = o[a:b]
            i0 = int(np.where(t == s.t[0])[0][0]) if len(s.t) else None
            lines.append("lookup slice %s %s %s" % ("-" if a is None else fbits(a), "-" if b is None else fbits(b), flist(t)))
            checks.append(("slice", "%s %s" % (i0, (i0 + len(s.t)) if i0 is not None else None), dict(base, start=a, stop=b), None))
        ctx.count("grid:%s:%s%s" % ("bwd" if tf < t0 else "fwd", "dense" if dense else "plain", ":continued" if cont is True else (":against-span" if cont else "")))
    outs = ctx.driver(lines)
    for (kind, impl_res, inp, want), o in zip(checks, outs):
        if kind == "slice" and impl_res.startswith("None"):
            ok = True if o.split()[0] >= o.split()[1] else False
        else:
            ok = (o == impl_res)
        ctx.corr("lookup-" + kind, ok, dict(inp, impl=impl_res, model=o))
        if want is not None:
            ctx.oracle("integer-index-like-sequence", impl_res == want, inp, what="index %r on %d samples gave %s, a sequence gives %s" % (inp.get("index"), inp.get("n"), impl_res, want))
    ctx.sample(dict(kind="lookup", op=lines[0], model=outs[0]))
    ctx.sample(dict(kind="lookup", op=lines[-1][:200], model=outs[-1]))


def replay(rep):
    return False
