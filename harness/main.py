"""./check <id> [--tier quick|thorough] [--replay file]   (DESIGN.md section 3.6)"""
import argparse, importlib, json, os, sys, time, traceback
sys.path.insert(0, os.path.dirname(os.path.abspath(__file__)))
import common
from common import Ctx, VERIF, LEAN


def main():
    ap = argparse.ArgumentParser()
    ap.add_argument("pid")
    ap.add_argument("--tier", default=os.environ.get("VERIF_TIER", "quick"), choices=["quick", "thorough"])
    ap.add_argument("--replay", default=None)
    ap.add_argument("--no-lean", action="store_true", help="debugging only: skip translator/build/audit")
    a = ap.parse_args()
    pid = a.pid.upper()
    seed = int(os.environ.get("VERIF_SEED", "0") or 0)
    mod = importlib.import_module("p_" + pid.lower())
    sys.path.insert(0, common.REPO)
    if a.replay:
        # replay = re-run the generators of the recorded run (same tier and seed: every random choice derives from that seed)
        # against the CURRENT implementation and look for the recorded failing input again
        rep = json.load(open(a.replay))
        if rep.get("kind") != "failing-input":
            print("replay: %s names no failing input (what no longer checked: %s)" % (a.replay, "; ".join(rep.get("no_longer_checks", []))[:400]))
            sys.exit(1)
        ctx = Ctx(pid, rep.get("tier", "quick"), int(rep.get("seed", 0)))
        try:
            mod.run(ctx)
        except Exception as e:
            print("replay: the run raised %r" % (e,))
            sys.exit(1)
        want = rep["violation"]
        same_key = [v for v in ctx.violations if v["key"] == want["key"]]
        same_input = [v for v in same_key if json.dumps(v.get("input"), sort_keys=True, default=str) == json.dumps(want.get("input"), sort_keys=True, default=str)]
        if same_input:
            print("replay: property %s FAILS on the recorded input: %s" % (pid, same_input[0]["what"][:300]))
            sys.exit(1)
        if same_key:
            print("replay: the recorded input no longer fails, but %d other input(s) fail the same oracle (%s): %s" % (len(same_key), want["key"], same_key[0]["what"][:300]))
            sys.exit(1)
        print("replay: property %s HOLDS on the recorded input (oracle %s, %d oracle evaluations in the re-run)" % (pid, want["key"], ctx.oracle_total))
        sys.exit(0)

    if a.tier == "thorough":
        mod.LEAN_TARGETS = list(mod.LEAN_TARGETS) + list(getattr(mod, "LEAN_TARGETS_THOROUGH", []))
        mod.PROPERTY_FILES = list(mod.PROPERTY_FILES) + list(getattr(mod, "PROPERTY_FILES_THOROUGH", []))
    ctx = Ctx(pid, a.tier, seed)
    broken = []       # proof obligations / correspondence that no longer check
    # 1-2: regenerate + build + audit
    if not a.no_lean:
        with common.Lock(os.path.join(VERIF, ".build.lock")):
            tr = common.translate()
            ctx.lean["translate"] = {k: v for k, v in tr.items() if k != "tableaux"}
            if tr.get("status") != "ok":
                broken.append("translator: " + str(tr.get("error", tr.get("status"))))
            b = common.lake_build(["DV", "dvdriver"] + mod.LEAN_TARGETS)
            ctx.lean["build"] = b
            if not b["ok"]:
                broken.append("lake build failed: " + "; ".join(b["errors"][:3]))
                # make sure the driver exists for the failing-input search (models may still build)
                common.lake_build(["dvdriver"])
            else:
                au = common.audit(mod.PROPERTY_FILES, mod.LEAN_TARGETS, getattr(mod, "ALLOW_NATIVE", ()))
                ctx.lean["audit"] = dict(ok=au["ok"], bad=au["bad"])
                ctx.lean["theorems"], ctx.lean["axioms"] = au["theorems"], au["axioms"]
                if not au["ok"]:
                    broken.append("axiom audit: " + json.dumps(au["bad"])[:300] + au["log_tail"][-300:])
            if a.tier == "thorough" and b["ok"]:
                lc = common.leanchecker(mod.PROPERTY_FILES)
                ctx.lean["leanchecker"] = lc
                if not lc["ok"]:
                    broken.append("leanchecker rejected the compiled modules: " + lc["log_tail"][-300:])
            fb = common.grep_forbidden(common.lean_sources())
            ctx.lean["forbidden"] = fb
            if fb:
                broken.append("forbidden tokens in Lean sources: " + "; ".join(fb[:5]))
    # 3: correspondence + oracles on the implementation
    # (a watchdog: an implementation that no longer comes back from a call is a violation to report, not a check that hangs)
    import signal

    class CheckTimeout(BaseException):
        pass

    def on_alarm(signum, frame):
        raise CheckTimeout()
    limit = int(os.environ.get("VERIF_RUN_LIMIT", "1500" if a.tier == "quick" else "5400"))
    signal.signal(signal.SIGALRM, on_alarm)
    signal.alarm(limit)
    try:
        mod.run(ctx)
    except CheckTimeout:
        last = getattr(ctx, "last_oracle", None)
        ctx.oracle("check-terminates", False, dict(kind="watchdog", limit_s=limit, after_oracle=last[0] if last else None, after_input=last[1] if last else None,
                                                  stack=traceback.format_exc()[-1200:]),
                   what="the run did not finish within %d s: a call into the implementation does not return (stack tail in the replay file)" % limit)
    except Exception as e:  # harness crash = broken tie, never silently OK
        broken.append("harness exception: %r\n%s" % (e, traceback.format_exc()[-1500:]))
    finally:
        signal.alarm(0)
    if ctx.corr_fail and os.environ.get("VERIF_DUMP_CORR"):
        for c in ctx.corr_fail[:int(os.environ["VERIF_DUMP_CORR"])]:
            print("  corr-dump: " + json.dumps(c, default=str))
    if ctx.corr_fail:
        broken.append("correspondence: %d of %d comparisons differ; first: %s" % (
            len(ctx.corr_fail), ctx.corr_total, json.dumps(ctx.corr_fail[0], default=str)[:600]))

    # 4: known findings
    known = common.load_known()
    kf = {f["key"]: f for f in known.get("findings", []) if f["property"] == pid}
    new_viol = []
    for v in ctx.violations:
        if v["key"] in kf:
            ctx.known_hits.setdefault(v["key"], v)
        else:
            new_viol.append(v)
    # a broken proof / correspondence: search harder for a concrete failing input
    if broken and not new_viol and hasattr(mod, "search"):
        try:
            before = len(ctx.violations)
            mod.search(ctx, broken)
            for v in ctx.violations[before:]:
                if v["key"] in kf:
                    ctx.known_hits.setdefault(v["key"], v)
                else:
                    new_viol.append(v)
        except Exception as e:
            broken.append("search exception: %r" % (e,))

    for k, v in ctx.known_hits.items():
        print("KNOWN-FINDING: property=%s %s [%s]" % (pid, kf[k]["what"], k))
        if os.environ.get("VERIF_DUMP_KEY") and os.environ["VERIF_DUMP_KEY"] in k:
            print("  dump-known: " + json.dumps(v, default=str)[:1500])

    rc = 0
    replay_path = None
    if new_viol or broken:
        os.makedirs(os.path.join(VERIF, "replay"), exist_ok=True)
        replay_path = os.path.join(VERIF, "replay", "%s_%s_%d.json" % (pid, a.tier, seed))
        rep = dict(property=pid, tier=a.tier, seed=seed)
        if new_viol:
            keys = {}
            for v in new_viol:
                keys[v["key"]] = keys.get(v["key"], 0) + 1
                if os.environ.get("VERIF_DUMP_KEY") and os.environ["VERIF_DUMP_KEY"] in v["key"]:
                    print("  dump: " + json.dumps(v, default=str)[:1200])
            rep.update(kind="failing-input", violation=new_viol[0], more=new_viol[1:6], violation_keys=keys, no_longer_checks=broken)
        else:
            rep.update(kind="no-failing-input-found", no_longer_checks=broken)
        common.write_json(replay_path, rep)
        if new_viol:
            print("VIOLATION property=%s replay=%s" % (pid, replay_path))
            print("  failing input: " + json.dumps(new_viol[0], default=str)[:800])
        else:
            print("VIOLATION property=%s replay=%s no-failing-input-found" % (pid, replay_path))
        for bmsg in broken:
            print("  no longer checks: " + bmsg[:1200])
        rc = 1

    # 5: evidence
    thms = ctx.lean["theorems"]
    bad = (ctx.lean.get("audit") or {}).get("bad", {}) if ctx.lean.get("audit") else {}
    discharged = len([t for t in thms if t not in bad]) if (ctx.lean.get("build") or {}).get("ok") else 0
    cov = dict(
        obligations=len(thms), discharged=discharged,
        checker_cmd="cd /verif/lean && lake build " + " ".join(mod.LEAN_TARGETS) + "  (then #print axioms per theorem)",
        trusted_base=common.TRUSTED_BASE + list(getattr(mod, "TRUSTED_EXTRA", [])),
        theorems=thms, axioms=ctx.lean["axioms"],
        evaluations=ctx.corr_total + ctx.oracle_total,
        model_vs_impl_comparisons=ctx.corr_total, model_vs_impl_disagreements=len(ctx.corr_fail),
        property_oracle_evaluations_on_impl=ctx.oracle_total,
        distinct_nontrivial=len(ctx.distinct),
        rule=getattr(mod, "RULE", ""),
        samples=ctx.samples or [dict(note="no sample recorded")],
        branch_distribution=ctx.branches,
        known_findings_reproduced=sorted(ctx.known_hits.keys()),
        lean=dict(translate=ctx.lean["translate"], build=ctx.lean["build"], audit=ctx.lean.get("audit"),
                  forbidden=ctx.lean["forbidden"]),
        notes=ctx.notes,
        exhaustive=bool(getattr(ctx, "exhaustive", False)),
    )
    ev = dict(property_id=pid, tier=a.tier, seed=seed, level="proof", coverage=cov,
              assumptions=list(getattr(mod, "ASSUMPTIONS", [])), wall_s=round(time.time() - ctx.t0, 2),
              violations=len(new_viol) + (1 if (broken and not new_viol) else 0))
    debug_run = a.no_lean or os.environ.get("VERIF_REPO") not in (None, "", "/repo")
    common.write_json(os.path.join(VERIF, "evidence", ("_debug_" if debug_run else "") + pid + ".json"), ev)
    print("%s %s tier=%s seed=%d: %d theorems (%d discharged), %d model/impl comparisons (%d differ), "
          "%d oracle evaluations (%d new violations, %d known), %.1fs" % (
              pid, "OK" if rc == 0 else "FAIL", a.tier, seed, len(thms), discharged, ctx.corr_total,
              len(ctx.corr_fail), ctx.oracle_total, len(new_viol), len(ctx.known_hits), time.time() - ctx.t0))
    sys.exit(rc)


if __name__ == "__main__":
    try:
        main()
    except KeyboardInterrupt:
        sys.exit(2)
