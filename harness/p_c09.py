"""C09 - a terminal event stops the integration exactly at the event (scenario runner shared with C07)."""
import p_c07

ID = "C09"
LEAN_TARGETS = ["DVP.Properties.C09"]
PROPERTY_FILES = ["DVP/Properties/C09.lean"]
RULE = p_c07.RULE + " Focus: mixes of terminal and non-terminal events; stop time, last state, nothing beyond, status, dense output order, continuation to the requested end."
ASSUMPTIONS = p_c07.ASSUMPTIONS


def run(ctx):
    p_c07.run_focus(ctx, "C09", 50, 500)


def search(ctx, broken):
    p_c07.search(ctx, broken)


def replay(rep):
    return False
