"""C09 - a terminal event stops the integration exactly at the event (scenario runner shared with C07)."""
import p_c07, evloopsim

ID = "C09"
LEAN_TARGETS = ["DVP.Properties.C09", "DVP.Findings.C09"]
PROPERTY_FILES = ["DVP/Properties/C09.lean"]
RULE = p_c07.RULE + " Focus: mixes of terminal and non-terminal events; stop time, last state, nothing beyond, status, dense output order, continuation to the requested end.  Whole calls with events (operation sequences: terminal stops, continuation, faults, resets) are replayed through the Lean model DV.LoopEv."
ASSUMPTIONS = p_c07.ASSUMPTIONS


def run(ctx):
    p_c07.run_focus(ctx, "C09", 50, 500)
    event_loop_block(ctx, 30, 300)


def event_loop_block(ctx, n_quick, n_thorough):
    """whole `integrate(t, events=...)` calls against the Lean model `DV.LoopEv` (roll-back of the event step, nested integrate(root),
    status, `dt` after the stop, continuation calls), plus the C09 clauses that are visible on the time grid"""
    scs = evloopsim.run_block(ctx, "C09", n_quick, n_thorough)
    for sc in scs:
        for op, rec in zip(sc.ops, sc.records):
            if op[0] != "evint" or rec["status"] != 2:
                continue
            inp = dict(kind="event-loop", method=sc.method.__name__, dense=sc.dense, ops=str(sc.ops)[:600], op=str(op)[:300])
            evs = rec["evs"]
            mine = [(next(i for i, g in enumerate(evs) if g is f), te) for (f, te) in rec["events"][rec["n_events_before"]:]]
            term = [(i, te) for (i, te) in mine if evs[i].is_terminal]
            ctx.oracle("stop-is-last-terminal-event", bool(term) and abs(rec["t"][-1] - term[-1][1]) <= 1e-12, dict(inp, last_time=rec["t"][-1], terminal_events=term),
                       what="status 2 but the last recorded time %r is not the time of the last terminal event recorded by this call %s" % (rec["t"][-1], term[-1:] or None))
            d = 1.0 if len(rec["t"]) < 2 or rec["t"][-1] >= rec["t"][-2] else -1.0
            ctx.oracle("nothing-recorded-beyond-the-stop", all((rec["t"][-1] - x) * d >= 0 for x in rec["t"][-3:]) and all((rec["t"][-1] - te) * d >= -1e-9 for (_, te) in mine),
                       dict(inp, tail=rec["t"][-3:], events=mine[-4:]), what="samples or events beyond the stop")
            ctx.oracle("terminated-run-is-a-success", rec["success"] and rec.get("exc") is None, dict(inp, success=rec["success"], exc=rec.get("exc")),
                       what="terminated by event but success=%r, exception %r" % (rec["success"], rec.get("exc")))


def search(ctx, broken):
    p_c07.search(ctx, broken)


def replay(rep):
    return False
