"""C09 - a terminal event stops the integration exactly at the event (scenario runner shared with C07)."""
import p_c07, evloopsim, eventsim

ID = "C09"
LEAN_TARGETS = ["DVP.Properties.C09", "DVP.Findings.C09"]
PROPERTY_FILES = ["DVP/Properties/C09.lean"]
RULE = p_c07.RULE + " Focus: mixes of terminal and non-terminal events; stop time, last state, nothing beyond, status, dense output order, continuation to the requested end.  Whole calls with events (operation sequences: terminal stops, continuation, faults, resets) are replayed through the Lean model DV.LoopEv."
ASSUMPTIONS = p_c07.ASSUMPTIONS


def run(ctx):
    p_c07.run_focus(ctx, "C09", 58, 508)
    event_loop_block(ctx, 30, 300)
    infinite_target_block(ctx)
    changed_flags_block(ctx)


def changed_flags_block(ctx):
    """the SAME event objects passed to consecutive calls on one system, with `is_terminal` / `direction` changed in between: each call
    treats the events as they are flagged when it is made (first count crossings, then stop at the next one; or the other way round)"""
    import numpy as _np
    from impl import de, I
    for name in ["RK4Solver", "RK45CKSolver", "DOPRI45"]:
        for sign in (1.0, -1.0):
            for variant in ("becomes-terminal", "no-longer-terminal", "direction-changed"):
                e1 = eventsim.make_event("y0", 0.3)
                e2 = eventsim.make_event("y0", -0.5)
                inp = dict(kind="changed-flags", method=name, direction_of_time=sign, variant=variant)
                ode = de.OdeSystem(eventsim.harmonic, y0=_np.array([1.0, 0.0]), t=(0.0, sign * 12.0), dt=0.05, rtol=1e-9, atol=1e-11, dense_output=True)
                ode.set_method(getattr(I, name))
                nb = [0]

                def budget(o, nb=nb):
                    nb[0] += 1
                    if nb[0] > 50000:
                        raise RuntimeError("step budget exceeded")
                try:
                    if variant == "becomes-terminal":
                        # cos(t) = 0.3 at 1.266, 5.017, 7.549, 11.30 (2 pi - arccos 0.3 = 5.017082); cos(t) = -0.5 at 2.094, 4.189, 8.378, 10.47
                        ode.integrate(sign * 3.0, events=[e1, e2], callback=[budget])
                        n1 = len(ode.events)
                        e1.is_terminal = True
                        ode.integrate(sign * 12.0, events=[e1, e2], callback=[budget])
                        want_t, want_status = float(2 * _np.pi - _np.arccos(0.3)), True
                        ok_first = n1 == 2
                    elif variant == "no-longer-terminal":
                        e2.is_terminal = True
                        ode.integrate(sign * 12.0, events=[e1, e2], callback=[budget])
                        ok_first = abs(abs(float(ode.t[-1])) - 2.0943951) < 1e-4
                        e2.is_terminal = False
                        e1.is_terminal = True
                        ode.integrate(sign * 12.0, events=[e1, e2], callback=[budget])
                        want_t, want_status = float(2 * _np.pi - _np.arccos(0.3)), True
                    else:
                        # direction of the crossing: y0 = cos falls through 0.3 at 1.266 (forward in time), rises through it at 5.017
                        e1.is_terminal = True
                        e1.direction = 1      # rising ALONG THE INTEGRATION: the first crossing (falling) is skipped in either direction of time
                        ode.integrate(sign * 3.0, events=[e1, e2], callback=[budget])
                        ok_first = abs(abs(float(ode.t[-1])) - 3.0) < 1e-9
                        e1.direction = 0
                        ode.integrate(sign * 12.0, events=[e1, e2], callback=[budget])
                        want_t, want_status = float(2 * _np.pi - _np.arccos(0.3)), True
                    t_end = abs(float(ode.t[-1]))
                    stopped = "event" in str(ode.integration_status).lower() or getattr(ode, "success", False) and t_end < 11.9
                    ctx.oracle("flags-read-when-the-call-is-made", ok_first and abs(t_end - want_t) < 1e-4, dict(inp, first_call_ok=ok_first, t_end=t_end, expected=want_t, status=str(ode.integration_status)),
                               key="event-flags-stale", what="%s: the second call ended at |t| = %.6f (expected the stop at %.6f), first call as expected: %s" % (variant, t_end, want_t, ok_first))
                except Exception as e:
                    ctx.oracle("changed-flags-scenario-runs", False, inp, what="raised %r" % (e,))
                ctx.count("changed-flags:" + variant)


def infinite_target_block(ctx):
    """infinite target times, both directions (t = (t0, +inf) and (t0, -inf)): a terminal event is the only way to stop; the stop, the
    status, the order of the events and the continuation to a finite target are judged as for finite targets"""
    import numpy as _np
    rng = ctx.rng
    for mname in (["RK4Solver", "RK45CKSolver"] if ctx.quick() else ["RK4Solver", "RK45CKSolver", "RK8713MSolver", "DOPRI45", "ABAs5o6HSolver"]):
        for sign in (1.0, -1.0):
            for rep in range(2 if ctx.quick() else 6):
                t0 = rng.choice([0.0, -1.5, 2.0])
                dt = rng.choice([0.1, 0.25]) * rng.choice([1, -1])          # the constructor fixes the direction
                dense = rng.random() < 0.5
                c = rng.choice([0.3, -0.5, 0.25])
                term = eventsim.make_event(rng.choice(["y0", "y1"]), c, rng.choice([1.0, -10.0, 1e3]), 0, True)
                other = eventsim.make_event("y0", 0.8, 1.0, 0, False)
                evs = [other, term]
                inp = dict(kind="infinite-target", method=mname, t0=t0, tf="+inf" if sign > 0 else "-inf", dt=dt, dense=dense, events=[e.desc for e in evs])
                try:
                    ode = p_c07.de.OdeSystem(eventsim.harmonic, y0=_np.array([1.0, 0.0]), t=(t0, sign * _np.inf), dt=dt, dense_output=dense, rtol=1e-9, atol=1e-11)
                    ode.set_method(p_c07.method_class(mname))
                    nb = [0]

                    def budget(o, nb=nb):
                        nb[0] += 1
                        if nb[0] > 20000:
                            raise RuntimeError("no terminal stop within 20000 steps")
                    ode.integrate(events=evs, callback=[budget])
                except Exception as e:
                    ctx.oracle("infinite-target-run-succeeds", False, dict(inp, error=repr(e)[:200], cause=repr(getattr(e, "__cause__", None))[:120]),
                               key="backward-infinite-target-raises" if sign < 0 and isinstance(e, OverflowError) else "infinite-target-run-succeeds",
                               what="integration toward %sinf with a terminal event raised %r" % ("+" if sign > 0 else "-", e))
                    continue
                t = _np.array(ode.t)
                ex = eventsim.harmonic_exact(t0)
                term_evs = [float(e.t) for e in ode.events if e.event is term]
                ok_stop = ode.integration_status.startswith("Integration terminated") and ode.success and len(term_evs) == 1 and abs(float(t[-1]) - term_evs[0]) <= 1e-12
                ctx.oracle("stops-at-event-time", ok_stop, dict(inp, status=ode.integration_status[:40], last=float(t[-1]), terminal_events=term_evs),
                           what="run toward infinity: status %r, last time %r, terminal events %s" % (ode.integration_status[:40], float(t[-1]), term_evs))
                ctx.oracle("trajectory-monotone", bool(_np.all(_np.diff(t) * sign > 0)), dict(inp, tail=[float(x) for x in t[-4:]]), what="recorded times not monotone toward %sinf" % ("+" if sign > 0 else "-"))
                hv = eventsim.exact_h(term.desc["kind"], float(t[-1]), ex)
                hmax = float(_np.max(_np.abs(_np.diff(t)))) if len(t) > 1 else 0.0
                ctx.oracle("last-state-on-event-surface", abs(hv - c) <= 1e-6, dict(inp, residual=hv - c, largest_step=hmax),
                           key="event-location-limited-by-cubic-dense-output" if abs(hv - c) <= 0.5 * hmax ** 4 else "last-state-off-event-surface",
                           what="the exact trajectory has h - c = %.3e at the stop" % (hv - c))
                ets = [float(e.t) for e in ode.events]
                ctx.oracle("events-in-order", all((b - a) * sign >= -1e-12 for a, b in zip(ets, ets[1:])) and all((float(t[-1]) - x) * sign >= -1e-9 for x in ets), dict(inp, times=ets), what="events out of order or beyond the stop: %s" % ets)
                # continuation to a finite target
                try:
                    target = float(t[-1]) + sign * 1.5
                    ode.integrate(target)
                    err = float(_np.max(_np.abs(ode.y[-1] - ex(float(ode.t[-1])))))
                    ctx.oracle("continues-after-stop", abs(float(ode.t[-1]) - target) <= 1e-9 and err <= (1e-6 if mname != "RK4Solver" else 1e-3), dict(inp, end=float(ode.t[-1]), target=target, err=err),
                               what="continuation to %r ended at %r with error %.2e" % (target, float(ode.t[-1]), err))
                except Exception as e:
                    ctx.oracle("continues-after-stop", False, dict(inp, error=repr(e)[:200]), what="continuation after a stop on the way to infinity raised %r" % (e,))
                ctx.count("infinite-target:%s" % ("+inf" if sign > 0 else "-inf"))


def event_loop_block(ctx, n_quick, n_thorough):
    """whole `integrate(t, events=...)` calls against the Lean model `DV.LoopEv` (roll-back of the event step, nested integrate(root),
    status, `dt` after the stop, continuation calls), plus the C09 clauses that are visible on the time grid"""
    scs = evloopsim.run_block(ctx, "C09", n_quick, n_thorough)
    for sc in scs:
        for op, rec in zip(sc.ops, sc.records):
            if op[0] != "evint" or rec["status"] != 2:
                continue
            inp = dict(kind="event-loop", method=sc.method.__name__, dense=sc.dense, ops=str(sc.ops)[:600], op=str(op)[:300])
            evs = rec["evs"]
            mine = [(next(i for i, g in enumerate(evs) if g is f), te) for (f, te) in rec["events"][rec["n_events_before"]:]]
            term = [(i, te) for (i, te) in mine if evs[i].is_terminal]
            ctx.oracle("stop-is-last-terminal-event", bool(term) and abs(rec["t"][-1] - term[-1][1]) <= 1e-12, dict(inp, last_time=rec["t"][-1], terminal_events=term),
                       what="status 2 but the last recorded time %r is not the time of the last terminal event recorded by this call %s" % (rec["t"][-1], term[-1:] or None))
            d = 1.0 if len(rec["t"]) < 2 or rec["t"][-1] >= rec["t"][-2] else -1.0
            ctx.oracle("nothing-recorded-beyond-the-stop", all((rec["t"][-1] - x) * d >= 0 for x in rec["t"][-3:]) and all((rec["t"][-1] - te) * d >= -1e-9 for (_, te) in mine),
                       dict(inp, tail=rec["t"][-3:], events=mine[-4:]), what="samples or events beyond the stop")
            ctx.oracle("terminated-run-is-a-success", rec["success"] and rec.get("exc") is None, dict(inp, success=rec["success"], exc=rec.get("exc")),
                       what="terminated by event but success=%r, exception %r" % (rec["success"], rec.get("exc")))


def search(ctx, broken):
    p_c07.search(ctx, broken)


def replay(rep):
    return False
