"""C18 - the solve_ivp facade honours its arguments and agrees with the object API."""
import inspect
import impl
from impl import np, de, I

ID = "C18"
LEAN_TARGETS = ["DVP.Properties.C18"]
PROPERTY_FILES = ["DVP/Properties/C18.lean"]
RULE = ("seeded solve_ivp calls (method by name / alias / class, forward and backward spans, t_eval subsets with or without the end points, "
        "unsorted and repeated, state shapes (n,), (2,2), (1,), args tuples, first_step / max_step / min_step, tolerances, dense output, events) "
        "compared bit for bit with driving an OdeSystem by hand with the same settings; shapes, first column, t_eval times, max_step, "
        "args binding; scipy's solve_ivp at tolerance level. non-trivial = call with t_eval or max_step or args; distinct by the settings")
ASSUMPTIONS = ["agreement with scipy is a measurement at 100 x tolerance"]


def f_args(t, y, a, b):
    return a * np.roll(y, 1) - b * y * (1 + 0.1 * np.sin(t))


def f_more(t, y, a, b=0.3, c=0.0):
    """more parameters than a caller has to pass: the ones not covered by `args` keep their defaults"""
    return a * np.roll(y, 1) - b * y * (1 + 0.1 * np.sin(t)) + c


def f_noargs(t, y):
    return f_args(t, y, 0.8, 0.3)


def ev(t, y, **kw):
    return np.reshape(y, (-1,))[0] - 0.55


def by_hand(fun, t_span, y0, method, t_eval, dense, events, consts, opts):
    """what solve_ivp documents itself to do, written against the object API"""
    max_step = opts.get("max_step", np.inf)
    min_step = opts.get("min_step", 0.0)
    dt = np.maximum(np.minimum(opts.get("first_step", 1.0), max_step), min_step)
    o = de.OdeSystem(fun, y0=y0, t=t_span, dense_output=dense, dt=dt, atol=opts.get("atol"), rtol=opts.get("rtol"), constants=consts)
    o.method = method
    cbs = []
    if "max_step" in opts or "min_step" in opts:
        cbs.append(lambda s: setattr(s, "dt", np.sign(s.dt) * np.clip(np.abs(s.dt), min_step, max_step)))
    if t_eval is None:
        o.integrate(callback=cbs, events=events)
        return o, np.array(o.t), np.moveaxis(np.array(o.y), 0, -1)
    te = np.sort(np.asarray(t_eval))
    if t_span[1] < t_span[0]:
        te = te[::-1]
    ts, ys = [], []
    for t in te:
        o.integrate(t=t, callback=cbs, events=events)
        ts.append(o[-1].t)
        ys.append(o[-1].y)
    return o, np.stack(ts), np.stack(ys, axis=-1)


def run(ctx):
    rng = ctx.rng
    n = 40 if ctx.quick() else 400
    for i in range(n):
        shape = rng.choice([(2,), (3,), (2, 2), (1,)])
        y0 = np.array([rng.uniform(-1, 1) for _ in range(int(np.prod(shape)))]).reshape(shape)
        backward = rng.random() < 0.4
        t_span = (0.0, rng.uniform(0.5, 2.0)) if not backward else (rng.uniform(0.5, 2.0), 0.0)
        lo, hi = min(t_span), max(t_span)
        method = rng.choice(["RK45", "RK4Solver", "RK45CKSolver", "DOPRI45", I.RK4Solver, I.RK45CKSolver, "Explicit RK4", "RK8713MSolver"])
        use_args = rng.random() < 0.5
        a, b = rng.uniform(0.2, 1.0), rng.uniform(0.1, 0.6)
        fun = f_args if use_args else f_noargs
        args = (a, b) if use_args else None
        consts = dict(a=a, b=b) if use_args else None
        if use_args and rng.random() < 0.5:
            # a right-hand side with defaulted trailing parameters and 1..3 positional args
            fun = f_more
            args = (a, b, rng.uniform(-0.2, 0.2))[:rng.randint(1, 3)]
            consts = dict(zip(("a", "b", "c"), args))
            ctx.count("args:partial=%d-of-3" % len(args))
        opts = dict(rtol=10.0 ** -rng.randint(4, 8), atol=10.0 ** -rng.randint(6, 10))
        if rng.random() < 0.5:
            opts["max_step"] = rng.choice([0.05, 0.11, 0.3])
        if rng.random() < 0.3:
            opts["first_step"] = rng.choice([0.01, 0.2, 0.7])
        if rng.random() < 0.2:
            opts["min_step"] = 1e-4
        t_eval = None
        if rng.random() < 0.5:
            k = rng.randint(1, 6)
            t_eval = [rng.uniform(lo, hi) for _ in range(k)]
            if rng.random() < 0.4:
                t_eval += [lo, hi]
            if rng.random() < 0.3:
                t_eval.append(t_eval[0])
            rng.shuffle(t_eval)
        dense = rng.random() < 0.3
        events = [ev] if rng.random() < 0.25 else None
        inp = dict(kind="solve_ivp", method=str(method), t_span=t_span, shape=list(shape), args=args, t_eval=t_eval, dense=dense, events=bool(events), options=opts)
        try:
            r = de.solve_ivp(fun, t_span, y0.copy(), method=method, t_eval=t_eval, dense_output=dense, events=events, args=args, **opts)
        except Exception as e:
            ctx.oracle("facade-runs", False, inp, what="solve_ivp raised %r" % (e,))
            continue
        try:
            o, ht, hy = by_hand(fun, t_span, y0.copy(), method, t_eval, dense, events, consts, opts)
        except Exception as e:
            ctx.corr("facade-vs-object-api", False, dict(inp, by_hand="raised %r" % (e,)))
            continue
        same = np.array_equal(r.t, ht) and np.array_equal(r.y, hy) and r.nfev == o.nfev and r.njev == o.njev and r.success == o.success and len(r.t_events) == len(o.events)
        ctx.corr("facade-vs-object-api", bool(same), dict(inp, facade=[r.t.shape, r.y.shape, float(r.t[-1]), r.nfev], by_hand=[ht.shape, hy.shape, float(ht[-1]), o.nfev]))
        # the property itself
        nt = len(r.t)
        ctx.oracle("shapes-pair-up", r.t.shape == (nt,) and r.y.shape == (*shape, nt), inp, what="shapes t %s y %s for state shape %s" % (r.t.shape, r.y.shape, shape))
        if t_eval is None:
            ctx.oracle("starts-at-initial-condition", float(r.t[0]) == t_span[0] and np.array_equal(r.y[..., 0], y0), inp, what="first column is not the initial condition")
            if "max_step" in opts:
                mx = float(np.max(np.abs(np.diff(r.t))))
                ctx.oracle("max-step", mx <= opts["max_step"] * (1 + 1e-12), dict(inp, longest=mx), what="a recorded step of %r exceeds max_step=%r" % (mx, opts["max_step"]))
            if events is None:
                ctx.oracle("reaches-end", abs(float(r.t[-1]) - t_span[1]) <= 1e-12 and r.success, inp, what="facade run ended at %r, span end %r, success=%r" % (float(r.t[-1]), t_span[1], r.success))
        elif events is None:
            want = np.sort(np.asarray(t_eval))
            if backward:
                want = want[::-1]
            ctx.oracle("t_eval-times", len(r.t) == len(want) and bool(np.all(np.abs(r.t - want) <= 1e-12)), inp, what="returned times %s for t_eval %s" % (r.t, want))
        # args binding: the parameters (a, b) in order
        if use_args:
            names = inspect.getfullargspec(fun)[0][2:]
            ctx.oracle("args-bound-in-order", dict(r.ode_system.constants) == dict(zip(names, args)), inp, what="args bound as %r" % (r.ode_system.constants,))
        # scipy
        try:
            from scipy.integrate import solve_ivp as sp
            ref = sp(fun, t_span, y0.reshape(-1), method="DOP853", rtol=1e-11, atol=1e-12, args=args, t_eval=None if t_eval is None else (np.sort(t_eval)[::-1] if backward else np.sort(t_eval))) if shape != (2, 2) else None
            if ref is not None and events is None:
                tol = 100 * (opts["atol"] + opts["rtol"])
                err = float(np.max(np.abs(ref.y[:, -1] - r.y.reshape(-1, nt)[:, -1])))
                ctx.oracle("agrees-with-scipy", err <= max(tol, 1e-6) * 10 or "RK4Solver" in str(method) or "Explicit RK4" in str(method), dict(inp, err=err), what="end state differs from scipy by %.2e" % err)
        except Exception:
            pass
        if t_eval is not None or "max_step" in opts or use_args:
            ctx.nontrivial(str(inp))
        ctx.count("span:" + ("bwd" if backward else "fwd"))
        ctx.count("t_eval:" + ("yes" if t_eval is not None else "no"))
        ctx.sample(inp, limit=3)
    # invalid t_eval is rejected
    for t_span, te in [((0.0, 1.0), [0.5, 1.2]), ((1.0, 0.0), [-0.1, 0.4]), ((0.0, 1.0), [-0.2])]:
        try:
            de.solve_ivp(f_noargs, t_span, np.array([1.0, 0.0]), t_eval=te)
            ok = False
        except ValueError:
            ok = True
        except Exception:
            ok = False
        ctx.oracle("t_eval-out-of-range-rejected", ok, dict(kind="solve_ivp", t_span=t_span, t_eval=te), what="t_eval outside the span was not rejected with ValueError")

    # solve_ivp(t_eval=...) with fixed-step methods against the whole-run model DV.Run (the t_eval loop is the call sequence
    # integrate(t_1), integrate(t_2), ...: theorem t_eval_loop_is_the_object_api): returned times exactly, columns = the model's samples
    import random as _random, runsim
    from fractions import Fraction as Fr
    r = _random.Random(ctx.seed * 7919 + 18)
    cases, lines = [], []
    for name in runsim.RK_FIXED[:4]:
        for _ in range(2 if ctx.quick() else 12):
            kind, t0, tf, dt, ops = runsim.dyadic_plan(r)
            dirn = 1 if tf > t0 else -1
            span = abs(tf - t0)
            te = sorted(set(t0 + dirn * span * Fr(r.randint(1, 31), 32) for _ in range(r.randint(1, 5))))
            rhs = runsim.linear_rhs(r, r.choice([1, 2]))
            y0 = [Fr(r.randint(-16, 16), 16) for _ in range(rhs.n)]
            inp = dict(kind="facade-t_eval", method=name, rhs=rhs.proto(), t0=str(t0), tf=str(tf), first_step=str(abs(dt)), t_eval=[str(v) for v in te], y0=[str(v) for v in y0])
            try:
                res = de.solve_ivp(lambda t, y, rhs=rhs: rhs(t, y), (float(t0), float(tf)), np.array([float(v) for v in y0]), method=getattr(I, name),
                                   t_eval=np.array([float(v) for v in te]), first_step=float(abs(dt)))
            except Exception as e:
                ctx.oracle("facade-runs", False, inp, what="solve_ivp raised %r" % (e,))
                continue
            visit = te if dirn > 0 else te[::-1]
            cases.append((inp, res, visit, rhs.n))
            lines.append(runsim.model_line("rk", name, rhs, None, t0, tf, dirn * abs(dt), y0, [("i", v) for v in visit]))
    for (inp, res, visit, n), o in zip(cases, ctx.driver(lines)):
        m = runsim.parse_model(o, n)
        rt = [Fr(float(v)) for v in np.asarray(res.t).reshape(-1)]
        ok_t = sorted(rt) == sorted(visit)
        ctx.oracle("t_eval-times-returned", ok_t, dict(inp, returned=[float(v) for v in rt]), what="returned times %s, requested %s" % ([float(v) for v in rt], [float(v) for v in visit]))
        ok = False
        worst = None
        if m is not None and ok_t:
            lookup = {t: y for t, y in zip(m[0], m[1])}
            ry = np.asarray(res.y, dtype=np.float64).reshape(n, len(rt))
            if all(t in lookup for t in rt):
                scale = max(1.0, max(abs(float(v)) for row in m[1] for v in row))
                worst = max(abs(float(Fr(float(ry[i, k])) - lookup[t][i])) for k, t in enumerate(rt) for i in range(n)) / scale
                ok = worst <= 1e-11 * max(1, len(m[0]))
        ctx.corr("facade-t_eval-vs-whole-run-model", ok, dict(inp, worst_state_diff=worst, model_times=None if m is None else [float(v) for v in m[0]][:10]))
        ctx.count("facade-t_eval:" + inp["method"])

    # arguments as scipy's solve_ivp documents them: a terminal event together with t_eval, first_step=None, an integer-typed y0
    import scipy.integrate as _si
    Am = np.array([[0.0, 1.0], [-1.0, 0.0]])
    f_osc = lambda t, y: Am @ y
    for (span, lvl) in [((0.0, 10.0), 0.0), ((0.0, -10.0), 0.0), ((1.0, 9.0), 0.3)]:
        def ev_stop(t, y, lvl=lvl):
            return y[0] - lvl
        ev_stop.is_terminal = True
        ev_stop.terminal = True
        te = np.linspace(span[0], span[1], 11)
        inp = dict(kind="facade-terminal-event", t_span=list(span), level=lvl, t_eval=te.tolist())
        try:
            r = de.solve_ivp(f_osc, span, np.array([1.0, 0.0]), t_eval=te, events=ev_stop, atol=1e-9, rtol=1e-9)
            sref = _si.solve_ivp(f_osc, span, np.array([1.0, 0.0]), t_eval=te, events=ev_stop, atol=1e-9, rtol=1e-9)
            rt = np.asarray(r.t, dtype=float).reshape(-1)
            ok = len(rt) == len(sref.t) and bool(np.all(rt == np.asarray(sref.t))) and ("event" in str(r.status).lower())
            ctx.oracle("t_eval-with-terminal-event", ok, dict(inp, returned=rt.tolist(), scipy=np.asarray(sref.t).tolist(), status=str(r.status)),
                       key="facade-runs-past-terminal-event", what="with a terminal event solve_ivp returned the times %s (scipy: %s), status %r" % (np.round(rt, 4).tolist(), np.round(sref.t, 4).tolist(), str(r.status)))
        except Exception as e:
            ctx.oracle("facade-runs", False, inp, what="solve_ivp raised %r" % (e,))
    try:
        a = de.solve_ivp(f_osc, (0.0, 1.0), np.array([1.0, 0.0]), first_step=None)
        b = de.solve_ivp(f_osc, (0.0, 1.0), np.array([1.0, 0.0]))
        ctx.oracle("first_step-none-is-the-default", bool(np.array_equal(np.asarray(a.t), np.asarray(b.t)) and np.array_equal(np.asarray(a.y), np.asarray(b.y))),
                   dict(kind="facade-first_step-none"), what="first_step=None differs from leaving first_step out")
    except Exception as e:
        ctx.oracle("first_step-none-is-the-default", False, dict(kind="facade-first_step-none"), what="solve_ivp(first_step=None) raised %r" % (e,))
    try:
        a = de.solve_ivp(f_osc, (0.0, 1.0), np.array([1, 0]))
        b = de.solve_ivp(f_osc, (0.0, 1.0), np.array([1.0, 0.0]))
        ya, yb = np.asarray(a.y, dtype=float), np.asarray(b.y, dtype=float)
        ctx.oracle("integer-y0-is-promoted", ya.shape == yb.shape and bool(np.allclose(ya, yb, atol=1e-12)), dict(kind="facade-integer-y0", end=ya[:, -1].tolist(), expected=yb[:, -1].tolist(), dtype=str(np.asarray(a.y).dtype)),
                   what="an integer-typed y0 gives %s at the end (float y0: %s), dtype %s" % (ya[:, -1].tolist(), yb[:, -1].tolist(), np.asarray(a.y).dtype))
    except Exception as e:
        ctx.oracle("integer-y0-is-promoted", False, dict(kind="facade-integer-y0"), what="raised %r" % (e,))


def replay(rep):
    return False
