"""C05 - adaptive integration keeps the global error proportional to the tolerances."""
import math
import impl, loopsim
from impl import np, de, I, DS, fbits

ID = "C05"
LEAN_TARGETS = ["DVP.Properties.C05"]
PROPERTY_FILES = ["DVP/Properties/C05.lean"]
RULE = ("(a) every __call__ of the adaptive / implicit integrators inside seeded runs is recorded (attempted steps, the controller's "
        "proposal and verdict, Newton flag) and replayed bit for bit through the Lean accept/retry model; the property clauses about "
        "retries are evaluated on the recorded attempts; (b) tolerance sweeps 1e-3..1e-11 on linear systems with exact exponentials and "
        "nonlinear problems with closed forms, both directions, initial dt from 1e-4 to beyond the span: measured global error vs "
        "(atol + rtol |y|) x amplification; (c) a late-feature family (smooth bump at the end of the span: the clipped last step of the call is "
        "rejected and retried) and a multi-scale family (components of size 1e5 and 1e-3, atol = 1e-9 rtol), with the recorded times checked "
        "against the steps the integrator reported. non-trivial = call with >= 1 rejected attempt / run with >= 5 steps; distinct by configuration")
ASSUMPTIONS = ["the global-error clause is a measurement (numerical analysis), used for validation and as failing-input search",
               "amplification of a problem is estimated as max(1, exp(L |tf - t0|)) with L the logarithmic norm bound of the test problem"]

PAIRS_EXPLICIT = ["RK45CKSolver", "DOPRI45", "RK8713MSolver", "HeunEulerSolver", "RK108Solver", "RK1412Solver"]
PAIRS_IMPLICIT = ["RadauIIA5", "LobattoIIIC4", "RadauIIA19"]


def make_logged(cls, log):
    class Logged(cls):
        def __call__(self, rhs, t, y, c, timestep):
            h = timestep
            self._cur = dict(h=float(h), attempts=[], implicit=bool(self.is_implicit), ai=bool(self.is_adaptive or self.is_implicit))
            try:
                r = super().__call__(rhs, t, y, c, h)
                self._cur["result"] = ("ok", float(r[0]), float(r[1][0]))
                return r
            except de.exception_types.FailedToMeetTolerances:
                self._cur["result"] = ("raise",)
                raise
            finally:
                log.append(self._cur)

        def step(self, rhs, t, y, c, h):
            r = super().step(rhs, t, y, c, h)
            self._cur["attempts"].append(dict(h=float(h), ok=bool(self.solver_dict.get("newton_iteration_success", True))))
            return r

        def update_timestep(self, *a, **k):
            ts, redo = super().update_timestep(*a, **k)
            cur = getattr(self, "_cur", None)
            if cur is not None and cur["attempts"] and not k.get("ignore_custom_adaptation"):
                cur["attempts"][-1].update(ts=float(ts), redo=bool(redo))
            return ts, redo
    Logged.__name__ = "Logged_" + cls.__name__
    return Logged


# test problems with closed-form solutions: (name, f, exact(t), y0 at t0=0, L)
def problems(rng):
    lam = rng.uniform(0.3, 2.0)
    om = rng.uniform(1.0, 6.0)
    A = np.array([[-lam, om], [-om, -lam]])

    def lin(t, y):
        return A @ y

    def lin_exact(t, y0=np.array([1.0, 0.5])):
        c, s = math.cos(om * t), math.sin(om * t)
        return math.exp(-lam * t) * np.array([c * y0[0] + s * y0[1], -s * y0[0] + c * y0[1]])
    r = rng.uniform(0.5, 2.0)

    def logistic(t, y):
        return r * y * (1.0 - y)

    def logistic_exact(t, y0=np.array([0.2, 0.7])):
        e = np.exp(r * t)
        return y0 * e / (1.0 - y0 + y0 * e)
    return [("damped-rotation", lin, lin_exact, np.array([1.0, 0.5]), lam, om), ("logistic", logistic, logistic_exact, np.array([0.2, 0.7]), r, r)]


def late_feature(rng, direction, wide=False):
    """Prothero-Robinson type problem with a narrow smooth feature at the END of the span: the controller has grown the
    step on the flat part, so the last (clipped) step of the call is usually rejected and retried.  Returns f, exact, y0, t0, tf."""
    # (the 10th/12th-order pairs take steps several times the width of a narrow bump, where no embedded estimate is in its
    # asymptotic regime: they get a feature ten times wider)
    k = rng.uniform(200.0, 600.0) * (0.1 if wide else 1.0)
    lam = -rng.uniform(0.5, 2.0)
    c = 1.0
    off = rng.uniform(0.05, 0.09)
    t0, tf = (0.0, c - off) if direction > 0 else (2.0, c + off)

    def g(t):
        return math.exp(-k * (t - c) ** 2)

    def f(t, y):
        t = float(t)
        return lam * (y - g(t)) - 2.0 * k * (t - c) * g(t)
    y0 = np.array([0.5])

    def exact(t):
        return g(t) + (y0 - g(t0)) * math.exp(lam * (t - t0))
    return f, exact, y0, t0, tf, abs(lam), dict(k=k, lam=lam)


def multi_scale(rng, direction):
    """decoupled components on very different scales: a large slow decay and a small fast rotation; the tolerance of a
    component is atol + rtol |y_i| with atol << rtol |y_i|, so a controller that mixes the components' scales loses the small ones."""
    big = 10.0 ** rng.uniform(3, 5)
    small = 10.0 ** rng.uniform(-4, -2)
    a = rng.uniform(0.05, 0.3)
    om = rng.uniform(15.0, 40.0)
    M = np.array([[-a, 0, 0], [0, 0, om], [0, -om, 0]])

    def f(t, y):
        return M @ y
    y0 = np.array([big, small, 0.5 * small])

    def exact(t):
        c, s = math.cos(om * t), math.sin(om * t)
        return np.array([big * math.exp(-a * t), c * y0[1] + s * y0[2], -s * y0[1] + c * y0[2]])
    span = rng.uniform(1.0, 2.0)
    return f, exact, y0, 0.0, direction * span, om, dict(a=a, om=om)


def tolerance_setter_block(ctx, rng):
    """tolerances given through the `rtol` / `atol` setters (after the method was selected; before the first call or between two calls)
    are the tolerances the run honours: same error bound as for constructor tolerances, and - set before the first call - the very
    same run as a system constructed with them"""
    meths = {"RK45CKSolver": I.RK45CKSolver, "DOPRI45": I.DOPRI45, "RK8713MSolver": I.RK8713MSolver,
             "Richardson(RK4Solver,3)": de.integrators.generate_richardson_integrator(I.RK4Solver, 3),
             "Richardson(MidpointSolver,4)": de.integrators.generate_richardson_integrator(I.MidpointSolver, 4)}
    for name, cls in meths.items():
        for tol in ([1e-7] if ctx.quick() else [1e-5, 1e-7, 1e-9]):
            (pname, f, exact, y0, lam, L) = problems(rng)[0]
            direction = rng.choice([1, -1])
            span = rng.uniform(0.8, 1.5)
            t0, tf = 0.0, direction * span
            dt0 = rng.choice([1e-2, 0.3])
            bound = 60.0 * max(5.0, span * (lam + L) * 5)
            inp = dict(kind="tolerance-setters", method=name, tol=tol, t0=t0, tf=tf, dt0=dt0)
            try:
                # (1) set before the first call
                ode = de.OdeSystem(f, y0=y0.copy(), t=(t0, tf), dt=dt0, rtol=1e-3, atol=1e-3)
                ode.set_method(cls)
                ode.rtol = tol
                ode.atol = tol
                ode.integrate()
                fresh = de.OdeSystem(f, y0=y0.copy(), t=(t0, tf), dt=dt0, rtol=tol, atol=tol)
                fresh.set_method(cls)
                fresh.integrate()
                ex = np.array([exact(float(t)) for t in ode.t])
                err = float(np.max(np.abs(ode.y - ex) / (tol + tol * np.abs(ex))))
                ctx.oracle("global-error-proportional-to-tolerance", err <= bound, dict(inp, when="before-first-call", scaled_error=err, bound=bound, steps=len(ode.t) - 1),
                           what="tolerances set through the setters before the first call: global error / (atol + rtol|y|) = %.1f exceeds %.0f" % (err, bound))
                ctx.oracle("setter-tolerances-equal-constructor-tolerances", len(ode.t) == len(fresh.t) and np.array_equal(ode.t, fresh.t) and np.array_equal(ode.y, fresh.y),
                           dict(inp, steps=len(ode.t) - 1, steps_constructor=len(fresh.t) - 1),
                           what="a run with tolerances set through the setters (%d steps) differs from the run of a system constructed with them (%d steps)" % (len(ode.t) - 1, len(fresh.t) - 1))
                # (2) tightened between two calls: the second leg is judged from its own start
                ode = de.OdeSystem(f, y0=y0.copy(), t=(t0, tf), dt=dt0, rtol=1e-3, atol=1e-3)
                ode.set_method(cls)
                tm = t0 + 0.4 * (tf - t0)
                ode.integrate(tm)
                n1 = len(ode.t)
                ym, tmid = np.array(ode.y[-1]), float(ode.t[-1])
                ode.rtol = tol
                ode.atol = tol
                ode.integrate()
                ex2 = np.array([exact(float(t) - tmid, ym) for t in ode.t[n1 - 1:]])
                err2 = float(np.max(np.abs(ode.y[n1 - 1:] - ex2) / (tol + tol * np.abs(ex2))))
                ctx.oracle("global-error-proportional-to-tolerance", err2 <= bound, dict(inp, when="between-calls", scaled_error=err2, bound=bound, steps=len(ode.t) - n1),
                           what="tolerances tightened through the setters between two calls: error of the second leg / (atol + rtol|y|) = %.1f exceeds %.0f" % (err2, bound))
                ctx.count("tolerance-setters:" + name)
            except de.exception_types.FailedIntegration as e:
                ctx.oracle("adaptive-run-succeeds", False, dict(inp, cause=repr(e.__cause__)[:120]), what="run with setter tolerances failed: %r" % (e.__cause__,))


def undefined_estimate_block(ctx):
    """an error estimate that is not a number (0/0 for an identically zero component under purely relative control; overflow of the stages
    of a far too long first attempt): such a step cannot be certified - the call raises, or whatever it records is accurate and finite"""
    def osc(t, y):
        return np.array([y[1], -y[0], -y[2]])

    def cubic(sign):
        return lambda t, y: -sign * y ** 3
    rtol = 1e-8
    for name in ["RK45CKSolver", "DOPRI45", "RK8713MSolver", "HeunEulerSolver"]:
        for (tag, f, y0, tf, dt0, atol, exact) in [
                ("zero-component-relative-control", osc, np.array([1.0, 0.0, 0.0]), 2.0, 0.01, 0.0, lambda t: np.array([np.cos(t), -np.sin(t), 0.0])),
                ("zero-component-relative-control", osc, np.array([1.0, 0.0, 0.0]), -2.0, 0.3, 0.0, lambda t: np.array([np.cos(t), -np.sin(t), 0.0])),
                ("overflowing-first-attempt", cubic(1.0), np.array([10.0]), 1.0, 1.0, 1e-10, lambda t: np.array([10.0 / np.sqrt(1 + 200.0 * abs(t))])),
                ("overflowing-first-attempt", cubic(-1.0), np.array([10.0]), -1.0, 1.0, 1e-10, lambda t: np.array([10.0 / np.sqrt(1 + 200.0 * abs(t))]))]:
            if name == "HeunEulerSolver" and tag == "overflowing-first-attempt":
                continue
            inp = dict(kind="undefined-estimate", scenario=tag, method=name, tf=tf, dt0=dt0, rtol=rtol, atol=atol)
            ode = de.OdeSystem(f, y0=y0.copy(), t=(0.0, tf), dt=dt0, rtol=rtol if name != "HeunEulerSolver" else 1e-5, atol=atol)
            ode.set_method(getattr(I, name))
            budget = [0]

            def cb(o, budget=budget):
                budget[0] += 1
                if budget[0] > 20000:
                    raise RuntimeError("step budget")
            try:
                with np.errstate(all="ignore"):
                    ode.integrate(callback=[cb])
                raised = None
            except de.exception_types.FailedIntegration as e:
                raised = type(e.__cause__).__name__ if e.__cause__ is not None else "FailedIntegration"
            ts, ys = np.array(ode.t), np.array(ode.y)
            finite = bool(np.all(np.isfinite(ys)))
            err = max(float(np.max(np.abs(y - exact(t)))) for t, y in zip(ts, ys)) if finite else float("inf")
            lim = 1e3 * (1e-5 if name == "HeunEulerSolver" else rtol) * (1 + abs(tf)) * max(1.0, float(np.max(np.abs(y0)))) + 1e3 * atol
            ctx.oracle("uncertifiable-step-is-not-recorded", finite and err <= lim, dict(inp, raised=raised, steps=len(ts) - 1, error=err, bound=lim),
                       key="undefined-estimate-accepted", what="%s: recorded states off by %.2e (bound %.1e) after %d steps, finite=%s, raised=%r" % (tag, err, lim, len(ts) - 1, finite, raised))
            ctx.count("undefined-estimate:%s:%s" % (tag, "raised" if raised else "completed"))


def zero_estimate_block(ctx):
    """a stretch on which the error estimate is EXACTLY zero (the right-hand side vanishes identically for t <= 1), then a smooth but
    oscillatory feature: what the controller remembers of the zero estimates must not make it accept the later steps unseen; also the
    Richardson wrappers, with an overflowing first attempt (NaN estimate)"""
    def F(t):
        return float(np.exp(-1.0 / (t - 1.0)) * np.sin(50.0 * t)) if t > 1.0 else 0.0

    def rhs(t, y):
        if t <= 1.0:
            return np.array([0.0])
        s_ = t - 1.0
        return np.array([np.exp(-1.0 / s_) * (np.sin(50.0 * t) / s_ ** 2 + 50.0 * np.cos(50.0 * t))])
    tol = 1e-8
    meths = [("RK45CKSolver", I.RK45CKSolver), ("DOPRI45", I.DOPRI45), ("RK8713MSolver", I.RK8713MSolver),
             ("Richardson(RK4,4)", de.integrators.generate_richardson_integrator(I.RK4Solver, 4)),
             ("Richardson(Midpoint,4)", de.integrators.generate_richardson_integrator(I.MidpointSolver, 4)),
             ("Richardson(RK45CK,3)", de.integrators.generate_richardson_integrator(I.RK45CKSolver, 3))]
    for (name, cls) in meths:
        for dt0 in (0.05, 0.3):
            inp = dict(kind="zero-estimate-stretch", method=name, dt0=dt0, tol=tol)
            ode = de.OdeSystem(rhs, y0=np.array([0.0]), t=(0.0, 3.0), dt=dt0, rtol=tol, atol=tol)
            ode.set_method(cls)
            nb = [0]

            def cb(o, nb=nb):
                nb[0] += 1
                if nb[0] > 200000:
                    raise RuntimeError("step budget")
            try:
                ode.integrate(callback=[cb])
                raised = None
            except de.exception_types.FailedIntegration as e:
                raised = type(e.__cause__).__name__ if e.__cause__ is not None else "FailedIntegration"
            ts, ys = np.array(ode.t), np.array(ode.y)[:, 0]
            err = max(abs(float(y) - F(float(t))) for t, y in zip(ts, ys)) if np.all(np.isfinite(ys)) else float("inf")
            ctx.oracle("global-error-proportional-to-tolerance", err <= 5e3 * tol, dict(inp, raised=raised, steps=len(ts) - 1, error=err, first_steps=np.round(np.diff(ts)[:6], 4).tolist()),
                       key="zero-estimate-stretch:%s:dt0=%g" % (name, dt0), what="after a stretch of exactly zero error estimates the run is off by %.2e (tolerance %.0e, %d steps: %s ...)" % (err, tol, len(ts) - 1, np.round(np.diff(ts)[:5], 3).tolist()))
            ctx.count("zero-estimate:" + name)
    # NaN estimate through the Richardson wrappers (their safety factor differs from the embedded pairs')
    for (name, cls) in meths[3:]:
        for sign in (1.0, -1.0):
            inp = dict(kind="undefined-estimate", scenario="overflowing-first-attempt", method=name, direction=sign)
            ode = de.OdeSystem(lambda t, y, sign=sign: -sign * y ** 3, y0=np.array([10.0]), t=(0.0, sign * 2000.0), dt=1000.0, rtol=1e-8, atol=1e-10)
            ode.set_method(cls)
            nb = [0]

            def cb2(o, nb=nb):
                nb[0] += 1
                if nb[0] > 50000:
                    raise RuntimeError("step budget")
            try:
                with np.errstate(all="ignore"):
                    ode.integrate(callback=[cb2])
                raised = None
            except de.exception_types.FailedIntegration as e:
                raised = type(e.__cause__).__name__ if e.__cause__ is not None else "FailedIntegration"
            ys = np.array(ode.y)[:, 0]
            ts = np.array(ode.t)
            finite = bool(np.all(np.isfinite(ys)))
            err = max(abs(float(y) - 10.0 / np.sqrt(1 + 200.0 * abs(float(t)))) for t, y in zip(ts, ys)) if finite else float("inf")
            ctx.oracle("uncertifiable-step-is-not-recorded", finite and err <= 1e-3, dict(inp, raised=raised, steps=len(ts) - 1, error=err),
                       key="undefined-estimate-accepted", what="%s: recorded states off by %.2e after %d steps, finite=%s, raised=%r" % (name, err, len(ts) - 1, finite, raised))
            ctx.count("undefined-estimate:richardson")


def run(ctx):
    rng = ctx.rng
    undefined_estimate_block(ctx)
    zero_estimate_block(ctx)
    tolerance_setter_block(ctx, rng)
    lines, cases = [], []
    names = PAIRS_EXPLICIT[:4] + (PAIRS_IMPLICIT[:1] if ctx.quick() else PAIRS_EXPLICIT[4:] + PAIRS_IMPLICIT)
    tols = [1e-3, 1e-5, 1e-7, 1e-9, 1e-11]
    for name in names:
        cls = getattr(I, name)
        for (pname, f, exact, y0, lam, L) in problems(rng):
            errs = []
            for tol in (tols if not ctx.quick() else [1e-3, 1e-6, 1e-9]):
                if name in ("HeunEulerSolver",) and tol < 1e-7:
                    continue
                if name in PAIRS_IMPLICIT and tol < 1e-8:
                    continue
                direction = rng.choice([1, -1])
                span = rng.uniform(0.5, 1.5)
                t0, tf = (0.0, span) if direction > 0 else (0.0, -span)
                dt0 = rng.choice([1e-4, 1e-2, 0.3, 5.0])
                log = []
                ode = de.OdeSystem(f, y0=y0.copy(), t=(t0, tf), dt=dt0, rtol=tol, atol=tol)
                ode.set_method(make_logged(cls, log))
                inp = dict(kind="adaptive-run", method=name, problem=pname, tol=tol, t0=t0, tf=tf, dt0=dt0)
                nbudget = [0]
                try:
                    def cb(o, nbudget=nbudget):
                        nbudget[0] += 1
                        if nbudget[0] > 20000:
                            raise loopsim.BudgetExceeded()
                    ode.integrate(callback=cb)
                except loopsim.BudgetExceeded:
                    ctx.count("budget-exceeded")
                    continue
                except de.exception_types.FailedIntegration as e:
                    ctx.oracle("adaptive-run-succeeds", False, dict(inp, cause=repr(e.__cause__)[:120]),
                               what="adaptive run on a smooth well-conditioned problem failed: %r" % (e.__cause__,))
                    continue
                # (b) global error against the closed form
                ex = np.array([exact(float(t)) for t in ode.t])
                err = float(np.max(np.abs(ode.y - ex) / (tol + tol * np.abs(ex))))
                amp = max(1.0, math.exp(L * abs(tf - t0)) if pname == "logistic" else 1.0) * max(5.0, abs(tf - t0) * (lam + L) * 5)
                bound = 60.0 * amp
                ctx.oracle("global-error-proportional-to-tolerance", err <= bound, dict(inp, scaled_error=err, bound=bound, steps=len(ode.t) - 1),
                           what="global error / (atol + rtol|y|) = %.1f exceeds %.0f" % (err, bound))
                errs.append((tol, err))
                if len(ode.t) > 5:
                    ctx.nontrivial((name, pname, tol, direction, dt0))
                ctx.count("run:%s:%s" % (name, "fwd" if direction > 0 else "bwd"))
                # (a) every call: replay + retry clauses
                for c in log:
                    atts = c["attempts"]
                    if not c["ai"]:
                        continue
                    hs = [a["h"] for a in atts]
                    rej = len(atts) - 1
                    if rej >= 1 and not c["implicit"]:
                        ok = all(abs(b) < abs(a) for a, b in zip(hs, hs[1:]))
                        ctx.oracle("retry-strictly-smaller", ok, dict(inp, attempted_steps=hs[:8]), what="a rejected step was retried with steps %s" % (hs[:6],))
                        ctx.nontrivial(("retry", name, pname, tol, tuple(hs[:3])))
                    if c["result"][0] == "ok":
                        dT = c["result"][2]
                        ctx.oracle("accepted-step-within-request", dT != 0 and (dT > 0) == (c["h"] > 0) and abs(dT) <= abs(c["h"]) and c["result"][1] != 0, inp,
                                   what="call with request %r returned step %r, proposal %r" % (c["h"], dT, c["result"][1]))
                    if len(lines) < (1500 if ctx.quick() else 20000):
                        lines.append("ctrl 1 %d %s %s" % (int(c["implicit"]), fbits(c["h"]),
                                                         ";".join("%s:%d:%d" % (fbits(a.get("ts", float("nan"))), int(a.get("redo", True)), int(a["ok"])) for a in atts)))
                        cases.append(c)
                    ctx.count("call:rejections=%d" % min(rej, 4))
    # (c) late feature (last step of the call rejected) and components on very different scales
    rich = {"Richardson(RK4Solver,3)": de.integrators.generate_richardson_integrator(I.RK4Solver, 3),
            "Richardson(MidpointSolver,4)": de.integrators.generate_richardson_integrator(I.MidpointSolver, 4)}
    for name in (PAIRS_EXPLICIT[:3] if ctx.quick() else PAIRS_EXPLICIT) + list(rich):
        cls = rich[name] if name in rich else getattr(I, name)
        for kind in ("late-feature", "multi-scale"):
            if name in rich and kind == "late-feature":
                continue
            for tol in ([1e-5, 1e-8] if ctx.quick() else [1e-4, 1e-6, 1e-8, 1e-10]):
                for direction in (1, -1):
                    f, exact, y0, t0, tf, L, par = late_feature(rng, direction, wide=name in ("RK108Solver", "RK1412Solver")) if kind == "late-feature" else multi_scale(rng, direction)
                    atol = tol if kind == "late-feature" else tol * 1e-9
                    dt0 = rng.choice([1e-2, 0.3]) if kind == "late-feature" else rng.choice([1e-4, 1e-2, 5.0])
                    log = []
                    ode = de.OdeSystem(f, y0=y0.copy(), t=(t0, tf), dt=dt0, rtol=tol, atol=atol)
                    # (the Richardson wrappers have their own __call__: they run unrecorded, only the error is judged)
                    ode.set_method(cls if name in rich else make_logged(cls, log))
                    inp = dict(kind=kind, method=name, tol=tol, atol=atol, t0=t0, tf=tf, dt0=dt0, y0=[float(v) for v in y0], **par)
                    nb = [0]
                    try:
                        def cb(o, nb=nb):
                            nb[0] += 1
                            if nb[0] > 40000:
                                raise loopsim.BudgetExceeded()
                        ode.integrate(callback=cb)
                    except loopsim.BudgetExceeded:
                        ctx.count("budget-exceeded")
                        continue
                    except de.exception_types.FailedIntegration as e:
                        ctx.oracle("adaptive-run-succeeds", False, dict(inp, cause=repr(e.__cause__)[:120]),
                                   what="adaptive run on a smooth problem failed: %r" % (e.__cause__,))
                        continue
                    ts = [float(t) for t in ode.t]
                    okc = [c for c in log if c["result"][0] == "ok"]
                    # the recorded times are the sums of the steps the integrator actually took
                    # (to rounding: storing the target itself for a step that reaches it would be equally right)
                    same = len(okc) == len(ts) - 1 and all(abs(ts[i + 1] - (ts[i] + okc[i]["result"][2])) <= 4e-16 * max(abs(ts[i]), abs(ts[i + 1]), abs(tf)) for i in range(len(okc)))
                    if name not in rich:
                        ctx.oracle("recorded-time-is-sum-of-taken-steps", same, dict(inp, steps=len(ts) - 1, calls=len(okc)),
                                   what="a recorded time differs from previous time + the step the integrator reported")
                    ctx.oracle("run-reaches-target", abs(ts[-1] - tf) <= 8 * float(np.spacing(max(abs(tf), abs(t0)))), dict(inp, t_end=ts[-1]), what="run ended at %r, target %r" % (ts[-1], tf))
                    ex = np.array([exact(t) for t in ts]).reshape(ode.y.shape)
                    # |y_i| is the size of the component over the run (an oscillating component passes through zero)
                    size = np.max(np.abs(ex), axis=0)
                    err = float(np.max(np.abs(ode.y - ex) / (atol + tol * size)))
                    # the rotation's phase error accumulates linearly in the number of periods; the decay damps errors
                    # (an error-per-step controller bounds every LOCAL error by the tolerance: on a neutrally stable rotation the global error
                    # can reach the number of steps times the tolerance, which matters for low-order wrappers taking thousands of steps)
                    bound = max(100.0 * max(5.0, abs(tf - t0) * L), 3.0 * (len(ts) - 1))
                    # mechanism of finding P25 (repaired in /repo a91c390; reported under its own key if it returns): the first call starts far too large, its rejected attempts stay in the controller's
                    # memory (smoothed scale, error history entering with a negative exponent) and the first accepted step is tested
                    # against a loosened tolerance; the error is then already present after the first recorded step
                    errs_t = np.max(np.abs(ode.y - ex) / (atol + tol * size), axis=tuple(range(1, ode.y.ndim)))
                    first_rej = len(okc[0]["attempts"]) - 1 if okc else 0
                    key = "global-error-proportional-to-tolerance"
                    if err > bound and first_rej >= 1 and len(errs_t) > 1 and float(errs_t[1]) >= 0.3 * err:
                        key = "first-step-after-oversized-initial-dt-exceeds-tolerance"
                    ctx.oracle("global-error-proportional-to-tolerance", err <= bound,
                               dict(inp, scaled_error=err, bound=bound, steps=len(ts) - 1, first_call_rejections=first_rej, scaled_error_after_first_step=float(errs_t[1]) if len(errs_t) > 1 else None),
                               key=key, what="%s: global error / (atol + rtol|y_i|) = %.3g exceeds %.0f" % (kind, err, bound))
                    # a call whose request reached the target but which came back with a shorter (retried) step
                    last_rej = len(okc) == len(ts) - 1 and any(ts[i] + c["h"] == tf and c["result"][2] != c["h"] for i, c in enumerate(okc))
                    ctx.count("%s:last-step-rejected=%d" % (kind, int(last_rej)))
                    ctx.count("%s:scaled-error-decade=%d" % (kind, int(math.floor(math.log10(max(err, 1e-9))))))
                    if last_rej or kind == "multi-scale":
                        ctx.nontrivial((kind, name, tol, direction, dt0))
    # unmeetable tolerances: a discontinuous right-hand side with an impossible tolerance must raise, and nothing is recorded for the step
    for name in PAIRS_EXPLICIT[:3]:
        cls = getattr(I, name)
        log = []

        def rough(t, y):
            return np.array([1e6 * np.sign(np.sin(1e5 * t)) * (1 + y[0] ** 2)])
        ode = de.OdeSystem(rough, y0=np.array([0.0]), t=(0.0, 1.0), dt=0.1, rtol=1e-15, atol=1e-18)
        ode.set_method(make_logged(cls, log))
        try:
            ode.integrate()
            raised = False
        except de.exception_types.FailedIntegration as e:
            raised = isinstance(e.__cause__, de.exception_types.FailedToMeetTolerances)
        except Exception:
            raised = False
        last = log[-1] if log else None
        inp = dict(kind="unmeetable", method=name)
        if raised:
            ctx.oracle("raise-after-all-retries", last is not None and last["result"][0] == "raise" and len(last["attempts"]) == 65, dict(inp, attempts=len(last["attempts"]) if last else None),
                       what="FailedToMeetTolerances after %s attempts" % (len(last["attempts"]) if last else None))
            ctx.oracle("nothing-recorded-for-failed-step", bool(np.all(np.isfinite(ode.y))) and len(ode.t) == len(ode.y), inp, what="a state was recorded for the failed step")
            if last is not None:
                lines.append("ctrl 1 0 %s %s" % (fbits(last["h"]), ";".join("%s:%d:%d" % (fbits(a["ts"]), int(a["redo"]), int(a["ok"])) for a in last["attempts"])))
                cases.append(last)
        ctx.count("unmeetable:" + ("raised" if raised else "completed"))
    outs = ctx.driver(lines)
    for c, o in zip(cases, outs):
        toks = o.split()
        hs = [fbits(a["h"]) for a in c["attempts"]]
        if c["result"][0] == "ok":
            want = "ok %s %s %s" % (fbits(c["result"][1]), fbits(c["result"][2]), ",".join(hs))
        else:
            want = "raise " + ",".join(hs)
        ctx.corr("controller-replay", o == want, dict(request=c["h"], implicit=c["implicit"], attempts=c["attempts"][:6], impl=want[:200], model=o[:200]))
    if lines:
        ctx.sample(dict(kind="controller-replay", op=lines[0][:200], model=outs[0][:160]))

    # adaptive explicit runs judged step by step (own random stream): whatever was rejected and retried, every recorded state is its
    # predecessor advanced by ONE step of the scheme over the recorded interval (DV.Run.ysOf)
    import random as _random, runsim
    runsim.adaptive_steps_block(ctx, _random.Random(ctx.seed * 7919 + 5), 3 if ctx.quick() else 20)



def replay(rep):
    return False
